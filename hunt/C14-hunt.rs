// Property under test: FAILED MUTATIONS LEAVE THE STORE OBSERVABLY UNCHANGED.
//
// When adding a resource, dataset, data item or annotation (directly, by query, or while loading
// annotations from a file) returns an error, the store answers every question exactly as it did
// before the call, and the same call with the mistake corrected succeeds as if the failed attempt
// had never happened.
//
// Every test below FAILS on the current code. None of the mutating entry points undoes (or postpones)
// the work done before the step that fails:
//
//   AnnotationStore::annotate()        src/annotation.rs   selector() -> insert_data()* -> insert(), no rollback
//   AnnotationStore::insert_data()     src/annotation.rs   creates the missing dataset before the data is checked
//   AnnotationStore::selector()/subselectors()  src/annotationstore.rs   inserts text selections while resolving
//   AnnotationStore::annotate_from_iter() / annotate_from_file() / query_mut() ADD   stop at the first error, keep the rest
use stam::*;

/// Everything a caller can ask of the store, rendered as text.
fn snapshot(store: &AnnotationStore) -> String {
    let mut out = String::new();
    out += &format!(
        "lens: resources={} datasets={} annotations={}\n",
        store.resources_len(),
        store.datasets_len(),
        store.annotations_len()
    );
    for resource in store.resources() {
        out += &format!(
            "resource {:?} handle={:?} textselections_len={} positionindex_len={}\n",
            resource.id(),
            resource.handle(),
            resource.textselections_len(),
            resource.as_ref().positionindex_len()
        );
        for ts in resource.textselections() {
            out += &format!(
                "  textselection {}-{} handle={:?} annotations={}\n",
                ts.begin(),
                ts.end(),
                ts.handle(),
                ts.annotations().count()
            );
        }
        for seg in resource.segmentation() {
            out += &format!("  segment {}-{}\n", seg.begin(), seg.end());
        }
    }
    for dataset in store.datasets() {
        out += &format!(
            "dataset {:?} handle={:?} keys_len={} data_len={}\n",
            dataset.id(),
            dataset.handle(),
            dataset.as_ref().keys_len(),
            dataset.as_ref().data_len()
        );
        for key in dataset.keys() {
            out += &format!(
                "  key {:?} handle={:?} data={} annotations={}\n",
                key.id(),
                key.handle(),
                key.data().count(),
                key.annotations().count()
            );
        }
        for data in dataset.data() {
            out += &format!(
                "  data {:?} handle={:?} key={:?} value={:?} annotations={}\n",
                data.id(),
                data.handle(),
                data.key().id(),
                data.value(),
                data.annotations().count()
            );
        }
    }
    for annotation in store.annotations() {
        out += &format!(
            "annotation {:?} handle={:?} text={:?} data={:?}\n",
            annotation.id(),
            annotation.handle(),
            annotation.text().collect::<Vec<_>>(),
            annotation
                .data()
                .map(|d| (d.set().id().map(|s| s.to_string()), d.handle()))
                .collect::<Vec<_>>()
        );
    }
    out += &store
        .to_json_string(&Config::default())
        .unwrap_or_else(|e| format!("serialisation failed: {}", e));
    out
}

/// the lines that differ between two snapshots
fn diff(before: &str, after: &str) -> String {
    let b: Vec<&str> = before.lines().collect();
    let a: Vec<&str> = after.lines().collect();
    let mut out = String::new();
    for line in b.iter().filter(|l| !a.contains(l)) {
        out += &format!("  - {}\n", line);
    }
    for line in a.iter().filter(|l| !b.contains(l)) {
        out += &format!("  + {}\n", line);
    }
    out
}

fn base() -> AnnotationStore {
    AnnotationStore::default()
        .with_id("test")
        .with_resource(
            TextResourceBuilder::new()
                .with_id("res")
                .with_text("Hello wörld, this is text"),
        )
        .unwrap()
        .with_resource(
            TextResourceBuilder::new()
                .with_id("res2")
                .with_text("Another resource"),
        )
        .unwrap()
        .with_dataset(
            AnnotationDataSetBuilder::new()
                .with_id("set")
                .with_key_value_id("pos", "noun", "D1"),
        )
        .unwrap()
        .with_annotation(
            AnnotationBuilder::new()
                .with_id("A1")
                .with_target(SelectorBuilder::textselector("res", Offset::simple(6, 11)))
                .with_existing_data("set", "D1"),
        )
        .unwrap()
}

/// runs `bad` (which must fail) on a fresh store and checks nothing observable changed; then runs `good` on the same store
/// and compares with a store on which only `good` ran.
fn check(
    bad: impl FnOnce(&mut AnnotationStore) -> Result<(), StamError>,
    good: impl Fn(&mut AnnotationStore) -> Result<(), StamError>,
) {
    let mut store = base();
    let before = snapshot(&store);
    let result = bad(&mut store);
    assert!(result.is_err(), "the invalid request must be refused");
    let after = snapshot(&store);
    assert!(
        before == after,
        "the store changed under a failed call ({:?}):\n{}",
        result.err().map(|e| e.to_string()),
        diff(&before, &after)
    );

    good(&mut store).expect("corrected call must succeed");
    let mut fresh = base();
    good(&mut fresh).expect("corrected call must succeed on fresh store");
    let (fresh, store) = (snapshot(&fresh), snapshot(&store));
    assert!(
        fresh == store,
        "the corrected call does not behave as if the failed attempt never happened:\n{}",
        diff(&fresh, &store)
    );
}

fn textsel<'a>(resource: &'a str, begin: usize, end: usize) -> SelectorBuilder<'a> {
    SelectorBuilder::textselector(resource, Offset::simple(begin, end))
}

fn annotate(store: &mut AnnotationStore, builder: AnnotationBuilder) -> Result<(), StamError> {
    store.annotate(builder).map(|_| ())
}

// ---------------------------------------------------------------------------------------------
// V1. annotate(): a valid, new text target + a duplicate annotation identifier.
// AnnotationStore::annotate (src/annotation.rs) first calls selector(), which inserts the text selection
// 0-5 into the resource (src/annotationstore.rs, SelectorBuilder::TextSelector branch: resource.insert()),
// and only at the very end StoreFor::insert (src/store.rs) refuses the duplicate id. The text selection
// stays: textselections_len 1 -> 2, the position index grows, segmentation() gets a new boundary at 5.
#[test]
fn v01_annotate_duplicate_id_leaves_new_textselection() {
    check(
        |store| {
            annotate(
                store,
                AnnotationBuilder::new()
                    .with_id("A1") //exists
                    .with_target(textsel("res", 0, 5))
                    .with_existing_data("set", "D1"),
            )
        },
        |store| {
            annotate(
                store,
                AnnotationBuilder::new()
                    .with_id("A2")
                    .with_target(textsel("res", 0, 5))
                    .with_existing_data("set", "D1"),
            )
        },
    );
}

// V2. annotate(): a valid, new text target + invalid data (reference to data that does not exist).
// Same place: the target is resolved (and its text selection inserted) before any data item is looked at;
// when insert_data() fails nothing removes the text selection.
#[test]
fn v02_annotate_invalid_data_leaves_new_textselection() {
    check(
        |store| {
            annotate(
                store,
                AnnotationBuilder::new()
                    .with_id("A2")
                    .with_target(textsel("res", 0, 5))
                    .with_existing_data("set", "D404"), //no such data
            )
        },
        |store| {
            annotate(
                store,
                AnnotationBuilder::new()
                    .with_id("A2")
                    .with_target(textsel("res", 0, 5))
                    .with_existing_data("set", "D1"),
            )
        },
    );
}

// V3. annotate(): an existing text target, data with a new key in an existing dataset, duplicate annotation id.
// annotate() runs insert_data() for every data item (AnnotationDataSet::insert_data creates key "lemma" and
// the data item) before StoreFor::insert refuses the duplicate id: the key and the data item stay in the set
// (keys_len 1 -> 2, data_len 1 -> 2, both show up in the serialisation, used by no annotation).
#[test]
fn v03_annotate_duplicate_id_leaves_new_key_and_data() {
    check(
        |store| {
            annotate(
                store,
                AnnotationBuilder::new()
                    .with_id("A1") //exists
                    .with_target(textsel("res", 6, 11))
                    .with_data("set", "lemma", "world"),
            )
        },
        |store| {
            annotate(
                store,
                AnnotationBuilder::new()
                    .with_id("A2")
                    .with_target(textsel("res", 6, 11))
                    .with_data("set", "lemma", "world"),
            )
        },
    );
}

// V4. annotate(): as V3 but the data names a dataset that does not exist yet: AnnotationStore::insert_data
// (src/annotation.rs) creates the dataset "newset" on the fly; it stays after the duplicate id is refused
// (datasets_len 1 -> 2, store.dataset("newset") resolves).
#[test]
fn v04_annotate_duplicate_id_leaves_new_dataset() {
    let mut store = base();
    assert!(annotate(
        &mut store,
        AnnotationBuilder::new()
            .with_id("A1") //exists
            .with_target(textsel("res", 6, 11))
            .with_data("newset", "lemma", "world"),
    )
    .is_err());
    assert!(
        store.dataset("newset").is_none(),
        "the failed call left a dataset behind"
    );
    assert_eq!(store.datasets_len(), 1);
}

// V5. annotate(): two data items, the first valid and new, the second invalid. The loop over builder.data in
// annotate() has already stored the first item (pos=verb) when the second fails.
#[test]
fn v05_annotate_second_data_invalid_leaves_first_data() {
    check(
        |store| {
            annotate(
                store,
                AnnotationBuilder::new()
                    .with_id("A2")
                    .with_target(textsel("res", 6, 11))
                    .with_data("set", "pos", "verb")
                    .with_existing_data("set", "D404"), //no such data
            )
        },
        |store| {
            annotate(
                store,
                AnnotationBuilder::new()
                    .with_id("A2")
                    .with_target(textsel("res", 6, 11))
                    .with_data("set", "pos", "verb")
                    .with_existing_data("set", "D1"),
            )
        },
    );
}

// V6. insert_data(): a reference to existing data (id only, no key) in a dataset that does not exist.
// AnnotationStore::insert_data (src/annotation.rs) inserts a new, empty dataset "ghostset" *before*
// AnnotationDataSet::insert_data finds out that the request is incomplete; the empty dataset stays
// (and is serialised).
#[test]
fn v06_insert_data_failure_leaves_new_empty_dataset() {
    check(
        |store| {
            store
                .insert_data(
                    AnnotationDataBuilder::new()
                        .with_dataset("ghostset".into()) //no such set
                        .with_id("D1".into()),
                )
                .map(|_| ())
        },
        |store| {
            store
                .insert_data(
                    AnnotationDataBuilder::new()
                        .with_dataset("set".into())
                        .with_id("D1".into()),
                )
                .map(|_| ())
        },
    );
}

// V6b. the same through annotate(): with_existing_data() on a dataset that does not exist.
#[test]
fn v06b_annotate_unknown_dataset_leaves_new_empty_dataset() {
    check(
        |store| {
            annotate(
                store,
                AnnotationBuilder::new()
                    .with_id("A2")
                    .with_target(textsel("res", 6, 11))
                    .with_existing_data("ghostset", "D1"),
            )
        },
        |store| {
            annotate(
                store,
                AnnotationBuilder::new()
                    .with_id("A2")
                    .with_target(textsel("res", 6, 11))
                    .with_existing_data("set", "D1"),
            )
        },
    );
}

// V6c. a key given by a handle that does not exist, in a dataset that does not exist either.
#[test]
fn v06c_insert_data_unknown_key_handle_leaves_new_dataset() {
    let mut store = base();
    assert!(store
        .insert_data(
            AnnotationDataBuilder::new()
                .with_dataset("ghostset".into())
                .with_key(BuildItem::Handle(DataKeyHandle::new(7)))
                .with_value("x".into()),
        )
        .is_err());
    assert!(
        store.dataset("ghostset").is_none(),
        "the failed call left a dataset behind"
    );
}

// V7. complex selectors: AnnotationStore::subselectors (src/annotationstore.rs) resolves the sub-selectors one
// by one with selector(), which inserts their text selections at once. When a later sub-selector is refused
// (unknown resource / out of range / nested complex selector - the nesting check sits inside the same loop),
// the text selections of the earlier ones stay in their resources.
#[test]
fn v07a_multiselector_unknown_resource_leaves_earlier_textselection() {
    check(
        |store| {
            annotate(
                store,
                AnnotationBuilder::new()
                    .with_id("A2")
                    .with_target(SelectorBuilder::multiselector([
                        textsel("res", 0, 5),
                        textsel("nores", 0, 5), //no such resource
                    ]))
                    .with_existing_data("set", "D1"),
            )
        },
        |store| {
            annotate(
                store,
                AnnotationBuilder::new()
                    .with_id("A2")
                    .with_target(SelectorBuilder::multiselector([
                        textsel("res", 0, 5),
                        textsel("res2", 0, 5),
                    ]))
                    .with_existing_data("set", "D1"),
            )
        },
    );
}

#[test]
fn v07b_compositeselector_out_of_range_leaves_earlier_textselection() {
    check(
        |store| {
            annotate(
                store,
                AnnotationBuilder::new()
                    .with_id("A2")
                    .with_target(SelectorBuilder::compositeselector([
                        textsel("res", 0, 5),
                        textsel("res", 12, 500), //out of range
                    ]))
                    .with_existing_data("set", "D1"),
            )
        },
        |store| {
            annotate(
                store,
                AnnotationBuilder::new()
                    .with_id("A2")
                    .with_target(SelectorBuilder::compositeselector([
                        textsel("res", 0, 5),
                        textsel("res", 12, 17),
                    ]))
                    .with_existing_data("set", "D1"),
            )
        },
    );
}

#[test]
fn v07c_nested_complex_selector_leaves_earlier_textselection() {
    check(
        |store| {
            annotate(
                store,
                AnnotationBuilder::new()
                    .with_id("A2")
                    .with_target(SelectorBuilder::directionalselector([
                        textsel("res", 0, 5),
                        SelectorBuilder::multiselector([textsel("res", 12, 17)]), //nested
                    ]))
                    .with_existing_data("set", "D1"),
            )
        },
        |store| {
            annotate(
                store,
                AnnotationBuilder::new()
                    .with_id("A2")
                    .with_target(SelectorBuilder::directionalselector([
                        textsel("res", 0, 5),
                        textsel("res", 12, 17),
                    ]))
                    .with_existing_data("set", "D1"),
            )
        },
    );
}

// V8. annotate(): an AnnotationSelector with a relative offset. selector() (src/annotationstore.rs,
// SelectorBuilder::AnnotationSelector branch) inserts the text selection 7-9 (offset 1-3 inside A1's 6-11) into
// the resource of the targeted annotation; it stays when the annotation is refused (duplicate id here).
#[test]
fn v08_annotationselector_offset_leaves_relative_textselection() {
    check(
        |store| {
            annotate(
                store,
                AnnotationBuilder::new()
                    .with_id("A1") //exists
                    .with_target(SelectorBuilder::annotationselector(
                        "A1",
                        Some(Offset::simple(1, 3)),
                    ))
                    .with_existing_data("set", "D1"),
            )
        },
        |store| {
            annotate(
                store,
                AnnotationBuilder::new()
                    .with_id("A2")
                    .with_target(SelectorBuilder::annotationselector(
                        "A1",
                        Some(Offset::simple(1, 3)),
                    ))
                    .with_existing_data("set", "D1"),
            )
        },
    );
}

// V9. annotate_from_iter(): a batch whose second annotation is invalid. AnnotationStore::annotate_from_iter
// (src/annotation.rs) returns on the first error with `?` and keeps what it added before: annotation A2 is in
// the store although the call failed (and the corrected batch then fails too: A2 "already exists"... unless it
// is identical, in which case it is silently reused).
#[test]
fn v09_annotate_from_iter_keeps_annotations_before_the_failing_one() {
    let mut store = base();
    let before = snapshot(&store);
    let result = store.annotate_from_iter([
        AnnotationBuilder::new()
            .with_id("A2")
            .with_target(textsel("res", 6, 11))
            .with_existing_data("set", "D1"),
        AnnotationBuilder::new()
            .with_id("A3")
            .with_target(textsel("nores", 6, 11)) //no such resource
            .with_existing_data("set", "D1"),
    ]);
    assert!(result.is_err());
    assert!(
        store.annotation("A2").is_none(),
        "annotation A2 of the refused batch is in the store"
    );
    let after = snapshot(&store);
    assert!(before == after, "{}", diff(&before, &after));
}

// V10. annotate_from_file(): the same while loading annotations from a file. AnnotationStore::annotate_from_file
// (src/annotationstore.rs) calls annotate() per annotation and returns on the first error.
#[test]
fn v10_annotate_from_file_keeps_annotations_before_the_failing_one() {
    let dir = concat!(env!("CARGO_MANIFEST_DIR"), "/target/hunt-hc14");
    std::fs::create_dir_all(dir).unwrap();
    let filename = format!("{}/v10.annotations.json", dir);
    std::fs::write(
        &filename,
        r#"[
  { "@type": "Annotation", "@id": "F1",
    "target": { "@type": "TextSelector", "resource": "res",
                "offset": { "@type": "Offset", "begin": {"@type": "BeginAlignedCursor", "value": 0}, "end": {"@type": "BeginAlignedCursor", "value": 5} } },
    "data": [ { "@type": "AnnotationData", "set": "set", "key": "pos", "value": {"@type": "String", "value": "interjection"} } ] },
  { "@type": "Annotation", "@id": "F2",
    "target": { "@type": "TextSelector", "resource": "res",
                "offset": { "@type": "Offset", "begin": {"@type": "BeginAlignedCursor", "value": 12}, "end": {"@type": "BeginAlignedCursor", "value": 500} } },
    "data": [ { "@type": "AnnotationData", "set": "set", "key": "pos", "value": {"@type": "String", "value": "x"} } ] }
]"#,
    )
    .unwrap();
    let mut store = base();
    let before = snapshot(&store);
    let result = store.annotate_from_file(&filename).map(|_| ());
    assert!(result.is_err(), "the out-of-range offset must be refused");
    assert!(
        store.annotation("F1").is_none(),
        "annotation F1 of the refused file is in the store"
    );
    let after = snapshot(&store);
    assert!(before == after, "{}", diff(&before, &after));
}

// V11. query_mut() ADD with an ID assignment and a sub-query that yields two rows (the store has two resources).
// query_mut (src/api/query.rs) builds one AnnotationBuilder per row, all with the same id, and hands them to
// annotate_from_iter(): the first is added (with a new key "type" and a new data item), the second is refused as
// a duplicate, the query fails, the first annotation stays.
#[test]
fn v11_add_query_duplicate_id_across_rows_keeps_first_row() {
    let mut store = base();
    let before = snapshot(&store);
    let query: Query = "ADD ANNOTATION ?a WITH ID \"N1\"; DATA \"set\" \"type\" \"x\"; TARGET ?r; { SELECT RESOURCE ?r }"
        .try_into()
        .expect("query must parse");
    let result = store.query_mut(query).map(|_| ());
    assert!(result.is_err(), "two annotations with one id must be refused");
    assert!(
        store.annotation("N1").is_none(),
        "annotation N1 of the refused query is in the store"
    );
    let after = snapshot(&store);
    assert!(before == after, "{}", diff(&before, &after));
}

// V12. query_mut() ADD with TARGET ?x OFFSET over annotations of different lengths: the offset 0-4 fits the
// first annotation (5 characters) and not the second (2 characters). The first row's annotation (and its text
// selection 6-10, key and data) stay after the query has failed.
#[test]
fn v12_add_query_offset_fails_on_later_row_keeps_first_row() {
    let mut store = base();
    annotate(
        &mut store,
        AnnotationBuilder::new()
            .with_id("A0")
            .with_target(textsel("res", 18, 20)) //"is"
            .with_existing_data("set", "D1"),
    )
    .unwrap();
    let before = snapshot(&store);
    let query: Query = "ADD ANNOTATION ?n WITH DATA \"set\" \"type\" \"x\"; TARGET ?a OFFSET 0 4; { SELECT ANNOTATION ?a WHERE DATA \"set\" \"pos\" = \"noun\"; }"
        .try_into()
        .expect("query must parse");
    let result = store.query_mut(query).map(|_| ());
    assert!(result.is_err(), "offset 0-4 does not fit in a text of 2 characters");
    let after = snapshot(&store);
    assert!(before == after, "{}", diff(&before, &after));
}
