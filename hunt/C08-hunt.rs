//! Confirmed violations of the property "Query results equal the meaning of their constraints,
//! however evaluated". Every test in this file FAILS on the current code and would pass on a
//! correct implementation. Only the public API of the crate is used; nothing is written to disk.

use stam::*;
use std::collections::BTreeSet;

// ------------------------------------------------------------------------------------------
// helpers
// ------------------------------------------------------------------------------------------

/// "the big dog licks the tiny cat" with two noun phrases, each with a determiner, an adjective and a noun
fn sentence_store() -> AnnotationStore {
    let mut store = AnnotationStore::default()
        .with_id("sentence")
        .with_resource(
            TextResourceBuilder::new()
                .with_id("r")
                .with_text("the big dog licks the tiny cat"),
        )
        .unwrap();
    for (id, begin, end, pos) in [
        ("np1", 0, 11, "np"),
        ("np2", 18, 30, "np"),
        ("det1", 0, 3, "det"),
        ("det2", 18, 21, "det"),
        ("adj1", 4, 7, "adj"),
        ("adj2", 22, 26, "adj"),
        ("n1", 8, 11, "n"),
        ("n2", 27, 30, "n"),
        ("v1", 12, 17, "v"),
    ] {
        store
            .annotate(
                AnnotationBuilder::new()
                    .with_id(id)
                    .with_target(SelectorBuilder::textselector(
                        "r",
                        Offset::simple(begin, end),
                    ))
                    .with_data("set", "pos", pos),
            )
            .unwrap();
    }
    store
}

fn show(item: &QueryResultItem) -> String {
    match item {
        QueryResultItem::Annotation(a) => a.id().unwrap_or("?").to_string(),
        QueryResultItem::TextSelection(t) => format!(
            "{}:{}-{}",
            t.resource().id().unwrap_or("?"),
            t.begin(),
            t.end()
        ),
        QueryResultItem::TextResource(r) => r.id().unwrap_or("?").to_string(),
        QueryResultItem::AnnotationData(d) => format!(
            "{}/{}={}",
            d.set().id().unwrap_or("?"),
            d.key().id().unwrap_or("?"),
            d.value()
        ),
        QueryResultItem::DataKey(k) => {
            format!("{}/{}", k.set().id().unwrap_or("?"), k.id().unwrap_or("?"))
        }
        QueryResultItem::AnnotationDataSet(s) => s.id().unwrap_or("?").to_string(),
        QueryResultItem::None => "None".to_string(),
        _ => "?".to_string(),
    }
}

/// all result rows of a query given as STAMQL
fn rows(store: &AnnotationStore, stamql: &str) -> Vec<Vec<String>> {
    let query: Query = stamql.try_into().expect("query must parse");
    store
        .query(query)
        .expect("query must start")
        .map(|row| row.iter().map(show).collect())
        .collect()
}

/// the first column of all result rows of a query
fn column(store: &AnnotationStore, query: Query) -> Vec<String> {
    store
        .query(query)
        .expect("query must start")
        .map(|row| show(row.iter().next().expect("row has an item")))
        .collect()
}

fn as_set(v: &[String]) -> BTreeSet<String> {
    v.iter().cloned().collect()
}

/// Nested iteration as the meaning of sub-queries: `outer` is run, and for each of its results `inner`
/// is run with the outer result bound to the variable `var`. An outer result without inner results
/// gives a row of its own if `optional`, no row otherwise.
fn nested_iteration(
    store: &AnnotationStore,
    outer: &str,
    var: &str,
    inner: &str,
    optional: bool,
) -> Vec<Vec<String>> {
    let mut expected = Vec::new();
    let outerquery: Query = outer.try_into().unwrap();
    let outeritems: Vec<QueryResultItem> = store
        .query(outerquery)
        .unwrap()
        .map(|row| row.iter().next().unwrap().clone())
        .collect();
    for outeritem in outeritems {
        let mut innerquery: Query = inner.try_into().unwrap();
        innerquery.bind_from_result(var, &outeritem);
        let inneritems: Vec<String> = column(store, innerquery);
        if inneritems.is_empty() {
            if optional {
                expected.push(vec![show(&outeritem)]);
            }
        } else {
            for inneritem in inneritems {
                expected.push(vec![show(&outeritem), inneritem]);
            }
        }
    }
    expected
}

// ------------------------------------------------------------------------------------------
// 1. OPTIONAL sub-query without results ends the whole query
// ------------------------------------------------------------------------------------------

/// An OPTIONAL sub-query that finds nothing for an outer result that is not the last one ends the
/// whole query: all further outer results (and their sub-query results) are lost.
///
/// Cause: src/api/query.rs, QueryIter::next_state(). When the optional sub-query is depleted without
/// a result the parent state is marked `done` (`parentstate.done = true`). On the next call
/// `if state.done { continue; }` pops that parent state off the stack and throws it away (and leaves
/// its index on `querypath`), instead of advancing the parent iterator to its next result. With a
/// single level the stack is then empty and the iterator reports AllDone. (The upstream test
/// query_subquery_optional_nonexistant even asserts one row for two nouns.)
#[test]
fn optional_subquery_without_results_ends_the_query() {
    let store = sentence_store();
    let outer = "SELECT ANNOTATION ?np WHERE DATA set pos = np;";
    let inner = "SELECT ANNOTATION ?adj WHERE RELATION ?np EMBEDS; TEXT \"tiny\";";
    let expected = nested_iteration(&store, outer, "np", inner, true);
    //sanity check of the oracle: np1 has no "tiny", np2 has
    assert_eq!(
        expected,
        vec![
            vec!["np1".to_string()],
            vec!["np2".to_string(), "adj2".to_string()]
        ]
    );
    let got = rows(
        &store,
        "SELECT ANNOTATION ?np WHERE DATA set pos = np; { SELECT OPTIONAL ANNOTATION ?adj WHERE RELATION ?np EMBEDS; TEXT \"tiny\"; }",
    );
    assert_eq!(
        got, expected,
        "optional sub-query must behave as nested iteration (left outer join) over all outer results"
    );
}

// ------------------------------------------------------------------------------------------
// 2. Sibling sub-queries: the first one is skipped for later outer results
// ------------------------------------------------------------------------------------------

/// With two sibling sub-queries `{ A | B }`, when B has no results for an outer result, A is not
/// evaluated for the *next* outer result: its rows are lost.
///
/// Cause: src/api/query.rs, QueryIter::init_all_states(next_index). next_state() calls
/// init_all_states(subquery_index + 1) to start sibling B. When B is depleted at once, next_state()
/// (called from init_state()) falls through, advances the parent and returns NewState; the loop in
/// init_all_states() then goes on filling the stack with the *same* `next_index` (1) and so starts
/// sibling B again for the new outer result, never sibling A (index 0).
#[test]
fn sibling_subqueries_skip_the_first_after_an_empty_last() {
    let store = sentence_store();
    let outer = "SELECT ANNOTATION ?np WHERE DATA set pos = np;";
    let a = "SELECT ANNOTATION ?a WHERE RELATION ?np EMBEDS; DATA set pos = adj;";
    let b = "SELECT ANNOTATION ?b WHERE RELATION ?np EMBEDS; DATA set pos = v;"; //never matches
    assert!(nested_iteration(&store, outer, "np", b, false).is_empty());
    //rows of A for each outer result (B adds nothing)
    let expected = nested_iteration(&store, outer, "np", a, false);
    assert_eq!(
        expected,
        vec![
            vec!["np1".to_string(), "adj1".to_string()],
            vec!["np2".to_string(), "adj2".to_string()]
        ]
    );
    let got = rows(
        &store,
        "SELECT ANNOTATION ?np WHERE DATA set pos = np; { SELECT ANNOTATION ?a WHERE RELATION ?np EMBEDS; DATA set pos = adj; | SELECT ANNOTATION ?b WHERE RELATION ?np EMBEDS; DATA set pos = v; }",
    );
    assert_eq!(
        got, expected,
        "the first sibling sub-query must be evaluated for every outer result"
    );
}

// ------------------------------------------------------------------------------------------
// 3. Sibling sub-query that has a sub-query of its own: panic
// ------------------------------------------------------------------------------------------

/// `{ A | B { C } }`: as soon as A is depleted, the evaluation panics with "query must exist".
///
/// Cause: src/api/query.rs, QueryIter::init_all_states(next_index): the index of the sibling to start
/// (1 for B) is also pushed on `querypath` for every deeper level that is initialised in the same
/// loop, so C is looked up as sub-query number 1 of B (path [0,1,1]), which does not exist;
/// init_state() does `self.get_query(&self.querypath).expect("query must exist")`.
/// (The same query with the siblings swapped, `{ B { C } | A }`, works.)
#[test]
fn sibling_subquery_with_nested_subquery_panics() {
    let store = sentence_store();
    let query = "SELECT ANNOTATION ?np WHERE DATA set pos = np; { SELECT ANNOTATION ?a WHERE RELATION ?np EMBEDS; DATA set pos = adj; | SELECT ANNOTATION ?b WHERE RELATION ?np EMBEDS; DATA set pos = n; { SELECT TEXT ?t WHERE RELATION ?b EQUALS; } }";
    let got = std::panic::catch_unwind(std::panic::AssertUnwindSafe(|| rows(&store, query)));
    let got = got.expect("evaluating a query must not panic");
    let expected: Vec<Vec<String>> = vec![
        vec!["np1".into(), "adj1".into()],
        vec!["np1".into(), "n1".into(), "r:8-11".into()],
        vec!["np2".into(), "adj2".into()],
        vec!["np2".into(), "n2".into(), "r:27-30".into()],
    ];
    assert_eq!(got, expected);
}

// ------------------------------------------------------------------------------------------
// 4. TEXT constraint on annotations: the meaning depends on its position
// ------------------------------------------------------------------------------------------

/// `SELECT ANNOTATION WHERE TEXT "hello"; DATA set k = v;` and the same query with the two
/// constraints swapped give different annotations when an annotation selects several pieces of text.
///
/// Cause: src/api/query.rs. As the first constraint (init_state_annotations, Constraint::Text) the
/// constraint is evaluated as `store.find_text(text).annotations()`: every annotation that refers to a
/// text selection with exactly this text, also as one of several (MultiSelector etc.). As a later
/// constraint (update_state_annotations) it is `iter.filter_text_byref(text, true, " ")`, which
/// (FilteredAnnotations::test_filter, Filter::BorrowedText in src/api/annotation.rs) compares the text
/// of *all* selections of the annotation joined by a space.
#[test]
fn text_constraint_on_annotations_depends_on_position() {
    let mut store = AnnotationStore::default()
        .with_id("s")
        .with_resource(
            TextResourceBuilder::new()
                .with_id("r")
                .with_text("hello world hello"),
        )
        .unwrap();
    store
        .annotate(
            AnnotationBuilder::new()
                .with_id("single")
                .with_target(SelectorBuilder::textselector("r", Offset::simple(0, 5)))
                .with_data("set", "k", "v"),
        )
        .unwrap();
    store
        .annotate(
            AnnotationBuilder::new()
                .with_id("multi")
                .with_target(SelectorBuilder::multiselector([
                    SelectorBuilder::textselector("r", Offset::simple(0, 5)),
                    SelectorBuilder::textselector("r", Offset::simple(12, 17)),
                ]))
                .with_data("set", "k", "v"),
        )
        .unwrap();
    let text_first = column(
        &store,
        "SELECT ANNOTATION WHERE TEXT \"hello\"; DATA set k = v;"
            .try_into()
            .unwrap(),
    );
    let text_last = column(
        &store,
        "SELECT ANNOTATION WHERE DATA set k = v; TEXT \"hello\";"
            .try_into()
            .unwrap(),
    );
    assert_eq!(
        as_set(&text_first),
        as_set(&text_last),
        "the order of the constraints must not matter"
    );
}

// ------------------------------------------------------------------------------------------
// 5. RESOURCE constraint on annotations: the meaning depends on its position
// ------------------------------------------------------------------------------------------

/// `SELECT ANNOTATION WHERE RESOURCE r; DATA set k = v;` does not return an annotation on an
/// annotation on text of r, the same query with the constraints swapped does.
///
/// Cause: as the first constraint (init_state_annotations, Constraint::TextResource) the reverse
/// index is used, `resource.annotations()`, which holds the annotations with a TextSelector on the
/// resource only. As a later constraint (update_state_annotations -> filter_resource ->
/// Filter::TextResource in FilteredAnnotations::test_filter, src/api/annotation.rs) it is
/// `annotation.resources().any(..)`, and ResultItem<Annotation>::resources() walks the target
/// recursively (`target().iter(store, true)`), so it follows AnnotationSelectors down to the text.
/// (RESOURCE AS METADATA has the same defect via resources_as_metadata().)
#[test]
fn resource_constraint_on_annotations_depends_on_position() {
    let mut store = AnnotationStore::default()
        .with_id("s")
        .with_resource(TextResourceBuilder::new().with_id("r").with_text("hello"))
        .unwrap();
    store
        .annotate(
            AnnotationBuilder::new()
                .with_id("ontext")
                .with_target(SelectorBuilder::textselector("r", Offset::simple(0, 5)))
                .with_data("set", "k", "v"),
        )
        .unwrap();
    store
        .annotate(
            AnnotationBuilder::new()
                .with_id("onannotation")
                .with_target(SelectorBuilder::annotationselector("ontext", None))
                .with_data("set", "k", "v"),
        )
        .unwrap();
    let resource_first = column(
        &store,
        "SELECT ANNOTATION WHERE RESOURCE r; DATA set k = v;"
            .try_into()
            .unwrap(),
    );
    let resource_last = column(
        &store,
        "SELECT ANNOTATION WHERE DATA set k = v; RESOURCE r;"
            .try_into()
            .unwrap(),
    );
    assert_eq!(
        as_set(&resource_first),
        as_set(&resource_last),
        "the order of the constraints must not matter"
    );
}

// ------------------------------------------------------------------------------------------
// 6. DATA constraints on resources: the meaning depends on the position
// ------------------------------------------------------------------------------------------

/// `SELECT RESOURCE WHERE DATA set k; DATA set t;` gives nothing, `SELECT RESOURCE WHERE DATA set t;
/// DATA set k;` gives the resource (key t is on an annotation on an annotation on the text).
///
/// Cause: the mirror image of the previous one. As the first constraint (init_state_resources,
/// Constraint::DataKey) it is `key.annotations().resources()`, and ResultItem<Annotation>::resources()
/// follows AnnotationSelectors recursively. As a later constraint (update_state_resources ->
/// filter_key_on_text -> Filter::DataKey in FilteredResources::test_filter, src/api/resources.rs) it
/// is `resource.annotations().data().filter_key_handle(..)`, i.e. only annotations directly on the text.
/// The same holds for KEY ?var, DATA ?var and the AS METADATA variants.
#[test]
fn data_constraints_on_resources_depend_on_position() {
    let mut store = AnnotationStore::default()
        .with_id("s")
        .with_resource(TextResourceBuilder::new().with_id("r").with_text("hello"))
        .unwrap();
    store
        .annotate(
            AnnotationBuilder::new()
                .with_id("ontext")
                .with_target(SelectorBuilder::textselector("r", Offset::simple(0, 5)))
                .with_data("set", "k", "v"),
        )
        .unwrap();
    store
        .annotate(
            AnnotationBuilder::new()
                .with_id("onannotation")
                .with_target(SelectorBuilder::annotationselector("ontext", None))
                .with_data("set", "t", "v"),
        )
        .unwrap();
    let k_first = column(
        &store,
        "SELECT RESOURCE WHERE DATA set k; DATA set t;"
            .try_into()
            .unwrap(),
    );
    let t_first = column(
        &store,
        "SELECT RESOURCE WHERE DATA set t; DATA set k;"
            .try_into()
            .unwrap(),
    );
    assert_eq!(
        as_set(&k_first),
        as_set(&t_first),
        "the order of the constraints must not matter"
    );
}

// ------------------------------------------------------------------------------------------
// 7. SELECT TEXT returns the same text selection twice when another resource has one at the same offsets
// ------------------------------------------------------------------------------------------

/// `SELECT TEXT WHERE DATA set k = v;` returns r1:0-5 twice as soon as a second resource has a
/// matching text selection with the same offsets.
///
/// Cause: the text selections of the matching annotations are collected, put in textual order and
/// deduplicated (AnnotationIterator::textselections() -> SortTextualOrder::textual_order() for
/// ResultTextSelection in src/api/textselection.rs: `sort_unstable_by(partial_cmp)` + `dedup()`).
/// PartialOrd for ResultTextSelection (src/textselection.rs) compares begin and end only, PartialEq
/// also the resource: selections of different resources with the same offsets compare Equal but are
/// not ==, the sort leaves [r1:0-5, r2:0-5, r1:0-5] as it is and dedup (adjacent only) removes nothing.
/// (TextSelectionIterator::related_text() sorts and deduplicates the same way.)
#[test]
fn text_query_gives_duplicates_with_several_resources() {
    let mut store = AnnotationStore::default()
        .with_id("s")
        .with_resource(
            TextResourceBuilder::new()
                .with_id("r1")
                .with_text("hello world"),
        )
        .unwrap()
        .with_resource(
            TextResourceBuilder::new()
                .with_id("r2")
                .with_text("hello there"),
        )
        .unwrap();
    for (id, resource) in [("a1", "r1"), ("a2", "r2"), ("a3", "r1")] {
        store
            .annotate(
                AnnotationBuilder::new()
                    .with_id(id)
                    .with_target(SelectorBuilder::textselector(
                        resource,
                        Offset::simple(0, 5),
                    ))
                    .with_data("set", "k", "v"),
            )
            .unwrap();
    }
    let got = column(
        &store,
        "SELECT TEXT WHERE DATA set k = v;".try_into().unwrap(),
    );
    assert_eq!(
        got.len(),
        as_set(&got).len(),
        "a text selection must be returned once, got {:?}",
        got
    );
    assert_eq!(
        as_set(&got),
        as_set(&["r1:0-5".to_string(), "r2:0-5".to_string()])
    );
}

// ------------------------------------------------------------------------------------------
// 8. A disjunction with a branch that cannot be resolved: works first, fails later
// ------------------------------------------------------------------------------------------

/// `[ DATA set nokey OR DATA set k ]` (the key `nokey` does not exist) is the union of its branches when
/// it is the first constraint, and makes the whole query fail (no results, an error on standard
/// error) when it is a later constraint.
///
/// Cause: src/api/query.rs. init_state_annotations(), Constraint::Union, ignores
/// StamError::NotFoundError / VariableNotFoundError of a branch ("another subconstraint may
/// succeed"); update_state_annotations(), Constraint::Union, evaluates the branches with
/// `self.init_state_annotations(Some(subconstraint))?` and so passes the error on, which ends the
/// evaluation (QueryIter::init_all_states -> StateStackStatus::Invalid).
#[test]
fn union_with_unresolvable_branch_depends_on_position() {
    let mut store = AnnotationStore::default()
        .with_id("s")
        .with_resource(TextResourceBuilder::new().with_id("r").with_text("hello"))
        .unwrap();
    store
        .annotate(
            AnnotationBuilder::new()
                .with_id("a1")
                .with_target(SelectorBuilder::textselector("r", Offset::simple(0, 5)))
                .with_data("set", "k", "v"),
        )
        .unwrap();
    let union_first = column(
        &store,
        "SELECT ANNOTATION WHERE [ DATA set nokey OR DATA set k ]; RESOURCE r;"
            .try_into()
            .unwrap(),
    );
    let union_last = column(
        &store,
        "SELECT ANNOTATION WHERE RESOURCE r; [ DATA set nokey OR DATA set k ];"
            .try_into()
            .unwrap(),
    );
    assert_eq!(
        as_set(&union_first),
        as_set(&union_last),
        "the order of the constraints must not matter"
    );
}

// ------------------------------------------------------------------------------------------
// 9. ANNOTATION constraint with depth zero (programmatic only): the meaning depends on its position
// ------------------------------------------------------------------------------------------

/// Constraint::Annotation(id, Normal, AnnotationDepth::Zero, None) ("apply only on the same level") is
/// the annotation itself as a later constraint, and the annotations it targets as the first one.
///
/// Cause: src/api/query.rs. update_state_annotations() maps depth Zero to `iter.filter_one(..)`;
/// init_state_annotations() has no case for Zero and evaluates
/// `store.annotation(id).annotations_in_targets(depth)`, where
/// ResultItem<Annotation>::annotations_in_targets() (src/api/annotation.rs) treats Zero like One.
/// (Constraint::Annotations(handles, Normal, Zero) as first constraint does mean the annotations
/// themselves; the same holds for AnnotationVariable.)
#[test]
fn annotation_constraint_with_depth_zero_depends_on_position() {
    let mut store = AnnotationStore::default()
        .with_id("s")
        .with_resource(TextResourceBuilder::new().with_id("r").with_text("hello"))
        .unwrap();
    store
        .annotate(
            AnnotationBuilder::new()
                .with_id("a1")
                .with_target(SelectorBuilder::textselector("r", Offset::simple(0, 5)))
                .with_data("set", "k", "v"),
        )
        .unwrap();
    store
        .annotate(
            AnnotationBuilder::new()
                .with_id("a2")
                .with_target(SelectorBuilder::annotationselector("a1", None))
                .with_data("set", "k", "v"),
        )
        .unwrap();
    let same = || {
        Constraint::Annotation(
            "a2",
            SelectionQualifier::Normal,
            AnnotationDepth::Zero,
            None,
        )
    };
    let key = || Constraint::DataKey {
        set: "set",
        key: "k",
        qualifier: SelectionQualifier::Normal,
    };
    let annotation_first = column(
        &store,
        Query::new(QueryType::Select, Some(Type::Annotation), None)
            .with_constraint(same())
            .with_constraint(key()),
    );
    let annotation_last = column(
        &store,
        Query::new(QueryType::Select, Some(Type::Annotation), None)
            .with_constraint(key())
            .with_constraint(same()),
    );
    assert_eq!(
        as_set(&annotation_first),
        as_set(&annotation_last),
        "the order of the constraints must not matter"
    );
}

// ------------------------------------------------------------------------------------------
// 10. TEXT AS NOCASE as first constraint returns text that does not match, after a character
//     whose lower-case form has another length in UTF-8
// ------------------------------------------------------------------------------------------

/// With the text "İİ Hello you", `SELECT TEXT WHERE TEXT AS NOCASE "hello";` returns the text selection
/// 5-10 "llo y", and the annotated "Hello" (3-8) is found or not found depending on the position of the
/// constraint.
///
/// Cause: the first constraint is evaluated with AnnotationStore::find_text_nocase()
/// (init_state_textselections / init_state_annotations in src/api/query.rs), i.e. FindNoCaseTextIter::next()
/// in src/api/text.rs: it lower-cases the text (`text.to_lowercase()`), searches in the lower-cased
/// copy and then uses the byte position found there in the *original* text
/// (`utf8byte_to_charpos(beginbytepos + foundbytepos)`). 'İ' (U+0130) takes 2 bytes, its lower-case
/// form "i̇" 3 bytes (likewise 'ẞ', the Kelvin sign, the Ohm sign, ...), so every match after such a
/// character is shifted. A later TEXT AS NOCASE constraint compares the lower-cased text of each
/// candidate and is right.
#[test]
fn nocase_text_constraint_after_length_changing_lowercase() {
    let mut store = AnnotationStore::default()
        .with_id("s")
        .with_resource(
            TextResourceBuilder::new()
                .with_id("r")
                .with_text("İİ Hello you"),
        )
        .unwrap();
    store
        .annotate(
            AnnotationBuilder::new()
                .with_id("a1")
                .with_target(SelectorBuilder::textselector("r", Offset::simple(3, 8)))
                .with_data("set", "k", "v"),
        )
        .unwrap();
    assert_eq!(store.annotation("a1").unwrap().text_simple(), Some("Hello"));

    //whatever is returned must have the text asked for
    let query: Query = "SELECT TEXT WHERE TEXT AS NOCASE \"hello\";"
        .try_into()
        .unwrap();
    for row in store.query(query).unwrap() {
        if let Some(QueryResultItem::TextSelection(textselection)) = row.iter().next() {
            assert_eq!(
                textselection.text().to_lowercase(),
                "hello",
                "text selection {}-{} does not satisfy the constraint",
                textselection.begin(),
                textselection.end()
            );
        }
    }

    //and the order of the constraints must not matter
    let text_first = column(
        &store,
        "SELECT ANNOTATION WHERE TEXT AS NOCASE \"hello\"; DATA set k = v;"
            .try_into()
            .unwrap(),
    );
    let text_last = column(
        &store,
        "SELECT ANNOTATION WHERE DATA set k = v; TEXT AS NOCASE \"hello\";"
            .try_into()
            .unwrap(),
    );
    assert_eq!(as_set(&text_first), as_set(&text_last));
}

// ------------------------------------------------------------------------------------------
// 11. TEXT as first constraint misses occurrences that overlap an earlier occurrence
// ------------------------------------------------------------------------------------------

/// In "banana" the annotations on 1-4 and on 3-6 both have the text "ana".
/// `SELECT ANNOTATION WHERE TEXT "ana"; DATA set k = v;` returns only the first,
/// `SELECT ANNOTATION WHERE DATA set k = v; TEXT "ana";` both (the same for SELECT TEXT).
///
/// Cause: the first constraint is evaluated by searching the text, `store.find_text(text)`
/// (init_state_annotations / init_state_textselections in src/api/query.rs); FindTextIter::next()
/// (src/api/text.rs) continues each search at the *end* of the previous match
/// (`self.offset.begin = BeginAligned(newend)`), so an occurrence that begins inside the previous one is
/// never produced. A later TEXT constraint tests the text of each candidate and has no such gap.
#[test]
fn text_constraint_misses_overlapping_occurrences_when_first() {
    let mut store = AnnotationStore::default()
        .with_id("s")
        .with_resource(TextResourceBuilder::new().with_id("r").with_text("banana"))
        .unwrap();
    for (id, begin, end) in [("a1", 1, 4), ("a2", 3, 6)] {
        store
            .annotate(
                AnnotationBuilder::new()
                    .with_id(id)
                    .with_target(SelectorBuilder::textselector(
                        "r",
                        Offset::simple(begin, end),
                    ))
                    .with_data("set", "k", "v"),
            )
            .unwrap();
        assert_eq!(store.annotation(id).unwrap().text_simple(), Some("ana"));
    }
    let text_first = column(
        &store,
        "SELECT ANNOTATION WHERE TEXT \"ana\"; DATA set k = v;"
            .try_into()
            .unwrap(),
    );
    let text_last = column(
        &store,
        "SELECT ANNOTATION WHERE DATA set k = v; TEXT \"ana\";"
            .try_into()
            .unwrap(),
    );
    assert_eq!(
        as_set(&text_first),
        as_set(&text_last),
        "the order of the constraints must not matter"
    );
}

// ------------------------------------------------------------------------------------------
// 12. Adding a RESOURCE constraint to SELECT TEXT adds results (text selections nobody annotates)
// ------------------------------------------------------------------------------------------

/// After an annotation has been removed, `SELECT TEXT WHERE RESOURCE r;` still returns the text
/// selection it was on, although `SELECT TEXT` (no constraints: the text selections of all annotations)
/// does not: a constrained query returns an item that the unconstrained query does not have, and
/// `RESOURCE r; DATA ..` / `DATA ..; RESOURCE r` only agree because the second constraint happens to
/// filter it out again.
///
/// Cause: src/api/query.rs, init_state_textselections(): without constraints the candidates are
/// `store.annotations().textselections()`, with Constraint::TextResource / ResourceVariable as first
/// constraint they are `resource.textselections()`, which walks everything in the resource's text
/// selection store; removing an annotation (AnnotationStore::remove -> preremove, src/annotationstore.rs)
/// takes the annotation out of the reverse indices but leaves its TextSelection in the resource, contrary
/// to the documentation of ResultItem<TextResource>::textselections() ("there are one or more annotations on it").
#[test]
fn resource_constraint_on_text_returns_unannotated_text_selections() {
    let mut store = AnnotationStore::default()
        .with_id("s")
        .with_resource(
            TextResourceBuilder::new()
                .with_id("r")
                .with_text("one two three"),
        )
        .unwrap();
    for (id, begin, end) in [("w1", 0, 3), ("w2", 4, 7), ("w3", 8, 13)] {
        store
            .annotate(
                AnnotationBuilder::new()
                    .with_id(id)
                    .with_target(SelectorBuilder::textselector(
                        "r",
                        Offset::simple(begin, end),
                    ))
                    .with_data("set", "type", "word"),
            )
            .unwrap();
    }
    let handle = store.annotation("w2").unwrap().handle();
    store.remove(handle).unwrap();

    let unconstrained = column(&store, "SELECT TEXT".try_into().unwrap());
    let constrained = column(&store, "SELECT TEXT WHERE RESOURCE r;".try_into().unwrap());
    assert_eq!(
        as_set(&unconstrained),
        as_set(&["r:0-3".to_string(), "r:8-13".to_string()])
    );
    assert!(
        as_set(&constrained).is_subset(&as_set(&unconstrained)),
        "a constraint can not add results: {:?} is not a subset of {:?}",
        constrained,
        unconstrained
    );
}
