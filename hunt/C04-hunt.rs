//! Violations of the property "Offsets resolve to exactly the addressed codepoints, or are refused".
//! Every test below FAILS on the current code and would pass on a correct implementation.

use stam::*;

fn mkstore(text: &str) -> AnnotationStore {
    AnnotationStore::default()
        .with_id("s")
        .with_resource(TextResourceBuilder::new().with_id("r").with_text(text))
        .unwrap()
}

/// V1. An end-aligned cursor with a POSITIVE value is accepted and silently read as its negation.
///
/// `Cursor::EndAligned(2)` on "hello" denotes position 5+2 = 7, past the end of the text, so the
/// offset must be refused (the library itself says so: `Cursor::try_from(2isize)` is an error and
/// the type documentation reads "Has a value of 0 or lower"). Instead the annotation is made and
/// its text is "hel", as if EndAligned(-2) had been given. The same happens for a STAM JSON
/// `{"@type":"EndAlignedCursor","value":2}` (the serde derive on `Cursor` does not check the sign),
/// for offsets relative to an annotation, and in `textselection()`/`text_by_offset()`.
///
/// Cause: `cursor.unsigned_abs()` discards the sign without a `cursor > 0` check in
/// src/text.rs `Text::beginaligned_cursor`, src/textselection.rs `TextSelection::beginaligned_cursor`
/// and `TextSelection::absolute_offset`.
#[test]
fn v1_positive_endaligned_cursor_must_be_refused() {
    // against a resource, via the builder
    let mut store = mkstore("hello");
    let result = store.annotate(
        AnnotationBuilder::new()
            .with_id("A")
            .with_target(SelectorBuilder::textselector(
                "r",
                Offset::new(Cursor::BeginAligned(0), Cursor::EndAligned(2)),
            ))
            .with_data("d", "k", "v"),
    );
    assert!(
        result.is_err(),
        "EndAligned(+2) denotes a position past the end but was accepted; annotation text is {:?}",
        store.annotation("A").and_then(|a| a.text().next())
    );
}

/// V1 (continued, same cause): relative to another annotation's text, and from STAM JSON.
#[test]
fn v1b_positive_endaligned_cursor_relative_and_json() {
    let mut store = mkstore("hello world");
    store
        .annotate(
            AnnotationBuilder::new()
                .with_id("P")
                .with_target(SelectorBuilder::textselector("r", Offset::simple(6, 11)))
                .with_data("d", "k", "v"),
        )
        .unwrap();
    let json = r#"{"@type":"Annotation","@id":"A","target":{"@type":"AnnotationSelector","annotation":"P","offset":{"@type":"Offset","begin":{"@type":"EndAlignedCursor","value":3},"end":{"@type":"EndAlignedCursor","value":1}}},"data":[{"@type":"AnnotationData","set":"d","key":"k","value":{"@type":"String","value":"v"}}]}"#;
    let accepted = match AnnotationBuilder::from_json_str(json) {
        Ok(builder) => store.annotate(builder).is_ok(),
        Err(_) => false,
    };
    assert!(
        !accepted,
        "offset (EndAligned(+3), EndAligned(+1)) relative to \"world\" was accepted; annotation text is {:?}",
        store.annotation("A").and_then(|a| a.text().next())
    );
}

/// V2. An offset relative to an annotation that has no (single) text is neither resolved nor
/// refused: it is silently thrown away, whatever its value.
///
/// P targets the resource as a whole (ResourceSelector); C targets two text selections
/// (CompositeSelector); N points at an annotation without offset. An AnnotationSelector on any of
/// them with the offset 100..200 (which lies outside every text in sight: the resource has 5
/// codepoints) is accepted; the resulting annotation has no text and reports no offset.
///
/// Cause: src/annotationstore.rs `AnnotationStore::selector`, arm `SelectorBuilder::AnnotationSelector`:
/// when `target_annotation.target().textselection(self)` is None the `if let` simply falls through
/// to `Ok(Selector::AnnotationSelector(handle, None))`, dropping `offset` instead of returning an error.
#[test]
fn v2_offset_on_annotation_without_single_text_must_be_refused() {
    let mut store = mkstore("hello");
    store
        .annotate(
            AnnotationBuilder::new()
                .with_id("P")
                .with_target(SelectorBuilder::resourceselector("r"))
                .with_data("d", "k", "v"),
        )
        .unwrap();
    store
        .annotate(
            AnnotationBuilder::new()
                .with_id("C")
                .with_target(SelectorBuilder::compositeselector([
                    SelectorBuilder::textselector("r", Offset::simple(0, 1)),
                    SelectorBuilder::textselector("r", Offset::simple(3, 4)),
                ]))
                .with_data("d", "k", "v"),
        )
        .unwrap();
    store
        .annotate(
            AnnotationBuilder::new()
                .with_id("T")
                .with_target(SelectorBuilder::textselector("r", Offset::simple(0, 2)))
                .with_data("d", "k", "v"),
        )
        .unwrap();
    store
        .annotate(
            AnnotationBuilder::new()
                .with_id("N")
                .with_target(SelectorBuilder::annotationselector("T", None))
                .with_data("d", "k", "v"),
        )
        .unwrap();

    let mut accepted = Vec::new();
    for target in ["P", "C", "N"] {
        let result = store.annotate(
            AnnotationBuilder::new()
                .with_id(format!("on{}", target))
                .with_target(SelectorBuilder::annotationselector(
                    target,
                    Some(Offset::simple(100, 200)),
                ))
                .with_data("d", "k", "v"),
        );
        if result.is_ok() {
            let a = store.annotation(format!("on{}", target).as_str()).unwrap();
            accepted.push(format!(
                "{}: accepted, text={:?}, reported offset={:?}",
                target,
                a.text().collect::<Vec<_>>(),
                a.as_ref().target().offset(&store)
            ));
        }
    }
    assert!(
        accepted.is_empty(),
        "offset 100..200 relative to an annotation was accepted and dropped: {:?}",
        accepted
    );
}

/// V3. In an ADD query, `TARGET ?res OFFSET b e` on a resource variable ignores the offset.
///
/// `TARGET ?res OFFSET 1 3` must give an annotation on the codepoints 1..3 ("el") and
/// `TARGET ?res OFFSET 100 300` must be refused. Both produce a plain ResourceSelector on the
/// whole resource: no text, no offset, no error. (With a TEXT or ANNOTATION variable the same
/// clause is honoured.)
///
/// Cause: src/api/query.rs `AnnotationStore::query_mut`, `Assignment::Target { name, offset }`:
/// the arm `QueryResultItem::TextResource(resource)` builds `SelectorBuilder::ResourceSelector`
/// and never looks at `offset`.
#[test]
fn v3_add_query_target_resource_offset_is_ignored() {
    let mut store = mkstore("hello world");
    let query: Query = "ADD ANNOTATION ?a WITH ID \"N1\"; DATA \"d\" \"k\" \"v\"; TARGET ?res OFFSET 1 3; { SELECT RESOURCE ?res WHERE ID \"r\"; }"
        .try_into()
        .unwrap();
    let result = store.query_mut(query).map(|iter| iter.count());
    if result.is_ok() {
        let a = store.annotation("N1").expect("annotation was added");
        assert_eq!(
            a.text().collect::<Vec<_>>(),
            vec!["el"],
            "TARGET ?res OFFSET 1 3 must select codepoints 1..3, got selector {:?}",
            a.as_ref().target()
        );
    }
    let query: Query = "ADD ANNOTATION ?a WITH ID \"N2\"; DATA \"d\" \"k\" \"v\"; TARGET ?res OFFSET 100 300; { SELECT RESOURCE ?res WHERE ID \"r\"; }"
        .try_into()
        .unwrap();
    let result = store.query_mut(query).map(|iter| iter.count());
    assert!(
        result.is_err() && store.annotation("N2").is_none(),
        "TARGET ?res OFFSET 100 300 on an 11-codepoint resource was accepted: {:?}",
        store.annotation("N2").map(|a| a.as_ref().target().clone())
    );
}

/// V4. Asking for the offset of a text selection relative to a container that begins after the
/// selection ends does not report "not embedded" (None) but computes `end - container.begin` on
/// unsigned integers: a panic "attempt to subtract with overflow" in a debug build, and in a
/// release build `relative_end()` hands out the wrapped-around cursor (about 2^64).
///
/// Input: selection 0..1, container 2..5 in "hello world"; `relative_offset(.., any mode)` and
/// `relative_end(..)`. Documented: "Returns None if they are not embedded".
///
/// Cause: src/textselection.rs `TextSelection::relative_end` and `relative_end_endaligned` test only
/// `self.end() <= container.end()` before `self.end() - container.begin()`; `relative_offset`
/// evaluates them eagerly in a tuple, so the None from `relative_begin` does not protect it.
#[test]
fn v4_relative_offset_of_selection_before_container() {
    let store = mkstore("hello world");
    let resource = store.resource("r").unwrap();
    let selection = resource.textselection(&Offset::simple(0, 1)).unwrap();
    let container = resource.textselection(&Offset::simple(2, 5)).unwrap();
    for mode in [
        OffsetMode::BeginBegin,
        OffsetMode::BeginEnd,
        OffsetMode::EndBegin,
        OffsetMode::EndEnd,
    ] {
        assert_eq!(selection.relative_offset(&container, mode), None);
    }
    assert_eq!(selection.relative_end(&container), None);
}

/// V5. `ResultTextSelection::relative_offset` (and `relative_end`) report an offset of a selection
/// "in" a container that lies in a DIFFERENT resource. The reported offset, resolved against that
/// container, yields other text than the selection's: it does not re-resolve to the same range.
/// Documented: "This also checks whether the textselections pertain to the same resource.
/// Returns None otherwise." (only `relative_begin` does).
///
/// Cause: src/api/textselection.rs `ResultTextSelection::relative_offset` / `relative_end` lack the
/// `self.store() != container.store()` test that `relative_begin` has.
#[test]
fn v5_relative_offset_across_resources() {
    let store = mkstore("hello world")
        .with_resource(
            TextResourceBuilder::new()
                .with_id("r2")
                .with_text("HELLO WORLD"),
        )
        .unwrap();
    let selection = store
        .resource("r")
        .unwrap()
        .textselection(&Offset::simple(2, 4))
        .unwrap();
    let container = store
        .resource("r2")
        .unwrap()
        .textselection(&Offset::simple(1, 6))
        .unwrap();
    assert_eq!(selection.relative_begin(&container), None); //this one is right
    assert_eq!(selection.relative_end(&container), None);
    let reported = selection.relative_offset(&container, OffsetMode::BeginBegin);
    assert_eq!(
        reported,
        None,
        "offset of {:?} (resource r) reported relative to a selection of resource r2; resolving it there gives {:?}",
        selection.text(),
        reported
            .as_ref()
            .and_then(|o| container.textselection(o).ok())
            .map(|t| t.text().to_string())
    );
}

/// V6. `absolute_offset()` accepts an inverted relative offset and reports back an inverted
/// absolute one (begin > end), which denotes no range.
///
/// Input: relative offset 3..1 in the selection 6..11 -> Ok(Offset 9..7). The property demands
/// that an offset with end < begin is refused with an error (as `textselection()` on the same
/// selection does).
///
/// Cause: src/textselection.rs `TextSelection::absolute_offset` (reached through
/// `ResultTextSelection::absolute_offset`, src/api/textselection.rs) and the default
/// `Text::absolute_offset` in src/text.rs resolve the two cursors independently and never compare them.
#[test]
fn v6_absolute_offset_accepts_inverted_offset() {
    let store = mkstore("hello world");
    let resource = store.resource("r").unwrap();
    let selection = resource.textselection(&Offset::simple(6, 11)).unwrap();
    assert!(selection.textselection(&Offset::simple(3, 1)).is_err());
    let result = selection.absolute_offset(&Offset::simple(3, 1));
    assert!(
        result.is_err(),
        "inverted relative offset 3..1 was converted to {:?}",
        result
    );
}

/// V7. A STAM JSON end-aligned cursor written as `-0` is refused, although it is a valid cursor
/// (the end of the text) and `-0` is the notation the library itself uses for it everywhere else
/// (`Display for Cursor`, STAM CSV, query `OFFSET 0 -0`, `Cursor::try_from("-0")`).
///
/// Input: TextSelector on "hello" with begin BeginAlignedCursor 0 and end EndAlignedCursor -0:
/// a valid offset for the whole text. Result: "invalid type: floating point `-0.0`, expected isize".
///
/// Cause: src/types.rs `Cursor` derives `Deserialize` with a bare `isize` payload; serde_json
/// parses the literal `-0` as the float -0.0, which the integer visitor rejects.
#[test]
fn v7_json_endaligned_minus_zero_is_refused() {
    let mut store = mkstore("hello");
    let json = r#"{"@type":"Annotation","@id":"A","target":{"@type":"TextSelector","resource":"r","offset":{"@type":"Offset","begin":{"@type":"BeginAlignedCursor","value":0},"end":{"@type":"EndAlignedCursor","value":-0}}},"data":[{"@type":"AnnotationData","set":"d","key":"k","value":{"@type":"String","value":"v"}}]}"#;
    let builder = AnnotationBuilder::from_json_str(json);
    assert!(
        builder.is_ok(),
        "valid offset (0, -0) refused: {}",
        builder.err().map(|e| e.to_string()).unwrap_or_default()
    );
    store.annotate(builder.unwrap()).unwrap();
    assert_eq!(store.annotation("A").unwrap().text().next(), Some("hello"));
}
