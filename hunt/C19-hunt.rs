//! Violations of the property "Loading untrusted serialisations never panics, aborts or hangs":
//! given any byte string as STAM JSON, STAM CSV or CBOR input, loading returns either a consistent store or an
//! error; it never panics, never exhausts memory because of a number in the input, and terminates in time
//! proportional to the input.
//!
//! Every test here FAILS on the current code. Tests that would take the whole test process down (stack
//! overflow, blocking on stdin, gigabytes of memory) run the dangerous part in a child process: the child
//! is this same test binary, started with `--ignored --exact child_...` and an environment variable that
//! tells it what to do (the `child_*` tests do nothing when that variable is not set).

use stam::*;
use std::panic::{catch_unwind, AssertUnwindSafe};
use std::process::{Command, ExitStatus, Stdio};
use std::time::{Duration, Instant};

// ------------------------------------------------------------------------------------------------
// helpers

/// a directory of our own under target/
fn workdir(name: &str) -> String {
    let dir = format!("{}/target/hunt-hc19/{}", env!("CARGO_MANIFEST_DIR"), name);
    let _ = std::fs::remove_dir_all(&dir);
    std::fs::create_dir_all(&dir).expect("creating work directory");
    dir
}

fn find(hay: &[u8], needle: &[u8]) -> Option<usize> {
    hay.windows(needle.len()).position(|w| w == needle)
}

fn panic_message(e: Box<dyn std::any::Any + Send>) -> String {
    e.downcast_ref::<String>()
        .cloned()
        .or_else(|| e.downcast_ref::<&str>().map(|s| s.to_string()))
        .unwrap_or_else(|| "(no message)".to_string())
}

enum Outcome {
    /// the child ended by itself: its exit status and what it printed on lines starting with "HUNT:"
    Exited(ExitStatus, Vec<String>),
    /// the child was still running after the timeout (it has been killed)
    TimedOut,
}

/// Runs one of the `child_*` tests of this binary in a process of its own.
/// When `hold_stdin_open` is set the child gets a pipe as standard input that stays open and empty.
fn run_child(test: &str, envs: &[(&str, &str)], hold_stdin_open: bool, timeout: Duration) -> Outcome {
    let mut cmd = Command::new(std::env::current_exe().expect("current_exe"));
    cmd.args(["--ignored", "--exact", test, "--nocapture", "--test-threads=1"]);
    for (k, v) in envs {
        cmd.env(k, v);
    }
    cmd.stdin(if hold_stdin_open { Stdio::piped() } else { Stdio::null() });
    cmd.stdout(Stdio::piped());
    cmd.stderr(Stdio::null());
    let mut child = cmd.spawn().expect("spawning child");
    let t0 = Instant::now();
    loop {
        if let Some(status) = child.try_wait().expect("try_wait") {
            let mut out = String::new();
            if let Some(mut stdout) = child.stdout.take() {
                use std::io::Read;
                let _ = stdout.read_to_string(&mut out);
            }
            //(libtest prints "test name ... " without a newline before the test's own output)
            let lines = out
                .lines()
                .filter_map(|l| l.find("HUNT:").map(|p| l[p + 5..].trim().to_string()))
                .collect();
            return Outcome::Exited(status, lines);
        }
        if t0.elapsed() > timeout {
            let _ = child.kill();
            let _ = child.wait();
            return Outcome::TimedOut;
        }
        std::thread::sleep(Duration::from_millis(20));
    }
}

fn describe(status: &ExitStatus) -> String {
    #[cfg(unix)]
    {
        use std::os::unix::process::ExitStatusExt;
        if let Some(sig) = status.signal() {
            return format!("killed by signal {} (6 = SIGABRT: the runtime's stack overflow handler aborts the process)", sig);
        }
    }
    format!("{:?}", status)
}

fn resident_kb() -> usize {
    let s = std::fs::read_to_string("/proc/self/statm").expect("/proc/self/statm");
    let pages: usize = s.split_whitespace().nth(1).unwrap().parse().unwrap();
    pages * 4
}

/// walks over everything in the store through the public API
fn walk(store: &AnnotationStore) {
    for a in store.annotations() {
        for t in a.textselections() {
            let _ = t.text();
            let _ = t.annotations().count();
        }
        for d in a.data() {
            let _ = d.key().as_str();
            let _ = d.annotations().count();
        }
        let _ = a.resources().count();
        let _ = a.annotations().count();
        let _ = a.annotations_in_targets(AnnotationDepth::Max).count();
    }
    for r in store.resources() {
        for t in r.textselections() {
            let _ = t.text();
            let _ = t.annotations().count();
        }
    }
    for s in store.datasets() {
        for k in s.keys() {
            let _ = k.data().count();
        }
        for d in s.data() {
            let _ = d.key().as_str();
        }
    }
}

// ------------------------------------------------------------------------------------------------
// 1. handles of 16 bits wrap around silently

/// A dataset with 65537 keys (a 2.5 MB document, nothing in it is invalid) loads "successfully", but the
/// 65537th key gets handle 0: its identifier resolves to the *first* key, and data that names it is stored
/// under the first key. The store returned by the loader is not consistent (a key is not found at the handle
/// the id map has for it), where an error (or a correct store) was required.
///
/// Cause: src/store.rs `StoreFor::insert()` / `next_handle()` build the handle with
/// `T::HandleType::new(self.store().len())`, and `DataKeyHandle::new` (src/datakey.rs) is `Self(intid as u16)`:
/// the number is truncated. The sanity check at the end of `insert()`
/// (`assert_eq!(handle, T::HandleType::new(self.store().len() - 1))`) truncates in the same way, so it passes.
#[test]
fn v01_key_handle_wraps_around_after_65536_keys() {
    let n = 65537usize;
    let mut json = String::from(
        r#"{"@type":"AnnotationStore","annotationsets":[{"@type":"AnnotationDataSet","@id":"set","keys":["#,
    );
    for i in 0..n {
        if i > 0 {
            json.push(',');
        }
        json.push_str(&format!(r#"{{"@type":"DataKey","@id":"k{}"}}"#, i));
    }
    json.push_str(
        r#"],"data":[{"@type":"AnnotationData","@id":"d","key":"k65536","value":{"@type":"String","value":"x"}}]}]}"#,
    );
    match AnnotationStore::from_str(&json, Config::default()) {
        Err(_) => {} //refusing the document is fine
        Ok(store) => {
            let set = store.dataset("set").expect("dataset");
            let key = set.key("k65536").expect("the last key must be found by its id");
            assert_eq!(
                key.as_str(),
                "k65536",
                "looking up key 'k65536' returns another key (handle {:?})",
                key.handle()
            );
            let data = set.annotationdata("d").expect("data");
            assert_eq!(data.key().as_str(), "k65536", "data with key 'k65536' ended up under another key");
        }
    }
}

/// Same cause as above for the other 16-bit handle, `AnnotationDataSetHandle` (src/annotationdataset.rs):
/// the 65537th dataset of a store gets handle 0 and its identifier resolves to the first dataset.
#[test]
fn v01b_dataset_handle_wraps_around_after_65536_datasets() {
    let n = 65537usize;
    let mut json = String::from(r#"{"@type":"AnnotationStore","annotationsets":["#);
    for i in 0..n {
        if i > 0 {
            json.push(',');
        }
        json.push_str(&format!(r#"{{"@type":"AnnotationDataSet","@id":"s{}"}}"#, i));
    }
    json.push_str("]}");
    match AnnotationStore::from_str(&json, Config::default()) {
        Err(_) => {}
        Ok(store) => {
            let set = store.dataset("s65536").expect("the last dataset must be found by its id");
            assert_eq!(set.id(), Some("s65536"), "looking up dataset 's65536' returns another dataset");
        }
    }
}

// ------------------------------------------------------------------------------------------------
// 2. CBOR is decoded without any cross-check

/// One byte of a valid CBOR file is changed (the text selection handle in the target of the only annotation
/// becomes 7, there is only text selection 0). `AnnotationStore::from_file()` returns Ok, and the store it
/// returns panics ("handle must be valid") as soon as the annotation's text is asked for.
/// The property requires an error, or a store whose handles all resolve.
///
/// Cause: src/annotationstore.rs `AnnotationStore::from_cbor_file()` returns whatever `minicbor::decode`
/// produced; no handle in annotations, selectors, reverse indices or id maps is checked against the stores,
/// while the accessors (src/selector.rs `Selector::textselection()`, `offset_with_mode()`, the iterators in
/// src/api/) `expect()` valid handles.
#[test]
fn v02_cbor_with_dangling_handle_is_loaded_and_panics_on_use() {
    let dir = workdir("v02");
    let mut store = AnnotationStore::default()
        .with_id("test")
        .with_resource(TextResourceBuilder::new().with_id("r").with_text("Hello world"))
        .unwrap()
        .with_annotation(
            AnnotationBuilder::new()
                .with_id("A1")
                .with_target(SelectorBuilder::textselector("r", Offset::simple(6, 11))),
        )
        .unwrap();
    let filename = format!("{}/test.store.stam.cbor", dir);
    store.set_filename(&filename);
    store.save().unwrap();
    let mut bytes = std::fs::read(&filename).unwrap();
    // the annotation: id "A1", no data, target = TextSelector(resource 0, textselection 0, BeginBegin)
    let needle = [0x62, b'A', b'1', 0x80, 0x82, 0x00, 0x83, 0x00, 0x00, 0x82, 0x00, 0x80];
    let pos = find(&bytes, &needle).expect("annotation A1 not found in the CBOR output (encoding changed?)");
    bytes[pos + 8] = 0x07; //text selection handle 0 -> 7
    let mutated = format!("{}/mutated.store.stam.cbor", dir);
    std::fs::write(&mutated, &bytes).unwrap();

    let result = catch_unwind(AssertUnwindSafe(|| AnnotationStore::from_file(&mutated, Config::default())));
    let result = result.unwrap_or_else(|e| panic!("loading panicked: {}", panic_message(e)));
    if let Ok(store) = result {
        let used = catch_unwind(AssertUnwindSafe(|| walk(&store)));
        if let Err(e) = used {
            panic!(
                "the loader accepted a CBOR file with a dangling text selection handle; using the store panics: {}",
                panic_message(e)
            );
        }
    }
}

#[test]
#[ignore]
fn child_load_and_walk() {
    let Ok(filename) = std::env::var("HUNT_CHILD_LOAD_AND_WALK") else {
        return;
    };
    match AnnotationStore::from_file(&filename, Config::default()) {
        Err(_) => println!("HUNT: load-error"),
        Ok(store) => {
            println!("HUNT: loaded");
            walk(&store);
            println!("HUNT: walked");
            std::mem::forget(store);
        }
    }
}

/// One byte of a valid CBOR file is changed so that annotation A2 (an AnnotationSelector on A1) targets
/// itself. The loader returns Ok; following the targets of A2 recurses without end and the process dies
/// of a stack overflow (no unwinding, no error). Same cause as the test above: nothing is verified after
/// `minicbor::decode` (src/annotationstore.rs `from_cbor_file()`); a cycle can not come into being through
/// `annotate()`, so nothing downstream (src/selector.rs `SelectorIter::next()`) guards against it.
#[test]
fn v03_cbor_with_annotation_targeting_itself_is_loaded_and_overflows_the_stack() {
    let dir = workdir("v03");
    let mut store = AnnotationStore::default()
        .with_id("test")
        .with_resource(TextResourceBuilder::new().with_id("r").with_text("Hello world"))
        .unwrap()
        .with_annotation(
            AnnotationBuilder::new()
                .with_id("A1")
                .with_target(SelectorBuilder::textselector("r", Offset::simple(6, 11))),
        )
        .unwrap()
        .with_annotation(
            AnnotationBuilder::new()
                .with_id("A2")
                .with_target(SelectorBuilder::annotationselector("A1", None)),
        )
        .unwrap();
    let filename = format!("{}/test.store.stam.cbor", dir);
    store.set_filename(&filename);
    store.save().unwrap();
    let mut bytes = std::fs::read(&filename).unwrap();
    // the annotation: id "A2", no data, target = AnnotationSelector(annotation 0, None)
    let needle = [0x62, b'A', b'2', 0x80, 0x82, 0x01, 0x82, 0x00, 0xf6];
    let pos = find(&bytes, &needle).expect("annotation A2 not found in the CBOR output (encoding changed?)");
    bytes[pos + 7] = 0x01; //target annotation 0 -> 1 (A2 itself)
    let mutated = format!("{}/mutated.store.stam.cbor", dir);
    std::fs::write(&mutated, &bytes).unwrap();

    match run_child(
        "child_load_and_walk",
        &[("HUNT_CHILD_LOAD_AND_WALK", mutated.as_str())],
        false,
        Duration::from_secs(60),
    ) {
        Outcome::TimedOut => panic!("loading and walking a 1 kB CBOR file did not end within 60 seconds"),
        Outcome::Exited(status, lines) => {
            assert!(
                status.success(),
                "the child that loaded the file and walked over the store was {}; it got as far as {:?}",
                describe(&status),
                lines
            );
        }
    }
}

#[test]
#[ignore]
fn child_load_only() {
    let Ok(filename) = std::env::var("HUNT_CHILD_LOAD_ONLY") else {
        return;
    };
    match AnnotationStore::from_file(&filename, Config::default()) {
        Err(_) => println!("HUNT: load-error"),
        Ok(store) => {
            println!("HUNT: loaded");
            std::mem::forget(store); //(dropping a deeply nested value recurses as well: not what is tested here)
        }
    }
}

/// A 400 kB CBOR file in which one data value is a list in a list in a list ... 100000 levels deep makes
/// `AnnotationStore::from_file()` overflow the stack: the process is aborted, where an error was required.
/// (2000 levels, an 8 kB file, are enough for a thread with the default 2 MB stack in a debug build.)
///
/// Cause: the derived `minicbor::Decode` for `DataValue::List(Vec<DataValue>)` (src/datavalue.rs; the same
/// goes for `Selector::MultiSelector(Vec<Selector>)` etc. in src/selector.rs) recurses once per level and
/// `from_cbor_file()` (src/annotationstore.rs) puts no bound on the nesting depth. (serde_json refuses STAM
/// JSON that is nested more than 128 levels deep, the CBOR decoder has no such limit.)
#[test]
fn v04_cbor_with_deeply_nested_value_overflows_the_stack_on_load() {
    let dir = workdir("v04");
    let mut store = AnnotationStore::default()
        .with_id("test")
        .with_resource(TextResourceBuilder::new().with_id("r").with_text("Hello world"))
        .unwrap()
        .with_annotation(
            AnnotationBuilder::new()
                .with_id("A1")
                .with_target(SelectorBuilder::textselector("r", Offset::simple(6, 11)))
                .with_data_with_id("s", "pos", "noun", "D1"),
        )
        .unwrap();
    let filename = format!("{}/test.store.stam.cbor", dir);
    store.set_filename(&filename);
    store.save().unwrap();
    let bytes = std::fs::read(&filename).unwrap();
    // DataValue::String("noun") = [1, ["noun"]]
    let needle = [0x82, 0x01, 0x81, 0x64, b'n', b'o', b'u', b'n'];
    let pos = find(&bytes, &needle).expect("value 'noun' not found in the CBOR output (encoding changed?)");
    let mut out = bytes[..pos].to_vec();
    for _ in 0..100_000 {
        out.extend_from_slice(&[0x82, 0x05, 0x81, 0x81]); // DataValue::List = [5, [ [ <element> ] ]]
    }
    out.extend_from_slice(&[0x82, 0x00, 0x80]); // DataValue::Null = [0, []]
    out.extend_from_slice(&bytes[pos + needle.len()..]);
    let mutated = format!("{}/deep.store.stam.cbor", dir);
    std::fs::write(&mutated, &out).unwrap();

    match run_child(
        "child_load_only",
        &[("HUNT_CHILD_LOAD_ONLY", mutated.as_str())],
        false,
        Duration::from_secs(60),
    ) {
        Outcome::TimedOut => panic!("loading a 400 kB CBOR file did not end within 60 seconds"),
        Outcome::Exited(status, lines) => {
            assert!(
                status.success(),
                "the child that loaded the file was {}; it got as far as {:?}",
                describe(&status),
                lines
            );
        }
    }
}

// ------------------------------------------------------------------------------------------------
// 3. a number in the input decides how much memory is used

#[test]
#[ignore]
fn child_tempid_memory() {
    let Ok(number) = std::env::var("HUNT_CHILD_TEMPID") else {
        return;
    };
    let json = format!(
        r#"{{"@type":"AnnotationStore","resources":[{{"@type":"TextResource","@id":"r","text":"Hello world"}}],
"annotations":[{{"@type":"Annotation","@id":"!A{}","target":{{"@type":"ResourceSelector","resource":"r"}},"data":[]}}]}}"#,
        number
    );
    let before = resident_kb();
    let result = AnnotationStore::from_str(&json, Config::default());
    let after = resident_kb();
    println!("HUNT: bytes={}", json.len());
    println!("HUNT: growth_kb={}", after.saturating_sub(before));
    println!("HUNT: ok={}", result.is_ok());
    std::mem::forget(result);
}

/// A document of 223 bytes with one annotation whose identifier is the temporary identifier `!A20000000`
/// makes the loader allocate and fill 20 million empty annotation slots: 1.7 GB of resident memory
/// (88 bytes per slot). With `!A500000000` it is 44 GB: the number in the input decides whether the process
/// is killed for lack of memory. (The same goes for `!D...` on annotation data,
/// src/annotationdataset.rs `DataVisitor::visit_seq()`.)
///
/// Cause: src/annotationstore.rs `AnnotationsVisitor::visit_seq()`: `self.store.annotations.resize_with(handle, ..)`
/// with `handle` taken from the identifier. The `try_reserve()` in front of it only refuses numbers for which
/// the allocator itself gives up; whatever the operating system is willing to promise is then written to.
#[test]
fn v05_temporary_identifier_decides_how_much_memory_loading_takes() {
    match run_child(
        "child_tempid_memory",
        &[("HUNT_CHILD_TEMPID", "20000000")],
        false,
        Duration::from_secs(300),
    ) {
        Outcome::TimedOut => panic!("loading a document of some 220 bytes did not end within 300 seconds"),
        Outcome::Exited(status, lines) => {
            assert!(status.success(), "child was {}: {:?}", describe(&status), lines);
            let growth: usize = lines
                .iter()
                .find_map(|l| l.strip_prefix("growth_kb=").map(|x| x.parse().unwrap()))
                .expect("growth reported by child");
            assert!(
                growth < 256 * 1024,
                "loading a document of some 220 bytes made the resident memory grow by {} MB ({:?})",
                growth / 1024,
                lines
            );
        }
    }
}

// ------------------------------------------------------------------------------------------------
// 4. loading time is quadratic in the size of the input

fn timed_load(json: &str) -> Duration {
    //best of two
    let mut best = Duration::MAX;
    for _ in 0..2 {
        let t0 = Instant::now();
        let store = AnnotationStore::from_str(json, Config::default()).expect("document must load");
        let elapsed = t0.elapsed();
        drop(store);
        if elapsed < best {
            best = elapsed;
        }
    }
    best
}

fn document_with_inline_data(n: usize) -> String {
    let mut json = String::from(
        r#"{"@type":"AnnotationStore","resources":[{"@type":"TextResource","@id":"r","text":"Hello world"}],"annotations":["#,
    );
    for i in 0..n {
        if i > 0 {
            json.push(',');
        }
        json.push_str(&format!(
            r#"{{"@type":"Annotation","@id":"a{}","target":{{"@type":"ResourceSelector","resource":"r"}},"data":[{{"@type":"AnnotationData","set":"s","key":"k","value":{{"@type":"Int","value":{}}}}}]}}"#,
            i, i
        ));
    }
    json.push_str("]}");
    json
}

/// N annotations that each carry their data inline (set, key and value, no identifier: the most common
/// form in hand-written STAM JSON), all under the same key with different values. A document four times as
/// large takes sixteen times as long to load (measured: 5000 annotations 0.4 s, 10000 1.6 s, 20000 5.8 s,
/// 40000 22.6 s for 7 MB; the same documents with an `@id` on the data load in 0.1 - 0.56 s).
///
/// Cause: `AnnotationStore::annotate()` -> `insert_data()` (src/annotation.rs) calls
/// `AnnotationDataSet::insert_data(.., safety = true)` (src/annotationdataset.rs), which for data without
/// identifier calls `data_by_value()`: a linear walk over *all* data of that key, comparing values. That is
/// O(N) per annotation, O(N^2) per document.
#[test]
fn v06_loading_annotations_with_inline_data_takes_quadratic_time() {
    let small = document_with_inline_data(4000);
    let large = document_with_inline_data(16000);
    let t_small = timed_load(&small);
    let t_large = timed_load(&large);
    let ratio = t_large.as_secs_f64() / t_small.as_secs_f64();
    assert!(
        ratio < 9.0,
        "a document 4 times as large ({} -> {} bytes) takes {:.1} times as long to load ({:?} -> {:?}); linear would be 4",
        small.len(),
        large.len(),
        ratio,
        t_small,
        t_large
    );
}

fn document_with_same_begin(n: usize) -> String {
    let text: String = std::iter::repeat('a').take(n).collect();
    let mut json = format!(
        r#"{{"@type":"AnnotationStore","resources":[{{"@type":"TextResource","@id":"r","text":"{}"}}],"annotations":["#,
        text
    );
    for i in 0..n {
        if i > 0 {
            json.push(',');
        }
        json.push_str(&format!(
            r#"{{"@type":"Annotation","@id":"a{}","target":{{"@type":"TextSelector","resource":"r","offset":{{"@type":"Offset","begin":{{"@type":"BeginAlignedCursor","value":0}},"end":{{"@type":"BeginAlignedCursor","value":{}}}}}}},"data":[]}}"#,
            i,
            i + 1
        ));
    }
    json.push_str("]}");
    json
}

/// N annotations whose text selections all begin at the same position (0..1, 0..2, 0..3, ...; think of
/// nested structure that starts at the beginning of a document). A document four times as large takes
/// about fourteen times as long to load (measured: 5000 0.26 s, 10000 0.85 s, 20000 2.9 s, 40000 10.7 s).
///
/// Cause: src/resources.rs. `TextResource::textselection_by_offset()` (called by `AnnotationStore::selector()`
/// for every TextSelector) walks linearly over `positionindex[begin].begin2end`, the list of *all* text
/// selections that begin at that position, and `StoreCallbacks<TextSelection>::inserted()` does the same with
/// `positem.begin2end.contains(..)` (and `end2begin.contains(..)` for a shared end). O(N) per annotation.
#[test]
fn v07_loading_text_selections_with_a_common_begin_takes_quadratic_time() {
    let small = document_with_same_begin(4000);
    let large = document_with_same_begin(16000);
    let t_small = timed_load(&small);
    let t_large = timed_load(&large);
    let ratio = t_large.as_secs_f64() / t_small.as_secs_f64();
    assert!(
        ratio < 9.0,
        "a document 4 times as large ({} -> {} bytes) takes {:.1} times as long to load ({:?} -> {:?}); linear would be 4",
        small.len(),
        large.len(),
        ratio,
        t_small,
        t_large
    );
}

// ------------------------------------------------------------------------------------------------
// 5. what an @include'd store does to items the including store already has

/// A store that includes another store (`@include`); both hold dataset "s" with data "D1", but the included
/// one gives D1 another key and value (a "retyped field" in a duplicated item). Loading succeeds, and in the
/// store that comes out the index from keys to data is stale: key "k1" lists data whose key is "k2", and
/// key "k2" lists nothing although D1 says it has key "k2". The property requires a consistent store (or an
/// error).
///
/// Cause: in merge mode `StoreFor::insert()` (src/store.rs) hands an item with an existing identifier to
/// `Storable::merge()`; `AnnotationData::merge()` (src/annotationdata.rs) does `*self = other` - it replaces
/// key and value in place - and nobody updates `AnnotationDataSet::key_data_map` (the `inserted()` callback
/// that maintains it, src/annotationdataset.rs, is not run for a merge).
#[test]
fn v08_included_store_that_redefines_data_leaves_a_stale_key_index() {
    let dir = workdir("v08");
    std::fs::write(
        format!("{}/sub.store.stam.json", dir),
        r#"{"@type":"AnnotationStore","annotationsets":[{"@type":"AnnotationDataSet","@id":"s",
            "keys":[{"@type":"DataKey","@id":"k1"},{"@type":"DataKey","@id":"k2"}],
            "data":[{"@type":"AnnotationData","@id":"D1","key":"k2","value":{"@type":"String","value":"b"}}]}]}"#,
    )
    .unwrap();
    std::fs::write(
        format!("{}/main.store.stam.json", dir),
        r#"{"@type":"AnnotationStore","annotationsets":[{"@type":"AnnotationDataSet","@id":"s",
            "keys":[{"@type":"DataKey","@id":"k1"},{"@type":"DataKey","@id":"k2"}],
            "data":[{"@type":"AnnotationData","@id":"D1","key":"k1","value":{"@type":"String","value":"a"}}]}],
            "@include":"sub.store.stam.json"}"#,
    )
    .unwrap();
    let result = catch_unwind(AssertUnwindSafe(|| {
        AnnotationStore::from_file(&format!("{}/main.store.stam.json", dir), Config::default())
    }));
    let result = result.unwrap_or_else(|e| panic!("loading panicked: {}", panic_message(e)));
    if let Ok(store) = result {
        let set = store.dataset("s").expect("dataset");
        for key in set.keys() {
            for data in key.data() {
                assert_eq!(
                    data.key().as_str(),
                    key.as_str(),
                    "key '{}' lists data {:?}, but that data has key '{}'",
                    key.as_str(),
                    data.id(),
                    data.key().as_str()
                );
            }
        }
        for data in set.data() {
            assert!(
                data.key().data().any(|d| d.handle() == data.handle()),
                "data {:?} has key '{}' but that key does not list it",
                data.id(),
                data.key().as_str()
            );
        }
    }
}

/// A store whose only content is an `@include` of another store. The included store holds a dataset with the
/// keys "a" and "!K0" (a public identifier that has the shape of a temporary one) and data D1 under key "a".
/// After loading, the dataset has ONE key, its identifier is "!K0", looking up "a" returns that key "!K0"
/// (the id map and the item disagree) and D1 hangs under "!K0". (Loading the included file on its own is refused
/// with a DuplicateIdError - for the same reason - which the property allows.)
///
/// Cause: src/store.rs `StoreFor::insert()` asks `self.has(id)` whether the identifier is taken; `has()` goes
/// through `resolve_id()`, which falls back to reading "!K0" as "the item at handle 0" - that is key "a". The
/// new key is thus taken for a second version of "a" and, in merge mode (which is on while an included store
/// is read), `DataKey::merge()` (src/datakey.rs) overwrites "a" with it (`*self = other`); the id map keeps
/// "a" -> 0 and gets no entry for "!K0".
#[test]
fn v09_included_store_with_a_key_id_shaped_like_a_temporary_id_overwrites_another_key() {
    let dir = workdir("v09");
    std::fs::write(
        format!("{}/sub.store.stam.json", dir),
        r#"{"@type":"AnnotationStore","annotationsets":[{"@type":"AnnotationDataSet","@id":"s",
            "keys":[{"@type":"DataKey","@id":"a"},{"@type":"DataKey","@id":"!K0"}],
            "data":[{"@type":"AnnotationData","@id":"D1","key":"a","value":{"@type":"String","value":"b"}}]}]}"#,
    )
    .unwrap();
    std::fs::write(
        format!("{}/main.store.stam.json", dir),
        r#"{"@type":"AnnotationStore","@include":"sub.store.stam.json"}"#,
    )
    .unwrap();
    let result = catch_unwind(AssertUnwindSafe(|| {
        AnnotationStore::from_file(&format!("{}/main.store.stam.json", dir), Config::default())
    }));
    let result = result.unwrap_or_else(|e| panic!("loading panicked: {}", panic_message(e)));
    if let Ok(store) = result {
        let set = store.dataset("s").expect("dataset");
        let key = set.key("a").expect("key 'a' must be found");
        assert_eq!(key.as_str(), "a", "looking up key 'a' returns a key with another identifier");
        let data = set.annotationdata("D1").expect("data");
        assert_eq!(data.key().as_str(), "a", "data D1 was given key 'a'");
        assert_eq!(set.keys().count(), 2, "two keys were defined");
    }
}

// ------------------------------------------------------------------------------------------------
// 6. loading functions that panic whatever the input is

/// `AnnotationStore::with_file()` ("merge another annotation store file into this one") with a (valid) STAM
/// CSV file on a store that is not empty panics with `todo!()`, where the property allows a store or an
/// error. The same `todo!()` is hit for a STAM JSON file when the store's own format is CSV.
///
/// Cause: src/annotationstore.rs `AnnotationStore::with_file()`:
/// `todo!("Merging CSV files for AnnotationStore is not supported yet")`
/// (and src/annotationdataset.rs `AnnotationDataSet::with_file()` likewise).
#[test]
fn v10_with_file_panics_for_a_csv_file_when_the_store_is_not_empty() {
    let result = catch_unwind(AssertUnwindSafe(|| {
        let store = AnnotationStore::default()
            .with_resource(TextResourceBuilder::new().with_id("x").with_text("x"))
            .unwrap();
        store
            .with_file(&format!("{}/tests/test.store.stam.csv", env!("CARGO_MANIFEST_DIR")))
            .map(|store| store.annotations_len())
    }));
    if let Err(e) = result {
        panic!("with_file() panicked instead of returning a store or an error: {}", panic_message(e));
    }
}

// ------------------------------------------------------------------------------------------------
// 7. the input can make the loader wait for standard input

#[test]
#[ignore]
fn child_include_dash() {
    let Ok(which) = std::env::var("HUNT_CHILD_INCLUDE_DASH") else {
        return;
    };
    let json = match which.as_str() {
        "store" => r#"{"@type":"AnnotationStore","@include":"-"}"#,
        "dataset" => {
            r#"{"@type":"AnnotationStore","annotationsets":[{"@type":"AnnotationDataSet","@id":"s","@include":"-"}]}"#
        }
        _ => panic!("unknown mode"),
    };
    let result = AnnotationStore::from_str(json, Config::default());
    println!("HUNT: ok={}", result.is_ok());
}

/// The 42-byte document `{"@type":"AnnotationStore","@include":"-"}` (and likewise a dataset with
/// `"@include":"-"`) makes the loader read from the *standard input* of the process: when that is a terminal
/// or a pipe nobody writes to, loading never returns. The test gives the child an open, empty pipe as standard
/// input and waits 10 seconds.
///
/// Cause: src/file.rs `open_file_reader()` treats the file name "-" as standard input for every caller, also
/// for the names found in `@include` fields of the data: `AnnotationStore::merge_json_file()`
/// (src/annotationstore.rs, via `add_substore()`) and `AnnotationDataSet::merge_json_file()`
/// (src/annotationdataset.rs).
#[test]
fn v11_include_of_dash_makes_the_loader_wait_for_standard_input() {
    for which in ["store", "dataset"] {
        match run_child(
            "child_include_dash",
            &[("HUNT_CHILD_INCLUDE_DASH", which)],
            true,
            Duration::from_secs(10),
        ) {
            Outcome::TimedOut => panic!(
                "loading a {} with \"@include\": \"-\" was still waiting for standard input after 10 seconds",
                which
            ),
            Outcome::Exited(status, lines) => {
                assert!(status.success(), "child was {}: {:?}", describe(&status), lines);
            }
        }
    }
}
