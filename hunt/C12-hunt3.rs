//! Violations of: "Codepoint/byte conversion is exact and tuning knobs never change answers".
use stam::*;
use std::panic::{catch_unwind, AssertUnwindSafe};

const TEXT: &str = "a€b😀c"; // 5 codepoints of 1, 3, 1, 4 and 1 bytes

fn build(interval: usize, shrink: bool) -> AnnotationStore {
    AnnotationStore::new(
        Config::default()
            .with_milestone_interval(interval)
            .with_shrink_to_fit(shrink),
    )
    .with_id("s")
    .with_resource(TextResourceBuilder::new().with_id("r").with_text(TEXT))
    .unwrap()
    .with_dataset(AnnotationDataSetBuilder::new().with_id("d"))
    .unwrap()
}

fn annotate(store: &mut AnnotationStore, id: &str, begin: usize, end: usize) {
    store
        .annotate(
            AnnotationBuilder::new()
                .with_id(id)
                .with_target(SelectorBuilder::textselector(
                    "r",
                    Offset::simple(begin, end),
                ))
                .with_data("d", "k", "v"),
        )
        .unwrap();
}

/// Runs `f` for every milestone interval and shrink-to-fit setting, before and after an
/// annotation has put entries into the position index, and collects every outcome that is not
/// `expected` (a panic is the outcome `None`).
fn outcomes<T: PartialEq + std::fmt::Debug>(
    expected: T,
    f: impl Fn(&AnnotationStore) -> T,
) -> Vec<String> {
    let mut wrong = Vec::new();
    for interval in [0usize, 1, 2, 3, 7, 100] {
        for shrink in [false, true] {
            let mut store = build(interval, shrink);
            for annotated in [false, true] {
                if annotated {
                    annotate(&mut store, "A1", 1, 2);
                }
                let got = catch_unwind(AssertUnwindSafe(|| f(&store))).ok();
                if got.as_ref() != Some(&expected) {
                    wrong.push(format!(
                        "milestone_interval={interval} shrink_to_fit={shrink} annotated={annotated}: {}",
                        match got {
                            Some(v) => format!("{v:?}"),
                            None => "PANIC".to_string(),
                        }
                    ));
                }
            }
        }
    }
    wrong
}

/// `textselections_in_range(begin, end)` / `TextResource::range(begin, end)` with begin > end.
///
/// An inverted range holds nothing: with milestone interval 0, 7 or 100 (no milestone fits in a
/// text of 5 codepoints) and no annotation yet, the iterator is simply empty. With milestone
/// interval 1, 2 or 3 - or, with any interval, as soon as one annotation exists anywhere on the
/// text - the very same call panics ("range start is greater than range end in BTreeMap").
///
/// Cause: src/resources.rs, `TextResource::range()` hands `(Included(begin), Excluded(end))`
/// unchecked to `BTreeMap::range` on the position index. The standard library only validates
/// the bounds (and panics) when the map has a root node, i.e. when it is not empty; whether the
/// position index is empty depends on nothing but the performance-only milestone interval and
/// on the annotations that happen to exist. (Same for `.rev()`.)
#[test]
fn inverted_range_of_textselections_depends_on_milestones_and_annotations() {
    let wrong = outcomes((0usize, 0usize), |store| {
        let res = store.resource("r").unwrap();
        (
            res.textselections_in_range(3, 1).count(),
            res.as_ref().range(3, 1).rev().count(),
        )
    });
    assert!(
        wrong.is_empty(),
        "textselections_in_range(3,1) is empty on an empty position index, but:\n{}",
        wrong.join("\n")
    );
}

/// `positions_in_range(mode, begin, end)` and `segmentation_in_range(begin, end)` with
/// begin > end: nothing (an empty iterator) as long as the position index is empty, a panic
/// ("range start is greater than range end in BTreeMap") once it holds a milestone (interval
/// 1, 2, 3 here) or any annotation.
///
/// Cause: src/resources.rs, `TextResource::positions_in_range()` (all three modes) passes the
/// unchecked bounds to `BTreeMap::range`, which panics on an inverted range only when the map
/// is not empty; `segmentation_in_range()` (src/api/resources.rs) calls it when the iterator is
/// made.
#[test]
fn inverted_range_of_positions_depends_on_milestones_and_annotations() {
    let wrong = outcomes((0usize, 0usize, 0usize, 0usize), |store| {
        let res = store.resource("r").unwrap();
        (
            res.as_ref()
                .positions_in_range(PositionMode::Both, 3, 1)
                .count(),
            res.as_ref()
                .positions_in_range(PositionMode::Begin, 3, 1)
                .count(),
            res.as_ref()
                .positions_in_range(PositionMode::End, 3, 1)
                .count(),
            res.segmentation_in_range(3, 1).count(),
        )
    });
    assert!(
        wrong.is_empty(),
        "positions_in_range(.., 3, 1) is empty on an empty position index, but:\n{}",
        wrong.join("\n")
    );
}

/// Adjacent to the property (a byte position that does not belong to the text is converted):
/// `find_text_nocase()` searches a lowercased *copy* of the text and converts the byte positions
/// found in that copy with `utf8byte_to_charpos()` of the *original* text. Lowercasing changes
/// byte lengths ('İ' U+0130, 2 bytes, becomes "i̇", 3 bytes), so in "İxy" the fragment "x" is
/// reported as 2..3 "y" (a wrong number), and the fragment "y" panics with "utf-8 byte must
/// resolve to valid charpos" (byte 5 of a text of 4 bytes) instead of being found at 2..3.
///
/// Cause: src/api/text.rs, `FindNoCaseTextIter::next()`: `foundbytepos`/`endbytepos` are offsets
/// in `text.to_lowercase()` but are added to `beginbytepos` of the original text and resolved
/// against the original text; the failed conversion is then unwrapped with `expect`.
#[test]
fn find_text_nocase_uses_byte_positions_of_the_lowercased_copy() {
    let store = AnnotationStore::default()
        .with_id("s")
        .with_resource(TextResourceBuilder::new().with_id("r").with_text("İxy"))
        .unwrap();
    let res = store.resource("r").unwrap();
    let found = |fragment: &str| {
        catch_unwind(AssertUnwindSafe(|| {
            res.find_text_nocase(fragment)
                .map(|t| (t.begin(), t.end(), t.text().to_string()))
                .collect::<Vec<_>>()
        }))
        .ok()
    };
    assert_eq!(found("x"), Some(vec![(1, 2, "x".to_string())]), "fragment x");
    assert_eq!(found("y"), Some(vec![(2, 3, "y".to_string())]), "fragment y");
}
