//! Violations of the property "text search and partition operations agree with plain string
//! operations". Each test fails on the current code and would pass on a correct implementation.

use regex::{Regex, RegexBuilder};
use stam::*;

fn store_with(text: &str) -> AnnotationStore {
    let mut store = AnnotationStore::default().with_id("hunt");
    store
        .add_resource(TextResourceBuilder::new().with_id("r").with_text(text))
        .unwrap();
    store
}

fn spans<'a>(iter: impl Iterator<Item = ResultTextSelection<'a>>) -> Vec<(usize, usize, String)> {
    iter.map(|t| (t.begin(), t.end(), t.text().to_string()))
        .collect()
}

/// VIOLATION 1: case-insensitive search on a text that holds a character whose lower-casing
/// changes its UTF-8 length ('İ' U+0130: 2 bytes -> "i̇" 3 bytes; also U+212A KELVIN SIGN, 'Ⱥ', 'ẞ').
///
/// Cause: src/api/text.rs, FindNoCaseTextIter::next(). The haystack is lower-cased into a fresh
/// String (`let text = text.to_lowercase()`), the needle is looked up in that copy, and the byte
/// position found in the COPY (`foundbytepos`, and `foundbytepos + self.fragment.len()`) is then
/// added to `beginbytepos` and resolved against the ORIGINAL text with utf8byte_to_charpos(). As
/// soon as the lower-cased copy differs in byte length before (or inside) the match, the begin
/// and/or end is wrong: either a wrong selection is returned silently, or the byte lands inside
/// a codepoint / beyond the text and the `.expect("utf-8 byte must resolve to valid charpos")`
/// panics. (The "MAYBE TODO" comment at that line admits as much.)
/// find_text_sequence(.., case_sensitive=false) inherits this.
#[test]
fn nocase_search_with_length_changing_lowercase() {
    // (a) silently wrong selection: returns (1,3,"İy") instead of (1,2,"İ")
    let store = store_with("xİy");
    let resource = store.resource("r").unwrap();
    let got = spans(resource.find_text_nocase("İ"));
    assert_eq!(
        got,
        vec![(1, 2, "İ".to_string())],
        "searching 'İ' case-insensitively in \"xİy\" must select exactly the 'İ'"
    );

    // (b) panic: "abc" occurs at codepoints 9..12, the code resolves bytes 11..14 of a 13 byte text
    let store = store_with("İstanbul abc");
    let resource = store.resource("r").unwrap();
    let got = spans(resource.find_text_nocase("ABC"));
    assert_eq!(got, vec![(9, 12, "abc".to_string())]);
}

/// VIOLATION 2: case-insensitive search does not find a needle that occurs VERBATIM in the text
/// (so the exact search finds it), when the needle ends in a capital sigma that is not word-final
/// in the text.
///
/// Cause: src/api/text.rs, find_text_nocase() (all three constructors: `fragment.to_lowercase()`)
/// together with FindNoCaseTextIter::next() (`text.to_lowercase()`): needle and haystack are
/// lower-cased as two separate strings with str::to_lowercase(), which is context sensitive: a
/// word-final 'Σ' becomes 'ς', any other 'Σ' becomes 'σ'. The needle "ΦΙΛΟΣ" becomes "φιλος", the
/// text "ΦΙΛΟΣΟΦΙΑ" becomes "φιλοσοφια", and the substring test fails. Likewise searching "Σ" or
/// "σ" never finds the 'Σ' that ends a word in the text. A case-insensitive comparison has to
/// fold per character (or fold both sigmas), not lower-case two strings independently.
#[test]
fn nocase_search_misses_verbatim_occurrence_final_sigma() {
    let store = store_with("ΦΙΛΟΣΟΦΙΑ");
    let resource = store.resource("r").unwrap();
    let exact = spans(resource.find_text("ΦΙΛΟΣ"));
    assert_eq!(exact, vec![(0, 5, "ΦΙΛΟΣ".to_string())], "sanity: exact search");
    let nocase = spans(resource.find_text_nocase("ΦΙΛΟΣ"));
    assert_eq!(
        nocase, exact,
        "a case-insensitive search must find at least what the exact search finds"
    );
}

/// VIOLATION 3: with three or more expressions, find_text_regex() silently drops every expression
/// that only matches thanks to options set through regex::RegexBuilder (case_insensitive,
/// ignore_whitespace, multi_line, dot_matches_new_line, ...). With one or two expressions the same
/// Regex finds its matches.
///
/// Cause: src/api/text.rs, find_text_regex_select_expressions(): for `expressions.len() > 2` and no
/// precompiled set, a RegexSet is compiled from `expressions.iter().map(|x| x.as_str())`, i.e.
/// from the bare pattern strings; the builder options of each Regex are not part of as_str() and
/// get lost. The pre-pass then reports "this expression matches nowhere" and FindRegexIter never
/// runs it.
#[test]
fn regex_with_builder_options_dropped_when_more_than_two_expressions() {
    let store = store_with("xx ABC yy");
    let resource = store.resource("r").unwrap();
    let ci = RegexBuilder::new("abc")
        .case_insensitive(true)
        .build()
        .unwrap();
    assert_eq!(
        ci.find("xx ABC yy").map(|m| (m.start(), m.end())),
        Some((3, 6)),
        "sanity: the plain regex operation"
    );

    let two = vec![ci.clone(), Regex::new("zzz").unwrap()];
    let got2: Vec<_> = resource
        .find_text_regex(&two, None, true)
        .unwrap()
        .flat_map(|m| spans(m.textselections().iter().cloned()))
        .collect();
    assert_eq!(got2, vec![(3, 6, "ABC".to_string())], "sanity: two expressions");

    let three = vec![
        ci.clone(),
        Regex::new("zzz").unwrap(),
        Regex::new("qqq").unwrap(),
    ];
    let got3: Vec<_> = resource
        .find_text_regex(&three, None, true)
        .unwrap()
        .flat_map(|m| spans(m.textselections().iter().cloned()))
        .collect();
    assert_eq!(
        got3, got2,
        "adding a third expression that matches nowhere must not change the result"
    );
}

/// VIOLATION 4 (minor): find_text_regex() with an empty slice of expressions panics instead of
/// yielding nothing.
///
/// Cause: src/api/text.rs, find_text_regex_select_expressions(): `match expressions.len()` only
/// has arms for 1 and 2 and falls into `unreachable!("Expected 1 or 2 expressions")` for 0.
#[test]
fn regex_search_with_no_expressions_panics() {
    let store = store_with("abc");
    let resource = store.resource("r").unwrap();
    let none: Vec<Regex> = Vec::new();
    let count = match resource.find_text_regex(&none, None, true) {
        Ok(iter) => iter.count(),
        Err(_) => 0, //(an error would be acceptable as well)
    };
    assert_eq!(count, 0);
}
