//! Violations of: "STAMQL parsing is total and printing then parsing is a fixpoint".
//!
//! Every test in this file FAILS on the current code. Only the public API is used.
//! "Same structure" is checked on the `Debug` rendering of `Query` (it shows every field).

use stam::*;

/// For a query TEXT: parsing may refuse it with an error (that is within the property), but when it is
/// accepted, printing must work, the printed text must parse (completely) to a query with the same structure,
/// and printing that must give the same text again.
fn assert_parse_print_fixpoint(input: &str) {
    let (q1, _) = match Query::parse(input) {
        Ok(x) => x,
        Err(_) => return, // a syntax error is a legitimate outcome
    };
    let d1 = format!("{:?}", q1);
    let s1 = q1
        .to_string()
        .unwrap_or_else(|e| panic!("a query that was PARSED cannot be printed: {}\n  query: {}", e, d1));
    let (q2, rem) = Query::parse(&s1).unwrap_or_else(|e| {
        panic!(
            "the printed form of a parsed query does not parse: {}\n  printed: {:?}\n  query: {}",
            e, s1, d1
        )
    });
    assert!(
        rem.trim().is_empty(),
        "the printed form is not consumed entirely, left over {:?}\n  printed: {:?}",
        rem,
        s1
    );
    let d2 = format!("{:?}", q2);
    assert_eq!(d1, d2, "structure changed by print+parse; printed: {:?}", s1);
    let s2 = q2.to_string().expect("second print");
    assert_eq!(s1, s2, "printing is not a fixpoint");
}

/// For a query BUILT in code: `to_string()` may refuse it with an error ("not printable"), but when it returns
/// text, that text must parse to a query with the same structure.
fn assert_built_print_roundtrip(q1: Query) {
    let d1 = format!("{:?}", q1);
    let s1 = match q1.to_string() {
        Ok(s) => s,
        Err(_) => return, // refusing to print is a legitimate outcome
    };
    let (q2, rem) = Query::parse(&s1).unwrap_or_else(|e| {
        panic!(
            "to_string() returned text that does not parse: {}\n  printed: {:?}\n  query: {}",
            e, s1, d1
        )
    });
    assert!(rem.trim().is_empty(), "left over {:?} in {:?}", rem, s1);
    let d2 = format!("{:?}", q2);
    assert_eq!(d1, d2, "structure changed by print+parse; printed: {:?}", s1);
}

// ---------------------------------------------------------------------------------------------------------
// A. queries that the PARSER produces
// ---------------------------------------------------------------------------------------------------------

/// A float literal beyond the range of f64 (310 digits) is accepted: `str::parse::<f64>()` gives infinity.
/// `EqualsFloat(inf)` is then printed as `= inf`, which parses back as the STRING "inf" (structure changes);
/// with `>`/`<` the printed text (`> -inf`) is a syntax error.
/// Cause: src/api/query.rs `parse_float_arg` (no finiteness check) and src/datavalue.rs `float_to_query`
/// (prints non-finite values as `inf`/`-inf`/`NaN`, which are not float literals of the grammar);
/// the same in `Assignment::to_string` for `DATA` assignments in ADD queries.
#[test]
fn float_literal_out_of_range_becomes_inf_and_does_not_roundtrip() {
    let big = format!("1{}.0", "0".repeat(310));
    assert_parse_print_fixpoint(&format!("SELECT DATA WHERE VALUE = {};", big));
    assert_parse_print_fixpoint(&format!("SELECT DATA WHERE VALUE > -{};", big));
    assert_parse_print_fixpoint(&format!(
        "ADD ANNOTATION WITH DATA \"s\" \"k\" {}; {{ SELECT TEXT ?x }}",
        big
    ));
}

/// `TEXT "?why not";` (a search for the literal text `?why not`) is taken for a VARIABLE named `why not`,
/// because the parser only looks whether the argument starts with `?` after the quotes are gone. The variable is
/// printed bare: `TEXT ?why not;`, which does not parse. The same for ANNOTATION, RESOURCE, DATASET, DATA, KEY,
/// SUBSTORE and RELATION, and for names with `;` in them.
/// Cause: src/api/query.rs `Constraint::parse`: `arg.starts_with("?")` ignores whether `get_arg` saw quotes;
/// `Constraint::to_string` prints variable names without any check.
#[test]
fn quoted_argument_starting_with_question_mark_is_printed_as_broken_variable() {
    assert_parse_print_fixpoint("SELECT TEXT WHERE TEXT \"?why not\";");
}
#[test]
fn quoted_argument_starting_with_question_mark_other_keywords() {
    assert_parse_print_fixpoint("SELECT ANNOTATION WHERE ANNOTATION \"?a b\";");
    assert_parse_print_fixpoint("SELECT ANNOTATION WHERE DATA \"?a b\";");
    assert_parse_print_fixpoint("SELECT TEXT WHERE TEXT \"?a;b\";");
    assert_parse_print_fixpoint("SELECT ANNOTATION WHERE RELATION \"?x y\" EMBEDS;");
}

/// An unquoted argument that ends in a backslash (`ID C:\dir\;`) is accepted as `C:\dir\`; it is printed as
/// `ID "C:\dir\";` where the final backslash now escapes the closing quote: the printed text does not parse
/// (or, when another quote follows later, the string swallows the constraints in between).
/// Cause: src/api/query.rs `get_arg`: the terminators of an unquoted argument do not look at `escaped`, while
/// the closing quote does; `Constraint::to_string`/`DataOperator::to_string` (src/datavalue.rs) print strings as is.
#[test]
fn unquoted_argument_ending_in_backslash_breaks_the_printed_query() {
    assert_parse_print_fixpoint("SELECT ANNOTATION WHERE ID C:\\dir\\;");
}
#[test]
fn unquoted_argument_ending_in_backslash_swallows_the_next_constraint() {
    assert_parse_print_fixpoint("SELECT ANNOTATION WHERE ID C:\\; TEXT \"x\";");
    assert_parse_print_fixpoint("SELECT DATA WHERE VALUE = a\\;");
}

/// An identifier that spells `AS` or `RECURSIVE` is taken for the keyword even when it is quoted. After a
/// `RECURSIVE` (which RESOURCE/DATASET/DATA accept and drop) such an identifier is accepted, and the printed
/// form (`RESOURCE "AS";`, `RESOURCE "RECURSIVE";`) is a syntax error or another query (identifier "").
/// Cause: src/api/query.rs `parse_qualifiers` compares the argument with "AS"/"RECURSIVE" without knowing
/// whether it was quoted (`get_arg` has dropped the quotes).
#[test]
fn quoted_identifier_spelling_a_qualifier_keyword() {
    assert_parse_print_fixpoint("SELECT TEXT WHERE RESOURCE RECURSIVE \"AS\";");
    assert_parse_print_fixpoint("SELECT TEXT WHERE RESOURCE RECURSIVE \"RECURSIVE\";");
    assert_parse_print_fixpoint("SELECT ANNOTATION WHERE DATA RECURSIVE \"AS\" \"k\";");
}

/// A value list (`= a|b`, `= "a|b"`, `!= 1|2`) is accepted by the parser but the resulting query cannot be
/// printed at all: `to_string()` returns an error.
/// Cause: src/datavalue.rs `DataOperator::to_string` has no case for `Or` (nor `Not(Or)`), although
/// src/api/query.rs `parse_dataoperator` produces them.
#[test]
fn value_list_is_parsed_but_cannot_be_printed() {
    assert_parse_print_fixpoint("SELECT ANNOTATION WHERE DATA \"s\" \"k\" = a|b;");
}

/// A variable name is cut at ASCII white space only, so it can end in other Unicode white space (here U+00A0,
/// e.g. pasted text). When nothing is printed after the name, that character ends the printed text and
/// `Query::parse` trims it away: the reparsed query has another name (`x` instead of `x\u{a0}`).
/// Cause: src/api/query.rs `Query::parse_name` splits on QUERYSPLITCHARS (space, \n, \r, \t) whereas
/// `Query::parse`/`parse_with_attributes` use `str::trim()` (all Unicode white space).
#[test]
fn variable_name_ending_in_unicode_whitespace_is_trimmed_on_reparse() {
    assert_parse_print_fixpoint("SELECT ANNOTATION ?x\u{a0}\nWHERE");
    assert_parse_print_fixpoint("SELECT TEXT ?y\u{2003} { }");
}

/// Runs `body` in a child process (this same test binary, this same test) so that an abort of the process
/// can be observed; returns true when the child ended normally.
fn survives_in_child(testname: &str, body: impl FnOnce()) -> bool {
    if std::env::var("HC09_CHILD").as_deref() == Ok(testname) {
        body();
        return true;
    }
    let status = std::process::Command::new(std::env::current_exe().expect("test binary"))
        .args(["--exact", testname, "--test-threads=1"])
        .env("HC09_CHILD", testname)
        .stdout(std::process::Stdio::null())
        .stderr(std::process::Stdio::null())
        .status()
        .expect("child process");
    status.success()
}

/// Nested unions: 2000 bytes of `[ [ [ ...` (1000 levels; here 100000 to be independent of the build mode)
/// make the parser overflow the stack: the process is aborted ("has overflowed its stack", SIGABRT),
/// no query and no syntax error is returned.
/// Cause: src/api/query.rs `Constraint::parse` calls itself for every `[` with no limit on the depth.
#[test]
fn deeply_nested_union_aborts_the_process() {
    let ok = survives_in_child("deeply_nested_union_aborts_the_process", || {
        let s = format!("SELECT ANNOTATION WHERE {}", "[ ".repeat(100_000));
        let r = Query::parse(&s);
        std::mem::forget(r); //(only the parser is under test, not the destructor)
    });
    assert!(ok, "Query::parse aborted the process on nested '[' instead of returning a query or an error");
}

/// The same for nested sub-queries (`SELECT ANNOTATION { SELECT ANNOTATION { ...`).
/// Cause: src/api/query.rs `parse_select` -> `parse_subqueries` -> `parse_select` recursion with no limit.
#[test]
fn deeply_nested_subqueries_abort_the_process() {
    let ok = survives_in_child("deeply_nested_subqueries_abort_the_process", || {
        let s = format!("{}SELECT ANNOTATION", "SELECT ANNOTATION { ".repeat(100_000));
        let r = Query::parse(&s);
        std::mem::forget(r);
    });
    assert!(ok, "Query::parse aborted the process on nested '{{' instead of returning a query or an error");
}

// ---------------------------------------------------------------------------------------------------------
// B. queries BUILT with the API, for which to_string() returns Ok(text)
// ---------------------------------------------------------------------------------------------------------

fn select() -> Query<'static> {
    Query::new(QueryType::Select, Some(Type::Annotation), Some("a"))
}

/// A string with a double quote in it is printed without escaping: `TEXT "say "hi"";` does not parse.
/// Cause: src/api/query.rs `Constraint::to_string` (and `Assignment::to_string`, `DataOperator::to_string`
/// in src/datavalue.rs) interpolate strings between quotes as they are.
#[test]
fn built_query_string_with_quote_is_not_escaped() {
    assert_built_print_roundtrip(
        select().with_constraint(Constraint::Text("say \"hi\"", TextMode::Exact)),
    );
}

/// `Equals("a|b")` (one string with a pipe in it) is printed as `= "a|b"`, which the parser reads as the LIST
/// a, b (operator `Or`): another meaning, and a query that can then not be printed any more.
/// Cause: src/datavalue.rs `DataOperator::to_string` does not escape `|` as `\|`; src/api/query.rs `get_arg_type`
/// makes a list of any argument with an unescaped pipe.
#[test]
fn built_query_string_with_pipe_becomes_a_list() {
    assert_built_print_roundtrip(select().with_constraint(Constraint::Value(
        DataOperator::Equals("a|b".into()),
        SelectionQualifier::Normal,
    )));
}

/// Searching for the word AS: `Constraint::Text("AS")` is printed as `TEXT "AS";`, which is a syntax error
/// ("Expected keyword REGEX or NOCASE after TEXT AS"); `Text("?x")` comes back as the variable ?x and
/// `SubStore(Some("NONE"))` comes back as `SubStore(None)`.
/// Cause: src/api/query.rs `parse_text_qualifiers` / `parse_qualifiers` / `Constraint::parse` test the argument
/// against keywords and `?` after the quotes are gone.
#[test]
fn built_query_text_spelling_a_keyword() {
    assert_built_print_roundtrip(select().with_constraint(Constraint::Text("AS", TextMode::Exact)));
}
#[test]
fn built_query_text_starting_with_question_mark() {
    assert_built_print_roundtrip(select().with_constraint(Constraint::Text("?x", TextMode::Exact)));
}
#[test]
fn built_query_substore_called_none() {
    assert_built_print_roundtrip(select().with_constraint(Constraint::SubStore(Some("NONE"))));
}

/// `AnnotationDepth::Zero` (used by the library itself) has no syntax; it is silently printed like `One`, so the
/// printed query means something else.
/// Cause: src/api/query.rs `Constraint::to_string`, cases `Annotation`/`AnnotationVariable`: only `Max` is told apart.
#[test]
fn built_query_annotation_depth_zero_is_printed_as_one() {
    assert_built_print_roundtrip(select().with_constraint(Constraint::Annotation(
        "x",
        SelectionQualifier::Normal,
        AnnotationDepth::Zero,
        None,
    )));
}

/// The flags of a text relation operator (`negate`, `all`) are dropped by the printer: NOT-EMBEDS is printed as
/// `RELATION ?x EMBEDS;` (the opposite meaning).
/// Cause: src/api/query.rs `Constraint::to_string`, case `TextRelation`: prints `operator.as_str()` only
/// (src/textselection.rs `TextSelectionOperator::as_str`).
#[test]
fn built_query_negated_text_relation_is_printed_without_negation() {
    assert_built_print_roundtrip(select().with_constraint(Constraint::TextRelation {
        var: "x",
        operator: TextSelectionOperator::Embeds {
            all: false,
            negate: true,
        },
    }));
}

/// NaN is printed as `= NaN`, which parses as the string "NaN" (same cause as the out-of-range literal above).
#[test]
fn built_query_nan_is_printed_as_a_string() {
    assert_built_print_roundtrip(select().with_constraint(Constraint::Value(
        DataOperator::EqualsFloat(f64::NAN),
        SelectionQualifier::Normal,
    )));
}

// ---------------------------------------------------------------------------------------------------------
// C. queries built over handles: the structure cannot be kept (handles become identifiers), the MEANING must
// ---------------------------------------------------------------------------------------------------------

fn handle_store() -> AnnotationStore {
    let mut store = AnnotationStore::default()
        .with_id("test")
        .with_resource(TextResourceBuilder::new().with_id("r").with_text("Hello world"))
        .unwrap()
        .with_dataset(AnnotationDataSetBuilder::new().with_id("s"))
        .unwrap();
    store
        .annotate(
            AnnotationBuilder::new()
                .with_id("A1")
                .with_target(SelectorBuilder::textselector("r", Offset::simple(0, 5)))
                .with_data("s", "k", DataValue::List(vec![DataValue::Int(1), DataValue::Int(2)])),
        )
        .unwrap();
    store
        .annotate(
            AnnotationBuilder::new()
                .with_id("A2")
                .with_target(SelectorBuilder::textselector("r", Offset::simple(6, 11)))
                .with_data("s", "k", DataValue::Null),
        )
        .unwrap();
    store
}

fn run(store: &AnnotationStore, q: Query) -> Vec<String> {
    let mut out = Vec::new();
    for results in store.query(q).expect("query") {
        for r in results.iter() {
            out.push(match r {
                QueryResultItem::Annotation(a) => format!("annotation {}", a.id().unwrap_or("?")),
                QueryResultItem::AnnotationData(d) => format!("data {:?}", d.value()),
                QueryResultItem::TextSelection(t) => format!("text {}-{}", t.begin(), t.end()),
                _ => "other".to_string(),
            });
        }
    }
    out
}

/// `Constraint::Data` over a data item whose value is a LIST is printed as `DATA "s" "k" = null`: the printed
/// query selects the item with value null instead of the item with the list.
/// Cause: src/api/query.rs `Constraint::to_string`, case `Data`, uses `DataOperator::from(&DataValue)`
/// (src/datavalue.rs), which turns a list into `DataOperator::Null` (with a warning on stderr) instead of failing.
#[test]
fn handles_data_with_list_value_is_printed_as_null() {
    let store = handle_store();
    let listdata: Handles<AnnotationData> = store
        .dataset("s")
        .unwrap()
        .data()
        .filter(|d| matches!(d.value(), DataValue::List(_)))
        .to_handles(&store);
    assert_eq!(listdata.len(), 1);
    let q1 = Query::new(QueryType::Select, Some(Type::AnnotationData), Some("x"))
        .with_constraint(Constraint::Data(listdata, SelectionQualifier::Normal));
    let printed = match q1.to_string() {
        Ok(s) => s,
        Err(_) => return, //refusing to print would be fine
    };
    let expected = run(&store, q1);
    let (q2, _) = Query::parse(&printed).expect("printed query must parse");
    assert_eq!(
        expected,
        run(&store, q2),
        "the printed query {:?} selects other data",
        printed
    );
}

/// `Constraint::TextSelections` is printed as `[ RESOURCE "r" OFFSET 0 5 OR RESOURCE "r" OFFSET 6 11 ];`, which
/// the evaluator refuses for the very result types for which the handle constraint works ("Constraint RESOURCE
/// (primary) is not implemented for queries over annotations", "Constraint UNION (primary) is not implemented
/// for queries over TEXT selections"): the built query finds A1 and A2, the printed one finds nothing.
/// Cause: src/api/query.rs `Constraint::to_string`, case `TextSelections`, emits syntax that `QueryIter` does not
/// implement (RESOURCE with OFFSET over annotations/data; any union over text selections).
#[test]
fn handles_textselections_are_printed_as_a_query_that_finds_nothing() {
    let store = handle_store();
    let ts: Handles<TextSelection> = store.resource("r").unwrap().textselections().to_handles(&store);
    assert_eq!(ts.len(), 2);
    let q1 = Query::new(QueryType::Select, Some(Type::Annotation), Some("x"))
        .with_constraint(Constraint::TextSelections(ts, SelectionQualifier::Normal));
    let printed = match q1.to_string() {
        Ok(s) => s,
        Err(_) => return,
    };
    let expected = run(&store, q1);
    assert_eq!(expected.len(), 2);
    let (q2, _) = Query::parse(&printed).expect("printed query must parse");
    assert_eq!(
        expected,
        run(&store, q2),
        "the printed query {:?} has another meaning",
        printed
    );
}
