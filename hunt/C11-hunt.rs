//! Violations of the property "a CBOR round trip preserves the store and all of its indices".
//! Every test here FAILS on the current code; each would pass on a correct implementation.
//! All files are written below /tmp/wt-hc11/target/hunt-hc11/.

use stam::*;

const DIR: &str = "/tmp/wt-hc11/target/hunt-hc11";

/// a fresh directory of its own for one test
fn fresh_dir(name: &str) -> String {
    let dir = format!("{}/{}", DIR, name);
    let _ = std::fs::remove_dir_all(&dir);
    std::fs::create_dir_all(&dir).expect("creating test directory");
    dir
}

fn json_store_with_datetime(datetime: &str) -> String {
    format!(
        r#"{{"@type":"AnnotationStore","@id":"x",
            "resources":[{{"@type":"TextResource","@id":"r","text":"hello"}}],
            "annotationsets":[{{"@type":"AnnotationDataSet","@id":"s",
                "keys":[{{"@type":"DataKey","@id":"when"}}],
                "data":[{{"@type":"AnnotationData","@id":"d","key":"when",
                         "value":{{"@type":"Datetime","value":"{}"}}}}]}}],
            "annotations":[{{"@type":"Annotation","@id":"A",
                "target":{{"@type":"ResourceSelector","resource":"r"}},
                "data":[{{"@type":"AnnotationData","@id":"d","set":"s"}}]}}]}}"#,
        datetime
    )
}

/// A date before the year 0 (or after the year 9999) makes the saved CBOR file unreadable.
///
/// Input: a STAM JSON store holding the value `{"@type":"Datetime","value":"-0043-03-15T12:00:00+00:00"}`
/// (the Ides of March, 44 BCE). The JSON reader accepts it, `to_file("….cbor")` succeeds, but
/// `from_file` on that file fails with `DeserializationError("decode error")`: the whole store is lost.
/// The same happens with "+12345-01-01T00:00:00Z".
///
/// Cause: src/cbor.rs, `cbor_encode_datetime` writes `DateTime::to_rfc3339()`, which for such years
/// produces a signed year ("-0043-…", "+12345-…"); `cbor_decode_datetime` reads it back with
/// `DateTime::parse_from_rfc3339`, which only accepts an unsigned four-digit year. The encoder writes
/// something its own decoder cannot read.
#[test]
fn datetime_before_year_zero_makes_cbor_unloadable() {
    let dir = fresh_dir("datetime_bce");
    let mut store = AnnotationStore::from_str(
        &json_store_with_datetime("-0043-03-15T12:00:00+00:00"),
        Config::default(),
    )
    .expect("the JSON reader accepts the date");
    let before = store
        .annotationdata("s", "d")
        .expect("data exists")
        .value()
        .clone();
    assert!(matches!(before, DataValue::Datetime(_)));

    let filename = format!("{}/bce.store.stam.cbor", dir);
    store.to_file(&filename).expect("saving as CBOR succeeds");

    let loaded = AnnotationStore::from_file(&filename, Config::default())
        .expect("a CBOR file the library has just written must be loadable again");
    let after = loaded
        .annotationdata("s", "d")
        .expect("data exists after the round trip")
        .value()
        .clone();
    assert_eq!(before, after);
}

/// A date whose UTC offset is not a whole number of minutes comes back as a different instant.
///
/// Input: `DataValue::Datetime` for 2023-11-14T22:13:20Z expressed in the offset +00:19:32 (Amsterdam
/// local mean time, the legal time of the Netherlands until 1937), built with the re-exported chrono types.
/// After the round trip the value is `…+00:20`: the offset was rounded to the minute while the local clock
/// time was kept, so the instant moved by 28 seconds, `DataValue`'s `==` says the values differ and
/// `find_data(…, DataOperator::Equals…)`-style lookups with the original value no longer match.
///
/// Cause: src/cbor.rs, `cbor_encode_datetime` uses `DateTime::to_rfc3339()`, whose offset has minute
/// precision only (chrono rounds the seconds away); `cbor_decode_datetime` then takes the rounded offset
/// at face value.
#[test]
fn datetime_offset_with_seconds_is_altered() {
    let dir = fresh_dir("datetime_offset");
    let offset = FixedOffset::east_opt(19 * 60 + 32).unwrap();
    let datetime: DateTime<FixedOffset> = DateTime::from_timestamp(1_700_000_000, 0)
        .unwrap()
        .with_timezone(&offset);
    let mut store = AnnotationStore::default()
        .with_id("x")
        .with_resource(TextResourceBuilder::new().with_id("r").with_text("hello"))
        .unwrap()
        .with_annotation(
            AnnotationBuilder::new()
                .with_id("A")
                .with_target(SelectorBuilder::resourceselector("r"))
                .with_data_with_id("s", "when", DataValue::Datetime(datetime), "d"),
        )
        .unwrap();
    let before = store.annotationdata("s", "d").unwrap().value().clone();

    let filename = format!("{}/offset.store.stam.cbor", dir);
    store.to_file(&filename).expect("saving as CBOR");
    let loaded = AnnotationStore::from_file(&filename, Config::default()).expect("loading CBOR");
    let after = loaded.annotationdata("s", "d").unwrap().value().clone();

    // the instant (what == compares) and the offset (what is shown) must both survive
    assert_eq!(before, after, "the instant changed in the round trip");
    assert_eq!(format!("{:?}", before), format!("{:?}", after));
}

/// The pending write of a new stand-off text file is forgotten by the round trip, after which saving
/// the loaded store as STAM JSON produces a store that cannot be loaded (the text is gone).
///
/// Input: a store with a resource built from `with_filename("r.txt").with_text(…)`, i.e. a stand-off
/// resource whose file does not exist yet (the library flags it `changed` so that the next JSON save
/// writes r.txt). Saving this store as JSON writes r.txt (also when it was first saved as CBOR). But after
/// `to_file(cbor)` + `from_file(cbor)`, `to_file(json)` on the loaded store emits `"@include": "r.txt"`
/// and writes no r.txt: the original and the loaded store are distinguishable through the API, and
/// the loaded one silently loses the text.
///
/// Cause: src/resources.rs, `TextResource::changed` is `#[cbor(skip)]` ("this used to be n(5)"), so the
/// decoded resource gets `Default` = false whatever the saved state was (same for
/// `AnnotationDataSet::changed` in src/annotationdataset.rs, which is masked there because
/// `AnnotationStore::set_dataformat` marks every dataset as changed when going from CBOR to JSON; it does
/// not do so for resources). `TextResource::serialize` (src/resources.rs) only writes the stand-off file
/// `if self.changed()`.
#[test]
fn pending_standoff_text_write_is_lost() {
    let build = |dir: &str| {
        let mut store =
            AnnotationStore::new(Config::default().with_workdir(dir.to_string())).with_id("x");
        store
            .add_resource(
                TextResourceBuilder::new()
                    .with_id("r")
                    .with_filename("r.txt")
                    .with_text("hello world"),
            )
            .unwrap();
        store
            .annotate(
                AnnotationBuilder::new()
                    .with_id("A")
                    .with_target(SelectorBuilder::textselector("r", Offset::simple(0, 5)))
                    .with_data("s", "k", "v"),
            )
            .unwrap();
        store
    };

    // control: the store that was saved as CBOR (but not reloaded) writes r.txt when saved as JSON
    let control_dir = fresh_dir("changed_control");
    let mut control = build(&control_dir);
    control.to_file("x.store.stam.cbor").unwrap();
    control.to_file("x.store.stam.json").unwrap();
    assert!(
        std::path::Path::new(&format!("{}/r.txt", control_dir)).exists(),
        "control: the store that did not go through a reload writes the stand-off text"
    );

    // the same, but continuing with the store loaded from the CBOR file
    let dir = fresh_dir("changed_roundtrip");
    let mut store = build(&dir);
    store.to_file("x.store.stam.cbor").unwrap();
    let mut loaded = AnnotationStore::from_file(
        "x.store.stam.cbor",
        Config::default().with_workdir(dir.clone()),
    )
    .expect("loading CBOR");
    loaded.to_file("x.store.stam.json").unwrap();
    assert!(
        std::path::Path::new(&format!("{}/r.txt", dir)).exists(),
        "the loaded store must behave like the saved one and write the stand-off text file"
    );
    let reloaded = AnnotationStore::from_file(
        "x.store.stam.json",
        Config::default().with_workdir(dir.clone()),
    )
    .expect("the JSON written by the loaded store must be loadable");
    assert_eq!(reloaded.resource("r").unwrap().text(), "hello world");
}

/// `to_file("name.cbor")` does not write name.cbor, so loading "it" again fails.
///
/// Input: any store (default configuration, i.e. JSON data format), `to_file("<dir>/plain.cbor")` followed by
/// `from_file("<dir>/plain.cbor")`. The save succeeds but creates `<dir>/plain.store.stam.cbor`; the load
/// fails with "No such file or directory". The same happens with the extension `.stam.cbor`, which
/// src/types.rs documents as the canonical one.
///
/// Cause: src/annotationstore.rs, `AnnotationStore::set_dataformat` (called by `set_filename` when the
/// extension asks for a format other than the configured one) overwrites `self.filename` with
/// `format!("{}.store.stam.cbor", basename)`, the basename being the requested name stripped of any known
/// extension, instead of keeping the name the caller gave.
#[test]
fn to_file_with_plain_cbor_extension_writes_elsewhere() {
    let dir = fresh_dir("naming");
    let mut store = AnnotationStore::default()
        .with_id("x")
        .with_resource(TextResourceBuilder::new().with_id("r").with_text("hello"))
        .unwrap();
    let filename = format!("{}/plain.cbor", dir);
    store.to_file(&filename).expect("saving as CBOR");
    assert!(
        std::path::Path::new(&filename).exists(),
        "to_file() must write the file it was asked to write, found: {:?}",
        std::fs::read_dir(&dir)
            .unwrap()
            .map(|e| e.unwrap().file_name())
            .collect::<Vec<_>>()
    );
    let loaded = AnnotationStore::from_file(&filename, Config::default())
        .expect("loading the file that was just saved");
    assert_eq!(loaded.resource("r").unwrap().text(), "hello");
}
