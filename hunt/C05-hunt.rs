//! Violations of "STAM JSON round trip preserves the whole model".
//! Every test below FAILS on the current code; each comment says what is wrong and where the cause lies.
//! Tests that write files use a directory of their own under target/hunt-hc05/.
#![allow(dead_code)]
use stam::*;
use std::collections::BTreeMap;
use std::fmt::Write as _;

// ------------------------------------------------------------------------------------------------
// helpers: a dump of the whole model through the public API, independent of handles
// ------------------------------------------------------------------------------------------------

/// An annotation is named by its public id, or (if it has none) by its position in the store's order
fn ann_name(store: &AnnotationStore, h: AnnotationHandle) -> String {
    let a = store.annotation(h).expect("annotation exists");
    if let Some(id) = a.id() {
        format!("id:{}", id)
    } else {
        let pos = store
            .annotations()
            .position(|x| x.handle() == h)
            .expect("position");
        format!("anon#{}", pos)
    }
}

/// Data is named by set + public id, or (if it has none) by its position in the set
fn data_name(store: &AnnotationStore, s: AnnotationDataSetHandle, d: AnnotationDataHandle) -> String {
    let set = store.dataset(s).expect("set");
    let data = set.annotationdata(d).expect("data");
    let setname = set
        .id()
        .map(|x| x.to_string())
        .unwrap_or_else(|| "(anonymous set)".to_string());
    if let Some(id) = data.id() {
        format!("{}/id:{}", setname, id)
    } else {
        let pos = set.data().position(|x| x.handle() == d).expect("pos");
        format!("{}/anon#{}", setname, pos)
    }
}

fn sel_dump(store: &AnnotationStore, sel: &Selector, out: &mut String) {
    match sel {
        Selector::ResourceSelector(r) => {
            let res = store.resource(*r).expect("res");
            write!(out, "Resource({})", res.id().unwrap()).unwrap();
        }
        Selector::TextSelector(r, t, mode) => {
            let res = store.resource(*r).expect("res");
            let ts: &TextSelection = res.as_ref().get(*t).expect("tsel");
            write!(
                out,
                "Text({},{}-{},{:?},{:?})",
                res.id().unwrap(),
                ts.begin(),
                ts.end(),
                mode,
                sel.offset(store)
            )
            .unwrap();
        }
        Selector::AnnotationSelector(a, None) => {
            write!(out, "Annotation({})", ann_name(store, *a)).unwrap();
        }
        Selector::AnnotationSelector(a, Some((r, t, mode))) => {
            let res = store.resource(*r).expect("res");
            let ts: &TextSelection = res.as_ref().get(*t).expect("tsel");
            write!(
                out,
                "Annotation({},{},{}-{},{:?},{:?})",
                ann_name(store, *a),
                res.id().unwrap(),
                ts.begin(),
                ts.end(),
                mode,
                sel.offset(store)
            )
            .unwrap();
        }
        Selector::DataSetSelector(s) => {
            let set = store.dataset(*s).expect("set");
            write!(out, "DataSet({:?})", set.id()).unwrap();
        }
        Selector::DataKeySelector(s, k) => {
            let set = store.dataset(*s).expect("set");
            let key = set.key(*k).expect("key");
            write!(out, "Key({:?},{})", set.id(), key.as_str()).unwrap();
        }
        Selector::AnnotationDataSelector(s, d) => {
            write!(out, "Data({})", data_name(store, *s, *d)).unwrap();
        }
        Selector::MultiSelector(v)
        | Selector::CompositeSelector(v)
        | Selector::DirectionalSelector(v) => {
            let name = match sel {
                Selector::MultiSelector(_) => "Multi",
                Selector::CompositeSelector(_) => "Composite",
                _ => "Directional",
            };
            write!(out, "{}[", name).unwrap();
            for sub in v.iter() {
                match sub {
                    //internal range compression is not part of the model: expand it
                    Selector::RangedTextSelector { .. }
                    | Selector::RangedAnnotationSelector { .. } => {
                        for x in sub.iter(store, false) {
                            sel_dump(store, x.as_ref(), out);
                            out.push_str("; ");
                        }
                    }
                    _ => {
                        sel_dump(store, sub, out);
                        out.push_str("; ");
                    }
                }
            }
            out.push(']');
        }
        _ => out.push_str("(internal ranged selector at top level)"),
    }
}

/// resources and texts, datasets, keys, typed values, annotations in order with ids, targets and data
fn dump(store: &AnnotationStore) -> String {
    let mut out = String::new();
    writeln!(out, "STORE id={:?}", store.id()).unwrap();
    for res in store.resources() {
        writeln!(
            out,
            "RESOURCE id={:?} file={:?} text={:?}",
            res.id(),
            res.as_ref().filename(),
            res.text()
        )
        .unwrap();
    }
    for set in store.datasets() {
        writeln!(
            out,
            "DATASET id={:?} file={:?}",
            set.id(),
            set.as_ref().filename()
        )
        .unwrap();
        for key in set.keys() {
            writeln!(out, "  KEY {:?}", key.as_str()).unwrap();
        }
        for data in set.data() {
            writeln!(
                out,
                "  DATA id={:?} key={:?} value={:?}",
                data.id(),
                data.key().as_str(),
                data.value()
            )
            .unwrap();
        }
    }
    for a in store.annotations() {
        let mut t = String::new();
        sel_dump(store, a.as_ref().target(), &mut t);
        let mut d = String::new();
        for (s, dh) in a.as_ref().data() {
            d.push_str(&data_name(store, *s, *dh));
            d.push_str(", ");
        }
        writeln!(out, "ANNOTATION id={:?} target={} data=[{}]", a.id(), t, d).unwrap();
    }
    out
}

fn json(store: &AnnotationStore, compact: bool) -> Result<String, StamError> {
    let cfg = Config::default().with_dataformat(DataFormat::Json { compact });
    ToJson::to_json_string(store, &cfg)
}

/// Round trip through a string (pretty and compact): same model, and the second write equals the first
fn roundtrip_str(store: &AnnotationStore) {
    for compact in [false, true] {
        let before = dump(store);
        let j1 = json(store, compact).expect("the store must be writable");
        let store2 = match AnnotationStore::from_json_str(&j1, Config::default()) {
            Ok(s) => s,
            Err(e) => panic!("what was written can not be read back: {}\n---json---\n{}", e, j1),
        };
        let after = dump(&store2);
        assert_eq!(
            before, after,
            "model differs after round trip\n---json---\n{}",
            j1
        );
        let j2 = json(&store2, compact).expect("the reloaded store must be writable");
        assert_eq!(j1, j2, "second write differs from the first");
    }
}

fn fresh_dir(name: &str) -> String {
    let dir = format!("{}/target/hunt-hc05/{}", env!("CARGO_MANIFEST_DIR"), name);
    let _ = std::fs::remove_dir_all(&dir);
    std::fs::create_dir_all(&dir).unwrap();
    dir
}

fn read_all(dir: &str) -> BTreeMap<String, String> {
    let mut m = BTreeMap::new();
    for e in std::fs::read_dir(dir).unwrap() {
        let e = e.unwrap();
        if e.path().is_file() {
            m.insert(
                e.file_name().to_string_lossy().to_string(),
                std::fs::read_to_string(e.path()).unwrap(),
            );
        }
    }
    m
}

/// Saves the store as `dir`/main.store.stam.json (plus whatever stand-off files belong to it), loads that,
/// compares the models, saves the loaded store again and compares all files with the first write.
fn roundtrip_files(store: &mut AnnotationStore, dir: &str) -> AnnotationStore {
    let before = dump(store);
    let path = format!("{}/main.store.stam.json", dir);
    store.set_filename(&path);
    store.save().expect("the store must be writable");
    let files1 = read_all(dir);
    let store2 = match AnnotationStore::from_file(&path, Config::default()) {
        Ok(s) => s,
        Err(e) => panic!(
            "what was written can not be read back: {}\n---files---\n{:#?}",
            e, files1
        ),
    };
    let after = dump(&store2);
    assert_eq!(
        before, after,
        "model differs after round trip\n---files---\n{:#?}",
        files1
    );
    store2.save().expect("the reloaded store must be writable");
    let files2 = read_all(dir);
    assert_eq!(files1, files2, "second write differs from the first");
    store2
}

fn base() -> AnnotationStore {
    AnnotationStore::default()
        .with_id("test")
        .with_resource(
            TextResourceBuilder::new()
                .with_id("r1")
                .with_text("Hallå wörld, ünïcode ☺ text here"),
        )
        .unwrap()
        .with_dataset(AnnotationDataSetBuilder::new().with_id("s1"))
        .unwrap()
}

fn new_store_in(dir: &str) -> AnnotationStore {
    let mut store =
        AnnotationStore::new(Config::default().with_workdir(dir.to_string())).with_id("main");
    store.set_filename(&format!("{}/main.store.stam.json", dir));
    store
}

// ------------------------------------------------------------------------------------------------
// 1. range compression of annotation sub-selectors loses the alignment once a gap has been closed
// ------------------------------------------------------------------------------------------------

/// w0, w1, w2 carry public ids; w1 is removed (gap at handle 1); then a CompositeSelector names
/// w0 and w2, each with `Offset::whole()` (begin-aligned 0, end-aligned 0). Handles 0 and 2 are not
/// consecutive, so the two sub-selectors stay as they are and are written with `EndAlignedCursor 0`.
/// On reading, w2 moves to handle 1 (items with a public id close the gaps), the two sub-selectors
/// are now consecutive and `AnnotationStore::subselectors()` (src/annotationstore.rs, the
/// `(AnnotationSelector(_, Some(_)), AnnotationSelector(_, Some(_)))` arm) folds them into a
/// `RangedAnnotationSelector { with_text: true }`. That representation does not keep the offset mode:
/// `SelectorIter::get_internal_ranged_item()` (src/selector.rs) hands out `OffsetMode::default()`.
/// So the reloaded annotation has begin-aligned ends (0..5 and 0..7) where the original had end-aligned
/// ones, and the second write differs from the first.
#[test]
fn alignment_of_annotation_subselectors_survives_a_closed_gap() {
    let mut store = base();
    for (i, (b, e)) in [(0, 5), (6, 11), (13, 20)].iter().enumerate() {
        store
            .annotate(
                AnnotationBuilder::new()
                    .with_id(format!("w{}", i))
                    .with_target(SelectorBuilder::textselector("r1", Offset::simple(*b, *e)))
                    .with_data("s1", "type", "word"),
            )
            .unwrap();
    }
    store.remove_annotation("w1").unwrap();
    store
        .annotate(
            AnnotationBuilder::new()
                .with_id("phrase")
                .with_target(SelectorBuilder::compositeselector([
                    SelectorBuilder::annotationselector("w0", Some(Offset::whole())),
                    SelectorBuilder::annotationselector("w2", Some(Offset::whole())),
                ]))
                .with_data("s1", "type", "phrase"),
        )
        .unwrap();
    roundtrip_str(&store);
}

// ------------------------------------------------------------------------------------------------
// 2. a stand-off resource kept in a STAM JSON file is written as plain text
// ------------------------------------------------------------------------------------------------

/// A resource with the stand-off filename `rj.resource.stam.json` must be written as a STAM JSON
/// TextResource (that is how `TextResourceBuilder::build()` reads any include ending in `.json`).
/// `impl Serialize for TextResource` (src/resources.rs) shadows the filename string with the `PathBuf`
/// returned by `get_filepath()` and then tests `filename.ends_with(".json")`: on a path that compares whole
/// components, so it is never true and the raw text is written into the .json file.
/// Reading the store back fails with "expected value at line 1 column 1".
#[test]
fn standoff_resource_in_a_json_file() {
    let dir = fresh_dir("json-resource");
    let mut store = new_store_in(&dir);
    store
        .add_resource(
            TextResourceBuilder::new()
                .with_id("rj")
                .with_filename("rj.resource.stam.json")
                .with_text("json standoff ☺"),
        )
        .unwrap();
    store
        .annotate(
            AnnotationBuilder::new()
                .with_id("a")
                .with_target(SelectorBuilder::textselector("rj", Offset::simple(0, 4)))
                .with_data_with_id("s", "k", "v", "d"),
        )
        .unwrap();
    roundtrip_files(&mut store, &dir);
}

// ------------------------------------------------------------------------------------------------
// 3. a store with stand-off files that is written somewhere else can not be read back
// ------------------------------------------------------------------------------------------------

/// A store with a stand-off resource and a stand-off dataset is saved (and read back) in directory A,
/// then written to directory B with `set_filename()` + `save()`. `AnnotationStore::set_filename()`
/// (src/annotationstore.rs) points the working directory of all resources and datasets to B, but nothing
/// marks them as changed, and `impl Serialize for TextResource` / `for AnnotationDataSet` only write the
/// stand-off file `if self.changed()`. B receives a main file whose `@include`s name files that were
/// never written there; reading it back fails with "No such file or directory".
#[test]
fn store_with_standoff_files_written_to_another_directory() {
    let dir_a = fresh_dir("move-a");
    let mut store = new_store_in(&dir_a);
    store
        .add_resource(
            TextResourceBuilder::new()
                .with_id("r")
                .with_filename("r.txt")
                .with_text("Hello wonderful world"),
        )
        .unwrap();
    let s = store
        .add_dataset(AnnotationDataSetBuilder::new().with_id("s"))
        .unwrap();
    {
        let ds: &mut AnnotationDataSet = store.get_mut(s).unwrap();
        ds.set_filename("s.annotationset.stam.json");
    }
    store
        .annotate(
            AnnotationBuilder::new()
                .with_id("a")
                .with_target(SelectorBuilder::textselector("r", Offset::simple(0, 5)))
                .with_data_with_id("s", "k", "v", "d"),
        )
        .unwrap();
    //(this first round trip, inside A, is fine)
    let mut loaded = roundtrip_files(&mut store, &dir_a);
    let dir_b = fresh_dir("move-b");
    roundtrip_files(&mut loaded, &dir_b);
}

// ------------------------------------------------------------------------------------------------
// 4. temporary identifiers of annotations of the parent store, when there is a sub-store
// ------------------------------------------------------------------------------------------------

/// Four annotations without public id: #0 in the parent store, #1 in the sub-store, #2 (parent) on #1,
/// #3 (parent) on #2. The files carry "!A0", "!A2", "!A3" (parent) and "!A1" (sub-store).
/// The `@include` is read first, so "!A1" takes slot 1 and leaves slot 0 empty. For the parent's own
/// annotations `AnnotationsVisitor::visit_seq()` (src/annotationstore.rs) has `pre_length` = 2 and never
/// puts "!A0" into the empty slot 0 it names: it appends it as handle 2, "!A2" becomes 3, "!A3" becomes 4.
/// References are still resolved by the number in the identifier: the target "!A2" of the last annotation
/// now resolves to handle 2, which holds what used to be "!A0". So #3 silently targets the parent's
/// annotation on the text instead of the annotation on the sub-store's annotation; in addition the order of
/// the annotations changes (the sub-store's one comes first) and the second write ("!A2", "!A3", "!A4" in the
/// parent file) differs from the first.
/// (With a reference to "!A0" itself the file can not be read at all: slot 0 is empty.)
#[test]
fn anonymous_annotations_next_to_a_substore_keep_their_targets() {
    let dir = fresh_dir("substore-anon");
    let mut store = new_store_in(&dir);
    let sub = store.add_new_substore("sub", "sub.store.stam.json").unwrap();
    let r = store
        .add_resource(
            TextResourceBuilder::new()
                .with_id("r")
                .with_text("Hello wonderful world"),
        )
        .unwrap();
    store.associate_substore(r, sub).unwrap();
    let a0 = store
        .annotate(
            AnnotationBuilder::new()
                .with_target(SelectorBuilder::textselector("r", Offset::simple(0, 5)))
                .with_data("s", "k", "parent: on text"),
        )
        .unwrap();
    let s = store.resolve_dataset_id("s").unwrap();
    store.associate_substore(s, sub).unwrap();
    let a1 = store
        .annotate(
            AnnotationBuilder::new()
                .with_target(SelectorBuilder::textselector("r", Offset::simple(6, 15)))
                .with_data("s", "k", "substore: on text"),
        )
        .unwrap();
    store.associate_substore(a1, sub).unwrap();
    let a2 = store
        .annotate(
            AnnotationBuilder::new()
                .with_target(SelectorBuilder::annotationselector(a1, None))
                .with_data("s", "k", "parent: on the substore's annotation"),
        )
        .unwrap();
    store
        .annotate(
            AnnotationBuilder::new()
                .with_target(SelectorBuilder::annotationselector(a2, None))
                .with_data("s", "k", "parent: on the parent's annotation"),
        )
        .unwrap();
    let _ = a0;
    roundtrip_files(&mut store, &dir);
}

// ------------------------------------------------------------------------------------------------
// 5. stand-off resource / dataset shared by two sub-stores
// ------------------------------------------------------------------------------------------------

/// The documentation of `AssociateSubStore` says resources and datasets may belong to several sub-stores
/// "if and only if they are stand-off". `associate_substore()` for TextResource and AnnotationDataSet
/// (src/substore.rs) tests the opposite: `if resource.filename().is_some()` (comment: "the resource is not
/// stand-off, so the relation is exclusive") drops the earlier association exactly for stand-off items.
/// So after associating r.txt and s.annotationset.stam.json with sub1 and sub2, only sub2.store.stam.json
/// names them; sub1 (read first) has an annotation on a resource nobody has loaded yet and reading fails.
/// (All data carries public ids here, to keep this apart from the next test.)
#[test]
fn standoff_items_shared_by_two_substores() {
    let dir = fresh_dir("substores-shared");
    let mut store = new_store_in(&dir);
    let sub1 = store.add_new_substore("sub1", "sub1.store.stam.json").unwrap();
    let sub2 = store.add_new_substore("sub2", "sub2.store.stam.json").unwrap();
    let r = store
        .add_resource(
            TextResourceBuilder::new()
                .with_id("r")
                .with_filename("r.txt")
                .with_text("Hello wonderful world"),
        )
        .unwrap();
    let s = store
        .add_dataset(AnnotationDataSetBuilder::new().with_id("s"))
        .unwrap();
    {
        let ds: &mut AnnotationDataSet = store.get_mut(s).unwrap();
        ds.set_filename("s.annotationset.stam.json");
    }
    store.associate_substore(r, sub1).unwrap();
    store.associate_substore(r, sub2).unwrap();
    store.associate_substore(s, sub1).unwrap();
    store.associate_substore(s, sub2).unwrap();
    let a1 = store
        .annotate(
            AnnotationBuilder::new()
                .with_id("a1")
                .with_target(SelectorBuilder::textselector("r", Offset::simple(0, 5)))
                .with_data_with_id("s", "k", "in sub1", "d1"),
        )
        .unwrap();
    store.associate_substore(a1, sub1).unwrap();
    let a2 = store
        .annotate(
            AnnotationBuilder::new()
                .with_id("a2")
                .with_target(SelectorBuilder::textselector("r", Offset::simple(6, 15)))
                .with_data_with_id("s", "k", "in sub2", "d2"),
        )
        .unwrap();
    store.associate_substore(a2, sub2).unwrap();
    roundtrip_files(&mut store, &dir);
}

/// Two independent stores share a vocabulary: both `@include` the same stand-off dataset file, whose
/// data has no public ids. A third store includes both (`add_substore`). Every time this store is
/// read, the dataset file is parsed once per sub-store; the second copy is not equal to the first
/// (`AnnotationData::eq` requires a public id), so `StoreFor::insert()` merges it and
/// `AnnotationDataSet::merge()` (src/annotationdataset.rs) appends every anonymous item again. The merge
/// marks the set as changed, so saving writes the doubled set back into the shared file:
/// 2 items -> 4 after loading -> 8 after one round trip, and so on.
#[test]
fn anonymous_data_in_a_dataset_file_shared_by_two_substores() {
    let dir = fresh_dir("shared-dataset");
    //first store: creates the resource file and the dataset file
    {
        let mut store1 = AnnotationStore::new(Config::default().with_workdir(dir.clone()))
            .with_id("sub1");
        store1.set_filename(&format!("{}/sub1.store.stam.json", dir));
        store1
            .add_resource(
                TextResourceBuilder::new()
                    .with_id("r")
                    .with_filename("r.txt")
                    .with_text("Hello wonderful world"),
            )
            .unwrap();
        let s = store1
            .add_dataset(
                AnnotationDataSetBuilder::new()
                    .with_id("s")
                    .with_key_value("pos", "noun")
                    .with_key_value("pos", "verb"),
            )
            .unwrap();
        {
            let ds: &mut AnnotationDataSet = store1.get_mut(s).unwrap();
            ds.set_filename("s.annotationset.stam.json");
        }
        store1
            .annotate(
                AnnotationBuilder::new()
                    .with_id("a1")
                    .with_target(SelectorBuilder::textselector("r", Offset::simple(0, 5)))
                    .with_data("s", "pos", "noun"),
            )
            .unwrap();
        store1.save().unwrap();
    }
    //second store: uses the same two files
    {
        let mut store2 = AnnotationStore::new(Config::default().with_workdir(dir.clone()))
            .with_id("sub2");
        store2.set_filename(&format!("{}/sub2.store.stam.json", dir));
        store2
            .add_resource(TextResourceBuilder::new().with_filename("r.txt").with_id("r"))
            .unwrap();
        store2
            .add_dataset(AnnotationDataSetBuilder::new().with_filename("s.annotationset.stam.json"))
            .unwrap();
        store2
            .annotate(
                AnnotationBuilder::new()
                    .with_id("a2")
                    .with_target(SelectorBuilder::textselector("r", Offset::simple(6, 15)))
                    .with_data("s", "pos", "verb"),
            )
            .unwrap();
        store2.save().unwrap();
    }
    let mut store = new_store_in(&dir);
    store.add_substore("sub1.store.stam.json").unwrap();
    store.add_substore("sub2.store.stam.json").unwrap();
    assert_eq!(store.annotations().count(), 2);
    roundtrip_files(&mut store, &dir);
}

// ------------------------------------------------------------------------------------------------
// 6. sub-store in a directory of its own, with a stand-off resource
// ------------------------------------------------------------------------------------------------

/// The sub-store file lives in `subdir/`, its resource is stand-off (`r.txt`). When writing,
/// `impl Serialize for TextResource` (src/resources.rs) resolves the include against the resource's own
/// working directory, which `TextResource::initialize()` set to the directory of the *parent* store:
/// the text goes to `<dir>/r.txt`. When reading, `AnnotationStore::merge_json_file()`
/// (src/annotationstore.rs) resolves the includes of the sub-store against the sub-store's directory and
/// looks for `<dir>/subdir/r.txt`: "No such file or directory".
#[test]
fn substore_in_a_subdirectory_with_a_standoff_resource() {
    let dir = fresh_dir("substore-subdir");
    std::fs::create_dir_all(format!("{}/subdir", dir)).unwrap();
    let mut store = new_store_in(&dir);
    let sub = store
        .add_new_substore("sub", "subdir/sub.store.stam.json")
        .unwrap();
    let r = store
        .add_resource(
            TextResourceBuilder::new()
                .with_id("r")
                .with_filename("r.txt")
                .with_text("some resource"),
        )
        .unwrap();
    store.associate_substore(r, sub).unwrap();
    let a = store
        .annotate(
            AnnotationBuilder::new()
                .with_id("a")
                .with_target(SelectorBuilder::textselector("r", Offset::simple(5, 8)))
                .with_data_with_id("s", "k", "v", "d"),
        )
        .unwrap();
    store.associate_substore(a, sub).unwrap();
    let s = store.resolve_dataset_id("s").unwrap();
    store.associate_substore(s, sub).unwrap();
    let before = dump(&store);
    store.save().expect("the store must be writable");
    let path = format!("{}/main.store.stam.json", dir);
    let store2 = AnnotationStore::from_file(&path, Config::default())
        .expect("what was written must be readable");
    assert_eq!(before, dump(&store2));
}

// ------------------------------------------------------------------------------------------------
// 7. items of the parent store are read after the sub-store that needs them
// ------------------------------------------------------------------------------------------------

/// The parent store keeps the dataset (and could keep the resource), the sub-store holds an annotation
/// that uses it. `impl Serialize for AnnotationStore` writes `@include` before `resources` and
/// `annotationsets`, and `AnnotationStoreVisitor::visit_map()` (src/annotationstore.rs) reads the included
/// store at the moment it meets the key: the sub-store's annotation is built before the parent's dataset
/// exists ("Key supplied to AnnotationDataSet.insert_data() ... can not be None") and reading fails.
#[test]
fn substore_annotation_using_a_dataset_of_the_parent_store() {
    let dir = fresh_dir("substore-parent-dataset");
    let mut store = new_store_in(&dir);
    let sub = store.add_new_substore("sub", "sub.store.stam.json").unwrap();
    let r = store
        .add_resource(
            TextResourceBuilder::new()
                .with_id("r")
                .with_text("some resource"),
        )
        .unwrap();
    store.associate_substore(r, sub).unwrap();
    store
        .add_dataset(
            AnnotationDataSetBuilder::new()
                .with_id("vocabulary")
                .with_key_value_id("pos", "noun", "noun"),
        )
        .unwrap();
    let a = store
        .annotate(
            AnnotationBuilder::new()
                .with_id("a-sub")
                .with_target(SelectorBuilder::textselector("r", Offset::simple(5, 8)))
                .with_existing_data("vocabulary", "noun"),
        )
        .unwrap();
    store.associate_substore(a, sub).unwrap();
    roundtrip_files(&mut store, &dir);
}

/// The parent store has resource `ra` (handle 0), the sub-store has `rb` (handle 1); an annotation of
/// the parent has a MultiSelector over text in both. After reading, `rb` has handle 0 (the include is
/// read first) and `AnnotationStore::subselectors()` (src/annotationstore.rs) orders sub-selectors in
/// different resources by resource *handle* (`res.cmp(res2)`): the order of the sub-selectors (and of
/// the resources) is the reverse of the original one, and the second write differs from the first.
#[test]
fn multiselector_over_resources_of_parent_and_substore() {
    let dir = fresh_dir("substore-multi");
    let mut store = new_store_in(&dir);
    let sub = store.add_new_substore("sub", "sub.store.stam.json").unwrap();
    store
        .add_resource(
            TextResourceBuilder::new()
                .with_id("ra")
                .with_text("parent resource"),
        )
        .unwrap();
    let rb = store
        .add_resource(
            TextResourceBuilder::new()
                .with_id("rb")
                .with_text("substore resource"),
        )
        .unwrap();
    store.associate_substore(rb, sub).unwrap();
    store
        .annotate(
            AnnotationBuilder::new()
                .with_id("m")
                .with_target(SelectorBuilder::multiselector([
                    SelectorBuilder::textselector("ra", Offset::simple(0, 6)),
                    SelectorBuilder::textselector("rb", Offset::simple(0, 8)),
                ]))
                .with_data_with_id("s", "k", "v", "d"),
        )
        .unwrap();
    roundtrip_files(&mut store, &dir);
}

// ------------------------------------------------------------------------------------------------
// 8. typed values
// ------------------------------------------------------------------------------------------------

/// A datetime whose UTC offset is not a whole number of minutes (local mean time of Amsterdam until
/// 1937: +00:19:32). `DataValue` (src/datavalue.rs) derives its serialisation and so takes chrono's RFC 3339
/// form, which rounds the offset to minutes but prints the local time unchanged: "1900-01-01T00:00:00+00:20".
/// Read back this is another instant (28 seconds earlier): `DataValue::Datetime` values differ
/// (`==` on `DateTime` compares instants).
#[test]
fn datetime_with_an_offset_of_minutes_and_seconds() {
    use chrono::{FixedOffset, TimeZone};
    let mut store = base();
    let dt = FixedOffset::east_opt(19 * 60 + 32)
        .unwrap()
        .with_ymd_and_hms(1900, 1, 1, 0, 0, 0)
        .unwrap();
    store
        .annotate(
            AnnotationBuilder::new()
                .with_id("a")
                .with_target(SelectorBuilder::textselector("r1", Offset::simple(0, 5)))
                .with_data_with_id("s1", "when", DataValue::Datetime(dt), "d"),
        )
        .unwrap();
    let j = json(&store, false).unwrap();
    let store2 = AnnotationStore::from_json_str(&j, Config::default()).unwrap();
    let value = store2
        .dataset("s1")
        .unwrap()
        .annotationdata("d")
        .unwrap()
        .value()
        .clone();
    assert_eq!(value, DataValue::Datetime(dt), "written as:\n{}", j);
}

/// `DataValue::Float(f64::INFINITY)` (same for NaN) is written by serde_json as `"value": null`; the derived
/// `Deserialize` of `DataValue` (src/datavalue.rs) then fails with "invalid type: null, expected f64":
/// the store is written without complaint and can never be read again.
#[test]
fn float_that_json_can_not_express() {
    let mut store = base();
    store
        .annotate(
            AnnotationBuilder::new()
                .with_id("a")
                .with_target(SelectorBuilder::textselector("r1", Offset::simple(0, 5)))
                .with_data_with_id("s1", "f", DataValue::Float(f64::INFINITY), "d"),
        )
        .unwrap();
    //(a writer that refuses such a value would be fine as well: only what has been written must be readable)
    if let Ok(j) = json(&store, false) {
        let store2 = AnnotationStore::from_json_str(&j, Config::default())
            .unwrap_or_else(|e| panic!("what was written can not be read back: {}\n{}", e, j));
        let value = store2
            .dataset("s1")
            .unwrap()
            .annotationdata("d")
            .unwrap()
            .value()
            .clone();
        assert_eq!(value, DataValue::Float(f64::INFINITY));
    }
}

// ------------------------------------------------------------------------------------------------
// 9. a dataset without public identifier
// ------------------------------------------------------------------------------------------------

/// A dataset without public id (inserted with `StoreFor::insert`) that is only *targeted* is written with
/// the temporary id "!S1" (`impl Serialize for AnnotationDataSet`, src/annotationdataset.rs). On reading,
/// `AnnotationDataSetVisitor::visit_map()` stores "!S1" as the set's public id: unlike for annotations and
/// data (`resolve_temp_id` + strip in the visitors), nothing strips it. The reloaded set has an identifier
/// the original did not have.
#[test]
fn dataset_without_public_id_stays_without() {
    let mut store = base();
    let h = store.insert(AnnotationDataSet::new(Config::default())).unwrap();
    {
        let ds: &mut AnnotationDataSet = store.get_mut(h).unwrap();
        ds.insert_data(BuildItem::None, "k", "v", true).unwrap();
    }
    store
        .annotate(
            AnnotationBuilder::new()
                .with_id("a")
                .with_target(SelectorBuilder::datasetselector(h))
                .with_data_with_id("s1", "k", "on the anonymous set", "d"),
        )
        .unwrap();
    roundtrip_str(&store);
}

/// As soon as an annotation *uses* data of a dataset without public id, the store can not be written at all:
/// `AnnotationDataRefSerializer` (src/annotation.rs) insists on `annotationset.id()` ("AnnotationDataSet must
/// have a public ID if it is to be serialized") although the set itself would be written under its temporary id.
#[test]
fn data_in_a_dataset_without_public_id() {
    let mut store = base();
    let h = store.insert(AnnotationDataSet::new(Config::default())).unwrap();
    store
        .annotate(
            AnnotationBuilder::new()
                .with_id("a")
                .with_target(SelectorBuilder::textselector("r1", Offset::simple(0, 5)))
                .with_data(h, "k", "data in the anonymous set"),
        )
        .unwrap();
    roundtrip_str(&store);
}

// ------------------------------------------------------------------------------------------------
// 10. corners of lesser weight
// ------------------------------------------------------------------------------------------------

/// An option away from its default: with `Config::with_annotation_annotation_map(false)` the removal of
/// an annotation does not take the annotations that target it along (`StoreCallbacks<Annotation>::preremove()`
/// in src/annotationstore.rs finds dependants only through `annotation_annotation_map`, which
/// `inserted()` does not fill when the option is off). The store is left with an annotation whose target no
/// longer exists and `impl Serialize for WrappedSelector` (src/selector.rs) fails on it: the store reached by
/// add + remove can not be written.
#[test]
fn removal_with_the_annotation_index_switched_off() {
    let mut store = AnnotationStore::new(Config::default().with_annotation_annotation_map(false))
        .with_id("test")
        .with_resource(
            TextResourceBuilder::new()
                .with_id("r1")
                .with_text("Hello world"),
        )
        .unwrap();
    let a0 = store
        .annotate(
            AnnotationBuilder::new()
                .with_id("a0")
                .with_target(SelectorBuilder::textselector("r1", Offset::simple(0, 5)))
                .with_data_with_id("s1", "k", "v", "d0"),
        )
        .unwrap();
    store
        .annotate(
            AnnotationBuilder::new()
                .with_id("a1")
                .with_target(SelectorBuilder::annotationselector(a0, None))
                .with_data_with_id("s1", "k", "v2", "d1"),
        )
        .unwrap();
    store.remove_annotation(a0).unwrap();
    let j = json(&store, false).expect("the store must be writable");
    let store2 = AnnotationStore::from_json_str(&j, Config::default()).expect("and readable");
    assert_eq!(
        store.annotations().count(),
        store2.annotations().count(),
        "same annotations"
    );
}

/// A resource whose public id is the empty string (the builder accepts it) is written as `"@id": ""` and
/// referenced as `"resource": ""`; `From<String> for BuildItem` (src/store.rs) turns an empty string into
/// `BuildItem::None`, so the reference can not be resolved and the store can not be read back.
#[test]
fn resource_with_an_empty_identifier() {
    let mut store = AnnotationStore::default().with_id("test");
    let r = store
        .add_resource(TextResourceBuilder::new().with_id("").with_text("Hello world"))
        .unwrap();
    store
        .annotate(
            AnnotationBuilder::new()
                .with_id("a")
                .with_target(SelectorBuilder::textselector(r, Offset::simple(0, 5)))
                .with_data_with_id("s1", "k", "v", "d"),
        )
        .unwrap();
    roundtrip_str(&store);
}
