//! Violations of the property "Removal cascades exactly and never leaves dangling references".
//! Every test in this file FAILS on the current code.
//!
//! Overview
//!  1-4   DELETE queries (src/api/query.rs, AnnotationStore::query_mut): an item that occurs in
//!        more than one result row is removed twice; the second removal fails and the query stops
//!        half-way (only annotations are guarded by `self.has()`).
//!  5     DELETE query without subquery: `unreachable!()` panic instead of an error.
//!  6-11  The cascades in the preremove callbacks / remove_data / remove_key find the dependent
//!        annotations ONLY through the reverse indices; each of these indices can be switched
//!        off in `Config` and then the removal leaves dangling references behind (or panics).
//!  12    The cascade is recursive (preremove -> remove -> preremove ...) and every level runs
//!        recursive target iterations: a chain of a few hundred annotations on annotations
//!        overflows the stack (process abort).
//!  13    (adjacent to the property) `AnnotationStore::reindex()`, the documented way to get rid
//!        of the tombstones left by removals, does not renumber the references held inside
//!        annotations nor most of the reverse indices.

use stam::*;

// ------------------------------------------------------------------------------------------
// helpers

/// Lists every reference held by a surviving annotation that does not resolve any more.
/// (Does not go through the library's recursive iterators, those panic on a dangling reference.)
fn dangling(store: &AnnotationStore) -> Vec<String> {
    let mut out = Vec::new();
    for annotation in store.annotations() {
        let name = annotation.id().unwrap_or("?").to_string();
        for (set, data) in annotation.as_ref().data() {
            let ok = match <AnnotationStore as StoreFor<AnnotationDataSet>>::get(store, *set) {
                Ok(set) => <AnnotationDataSet as StoreFor<AnnotationData>>::get(set, *data).is_ok(),
                Err(_) => false,
            };
            if !ok {
                out.push(format!("{}: data {:?}/{:?} does not resolve", name, set, data));
            }
        }
        let mut stack: Vec<&Selector> = vec![annotation.as_ref().target()];
        while let Some(selector) = stack.pop() {
            let ok = match selector {
                Selector::ResourceSelector(r) | Selector::TextSelector(r, _, _) => {
                    store.resource(*r).is_some()
                }
                Selector::AnnotationSelector(a, offset) => {
                    store.annotation(*a).is_some()
                        && offset
                            .map(|(r, _, _)| store.resource(r).is_some())
                            .unwrap_or(true)
                }
                Selector::DataSetSelector(s) => store.dataset(*s).is_some(),
                Selector::DataKeySelector(s, k) => store.key(*s, *k).is_some(),
                Selector::AnnotationDataSelector(s, d) => store.annotationdata(*s, *d).is_some(),
                Selector::MultiSelector(v)
                | Selector::CompositeSelector(v)
                | Selector::DirectionalSelector(v) => {
                    stack.extend(v.iter());
                    true
                }
                Selector::RangedTextSelector { resource, .. } => store.resource(*resource).is_some(),
                Selector::RangedAnnotationSelector { begin, end, .. } => (begin.as_usize()
                    ..=end.as_usize())
                    .all(|i| store.annotation(AnnotationHandle::new(i)).is_some()),
            };
            if !ok {
                out.push(format!("{}: target {:?} does not resolve", name, selector));
            }
        }
    }
    out
}

fn annotation_ids(store: &AnnotationStore) -> Vec<String> {
    store
        .annotations()
        .map(|a| a.id().unwrap_or("?").to_string())
        .collect()
}

/// serialising must neither fail nor panic
fn serialises(store: &AnnotationStore) -> Result<(), String> {
    match std::panic::catch_unwind(std::panic::AssertUnwindSafe(|| {
        store.to_json_string(&Config::default())
    })) {
        Ok(Ok(_)) => Ok(()),
        Ok(Err(e)) => Err(format!("serialisation fails: {:?}", e)),
        Err(_) => Err("serialisation panics".to_string()),
    }
}

/// Two resources, two sets, three annotations; D1 is shared by A1 and A2.
fn shared_store(config: Config) -> Result<AnnotationStore, StamError> {
    AnnotationStore::new(config)
        .with_id("test")
        .with_resource(
            TextResourceBuilder::new()
                .with_id("r1")
                .with_text("Hello wonderful world"),
        )?
        .with_resource(
            TextResourceBuilder::new()
                .with_id("r2")
                .with_text("Goodbye cruel world"),
        )?
        .with_dataset(
            AnnotationDataSetBuilder::new()
                .with_id("s1")
                .with_key_value_id("pos", "noun", "D1")
                .with_key_value_id("lemma", "world", "D2"),
        )?
        .with_dataset(
            AnnotationDataSetBuilder::new()
                .with_id("s2")
                .with_key_value_id("type", "word", "E1"),
        )?
        .with_annotation(
            AnnotationBuilder::new()
                .with_id("A1")
                .with_target(SelectorBuilder::textselector("r1", Offset::simple(0, 5)))
                .with_existing_data("s1", "D1"),
        )?
        .with_annotation(
            AnnotationBuilder::new()
                .with_id("A2")
                .with_target(SelectorBuilder::textselector("r1", Offset::simple(6, 15)))
                .with_existing_data("s1", "D1"),
        )?
        .with_annotation(
            AnnotationBuilder::new()
                .with_id("A3")
                .with_target(SelectorBuilder::textselector("r2", Offset::simple(14, 19)))
                .with_existing_data("s1", "D2")
                .with_existing_data("s2", "E1"),
        )
}

// ------------------------------------------------------------------------------------------
// 1-4: DELETE queries whose result rows name the same item more than once

/// `DELETE DATA ?d { SELECT ANNOTATION ?a { SELECT DATA ?d WHERE ANNOTATION ?a } }`:
/// delete all data that is used by an annotation. D1 is shared by A1 and A2, so it occurs in two
/// result rows. The query removes D1, then tries to remove it again, fails with
/// HandleError("AnnotationData in AnnotationDataSet") and never gets to D2 and E1.
///
/// Cause: src/api/query.rs, AnnotationStore::query_mut, `for (set, data) in remove_data {
/// self.remove_data(set, data, true)?; }` - the collected handles are neither deduplicated nor
/// tested for presence (only `remove_annotations` got an `if self.has(annotation)` guard).
#[test]
fn delete_query_data_shared_by_two_annotations() -> Result<(), StamError> {
    let mut store = shared_store(Config::default())?;
    let query = Query::new(QueryType::Delete, Some(Type::AnnotationData), Some("d")).with_subquery(
        Query::new(QueryType::Select, Some(Type::Annotation), Some("a")).with_subquery(
            Query::new(QueryType::Select, Some(Type::AnnotationData), Some("d")).with_constraint(
                Constraint::AnnotationVariable(
                    "a",
                    SelectionQualifier::Normal,
                    AnnotationDepth::One,
                    None,
                ),
            ),
        ),
    );
    let result = store.query_mut(query).map(|_| ());
    let left: Vec<_> = store.data().map(|d| d.id().unwrap().to_string()).collect();
    assert!(
        result.is_ok(),
        "all selected data exists, yet the DELETE query fails with {:?}; data left in the store: {:?}",
        result,
        left
    );
    assert!(left.is_empty(), "data left: {:?}", left);
    assert!(annotation_ids(&store).is_empty());
    Ok(())
}

/// Same with keys: `DELETE KEY ?k { SELECT ANNOTATION ?a { SELECT KEY ?k WHERE ANNOTATION ?a } }`.
/// Key `pos` (used by A1 and A2) comes twice; the second `remove_key` fails with
/// HandleError("Unable to remove non-existing handle") and keys `lemma` and `type` stay.
///
/// Cause: src/api/query.rs, AnnotationStore::query_mut, `for (set, key) in remove_keys`.
#[test]
fn delete_query_key_shared_by_two_annotations() -> Result<(), StamError> {
    let mut store = shared_store(Config::default())?;
    let query = Query::new(QueryType::Delete, Some(Type::DataKey), Some("k")).with_subquery(
        Query::new(QueryType::Select, Some(Type::Annotation), Some("a")).with_subquery(
            Query::new(QueryType::Select, Some(Type::DataKey), Some("k")).with_constraint(
                Constraint::AnnotationVariable(
                    "a",
                    SelectionQualifier::Normal,
                    AnnotationDepth::One,
                    None,
                ),
            ),
        ),
    );
    let result = store.query_mut(query).map(|_| ());
    let left: Vec<_> = store.keys().map(|k| k.as_str().to_string()).collect();
    assert!(
        result.is_ok(),
        "all selected keys exist, yet the DELETE query fails with {:?}; keys left in the store: {:?}",
        result,
        left
    );
    assert!(left.is_empty(), "keys left: {:?}", left);
    Ok(())
}

/// `DELETE RESOURCE ?r { SELECT DATA ?d { SELECT RESOURCE ?r WHERE DATA ?d } }`: delete the
/// resources that carry annotations with some data. r1 is found through D1 and r2 through D2 and E1;
/// whichever comes twice makes the query fail, the other resource(s) survive.
///
/// Cause: src/api/query.rs, AnnotationStore::query_mut, `for resource in remove_resources`.
#[test]
fn delete_query_resource_found_through_two_data_items() -> Result<(), StamError> {
    let mut store = shared_store(Config::default())?;
    let query = Query::new(QueryType::Delete, Some(Type::TextResource), Some("r")).with_subquery(
        Query::new(QueryType::Select, Some(Type::AnnotationData), Some("d")).with_subquery(
            Query::new(QueryType::Select, Some(Type::TextResource), Some("r"))
                .with_constraint(Constraint::DataVariable("d", SelectionQualifier::Normal)),
        ),
    );
    let result = store.query_mut(query).map(|_| ());
    let left: Vec<_> = store
        .resources()
        .map(|r| r.id().unwrap().to_string())
        .collect();
    assert!(
        result.is_ok(),
        "all selected resources exist, yet the DELETE query fails with {:?}; resources left: {:?}",
        result,
        left
    );
    assert!(left.is_empty(), "resources left: {:?}", left);
    Ok(())
}

/// `DELETE DATASET ?s { SELECT DATA ?d { SELECT DATASET ?s WHERE DATA ?d } }`: s1 holds two data
/// items and so comes twice; the second removal fails and s2 survives.
///
/// Cause: src/api/query.rs, AnnotationStore::query_mut, `for dataset in remove_datasets`.
#[test]
fn delete_query_dataset_found_through_two_data_items() -> Result<(), StamError> {
    let mut store = shared_store(Config::default())?;
    let query = Query::new(QueryType::Delete, Some(Type::AnnotationDataSet), Some("s")).with_subquery(
        Query::new(QueryType::Select, Some(Type::AnnotationData), Some("d")).with_subquery(
            Query::new(QueryType::Select, Some(Type::AnnotationDataSet), Some("s"))
                .with_constraint(Constraint::DataVariable("d", SelectionQualifier::Normal)),
        ),
    );
    let result = store.query_mut(query).map(|_| ());
    let left: Vec<_> = store
        .datasets()
        .map(|s| s.id().unwrap().to_string())
        .collect();
    assert!(
        result.is_ok(),
        "all selected datasets exist, yet the DELETE query fails with {:?}; datasets left: {:?}",
        result,
        left
    );
    assert!(left.is_empty(), "datasets left: {:?}", left);
    Ok(())
}

// ------------------------------------------------------------------------------------------
// 5: DELETE query without a subquery

/// "DELETE ANNOTATION ?a" parses, but running it panics with
/// `unreachable!("mutable query must have subquery")`: a removal request that selects nothing
/// must be an error (or a no-op), not a panic.
///
/// Cause: src/api/query.rs, AnnotationStore::query_mut, the `else` branch of
/// `if let Some(subquery) = query.subqueries().next()`; Query::parse_delete accepts the query
/// without a subquery.
#[test]
fn delete_query_without_subquery_panics() -> Result<(), StamError> {
    let mut store = shared_store(Config::default())?;
    let query: Result<Query, StamError> = "DELETE ANNOTATION ?a".try_into();
    if let Ok(query) = query {
        //(a parse error would be fine too)
        let result = std::panic::catch_unwind(std::panic::AssertUnwindSafe(|| {
            store.query_mut(query).map(|_| ())
        }));
        assert!(
            result.is_ok(),
            "query_mut panics on a DELETE query without subquery"
        );
    }
    assert_eq!(annotation_ids(&store), ["A1", "A2", "A3"]);
    Ok(())
}

// ------------------------------------------------------------------------------------------
// 6-11: cascades depend on reverse indices that the configuration can switch off

fn check_after_removal(store: &AnnotationStore, result: Result<(), StamError>, gone: &str) {
    let problems = dangling(store);
    assert!(
        problems.is_empty(),
        "removal returned {:?} and left dangling references: {:?} (annotations in the store: {:?})",
        result,
        problems,
        annotation_ids(store)
    );
    if result.is_ok() {
        assert!(
            !annotation_ids(store).iter().any(|id| id == gone),
            "{} depends on the removed item but survived",
            gone
        );
    }
    if let Err(e) = serialises(store) {
        panic!("{}", e);
    }
}

/// Config::with_annotation_annotation_map(false): removing A1 does not remove B (an annotation on
/// A1); B stays with a target that no longer resolves, `B.annotations_in_targets()`,
/// `B.textselections()` etc. panic on it ("referenced annotation must exist", src/selector.rs)
/// and the store can not be serialised.
///
/// Cause: src/annotationstore.rs, StoreCallbacks<Annotation>::preremove finds the annotations
/// that point at the removed one only in `annotation_annotation_map`, which
/// StoreCallbacks<Annotation>::inserted fills only `if self.config.annotation_annotation_map`.
#[test]
fn cascade_needs_annotation_annotation_map() -> Result<(), StamError> {
    let mut store = shared_store(Config::default().with_annotation_annotation_map(false))?;
    store.annotate(
        AnnotationBuilder::new()
            .with_id("B")
            .with_target(SelectorBuilder::annotationselector("A1", None))
            .with_existing_data("s2", "E1"),
    )?;
    let result = store.remove_annotation("A1");
    check_after_removal(&store, result, "B");
    Ok(())
}

/// Config::with_textrelationmap(false): removing resource r1 leaves A1 and A2 (annotations on its
/// text) in the store with a TextSelector into a resource that is gone.
///
/// Cause: src/annotationstore.rs, StoreCallbacks<TextResource>::preremove takes the annotations on
/// the text from `textrelationmap` only.
#[test]
fn cascade_needs_textrelationmap() -> Result<(), StamError> {
    let mut store = shared_store(Config::default().with_textrelationmap(false))?;
    let result = store.remove_resource("r1");
    check_after_removal(&store, result, "A1");
    Ok(())
}

/// Config::with_resource_annotation_map(false): removing resource r1 leaves M (ResourceSelector on
/// r1) dangling.
///
/// Cause: src/annotationstore.rs, StoreCallbacks<TextResource>::preremove takes the metadata
/// annotations from `resource_annotation_metamap` only.
#[test]
fn cascade_needs_resource_annotation_map() -> Result<(), StamError> {
    let mut store = shared_store(Config::default().with_resource_annotation_map(false))?;
    store.annotate(
        AnnotationBuilder::new()
            .with_id("M")
            .with_target(SelectorBuilder::resourceselector("r1"))
            .with_existing_data("s2", "E1"),
    )?;
    let result = store.remove_resource("r1");
    check_after_removal(&store, result, "M");
    Ok(())
}

/// Config::with_dataset_annotation_map(false): removing dataset s1 leaves M (DataSetSelector on s1,
/// data from s2) dangling.
///
/// Cause: src/annotationstore.rs, StoreCallbacks<AnnotationDataSet>::preremove takes the
/// annotations on the set from `dataset_annotation_metamap` only.
#[test]
fn cascade_needs_dataset_annotation_map() -> Result<(), StamError> {
    let mut store = shared_store(Config::default().with_dataset_annotation_map(false))?;
    store.annotate(
        AnnotationBuilder::new()
            .with_id("M")
            .with_target(SelectorBuilder::datasetselector("s1"))
            .with_existing_data("s2", "E1"),
    )?;
    let result = store.remove_dataset("s1");
    check_after_removal(&store, result, "M");
    Ok(())
}

/// Config::with_key_annotation_metamap(false): removing key s1/pos leaves M (DataKeySelector on
/// that key) dangling; the same happens to annotations on keys of a removed dataset.
///
/// Cause: src/annotationstore.rs, AnnotationStore::remove_key (and
/// StoreCallbacks<AnnotationDataSet>::preremove) take the annotations on the key from
/// `key_annotation_metamap` only.
#[test]
fn cascade_needs_key_annotation_metamap() -> Result<(), StamError> {
    let mut store = shared_store(Config::default().with_key_annotation_metamap(false))?;
    store.annotate(
        AnnotationBuilder::new()
            .with_id("M")
            .with_target(SelectorBuilder::datakeyselector("s1", "pos"))
            .with_existing_data("s2", "E1"),
    )?;
    let result = store.remove_key("s1", "pos", true);
    check_after_removal(&store, result, "M");
    Ok(())
}

/// Config::with_data_annotation_metamap(false): removing data s1/D1 leaves M
/// (AnnotationDataSelector on D1) dangling; the same happens through remove_key and remove_dataset.
///
/// Cause: src/annotationstore.rs, AnnotationStore::remove_data (and
/// StoreCallbacks<AnnotationDataSet>::preremove) take the annotations on the data from
/// `data_annotation_metamap` only.
#[test]
fn cascade_needs_data_annotation_metamap() -> Result<(), StamError> {
    let mut store = shared_store(Config::default().with_data_annotation_metamap(false))?;
    store.annotate(
        AnnotationBuilder::new()
            .with_id("M")
            .with_target(SelectorBuilder::annotationdataselector("s1", "D1"))
            .with_existing_data("s2", "E1"),
    )?;
    let result = store.remove_data("s1", "D1", false);
    check_after_removal(&store, result, "M");
    Ok(())
}

// ------------------------------------------------------------------------------------------
// 12: depth of the cascade

const CHAIN_ENV: &str = "HUNT_HC02_CHAIN_CHILD";
const CHAIN_DEPTH: usize = 600;

/// Does the work for `removing_a_chain_of_annotations_overflows_the_stack` in a process of its own
/// (a stack overflow aborts the process); does nothing when run as part of the suite.
#[test]
fn chain_child() -> Result<(), StamError> {
    if std::env::var(CHAIN_ENV).is_err() {
        return Ok(());
    }
    let mut store = AnnotationStore::default()
        .with_resource(TextResourceBuilder::new().with_id("r").with_text("hello"))?;
    let first = store.annotate(
        AnnotationBuilder::new()
            .with_target(SelectorBuilder::textselector("r", Offset::simple(0, 5)))
            .with_data("s", "k", "v"),
    )?;
    let mut previous = first;
    for _ in 0..CHAIN_DEPTH {
        previous = store.annotate(
            AnnotationBuilder::new()
                .with_target(SelectorBuilder::annotationselector(previous, None))
                .with_data("s", "k", "v"),
        )?;
    }
    store.remove_annotation(first)?;
    assert_eq!(store.annotations().count(), 0);
    Ok(())
}

/// An annotation with a chain of 600 annotations on annotations above it (each targets the
/// previous one). Removing the bottom one must remove all of them; instead the process dies of a
/// stack overflow (in a debug build on a thread with the default 2 MiB stack the limit lies
/// between 300 and 500 levels, in a release build between 1000 and 2000; removal time grows with
/// the cube of the depth: 1000 levels take 10 s in a release build).
///
/// Cause: src/annotationstore.rs, StoreCallbacks<Annotation>::preremove removes the dependants by
/// recursion (preremove -> remove_annotation_if_present -> StoreFor::remove -> preremove ...),
/// with large frames, and at every level runs three recursive target iterations
/// (`resources_as_metadata`, `data_as_metadata`, `keys_as_metadata` use
/// `target().iter(store, true)`, src/selector.rs SelectorIter::next recurses once per level).
#[test]
fn removing_a_chain_of_annotations_overflows_the_stack() {
    let exe = std::env::current_exe().expect("test executable");
    let output = std::process::Command::new(exe)
        .args(["--exact", "chain_child", "--test-threads=1"])
        .env(CHAIN_ENV, "1")
        .output()
        .expect("running the child");
    assert!(
        output.status.success(),
        "removing the bottom of a chain of {} annotations killed the process: {:?}\n{}",
        CHAIN_DEPTH,
        output.status,
        String::from_utf8_lossy(&output.stderr)
            .lines()
            .filter(|l| l.contains("overflow"))
            .collect::<Vec<_>>()
            .join("\n")
    );
}

// ------------------------------------------------------------------------------------------
// 13: reindex() after a removal (adjacent to the property: not a removal request itself, but the
// documented way to "free any deleted items from memory permanently")

/// A1 is removed, then the store is reindexed: A2 moves from handle 1 to handle 0. The id map and
/// the text index follow, but `dataset_data_annotation_map` (and key/data metamaps, and the
/// AnnotationSelector / data / RangedAnnotationSelector handles inside annotations) are not
/// renumbered: D1 no longer knows that A2 uses it. (With an annotation on an annotation in the
/// store the stale AnnotationSelector handles make annotations point at themselves and every
/// recursive iteration overflows the stack.)
///
/// Cause: src/annotationstore.rs, AnnotationStore::reindex renumbers `annotations`, the id maps,
/// `annotation_annotation_map`, `resource_annotation_metamap`, `textrelationmap` and
/// `dataset_annotation_metamap` only.
#[test]
fn reindex_after_removal_breaks_references() -> Result<(), StamError> {
    let mut store = shared_store(Config::default())?;
    store.remove_annotation("A1")?;
    let store = store.reindex();
    let a2 = store.annotation("A2").or_fail()?;
    assert_eq!(a2.text_simple(), Some("wonderful"));
    let d1 = store.annotationdata("s1", "D1").or_fail()?;
    let users: Vec<_> = d1
        .annotations()
        .map(|a| a.id().unwrap_or("?").to_string())
        .collect();
    assert_eq!(
        users,
        ["A2"],
        "after remove_annotation(A1) and reindex(), D1 must still list A2 as the annotation that uses it"
    );
    Ok(())
}
