//! Confirmed violations of "concurrent readers of a shared store see sequential results".
//!
//! Both tests below show the same defect at its two JSON sites: the decision "does the stand-off file of
//! this member still have to be written?" (`changed()`), the writing of that file and `mark_unchanged()`
//! are three separate steps on state shared by all reader threads, without mutual exclusion. A second
//! reader that reads the flag while a first reader is still writing the file decides to write it as
//! well, and re-creates (truncates) the very file the first reader is emitting, or has just emitted.
//! The first reader's call then returns `Ok` with a document that says `"@include": "<file>"` while
//! `<file>` on disk is incomplete (a hole of NUL bytes, or cut short) - something that never happens
//! when the call runs alone, where the file is complete by the time the call returns.
//!
//! The tests do not depend on lucky timing: the second reader is released when the file written by the
//! first reader has grown beyond 60% of its final size (observed through the file system), and each
//! test makes several attempts with a fresh store.

use stam::*;
use std::sync::atomic::{AtomicBool, Ordering};
use std::sync::Arc;
use std::time::{Duration, Instant};

const ATTEMPTS: usize = 5;

/// a directory of our own under target/
fn own_dir(name: &str) -> String {
    let d = format!("{}/target/hc20/{}", env!("CARGO_MANIFEST_DIR"), name);
    std::fs::create_dir_all(&d).expect("creating test directory");
    d
}

/// Runs two readers that both call `store.to_json_string()` on the shared store. Reader A starts at once,
/// reader B is released when `standoff_file` has grown to 60% of `expected.len()`. Each reader reads the
/// stand-off file back right after its own call returned. Returns what A and B saw in the file (plus the
/// strings they got).
fn two_readers(
    store: AnnotationStore,
    standoff_file: &str,
    expected: &str,
) -> ((String, Vec<u8>), (String, Vec<u8>)) {
    let store = Arc::new(store);
    let go = Arc::new(AtomicBool::new(false));
    let a = {
        let store = store.clone();
        let f = standoff_file.to_string();
        std::thread::spawn(move || {
            let s = store
                .to_json_string(&Config::default())
                .expect("serialisation by reader A");
            //the call has returned Ok: the document refers to the stand-off file, which must be there in full
            let bytes = std::fs::read(&f).expect("stand-off file must exist after serialisation");
            (s, bytes)
        })
    };
    let b = {
        let store = store.clone();
        let f = standoff_file.to_string();
        let go = go.clone();
        std::thread::spawn(move || {
            while !go.load(Ordering::SeqCst) {
                std::thread::yield_now();
            }
            let s = store
                .to_json_string(&Config::default())
                .expect("serialisation by reader B");
            let bytes = std::fs::read(&f).expect("stand-off file must exist after serialisation");
            (s, bytes)
        })
    };
    let threshold = (expected.len() as u64) * 6 / 10;
    let t0 = Instant::now();
    loop {
        if let Ok(m) = std::fs::metadata(standoff_file) {
            if m.len() >= threshold {
                break;
            }
        }
        if a.is_finished() || t0.elapsed() > Duration::from_secs(120) {
            break;
        }
        std::hint::spin_loop();
    }
    go.store(true, Ordering::SeqCst);
    let ra = a.join().expect("reader A");
    let rb = b.join().expect("reader B");
    (ra, rb)
}

fn describe(bytes: &[u8], expected: &[u8]) -> String {
    if bytes == expected {
        return "complete".to_string();
    }
    let firstdiff = bytes
        .iter()
        .zip(expected.iter())
        .position(|(x, y)| x != y)
        .unwrap_or(bytes.len().min(expected.len()));
    let nuls = bytes.iter().filter(|b| **b == 0).count();
    format!(
        "INCOMPLETE: {} of {} bytes, first difference at byte {}, {} NUL bytes",
        bytes.len(),
        expected.len(),
        firstdiff,
        nuls
    )
}

fn big_text() -> String {
    let mut s = String::new();
    for i in 0..250_000 {
        s.push_str(&format!("line {} of the \"text\" of the wörld ✓\n", i));
    }
    s
}

fn store_with_big_standoff_resource(filename: &str, text: &str) -> AnnotationStore {
    let mut store =
        AnnotationStore::new(Config::default().with_milestone_interval(0)).with_id("store");
    store
        .add_resource(
            TextResourceBuilder::new()
                .with_id("big")
                .with_text(text)
                .with_filename(filename), //stand-off, STAM JSON; new, so it is marked as changed
        )
        .expect("adding resource");
    store
        .add_resource(
            TextResourceBuilder::new()
                .with_id("inline")
                .with_text("an inline resource"),
        )
        .expect("adding resource");
    store
        .annotate(
            AnnotationBuilder::new()
                .with_id("A1")
                .with_data("set", "key", "value")
                .with_target(SelectorBuilder::textselector("big", Offset::simple(0, 4))),
        )
        .expect("annotating");
    store
}

/// VIOLATION (stand-off resource): two threads call `store.to_json_string()` on a shared store that has a
/// stand-off STAM JSON resource whose file still has to be written. Running alone (or one after the
/// other) each call returns with the resource's file complete on disk. Running concurrently, reader A
/// returns `Ok` (its string says `"@include": ".../big.json"`) while that file is incomplete, because
/// reader B - which read `changed() == true` while A was still writing - re-created the file A was
/// emitting: B's serialisation changed what A's serialisation emitted.
///
/// Cause: src/resources.rs, `impl Serialize for TextResource` (lines 246-267): `if self.changed() {
/// ... self.to_json_file(..) / std::fs::write(..) ...; self.mark_unchanged() }` is a check-then-act on
/// the shared `changed` flag (src/file.rs `ChangeMarker`) with no mutual exclusion around "check, write
/// file, clear flag", and the file is written in place (`File::create` truncates, src/file.rs
/// `create_file`) rather than completed elsewhere and moved into place.
#[test]
fn concurrent_store_serialisation_truncates_standoff_resource_file_of_other_reader() {
    let dir = own_dir("standoff_resource");
    let text = big_text();

    // what the stand-off file has to hold (this way of serialising a member does not touch the flag or the file)
    let filename = format!("{}/big.json", dir);
    let expected = {
        let store = store_with_big_standoff_resource(&filename, &text);
        ToJson::to_json_string(store.resource("big").unwrap().as_ref(), &Config::default())
            .expect("serialising resource")
    };

    // sanity: the same two calls, one after the other, on a fresh store: the file is complete after each
    {
        let _ = std::fs::remove_file(&filename);
        let store = store_with_big_standoff_resource(&filename, &text);
        let s1 = store.to_json_string(&Config::default()).unwrap();
        assert!(s1.contains("@include"));
        assert_eq!(
            std::fs::read(&filename).unwrap(),
            expected.as_bytes(),
            "sequential run: file complete after first call"
        );
        let s2 = store.to_json_string(&Config::default()).unwrap();
        assert_eq!(s1, s2);
        assert_eq!(
            std::fs::read(&filename).unwrap(),
            expected.as_bytes(),
            "sequential run: file complete after second call"
        );
    }

    for attempt in 0..ATTEMPTS {
        let _ = std::fs::remove_file(&filename);
        let store = store_with_big_standoff_resource(&filename, &text);
        let ((sa, fa), (sb, fb)) = two_readers(store, &filename, &expected);
        assert_eq!(sa, sb, "both readers get the same document");
        assert!(sa.contains("@include"));
        assert!(
            fa == expected.as_bytes() && fb == expected.as_bytes(),
            "attempt {}: a reader's to_json_string() returned Ok with an @include of {}, but at that moment the file was not what the reader emits when running alone: as seen by reader A: {}; as seen by reader B: {}",
            attempt,
            filename,
            describe(&fa, expected.as_bytes()),
            describe(&fb, expected.as_bytes()),
        );
    }
}

fn store_with_big_standoff_dataset(filename: &str) -> AnnotationStore {
    let mut store = AnnotationStore::new(Config::default()).with_id("store");
    store
        .add_resource(
            TextResourceBuilder::new()
                .with_id("r")
                .with_text("Hello world"),
        )
        .expect("adding resource");
    let mut dataset = AnnotationDataSet::new(Config::default())
        .with_id("bigset")
        .with_filename(filename); //stand-off; new, so it is marked as changed
    for i in 0..60_000 {
        dataset
            .insert_data(
                format!("D{}", i),
                if i % 2 == 0 { "even" } else { "odd" },
                format!("value \"{}\" ✓", i),
                false,
            )
            .expect("inserting data");
    }
    store.insert(dataset).expect("inserting dataset");
    store
        .annotate(
            AnnotationBuilder::new()
                .with_id("A1")
                .with_existing_data("bigset", "D7")
                .with_target(SelectorBuilder::textselector("r", Offset::simple(0, 5))),
        )
        .expect("annotating");
    store
}

/// VIOLATION (stand-off dataset): as above, for a stand-off annotation dataset. Reader A's
/// `store.to_json_string()` returns `Ok` with `"@include": ".../bigset.annotationset.stam.json"` while
/// that file is incomplete on disk, because reader B re-created it.
///
/// Cause: src/annotationdataset.rs, `impl Serialize for AnnotationDataSet` (lines 378-386): `if
/// self.changed() { ... self.to_json_file(..)?; self.mark_unchanged() }` - the same unprotected
/// check / write-in-place / clear sequence on the shared `changed` flag. (src/csv.rs
/// `AnnotationStore::to_csv_files`, lines 464-509, has the same sequence for STAM CSV.)
#[test]
fn concurrent_store_serialisation_truncates_standoff_dataset_file_of_other_reader() {
    let dir = own_dir("standoff_dataset");
    let filename = format!("{}/bigset.annotationset.stam.json", dir);
    let expected = {
        let store = store_with_big_standoff_dataset(&filename);
        ToJson::to_json_string(
            store.dataset("bigset").unwrap().as_ref(),
            &Config::default(),
        )
        .expect("serialising dataset")
    };

    // sanity: sequentially the file is complete after each call
    {
        let _ = std::fs::remove_file(&filename);
        let store = store_with_big_standoff_dataset(&filename);
        let s1 = store.to_json_string(&Config::default()).unwrap();
        assert!(s1.contains("@include"));
        assert_eq!(
            std::fs::read(&filename).unwrap(),
            expected.as_bytes(),
            "sequential run: file complete after first call"
        );
        let s2 = store.to_json_string(&Config::default()).unwrap();
        assert_eq!(s1, s2);
        assert_eq!(
            std::fs::read(&filename).unwrap(),
            expected.as_bytes(),
            "sequential run: file complete after second call"
        );
    }

    for attempt in 0..ATTEMPTS {
        let _ = std::fs::remove_file(&filename);
        let store = store_with_big_standoff_dataset(&filename);
        let ((sa, fa), (sb, fb)) = two_readers(store, &filename, &expected);
        assert_eq!(sa, sb, "both readers get the same document");
        assert!(sa.contains("@include"));
        assert!(
            fa == expected.as_bytes() && fb == expected.as_bytes(),
            "attempt {}: a reader's to_json_string() returned Ok with an @include of {}, but at that moment the file was not what the reader emits when running alone: as seen by reader A: {}; as seen by reader B: {}",
            attempt,
            filename,
            describe(&fa, expected.as_bytes()),
            describe(&fb, expected.as_bytes()),
        );
    }
}
