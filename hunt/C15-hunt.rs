//! Confirmed violations of the property
//! "STAM CSV round trip preserves structure, targets and the text of values".
//!
//! Every test FAILS on the current code and would pass on a correct implementation.
//! All files are written below `<crate>/target/hunt-hc15/<test name>/`.

use stam::*;

const TEXT: &str = "Hallå världen, hello world";

/// A fresh, empty directory of this test's own below target/
fn fresh_dir(name: &str) -> String {
    let d = format!("{}/target/hunt-hc15/{}", env!("CARGO_MANIFEST_DIR"), name);
    let _ = std::fs::remove_dir_all(&d);
    std::fs::create_dir_all(&d).expect("creating test directory");
    d
}

/// Two resources, two datasets, no annotations; everything has a public identifier
fn base() -> AnnotationStore {
    AnnotationStore::default()
        .with_id("st")
        .with_resource(TextResourceBuilder::new().with_id("r1").with_text(TEXT))
        .unwrap()
        .with_resource(TextResourceBuilder::new().with_id("r2").with_text("second text here"))
        .unwrap()
        .with_dataset(AnnotationDataSetBuilder::new().with_id("ds1"))
        .unwrap()
        .with_dataset(AnnotationDataSetBuilder::new().with_id("ds2"))
        .unwrap()
}

/// Save as STAM CSV into `dir` and load again with the default configuration
fn roundtrip(store: &mut AnnotationStore, dir: &str) -> Result<AnnotationStore, StamError> {
    let filename = format!("{}/s.store.stam.csv", dir);
    store.set_filename(&filename);
    store.save()?;
    AnnotationStore::from_file(&filename, Config::default())
}

/// Strict description of the whole store: identifiers exactly as they are (None for anonymous items),
/// texts, keys, data with value text, annotations with their data references and targets with the text they select
fn describe(store: &AnnotationStore) -> Vec<String> {
    let mut out = Vec::new();
    for r in store.resources() {
        out.push(format!("RES {:?} {:?}", r.id(), r.text()));
    }
    for d in store.datasets() {
        out.push(format!("SET {:?}", d.id()));
        for k in d.keys() {
            out.push(format!("  KEY {:?}", k.id()));
        }
        for x in d.data() {
            out.push(format!("  DATA {:?} {:?}={}", x.id(), x.key().id(), x.value()));
        }
    }
    for a in store.annotations() {
        let mut s = format!("ANN {:?}", a.id());
        for x in a.data() {
            s += &format!(" [{:?}/{:?} {:?}={}]", x.set().id(), x.id(), x.key().id(), x.value());
        }
        s += &format!(" {}", a.as_ref().target().kind().as_str());
        for sub in a.as_ref().target().iter(store, false) {
            match sub.as_ref() {
                Selector::AnnotationSelector(h, _) => {
                    //the targeted annotation, named by what it selects itself
                    let t = store.annotation(*h).unwrap();
                    s += &format!(" ->annotation({:?} {:?})", t.id(), t.text().collect::<Vec<_>>());
                }
                Selector::ResourceSelector(h) => {
                    s += &format!(" ->resource({:?})", store.resource(*h).unwrap().id());
                }
                Selector::DataSetSelector(h) => {
                    s += &format!(" ->dataset({:?})", store.dataset(*h).unwrap().id());
                }
                _ => {}
            }
        }
        s += &format!(" text={:?}", a.text().collect::<Vec<_>>());
        out.push(s);
    }
    out
}

/// An annotation with a public id and one data item with a public id
fn named(store: &mut AnnotationStore, id: &str, target: SelectorBuilder) -> AnnotationHandle {
    store
        .annotate(
            AnnotationBuilder::new()
                .with_id(id.to_string())
                .with_target(target)
                .with_data_with_id("ds1", "k", id.to_string(), format!("d_{}", id)),
        )
        .unwrap()
}

/// An annotation WITHOUT a public id, with one data item that has a public id
fn anonymous(store: &mut AnnotationStore, n: usize, target: SelectorBuilder) -> AnnotationHandle {
    store
        .annotate(
            AnnotationBuilder::new()
                .with_target(target)
                .with_data_with_id("ds1", "k", format!("v{}", n), format!("d{}", n)),
        )
        .unwrap()
}

/// CONTROL (passes, not a violation): the harness above reports no difference for an ordinary store
/// with complex selectors and relative, end-aligned offsets, so the failures below are not artefacts of it.
#[test]
fn control_ordinary_store_round_trips() {
    let mut store = base();
    let w1 = named(&mut store, "w1", SelectorBuilder::textselector("r1", Offset::simple(0, 5)));
    let w2 = anonymous(&mut store, 2, SelectorBuilder::textselector("r1", Offset::simple(6, 13)));
    named(
        &mut store,
        "rel",
        SelectorBuilder::annotationselector(w2, Some(Offset::new(Cursor::EndAligned(-3), Cursor::EndAligned(0)))),
    );
    named(
        &mut store,
        "multi",
        SelectorBuilder::multiselector(vec![
            SelectorBuilder::annotationselector(w1, None),
            SelectorBuilder::annotationselector(w2, None),
            SelectorBuilder::datasetselector("ds2"),
            SelectorBuilder::textselector("r2", Offset::new(Cursor::EndAligned(-4), Cursor::EndAligned(0))),
        ]),
    );
    let before = describe(&store);
    let reloaded = roundtrip(&mut store, &fresh_dir("control")).expect("round trip must succeed");
    assert_eq!(before, describe(&reloaded));
}

// ------------------------------------------------------------------------------------------------
// 1. temporary identifiers and gaps
// ------------------------------------------------------------------------------------------------

/// Input: four anonymous annotations A0..A3 on four words, a fifth annotation "top" that targets A1
/// (AnnotationSelector); then A0 is removed (public API `remove_annotation`), which leaves a gap at handle 0.
///
/// What happens: the writer refers to A1 by its temporary id "!A1" (handle based), but leaves the Id
/// column of anonymous annotations that carry data EMPTY (only the `len() == 0` branch writes the temp id).
/// The reader (`AnnotationStore::from_csv_annotations_reader`, src/csv.rs) inserts rows densely with
/// `annotate()`, so the former A1 becomes handle 0, A2 becomes handle 1, ... and "!A1" now resolves
/// (`StoreFor::resolve_id`, src/store.rs) to the former A2. "top" silently targets "hello" instead of "världen".
/// With fewer rows the same input makes loading fail outright ("Unable to find targeted Annotation").
/// The STAM JSON reader keeps handles apart for exactly this reason (AnnotationsVisitor in
/// src/annotationstore.rs expands the gaps); the CSV reader has no such provision.
#[test]
fn anonymous_annotation_target_after_removal_resolves_to_wrong_annotation() {
    let mut store = base();
    let a0 = anonymous(&mut store, 0, SelectorBuilder::textselector("r1", Offset::simple(0, 5)));
    let a1 = anonymous(&mut store, 1, SelectorBuilder::textselector("r1", Offset::simple(6, 13)));
    anonymous(&mut store, 2, SelectorBuilder::textselector("r1", Offset::simple(15, 20)));
    anonymous(&mut store, 3, SelectorBuilder::textselector("r1", Offset::simple(21, 26)));
    named(&mut store, "top", SelectorBuilder::annotationselector(a1, None));
    store.remove_annotation(a0).unwrap();

    let before = describe(&store);
    assert!(before.last().unwrap().contains("världen"));
    let reloaded = roundtrip(&mut store, &fresh_dir("annotation_gap")).expect("round trip must succeed");
    assert_eq!(before, describe(&reloaded));
}

/// Input: datasets "ds1", "ds2" and a third dataset without public id (it only has a filename);
/// an annotation targets the anonymous dataset (DataSetSelector) and uses data from it; then "ds1" is removed.
///
/// What happens: the writer names the anonymous dataset by its temporary id "!S2" in the AnnotationDataSet and
/// TargetDataSet columns, the manifest has an empty Id for it. The reader (`FromCsv for AnnotationStore`,
/// src/csv.rs) inserts the datasets densely, so the anonymous set becomes handle 1 and "!S2" does not
/// resolve: loading fails with "Unable to resolve DataSetSelector" (with more datasets it would silently
/// resolve to another set). Without the removal the very same store round-trips fine.
#[test]
fn anonymous_dataset_after_dataset_removal_is_not_found() {
    let mut store = base();
    let set = AnnotationDataSet::new(Config::default()).with_filename("anon.annotationset.stam.json");
    let h = store.insert(set).unwrap();
    store
        .annotate(
            AnnotationBuilder::new()
                .with_id("a")
                .with_target(SelectorBuilder::datasetselector(h))
                .with_data_with_id(h, "k", "v", "d"),
        )
        .unwrap();
    store.remove_dataset("ds1").unwrap();

    let before = describe(&store);
    let reloaded = roundtrip(&mut store, &fresh_dir("dataset_gap")).expect("round trip must succeed");
    assert_eq!(before, describe(&reloaded));
}

/// Input: a dataset without public id, targeted by a DataSetSelector that sits under a MultiSelector.
///
/// What happens: the writer panics. `AnnotationCsv::set_targetdataset` (src/csv.rs) falls back to the
/// temporary id for a *simple* selector (`dataset.temp_id()`), but its complex branch does
/// `dataset.id().expect("dataset must have an id")`. The same store with the simple DataSetSelector
/// round-trips, so the writer does emit anonymous datasets -- just not under a complex selector.
#[test]
fn anonymous_dataset_under_complex_selector_panics_in_writer() {
    let mut store = base();
    let set = AnnotationDataSet::new(Config::default()).with_filename("anon.annotationset.stam.json");
    let h = store.insert(set).unwrap();
    store
        .annotate(
            AnnotationBuilder::new()
                .with_id("a")
                .with_target(SelectorBuilder::multiselector(vec![
                    SelectorBuilder::datasetselector(h),
                    SelectorBuilder::resourceselector("r1"),
                ]))
                .with_data_with_id("ds1", "k", "v", "d"),
        )
        .unwrap();

    let before = describe(&store);
    let dir = fresh_dir("anon_dataset_complex");
    let reloaded = std::panic::catch_unwind(std::panic::AssertUnwindSafe(|| roundtrip(&mut store, &dir)))
        .expect("the CSV writer must not panic")
        .expect("round trip must succeed");
    assert_eq!(before, describe(&reloaded));
}

/// Input: one annotation whose single data item has no public id (`with_data`, the most common way to annotate).
///
/// What happens: the data item has no identifier before (`id() == None`) and the public identifier "!D0"
/// after the round trip. `ToCsv for AnnotationDataSet` writes the temporary id into the Id column and
/// `FromCsv for AnnotationDataSet::from_csv_reader` (src/csv.rs) passes it on as `BuildItem::Id(..)` without
/// the `strip_temp_ids` treatment the STAM JSON reader applies (DataVisitor in src/annotationdataset.rs).
/// The temporary id has become a real, persistent identifier (and later collides with the temporary id
/// of whatever item ends up at handle 0, see `public_data_id_shaped_like_temporary_id_...` below).
#[test]
fn anonymous_data_gains_public_identifier() {
    let mut store = base();
    store
        .annotate(
            AnnotationBuilder::new()
                .with_id("a")
                .with_target(SelectorBuilder::textselector("r1", Offset::simple(0, 5)))
                .with_data("ds1", "k", "v"),
        )
        .unwrap();
    let ids = |s: &AnnotationStore| -> Vec<Option<String>> {
        s.dataset("ds1").unwrap().data().map(|d| d.id().map(|x| x.to_string())).collect()
    };
    assert_eq!(ids(&store), vec![None]);
    let reloaded = roundtrip(&mut store, &fresh_dir("anon_data_id")).expect("round trip must succeed");
    assert_eq!(ids(&reloaded), vec![None], "the data item was anonymous and must still be");
}

/// Input: an anonymous annotation without any data (only a target).
///
/// What happens: it comes back with the public identifier "!A0". The `annotation.len() == 0` branch of
/// `ToCsv for AnnotationStore::to_csv_writer` (src/csv.rs) writes the temporary id in the Id column (the
/// branches for annotations with data write an empty Id), and `TryInto<AnnotationBuilder> for AnnotationCsv`
/// turns whatever is in the column into `with_id(..)`; nothing strips temporary ids on the CSV path.
/// An anonymous annotation *with* data stays anonymous, so the outcome depends on whether there is data.
#[test]
fn anonymous_annotation_without_data_gains_public_identifier() {
    let mut store = base();
    store
        .annotate(AnnotationBuilder::new().with_target(SelectorBuilder::textselector("r1", Offset::simple(0, 5))))
        .unwrap();
    let ids = |s: &AnnotationStore| -> Vec<Option<String>> {
        s.annotations().map(|a| a.id().map(|x| x.to_string())).collect()
    };
    assert_eq!(ids(&store), vec![None]);
    let reloaded = roundtrip(&mut store, &fresh_dir("anon_annotation_id")).expect("round trip must succeed");
    assert_eq!(ids(&reloaded), vec![None], "the annotation was anonymous and must still be");
}

/// Input: annotation 0 has the public id "!A1" (legal: `resolve_id` explicitly gives public ids of that shape
/// precedence), annotation 1 is anonymous, annotation "top" targets annotation 1.
///
/// What happens: the writer refers to annotation 1 by its temporary id "!A1"
/// (`AnnotationCsv::set_targetannotation`, src/csv.rs), which is at the same time the public id of annotation 0.
/// On loading `resolve_id` (src/store.rs) finds the public id first: "top" now targets annotation 0 ("Hallå")
/// instead of annotation 1 ("världen"). The writer never checks that a temporary id it emits is free.
#[test]
fn public_annotation_id_shaped_like_temporary_id_captures_reference() {
    let mut store = base();
    named(&mut store, "!A1", SelectorBuilder::textselector("r1", Offset::simple(0, 5)));
    let a1 = anonymous(&mut store, 1, SelectorBuilder::textselector("r1", Offset::simple(6, 13)));
    named(&mut store, "top", SelectorBuilder::annotationselector(a1, Some(Offset::whole())));

    let before = describe(&store);
    let reloaded = roundtrip(&mut store, &fresh_dir("tempid_shaped_annotation_id")).expect("round trip must succeed");
    assert_eq!(before, describe(&reloaded));
}

/// Input: data item 0 of "ds1" has the public id "!D1", data item 1 is anonymous.
/// (This arises by itself: because of `anonymous_data_gains_public_identifier` every anonymous data item
/// of a CSV store carries such an id after one round trip, and removals shift the handles under them.)
///
/// What happens: `ToCsv for AnnotationDataSet` writes two rows with Id "!D1" (one public, one temporary) and
/// the annotations table refers to both as "!D1". After loading the dataset holds ONE data item, and
/// annotation "a1" carries k=v0 instead of k=v1: a data item and a value are lost.
#[test]
fn public_data_id_shaped_like_temporary_id_swallows_anonymous_data() {
    let mut store = base();
    store
        .annotate(
            AnnotationBuilder::new()
                .with_id("a0")
                .with_target(SelectorBuilder::textselector("r1", Offset::simple(0, 5)))
                .with_data_with_id("ds1", "k", "v0", "!D1"),
        )
        .unwrap();
    store
        .annotate(
            AnnotationBuilder::new()
                .with_id("a1")
                .with_target(SelectorBuilder::textselector("r1", Offset::simple(6, 13)))
                .with_data("ds1", "k", "v1"),
        )
        .unwrap();
    let values = |s: &AnnotationStore| -> Vec<String> {
        s.annotations()
            .map(|a| format!("{:?}:{}", a.id(), a.data().map(|d| d.value().to_string()).collect::<Vec<_>>().join(",")))
            .collect()
    };
    let before = values(&store);
    let reloaded = roundtrip(&mut store, &fresh_dir("tempid_shaped_data_id")).expect("round trip must succeed");
    assert_eq!(reloaded.dataset("ds1").unwrap().data().count(), 2, "two data items went in");
    assert_eq!(before, values(&reloaded));
}

/// Input: an ordinary store (anonymous annotation with data, a second annotation that targets it), saved with
/// the default configuration and loaded with `Config::default().with_strip_temp_ids(false)`.
///
/// What happens: loading fails ("Unable to find targeted Annotation: !A0"). The writer emits "!A0" as the
/// target but leaves the Id of the anonymous annotation empty (only data-less annotations get their temporary
/// id written, see above), so with temporary-id resolution off there is nothing "!A0" could match.
/// The reader does not accept what the writer emitted. (STAM JSON always writes the temporary id as "@id".)
#[test]
fn target_by_temporary_id_unreadable_without_strip_temp_ids() {
    let mut store = base();
    let a0 = anonymous(&mut store, 0, SelectorBuilder::textselector("r1", Offset::simple(6, 13)));
    named(
        &mut store,
        "top",
        SelectorBuilder::annotationselector(a0, Some(Offset::new(Cursor::EndAligned(-3), Cursor::EndAligned(0)))),
    );
    let dir = fresh_dir("strip_temp_ids_off");
    let filename = format!("{}/s.store.stam.csv", dir);
    store.set_filename(&filename);
    store.save().unwrap();
    let reloaded = AnnotationStore::from_file(&filename, Config::default().with_strip_temp_ids(false))
        .expect("the reader must accept what the writer wrote");
    let top = reloaded.annotation("top").expect("annotation top");
    assert_eq!(top.text().collect::<Vec<_>>(), vec!["den"]);
}

// ------------------------------------------------------------------------------------------------
// 2. file names
// ------------------------------------------------------------------------------------------------

/// Input: two resources with the ids "a/b" and "a:b" (no ';' anywhere) and different texts.
///
/// What happens: `AnnotationStore::set_dataformat` (src/annotationstore.rs) derives the text file name from
/// `sanitize_id_to_filename(id)` (src/file.rs), which maps both ids to "a.b"; both resources get the file
/// "a.b.txt", the second text overwrites the first and after loading BOTH resources read "second".
/// The same happens for ids that differ only in a known extension ("doc", "doc.txt", "doc.md", "doc.json") and,
/// through the same code, for datasets ("x/y" and "x:y" share "x.y.annotationset.stam.csv").
#[test]
fn resource_ids_with_the_same_sanitized_filename_overwrite_each_other() {
    let mut store = AnnotationStore::default()
        .with_id("st")
        .with_resource(TextResourceBuilder::new().with_id("a/b").with_text("first"))
        .unwrap()
        .with_resource(TextResourceBuilder::new().with_id("a:b").with_text("second"))
        .unwrap();
    let before = describe(&store);
    let reloaded = roundtrip(&mut store, &fresh_dir("sanitize_collision")).expect("round trip must succeed");
    assert_eq!(before, describe(&reloaded));
}

/// Input: any store, saved under a RELATIVE filename that has a directory part
/// ("target/hunt-hc15/relative_filename/s.store.stam.csv", relative to the working directory).
///
/// What happens: `save()` fails with "No such file or directory" for
/// "target/hunt-hc15/relative_filename/target/hunt-hc15/relative_filename/s.annotations.stam.csv".
/// `set_dataformat` stores `annotations_filename` *including* the directory of the store, and
/// `AnnotationStore::to_csv_files` (src/csv.rs) then opens it with `self.new_config()`, whose workdir is that
/// same directory: the directory is applied twice. (An absolute store filename hides this, because
/// `get_filepath` ignores the workdir for absolute paths.) The same doubling ("sub/sub/") happens for a
/// store filename "sub/s.store.stam.csv" below a configured workdir.
#[test]
fn relative_store_filename_with_directory_cannot_be_saved() {
    let _ = fresh_dir("relative_filename");
    //(cargo runs integration tests with the package root as working directory)
    assert!(std::path::Path::new("target/hunt-hc15/relative_filename").is_dir());
    let filename = "target/hunt-hc15/relative_filename/s.store.stam.csv";
    let mut store = base();
    named(&mut store, "a", SelectorBuilder::textselector("r1", Offset::simple(0, 5)));
    let before = describe(&store);
    store.set_filename(filename);
    store.save().expect("saving under a relative filename must work");
    let reloaded = AnnotationStore::from_file(filename, Config::default()).expect("loading must work");
    assert_eq!(before, describe(&reloaded));
}

/// Input: a store saved as CSV in directory A, then (the same object, or the store loaded from A) saved as
/// CSV in directory B.
///
/// What happens: loading from B fails, "ds1.annotationset.stam.csv: No such file or directory".
/// `AnnotationStore::to_csv_files` (src/csv.rs) writes datasets and resources only `if changed()`. The first
/// save marked them unchanged, and `set_filename` to another directory only moves their workdir
/// (`update_config`) without marking them changed (`set_dataformat` is not even called, the format already
/// is CSV). The manifest in B lists files that were never written there. For the same reason
/// `annotations_filename` keeps pointing into A: the manifest in B names ".../a/s.annotations.stam.csv"
/// by its absolute path, and the second save overwrites the annotations table of the store in A.
#[test]
fn second_save_into_another_directory_leaves_files_out() {
    let mut store = base();
    named(&mut store, "a", SelectorBuilder::textselector("r1", Offset::simple(0, 5)));
    let before = describe(&store);
    let first = roundtrip(&mut store, &fresh_dir("save_twice/a")).expect("first round trip");
    assert_eq!(before, describe(&first));
    let second = roundtrip(&mut store, &fresh_dir("save_twice/b")).expect("second round trip must succeed too");
    assert_eq!(before, describe(&second));
}

/// Input: a store loaded from STAM CSV, then annotated with data in a dataset that does not exist yet
/// (`with_data_with_id("newset", ..)` creates it on the fly), then saved.
///
/// What happens: `save()` fails: "AnnotationDataSet must have a set filename for CSV serialization to work".
/// File names for datasets and resources are only derived in `AnnotationStore::set_dataformat`
/// (src/annotationstore.rs), i.e. at the moment the format *changes* to CSV, and only for items whose own
/// config says another format. Anything added to a store that already is in CSV format (loaded from CSV,
/// or `set_filename("..csv")` before adding resources and datasets) inherits the CSV format, never gets a
/// filename, and `ToCsv for AnnotationStore::to_csv_writer` refuses to write the manifest. The fallback
/// names in `to_csv_files` (which, besides, use the id of the *store*) are never reached.
#[test]
fn dataset_added_to_a_csv_store_cannot_be_saved() {
    let mut store = base();
    named(&mut store, "a", SelectorBuilder::textselector("r1", Offset::simple(0, 5)));
    let mut loaded = roundtrip(&mut store, &fresh_dir("add_after_load")).expect("first round trip");
    loaded
        .annotate(
            AnnotationBuilder::new()
                .with_id("b")
                .with_target(SelectorBuilder::textselector("r2", Offset::simple(0, 6)))
                .with_data_with_id("newset", "k2", "v2", "d2"),
        )
        .unwrap();
    let before = describe(&loaded);
    loaded.save().expect("saving the extended store must work");
    let reloaded = AnnotationStore::from_file(loaded.filename().unwrap(), Config::default()).expect("loading must work");
    assert_eq!(before, describe(&reloaded));
}

/// Input: the store is saved in ".../e1/", one of its resources lives (absolute filename) in the sibling
/// directory ".../e10/".
///
/// What happens: the manifest lists the resource as "0/r.txt" and loading fails (".../e1/0/r.txt: No such
/// file"). `filename_without_workdir` (src/file.rs) strips the workdir with a plain string `starts_with`,
/// without checking that the match ends at a path separator: ".../e10/r.txt" "starts with" ".../e1".
#[test]
fn resource_in_sibling_directory_with_common_prefix_gets_mangled_filename() {
    let d1 = fresh_dir("prefix/e1");
    let d10 = fresh_dir("prefix/e10");
    std::fs::write(format!("{}/r.txt", d10), "hello world").unwrap();
    let mut store = AnnotationStore::default()
        .with_id("st")
        .with_resource(TextResourceBuilder::new().with_id("r").with_filename(&format!("{}/r.txt", d10)))
        .unwrap()
        .with_dataset(AnnotationDataSetBuilder::new().with_id("ds1"))
        .unwrap();
    named(&mut store, "a", SelectorBuilder::textselector("r", Offset::simple(0, 5)));
    let before = describe(&store);
    let reloaded = roundtrip(&mut store, &d1).expect("round trip must succeed");
    assert_eq!(before, describe(&reloaded));
}
