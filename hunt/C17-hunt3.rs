//! Violations of: "Web Annotation export is well-formed JSON faithful to the annotation".
//! Every test here FAILS on the current code.

use serde_json::Value;
use stam::*;

const NS_ANNO: &str = "http://www.w3.org/ns/anno/";

fn cfg() -> WebAnnoConfig {
    WebAnnoConfig {
        auto_generated: false,
        auto_generator: false,
        ..WebAnnoConfig::default()
    }
}

fn store() -> Result<AnnotationStore, StamError> {
    AnnotationStore::default()
        .with_id("test")
        .with_resource(
            TextResourceBuilder::new()
                .with_id("testres")
                .with_text("Hello world"),
        )?
        .with_dataset(AnnotationDataSetBuilder::new().with_id("testdataset"))?
        .with_dataset(AnnotationDataSetBuilder::new().with_id(NS_ANNO))
}

/// All the scalar leaves (of any depth) below a JSON value
fn leaves(value: &Value, out: &mut Vec<Value>) {
    match value {
        Value::Array(items) => items.iter().for_each(|item| leaves(item, out)),
        Value::Object(map) => map.values().for_each(|item| leaves(item, out)),
        scalar => out.push(scalar.clone()),
    }
}

/// Member names that occur more than once within one and the same JSON object, anywhere in `json`.
/// (serde_json::Value silently keeps only the last of them, like most JSON readers.)
fn duplicate_members(json: &str) -> Vec<String> {
    use serde::de::{Deserializer, MapAccess, SeqAccess, Visitor};
    use std::cell::RefCell;
    use std::fmt;

    struct Dup<'a>(&'a RefCell<Vec<String>>);
    impl<'de, 'a> serde::de::DeserializeSeed<'de> for Dup<'a> {
        type Value = ();
        fn deserialize<D: Deserializer<'de>>(self, deserializer: D) -> Result<(), D::Error> {
            deserializer.deserialize_any(self)
        }
    }
    impl<'de, 'a> Visitor<'de> for Dup<'a> {
        type Value = ();
        fn expecting(&self, f: &mut fmt::Formatter) -> fmt::Result {
            write!(f, "any JSON")
        }
        fn visit_bool<E>(self, _: bool) -> Result<(), E> {
            Ok(())
        }
        fn visit_i64<E>(self, _: i64) -> Result<(), E> {
            Ok(())
        }
        fn visit_u64<E>(self, _: u64) -> Result<(), E> {
            Ok(())
        }
        fn visit_f64<E>(self, _: f64) -> Result<(), E> {
            Ok(())
        }
        fn visit_str<E>(self, _: &str) -> Result<(), E> {
            Ok(())
        }
        fn visit_unit<E>(self) -> Result<(), E> {
            Ok(())
        }
        fn visit_seq<A: SeqAccess<'de>>(self, mut seq: A) -> Result<(), A::Error> {
            while seq.next_element_seed(Dup(self.0))?.is_some() {}
            Ok(())
        }
        fn visit_map<A: MapAccess<'de>>(self, mut map: A) -> Result<(), A::Error> {
            let mut seen: Vec<String> = Vec::new();
            while let Some(key) = map.next_key::<String>()? {
                if seen.contains(&key) {
                    self.0.borrow_mut().push(key.clone());
                }
                seen.push(key);
                map.next_value_seed(Dup(self.0))?;
            }
            Ok(())
        }
    }
    let found = RefCell::new(Vec::new());
    let mut deserializer = serde_json::Deserializer::from_str(json);
    serde::de::DeserializeSeed::deserialize(Dup(&found), &mut deserializer)
        .expect("export must be well-formed JSON");
    found.into_inner()
}

/// VIOLATION 1: an annotation that holds two values for the same key (perfectly legal in STAM, e.g. two labels)
/// is exported with the member `"_:testdataset/label"` written TWICE in the body object:
///     "body": { ..., "_:testdataset/label": "one","_:testdataset/label": "two"}
/// An object with a repeated member name carries only one of the values for every JSON/JSON-LD reader
/// (the last one wins, or the document is refused), so the body does not carry each data value.
/// A correct export would gather the values of one predicate in an array.
///
/// Cause: src/api/webanno.rs, `ResultItem<Annotation>::to_webannotation`: the loop over `self.data()`
/// appends `output_predicate_datavalue(..)` to `body_out` once per AnnotationData, without ever
/// looking whether the same predicate was already written.
#[test]
fn body_holds_both_values_of_a_key_that_occurs_twice() -> Result<(), StamError> {
    let mut store = store()?;
    store.annotate(
        AnnotationBuilder::new()
            .with_id("A1")
            .with_target(SelectorBuilder::textselector(
                "testres",
                Offset::simple(6, 11),
            ))
            .with_data("testdataset", "label", "one")
            .with_data("testdataset", "label", "two"),
    )?;
    let annotation = store.annotation("A1").unwrap();
    assert_eq!(annotation.data().count(), 2); //the annotation really has the two values
    let out = annotation.to_webannotation(&cfg());
    let json: Value = serde_json::from_str(&out).expect("well-formed JSON");
    let mut found = Vec::new();
    leaves(&json["body"], &mut found);
    assert!(
        found.contains(&Value::from("one")) && found.contains(&Value::from("two")),
        "the body read back from the export lacks a value: {}\n(export: {})",
        json["body"],
        out
    );
    assert_eq!(
        duplicate_members(&out),
        Vec::<String>::new(),
        "repeated member names in one object: {}",
        out
    );
    Ok(())
}

/// VIOLATION 2: the same at the level of the annotation itself: two `creator` values (or `motivation`,
/// `created`, `generated`, `generator`) from the Web Annotation namespace are written as two `"creator"`
/// members of the top-level object:
///     "type": "Annotation","creator": "alice","creator": "bob", "target": ...
/// Read back, one creator is gone. The Web Annotation model has an array for this.
///
/// Cause: src/api/webanno.rs, `to_webannotation`, the match arms `"generated"`, `"generator"` and
/// `"motivation" | "created" | "creator"`: each occurrence is appended to `ann_out` at once.
#[test]
fn annotation_holds_both_creators() -> Result<(), StamError> {
    let mut store = store()?;
    store.annotate(
        AnnotationBuilder::new()
            .with_id("A1")
            .with_target(SelectorBuilder::textselector(
                "testres",
                Offset::simple(6, 11),
            ))
            .with_data(NS_ANNO, "creator", "alice")
            .with_data(NS_ANNO, "creator", "bob"),
    )?;
    let annotation = store.annotation("A1").unwrap();
    let out = annotation.to_webannotation(&cfg());
    let json: Value = serde_json::from_str(&out).expect("well-formed JSON");
    let mut found = Vec::new();
    leaves(&json["creator"], &mut found);
    assert!(
        found.contains(&Value::from("alice")) && found.contains(&Value::from("bob")),
        "a creator is lost: {}\n(export: {})",
        json["creator"],
        out
    );
    assert_eq!(duplicate_members(&out), Vec::<String>::new());
    Ok(())
}

/// VIOLATION 3: two DIFFERENT keys of one set, `a b` and `a-b`, are exported under one and the same
/// member name `"_:testdataset/a-b"` (written twice), because the characters that are not allowed in an
/// IRI are all replaced by `-`. Read back, the body has ONE member and the value of key `a b` is gone.
/// "Whatever characters the keys contain" the body must carry each value (a faithful export would
/// percent-encode: `a%20b`).
///
/// Cause: src/api/webanno.rs, `into_iri`: `s.replace(invalid_in_iri, "-")` is not injective
/// (space, tab, newline and `"` all become `-`, which is itself a legal character of an identifier).
#[test]
fn keys_that_differ_only_in_a_character_not_allowed_in_an_iri_stay_apart() -> Result<(), StamError>
{
    let mut store = store()?;
    store.annotate(
        AnnotationBuilder::new()
            .with_id("A1")
            .with_target(SelectorBuilder::textselector(
                "testres",
                Offset::simple(6, 11),
            ))
            .with_data("testdataset", "a b", 1)
            .with_data("testdataset", "a-b", 2),
    )?;
    let annotation = store.annotation("A1").unwrap();
    let out = annotation.to_webannotation(&cfg());
    let json: Value = serde_json::from_str(&out).expect("well-formed JSON");
    let body = json["body"].as_object().expect("body is an object");
    let of_1: Vec<&String> = body
        .iter()
        .filter(|(_, v)| **v == Value::from(1))
        .map(|(k, _)| k)
        .collect();
    let of_2: Vec<&String> = body
        .iter()
        .filter(|(_, v)| **v == Value::from(2))
        .map(|(k, _)| k)
        .collect();
    assert_eq!(of_1.len(), 1, "value 1 (key `a b`) is not in the body: {}", out);
    assert_eq!(of_2.len(), 1, "value 2 (key `a-b`) is not in the body: {}", out);
    assert_ne!(of_1, of_2);
    Ok(())
}

/// VIOLATION 4 (same cause as 3, seen in the target): the resources `my text` and `my-text` are two
/// resources of one store; an annotation on the first is exported with `"source": "_:my-text"`, which is
/// the name under which the OTHER resource is exported. The target does not name the same resource as
/// the annotation's text selection.
///
/// Cause: src/api/webanno.rs, `into_iri` (as above), used by `output_selector`.
#[test]
fn resources_that_differ_only_in_a_character_not_allowed_in_an_iri_stay_apart(
) -> Result<(), StamError> {
    let mut store = AnnotationStore::default()
        .with_id("test")
        .with_resource(
            TextResourceBuilder::new()
                .with_id("my text")
                .with_text("Hello world"),
        )?
        .with_resource(
            TextResourceBuilder::new()
                .with_id("my-text")
                .with_text("Other words"),
        )?;
    store.annotate(
        AnnotationBuilder::new()
            .with_id("A1")
            .with_target(SelectorBuilder::textselector(
                "my text",
                Offset::simple(0, 5),
            )),
    )?;
    store.annotate(
        AnnotationBuilder::new()
            .with_id("A2")
            .with_target(SelectorBuilder::textselector(
                "my-text",
                Offset::simple(0, 5),
            )),
    )?;
    let source = |id: &str| -> Value {
        let out = store.annotation(id).unwrap().to_webannotation(&cfg());
        let json: Value = serde_json::from_str(&out).expect("well-formed JSON");
        json["target"]["source"].clone()
    };
    assert!(source("A1").is_string());
    assert_ne!(
        source("A1"),
        source("A2"),
        "annotations on two different resources name the same source"
    );
    Ok(())
}

/// VIOLATION 5: the keys `id` and `type` of the Web Annotation namespace give the body its own identifier
/// and type (the code has `suppress_body_id` / `suppress_default_body_type` for exactly this). When the
/// value is an IRI - which is what an identifier is - the export writes
///     "body": { "type": { "id": "http://www.w3.org/ns/oa#TextualBody" },"id": { "id": "http://example.org/body1" }}
/// instead of the strings. The string value has become an object (not the same JSON type), and
/// `"id": { "id": ... }` is not something a JSON-LD reader accepts for the keyword `id`/`type`.
///
/// Cause: src/api/webanno.rs, `output_predicate_datavalue`: every string value that `is_iri` is wrapped
/// as `{ "id": .. }`, also for the predicates `id` and `type` whose value is an IRI by nature.
#[test]
fn body_id_and_type_given_as_iri_stay_strings() -> Result<(), StamError> {
    let mut store = store()?;
    store.annotate(
        AnnotationBuilder::new()
            .with_id("A1")
            .with_target(SelectorBuilder::textselector(
                "testres",
                Offset::simple(6, 11),
            ))
            .with_data(NS_ANNO, "type", "http://www.w3.org/ns/oa#TextualBody")
            .with_data(NS_ANNO, "id", "http://example.org/body1")
            .with_data(NS_ANNO, "value", "hi"),
    )?;
    let annotation = store.annotation("A1").unwrap();
    let out = annotation.to_webannotation(&cfg());
    let json: Value = serde_json::from_str(&out).expect("well-formed JSON");
    assert_eq!(
        json["body"]["id"],
        Value::from("http://example.org/body1"),
        "{}",
        out
    );
    assert_eq!(
        json["body"]["type"],
        Value::from("http://www.w3.org/ns/oa#TextualBody"),
        "{}",
        out
    );
    Ok(())
}
