//! Violations of the property "public identifiers resolve to exactly the live item that carries them"
//! found on the current code. Every test FAILS on the current code.

use stam::*;

fn base() -> AnnotationStore {
    AnnotationStore::default()
        .with_id("test")
        .with_resource(
            TextResourceBuilder::new()
                .with_id("r0")
                .with_text("Hello world"),
        )
        .unwrap()
        .with_resource(
            TextResourceBuilder::new()
                .with_id("r1")
                .with_text("Second text"),
        )
        .unwrap()
        .with_dataset(AnnotationDataSetBuilder::new().with_id("s0"))
        .unwrap()
        .with_dataset(AnnotationDataSetBuilder::new().with_id("s1"))
        .unwrap()
}

fn ann<'a>(
    id: &'a str,
    res: &'a str,
    begin: usize,
    end: usize,
    set: &'a str,
    val: &'a str,
) -> AnnotationBuilder<'a> {
    AnnotationBuilder::new()
        .with_id(id)
        .with_target(SelectorBuilder::textselector(res, Offset::simple(begin, end)))
        .with_data(set, "k", val)
}

/// A lookup must never panic, whatever the string. `ResultItem<Annotation>::textselectionset_in()`
/// looks a resource up by identifier and panics ("resource must have handle") when the string
/// names no resource.
///
/// Cause: src/api/annotation.rs, `textselectionset_in()`: `resource.to_handle(self.rootstore())
/// .expect("resource must have handle")` -- `to_handle()` is `None` for every identifier that does not resolve.
#[test]
fn textselectionset_in_panics_on_unknown_identifier() {
    let mut store = base();
    store.annotate(ann("a0", "r0", 0, 5, "s0", "x")).unwrap();
    let annotation = store.annotation("a0").unwrap();
    assert!(annotation.textselectionset_in("r0").is_some());
    assert!(annotation.textselectionset_in("r1").is_none());
    let result = std::panic::catch_unwind(std::panic::AssertUnwindSafe(|| {
        annotation.textselectionset_in("no-such-resource").is_some()
    }));
    assert!(
        matches!(result, Ok(false)),
        "looking up an unknown resource identifier must give nothing, not panic"
    );
}

/// The temporary identifier of item n is `!X` followed by the decimal digits of n. A string with a
/// sign after the letter (`!A+0`) is nobody's identifier, yet it resolves to item 0, for every kind.
/// (Consequently `AnnotationBuilder::with_id("!A+0")` is refused as a duplicate while annotation 0 lives.)
///
/// Cause: src/store.rs, `resolve_temp_id()`: the remainder after the letter goes to
/// `str::parse::<usize>()`, which accepts a leading `+`.
#[test]
fn signed_number_is_taken_for_a_temporary_identifier() {
    let mut store = base();
    store.annotate(ann("a0", "r0", 0, 5, "s0", "x")).unwrap();
    assert!(store.annotation("!A0").is_some());
    assert!(store.annotation("!A-0").is_none());
    let mut wrong: Vec<&str> = Vec::new();
    if store.annotation("!A+0").is_some() {
        wrong.push("annotation !A+0");
    }
    if store.resource("!R+1").is_some() {
        wrong.push("resource !R+1");
    }
    if store.dataset("!S+1").is_some() {
        wrong.push("dataset !S+1");
    }
    if store.key("s0", "!K+0").is_some() {
        wrong.push("key !K+0");
    }
    if store.annotationdata("s0", "!D+0").is_some() {
        wrong.push("data !D+0");
    }
    assert!(
        wrong.is_empty(),
        "strings that are no identifier of any item resolve: {:?}",
        wrong
    );
}

/// A temporary identifier may resolve only to a live item, and an identifier stops resolving the
/// moment the item is removed. `AnnotationStore::resolve_annotation_id()` (and `resolve_resource_id()`,
/// `resolve_dataset_id()`, all `StoreFor::resolve_id()`) hand out a handle for the temporary identifier
/// of a removed item and of an item that never existed.
///
/// Cause: src/store.rs, `StoreFor::resolve_id()`: the temporary-id branch returns
/// `Ok(T::HandleType::new(number))` without looking whether that slot of the store holds an item
/// (`has()`/`get()` check the slot afterwards, `resolve_id()` and `Request::to_handle()` do not).
#[test]
fn resolve_id_resolves_temporary_ids_of_removed_and_nonexistent_items() {
    let mut store = base();
    store.annotate(ann("a0", "r0", 0, 5, "s0", "x")).unwrap();
    store.annotate(ann("a1", "r0", 6, 11, "s0", "y")).unwrap();
    assert_eq!(
        store.resolve_annotation_id("!A0").ok(),
        Some(AnnotationHandle::new(0))
    );
    store.remove_annotation("a0").unwrap();
    assert!(store.annotation("!A0").is_none());
    assert!(store.resolve_annotation_id("a0").is_err());
    assert!(
        store.resolve_annotation_id("!A0").is_err(),
        "the temporary id of a removed annotation still resolves: {:?}",
        store.resolve_annotation_id("!A0")
    );
    assert!(
        store.resolve_annotation_id("!A77").is_err(),
        "the temporary id of an annotation that never existed resolves: {:?}",
        store.resolve_annotation_id("!A77")
    );
    assert!(store.resolve_resource_id("!R9").is_err());
    assert!(store.resolve_dataset_id("!S9").is_err());
}

/// Same cause, seen through an operation that trusts the lookup: `associate_substore()` accepts the
/// temporary identifier of a removed annotation and of one that never existed (it answers `Ok(())`
/// and enters the handle in the substore), while an unknown ordinary identifier is refused.
///
/// Cause: src/substore.rs, `AssociateSubStore<Annotation>::associate_substore()` takes
/// `item.to_handle(self)` for proof that the item exists; with src/store.rs `resolve_id()` answering
/// for any `!A<n>` that is not so.
#[test]
fn associate_substore_accepts_temporary_id_of_nothing() {
    let mut store = base();
    store.annotate(ann("a0", "r0", 0, 5, "s0", "x")).unwrap();
    store.annotate(ann("a1", "r0", 6, 11, "s0", "y")).unwrap();
    store.remove_annotation("a0").unwrap();
    let sub = store
        .add_new_substore("sub", "target/hunt-hc03/sub.store.stam.json")
        .unwrap();
    assert!(<AnnotationStore as AssociateSubStore<Annotation>>::associate_substore(
        &mut store,
        "no-such-annotation",
        sub
    )
    .is_err());
    let removed =
        <AnnotationStore as AssociateSubStore<Annotation>>::associate_substore(&mut store, "!A0", sub);
    assert!(
        removed.is_err(),
        "the temporary id of a removed annotation was accepted"
    );
    let never =
        <AnnotationStore as AssociateSubStore<Annotation>>::associate_substore(&mut store, "!A77", sub);
    assert!(
        never.is_err(),
        "the temporary id of an annotation that never existed was accepted"
    );
}

/// A temporary identifier stands for an item of the kind its letter names: `!R0` is a temporary
/// identifier of a resource, for an annotation it is an ordinary public identifier (and lookups treat
/// it so: `store.annotation("!R0")` finds the annotation that carries it). The JSON reader however takes
/// any `!<letter><number>` on an annotation (or on annotation data) for the temporary id of that
/// annotation (data): the store below can not be read back from its own serialisation
/// ("unable to resolve temporary public identifiers for annotations"); were the annotation the first
/// one, it would be read but lose its identifier. The same holds for annotation data that carries
/// e.g. `!A1`.
///
/// Cause: src/annotationstore.rs `AnnotationsVisitor::visit_seq()` and src/annotationdataset.rs
/// `DataVisitor::visit_seq()` call `resolve_temp_id()` on the identifier without checking the prefix
/// (`Annotation::temp_id_prefix()` / `AnnotationData::temp_id_prefix()`) as `StoreFor::resolve_id()` does.
#[test]
fn json_reader_takes_identifier_with_another_kinds_letter_for_temporary() {
    let mut store = base();
    store
        .annotate(
            AnnotationBuilder::new()
                .with_id("first")
                .with_target(SelectorBuilder::resourceselector("r0"))
                .with_data("s0", "k", "v"),
        )
        .unwrap();
    store
        .annotate(
            AnnotationBuilder::new()
                .with_id("!R0")
                .with_target(SelectorBuilder::resourceselector("r0"))
                .with_data("s0", "k", "x"),
        )
        .unwrap();
    //the identifier is an ordinary one for annotations
    assert_eq!(store.annotation("!R0").unwrap().id(), Some("!R0"));
    assert_eq!(store.annotation("!R0").unwrap().handle().as_usize(), 1);
    let json = store.to_json_string(&Config::default()).unwrap();
    let reread = AnnotationStore::from_json_str(&json, Config::default());
    let reread = reread.expect("the store must be readable from its own serialisation");
    assert_eq!(
        reread.annotation("!R0").and_then(|a| a.id().map(|s| s.to_string())),
        Some("!R0".to_string()),
        "the annotation's identifier must survive"
    );
}

/// Identifiers are never redirected to another item. Merging a dataset that has a key with an
/// identifier of temporary shape (`!K0`) into a set whose key 0 is "k" overwrites key "k": afterwards
/// the lookup of "k" hands out an item whose identifier is "!K0" (and all data of key "k" has moved to
/// that key); no key carries "k" any more although nothing was removed.
///
/// Cause: src/store.rs `StoreFor::insert()`: the duplicate check `self.has(id)` also resolves
/// temporary identifiers, so the new key "!K0" counts as a duplicate of key 0; in merge mode
/// (`AnnotationDataSet::merge()` in src/annotationdataset.rs switches it on) `DataKey::merge()`
/// (src/datakey.rs) then replaces the existing item wholesale (`*self = other`), identifier included,
/// while the id map keeps "k" -> 0.
#[test]
fn merge_of_key_with_temporary_shaped_id_renames_another_key() {
    let mut store = base();
    store.annotate(ann("a0", "r0", 0, 5, "s0", "x")).unwrap();
    assert_eq!(store.key("s0", "k").unwrap().id(), Some("k"));

    let mut other = AnnotationDataSet::new(Config::default()).with_id("s0");
    other.insert_data("", "!K0", "v", true).unwrap();

    let set: &mut AnnotationDataSet = store.get_mut("s0").unwrap();
    set.merge(other).unwrap();

    let set = store.dataset("s0").unwrap();
    if let Some(key) = set.key("k") {
        assert_eq!(
            key.id(),
            Some("k"),
            "the lookup of \"k\" hands out an item with another identifier"
        );
    } else {
        panic!("key \"k\" was not removed but does not resolve any more");
    }
    let data = store.annotation("a0").unwrap().data().next().unwrap();
    assert_eq!(data.key().id(), Some("k"));
}

/// Identifiers are not redirected to another item by compaction of the store. After `reindex()`
/// the identifiers themselves still resolve, but the reverse indices that later removals go by are
/// left with the old handles, so the next removal hits another item: removing data "d1" (strict, so
/// the annotation that uses it goes too) after a compaction removes annotation "a2", which does not
/// use it, and leaves "a1", which does. From then on "a2" (never removed) does not resolve and "a1"
/// (removed) does.
///
/// Cause: src/annotationstore.rs `AnnotationStore::reindex()` renumbers the annotations and their id map
/// but not `dataset_data_annotation_map` (nor `key_annotation_metamap`, `data_annotation_metamap`, nor the
/// handles inside the annotations' selectors and data references); `remove_data()` then takes
/// the stale annotation handles from `dataset_data_annotation_map`.
#[test]
fn removal_after_reindex_hits_the_annotation_with_another_identifier() {
    let mut store = base();
    for (id, value, dataid) in [("a0", "v0", "d0"), ("a1", "v1", "d1"), ("a2", "v2", "d2")] {
        store
            .annotate(
                AnnotationBuilder::new()
                    .with_id(id)
                    .with_target(SelectorBuilder::resourceselector("r0"))
                    .with_data_with_id("s0", "k", value, dataid),
            )
            .unwrap();
    }
    store.remove_annotation("a0").unwrap();
    let mut store = store.reindex();
    assert_eq!(store.annotation("a1").unwrap().id(), Some("a1"));
    assert_eq!(store.annotation("a2").unwrap().id(), Some("a2"));
    //d1 is used by a1 only
    store.remove_data("s0", "d1", true).unwrap();
    assert!(
        store.annotation("a2").is_some(),
        "a2 was never removed (it does not use d1) but its identifier no longer resolves"
    );
    assert!(
        store.annotation("a1").is_none(),
        "a1 used the removed data and had to go with it (strict), but still resolves"
    );
}
