//! Confirmed violations of the property
//! "Text validation accepts unchanged text and flags changed text".
//!
//! Every test writes only below target/hunt-hc18-final/<test name>/.

use stam::*;

fn dir(name: &str) -> String {
    let d = format!(
        "{}/target/hunt-hc18-final/{}",
        env!("CARGO_MANIFEST_DIR"),
        name
    );
    let _ = std::fs::remove_dir_all(&d);
    std::fs::create_dir_all(&d).unwrap();
    d
}

fn copy_fixtures(d: &str, files: &[&str]) {
    for f in files {
        std::fs::copy(
            format!("{}/tests/{}", env!("CARGO_MANIFEST_DIR"), f),
            format!("{}/{}", d, f),
        )
        .unwrap();
    }
}

fn modes() -> Vec<(&'static str, TextValidationMode)> {
    vec![
        ("checksum", TextValidationMode::Checksum),
        ("text", TextValidationMode::Text),
        ("both", TextValidationMode::Both),
        ("auto", TextValidationMode::Auto),
    ]
}

/// a store with one resource (a stand-off text file) and simple annotations on it
fn small_store(
    d: &str,
    name: &str,
    resid: &str,
    text: &str,
    offsets: &[(usize, usize)],
) -> AnnotationStore {
    let mut store = AnnotationStore::new(Config::default())
        .with_id(name)
        .with_filename(&format!("{}/{}.store.stam.json", d, name));
    store
        .add_resource(
            TextResourceBuilder::new()
                .with_id(resid)
                .with_filename(format!("{}.txt", resid))
                .with_text(text),
        )
        .unwrap();
    for (i, (b, e)) in offsets.iter().enumerate() {
        store
            .annotate(
                AnnotationBuilder::new()
                    .with_id(format!("{}_a{}", name, i))
                    .with_target(SelectorBuilder::textselector(resid, Offset::simple(*b, *e))),
            )
            .unwrap();
    }
    store
}

/// VIOLATION 1: a store that lives in STAM CSV can be protected, but not saved any more.
///
/// Input: the repository's own tests/test.store.stam.csv (two annotations on hello.txt), loaded,
/// protected (any mode), saved in place.
/// Observed: `save()` fails with SerializationError("AnnotationDataSet must have a set filename for
/// CSV serialization to work"); the validation information can not be kept across a save and reload.
/// (The same happens for a store built in memory whose filename was set to *.store.stam.csv before
/// protect_text() was called.)
/// Required: validation keeps reporting every annotation as valid across a save and reload.
///
/// Cause: `AnnotationStore::protect_text` (src/textvalidation.rs) inserts the dataset
/// "https://w3id.org/stam/extensions/stam-textvalidation/" with `AnnotationDataSet::new(..).with_id(..)`,
/// i.e. without a filename. Filenames for CSV are only handed out by `AnnotationStore::set_dataformat`
/// (src/annotationstore.rs), which runs only when the data format *changes*; the store manifest writer
/// (`ToCsv for AnnotationStore::to_csv_writer`, CsvTable::StoreManifest, src/csv.rs) refuses every
/// dataset without a filename, although `to_csv_files` a few lines further has a fallback that would
/// infer one.
#[test]
fn csv_store_protected_can_be_saved_and_reloaded() {
    for (mname, mode) in modes() {
        let d = dir(&format!("csv_{}", mname));
        copy_fixtures(
            &d,
            &[
                "test.store.stam.csv",
                "test.annotations.stam.csv",
                "test.annotationset.stam.csv",
                "hello.txt",
            ],
        );
        let storefile = format!("{}/test.store.stam.csv", d);
        let mut store = AnnotationStore::from_file(&storefile, Config::default()).unwrap();
        store.protect_text(mode).unwrap();
        let r = store.validate_text(true);
        assert_eq!((r.valid(), r.invalid(), r.missing()), (2, 0, 0), "{}", mname);

        store
            .save()
            .unwrap_or_else(|e| panic!("mode {}: saving the protected CSV store failed: {}", mname, e));

        let store2 = AnnotationStore::from_file(&storefile, Config::default())
            .unwrap_or_else(|e| panic!("mode {}: reload failed: {}", mname, e));
        let r = store2.validate_text(true);
        assert_eq!((r.valid(), r.invalid(), r.missing()), (2, 0, 0), "{}", mname);
    }
}

/// VIOLATION 2: protecting a store that has a substore (STAM JSON "@include" of another store)
/// writes files that can not be loaded again.
///
/// Input: the repository's own tests/includetest.store.stam.json (annotation A3 in the root store,
/// A1 and A2 in the included tests/test.store.stam.json), protected (any mode), saved, reloaded.
/// Observed: before the save all three annotations validate; after the save,
/// `AnnotationStore::from_file` fails: "Failed to add substore: ... IncompleteError ... id=Id("!D0")
/// key=None ... This may also mean that the data ID did not resolve to an existing item!".
/// Required: validation keeps reporting every annotation as valid across a save and reload (and
/// flags them after the text has changed).
///
/// Cause: `AnnotationStore::protect_text` (src/textvalidation.rs) creates the validation dataset in
/// the root store only, and then attaches data of that dataset to *all* annotations, those of
/// substores included. On serialisation (`Serialize for AnnotationStore`, src/annotationstore.rs) the
/// dataset is written into the root file, the substore's annotations are written into the substore's
/// file, naming their validation data by temporary id ("!D0") and set id only. The root file lists
/// "@include" before "annotationsets", and the substore is a store in its own right, so when its
/// annotations are read the dataset they refer to does not exist (yet).
#[test]
fn store_with_substore_protected_can_be_reloaded() {
    for (mname, mode) in modes() {
        let d = dir(&format!("substore_{}", mname));
        copy_fixtures(
            &d,
            &[
                "includetest.store.stam.json",
                "test.store.stam.json",
                "test.annotationset.stam.json",
                "hello.txt",
            ],
        );
        let storefile = format!("{}/includetest.store.stam.json", d);
        let mut store = AnnotationStore::from_file(&storefile, Config::default()).unwrap();
        assert_eq!(store.substores_len(), 1);
        store.protect_text(mode).unwrap();
        let r = store.validate_text(true);
        assert_eq!((r.valid(), r.invalid(), r.missing()), (3, 0, 0), "{}", mname);
        store.save().unwrap();

        let store2 = AnnotationStore::from_file(&storefile, Config::default()).unwrap_or_else(|e| {
            panic!(
                "mode {}: the protected store can not be loaded again: {}",
                mname, e
            )
        });
        let r = store2.validate_text(true);
        assert_eq!((r.valid(), r.invalid(), r.missing()), (3, 0, 0), "{}", mname);

        // and against a changed text all three are flagged (same length, every character of
        // "Hallå världen" that an annotation selects is different)
        std::fs::write(format!("{}/hello.txt", d), "Xxxxx yyyyyyy").unwrap();
        let store3 = AnnotationStore::from_file(&storefile, Config::default()).unwrap();
        let r = store3.validate_text(true);
        assert_eq!((r.valid(), r.invalid(), r.missing()), (0, 3, 0), "{}", mname);
    }
}

/// VIOLATION 3: two protected stores that are loaded together report unchanged text as invalid.
///
/// Input: store A (resource "Hello wonderful world", annotations "Hello", "wonderful") and store B
/// (resource "Goodbye cruel universe", annotations "Goodbye", "cruel", "universe"), each protected
/// (any mode) and saved; then loaded into one store with
/// `AnnotationStore::from_file(A).with_file(B)`. No text was changed.
/// Observed: the two annotations of A are valid, all three annotations of B are reported invalid:
/// B_a0 "Goodbye" is compared with the reference text "Hello", B_a1 "cruel" with "wonderful",
/// B_a2 "universe" with "Goodbye".
/// (The same happens when A and B are both included as substores of a third store, via
/// `add_substore` / "@include".)
/// Required: annotations whose selected characters did not change are reported valid, only changed
/// ones invalid.
///
/// Cause: `AnnotationStore::protect_text` (src/textvalidation.rs) stores the checksums/texts as data
/// *without public id* (`insert_data(BuildItem::None, ..)`) in a dataset whose id is the same in
/// every store. Annotations are serialised with a reference by temporary id ("!D0", "!D1", ...), which
/// is a position in the dataset. When the second file is read, `AnnotationDataSet::merge`
/// (src/annotationdataset.rs, reached from `StoreFor::insert` in merge mode) appends B's data
/// *behind* A's data, so they get new positions, but B's annotations still say "!D0", "!D1", "!D2",
/// which `insert_data`/`resolve_id` (src/store.rs) resolve to positions 0, 1, 2 of the merged set:
/// A's reference values and B's first one.
#[test]
fn two_protected_stores_loaded_together_stay_valid() {
    for (mname, mode) in modes() {
        let d = dir(&format!("merge_{}", mname));
        let mut a = small_store(&d, "A", "ra", "Hello wonderful world", &[(0, 5), (6, 15)]);
        let mut b = small_store(
            &d,
            "B",
            "rb",
            "Goodbye cruel universe",
            &[(0, 7), (8, 13), (14, 22)],
        );
        a.protect_text(mode).unwrap();
        b.protect_text(mode).unwrap();
        a.save().unwrap();
        b.save().unwrap();

        // each on its own is fine
        for name in ["A", "B"] {
            let s = AnnotationStore::from_file(
                &format!("{}/{}.store.stam.json", d, name),
                Config::default(),
            )
            .unwrap();
            assert!(s.validate_text(true).is_ok(), "{} {}", mname, name);
        }

        // loaded together
        let merged =
            AnnotationStore::from_file(&format!("{}/A.store.stam.json", d), Config::default())
                .unwrap()
                .with_file(&format!("{}/B.store.stam.json", d))
                .unwrap();
        assert_eq!(merged.annotations().count(), 5);
        for annotation in merged.annotations() {
            assert_eq!(
                annotation.validate_text(),
                Some(true),
                "mode {}: annotation {:?} selects {:?}, unchanged, but is compared with checksum {:?} / text {:?}",
                mname,
                annotation.id(),
                annotation.text_join(""),
                annotation.validation_checksum(),
                annotation.validation_text(),
            );
        }
    }
}

/// VIOLATION 4 (a gap rather than a wrong answer): an annotation whose selection is empty at the time
/// of protection gets no validation information at all, so a later change of what it selects is
/// never reported as invalid.
///
/// Input: resource "Hello world" (11 characters); annotation Z with the (legal) mixed offset
/// begin = BeginAligned(5), end = EndAligned(-6), i.e. the empty span 5..5 between "Hello" and
/// " world"; annotation W on 0..5 for comparison. The store is protected (any mode) and saved. Then
/// one character is inserted at position 5 of the text file ("HelloX world") and the store is loaded
/// again: Z now selects "X" instead of "".
/// Observed: `validate_text()` of Z is None before and after the edit (counted as "missing", not as
/// "invalid"); the store-wide result has invalid() == 0 although the characters Z selects differ.
/// Required: an annotation whose selected characters differ is reported as invalid.
///
/// Cause: `AnnotationStore::protect_text` (src/textvalidation.rs) skips an annotation when its joined
/// text is empty (`if !text.is_empty()`), and `ResultItem<Annotation>::text_checksum` returns None for
/// the empty text, so neither a "text" nor a "checksum" value is ever attached to such an annotation;
/// `validate_text` then has nothing to compare with and answers None.
#[test]
fn annotation_with_empty_selection_is_flagged_when_it_starts_selecting_text() {
    for (mname, mode) in modes() {
        let d = dir(&format!("empty_{}", mname));
        let mut store = AnnotationStore::new(Config::default())
            .with_id("E")
            .with_filename(&format!("{}/E.store.stam.json", d));
        store
            .add_resource(
                TextResourceBuilder::new()
                    .with_id("r")
                    .with_filename("r.txt")
                    .with_text("Hello world"),
            )
            .unwrap();
        store
            .annotate(
                AnnotationBuilder::new()
                    .with_id("W")
                    .with_target(SelectorBuilder::textselector("r", Offset::simple(0, 5))),
            )
            .unwrap();
        store
            .annotate(AnnotationBuilder::new().with_id("Z").with_target(
                SelectorBuilder::textselector(
                    "r",
                    Offset::new(Cursor::BeginAligned(5), Cursor::EndAligned(-6)),
                ),
            ))
            .unwrap();
        assert_eq!(store.annotation("Z").unwrap().text_join(""), "");
        store.protect_text(mode).unwrap();
        store.save().unwrap();

        std::fs::write(format!("{}/r.txt", d), "HelloX world").unwrap();
        let store2 =
            AnnotationStore::from_file(&format!("{}/E.store.stam.json", d), Config::default())
                .unwrap();
        let w = store2.annotation("W").unwrap();
        let z = store2.annotation("Z").unwrap();
        assert_eq!(w.text_join(""), "Hello");
        assert_eq!(w.validate_text(), Some(true), "{}", mname);
        assert_eq!(z.text_join(""), "X"); // was ""
        assert_eq!(
            z.validate_text(),
            Some(false),
            "mode {}: Z selected \"\" when the store was protected and selects \"X\" now",
            mname
        );
        assert_eq!(store2.validate_text(true).invalid(), 1, "{}", mname);
    }
}
