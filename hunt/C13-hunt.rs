// Confirmed violations of the property
//   "Text-selection relations have their documented algebraic meaning"
// Each test FAILS on the current code and would pass on a correct implementation.

use stam::*;

fn store(text: &str) -> AnnotationStore {
    AnnotationStore::default()
        .with_id("hunt")
        .with_resource(TextResourceBuilder::new().with_id("r").with_text(text))
        .unwrap()
}

/// an (unbound) text selection [b,e) on resource "r"
fn ts(store: &AnnotationStore, b: usize, e: usize) -> TextSelection {
    store
        .resource("r")
        .unwrap()
        .textselection(&Offset::simple(b, e))
        .unwrap()
        .inner()
        .clone()
}

fn set(store: &AnnotationStore, ranges: &[(usize, usize)]) -> TextSelectionSet {
    let mut s = TextSelectionSet::new(store.resource("r").unwrap().handle());
    for (b, e) in ranges {
        s.add(ts(store, *b, *e));
    }
    s
}

/// SameRange with the `all` modifier is documented as: "The leftmost TextSelection in A starts
/// where the leftmost TextSelection in B starts and the rightmost TextSelection in A ends where
/// the rightmost TextSelection in B ends". On any set whose leftmost and rightmost members are
/// not one and the same range the relation is false, even of a set with itself.
///
/// Cause: src/textselection.rs, `impl TestTextSelection for TextSelectionSet`, arms
/// `SameRange { all: true, negate: false }` of both `test()` and `test_set()`: they evaluate
/// `leftmost().test[_set](SameRange) && rightmost().test[_set](SameRange)`, and the delegate
/// (TextSelection::test / test_set, SameRange) compares begin AND end, so both the leftmost and
/// the rightmost member must each span the whole range of B. It should compare only the begin
/// of the leftmost and only the end of the rightmost.
#[test]
fn samerange_all_fails_on_a_set_with_itself() {
    let store = store("abcdef");
    let res = store.resource("r").unwrap();
    let op = TextSelectionOperator::samerange().toggle_all();
    let a = set(&store, &[(0, 2), (3, 5)]);
    let b = set(&store, &[(0, 2), (3, 5)]);
    // sanity: the singleton form works, the definition is the documented one
    assert!(ts(&store, 0, 5).test_set(&op, &b, res.as_ref()));
    // set against an identical set: leftmost begins are the same (0), rightmost ends are the same (5)
    assert!(
        a.test_set(&op, &b, res.as_ref()),
        "{{[0,2),[3,5)}} SAMERANGE(all) {{[0,2),[3,5)}} must hold"
    );
    // set against a single range with the same extent
    assert!(
        a.test(&op, &ts(&store, 0, 5), res.as_ref()),
        "{{[0,2),[3,5)}} SAMERANGE(all) [0,5) must hold"
    );
    // ... and the negation must be the complement of the documented relation
    assert!(!a.test_set(&op.toggle_negate(), &b, res.as_ref()));
}

/// The same through the high-level API: an annotation (MultiSelector) against itself.
#[test]
fn samerange_all_fails_on_an_annotation_with_itself() {
    let store = store("abcdef")
        .with_annotation(AnnotationBuilder::new().with_id("C").with_target(
            SelectorBuilder::multiselector(vec![
                SelectorBuilder::textselector("r", Offset::simple(0, 2)),
                SelectorBuilder::textselector("r", Offset::simple(3, 5)),
            ]),
        ))
        .unwrap()
        .with_annotation(
            AnnotationBuilder::new()
                .with_id("D")
                .with_target(SelectorBuilder::textselector("r", Offset::simple(0, 5))),
        )
        .unwrap();
    let c = store.annotation("C").unwrap();
    let d = store.annotation("D").unwrap();
    let op = TextSelectionOperator::samerange().toggle_all();
    assert!(d.test(&op, &c)); //(holds)
    assert!(c.test(&op, &d), "C spans 0..5 just like D");
    assert!(c.test(&op, &c), "C has the same range as itself");
}

/// Equals between two ranges with the same begin and the same end is false when one of them is
/// bound (carries a handle) and the other is not; SameRange, Embeds and Embedded are all true on
/// the same pair, so Equals does not coincide with its interval definition.
///
/// Cause: src/textselection.rs: `TextSelection` derives `PartialEq` (line 41), which also
/// compares the private `intid` handle, and `TextSelection::test()` implements Equals/InSet as
/// `self == reftextsel`. (Ord, Hash and the search by Equals in FindTextSelectionsIter all go by
/// begin/end only.) `TextSelection::intersection()` and `textselection_by_offset()` are
/// documented to hand out unbound selections, so such pairs arise naturally.
#[test]
fn equals_is_false_for_same_range_bound_versus_unbound() {
    let store = store("Hello world")
        .with_annotation(
            AnnotationBuilder::new()
                .with_id("A1")
                .with_target(SelectorBuilder::textselector("r", Offset::simple(0, 5))),
        )
        .unwrap();
    let res = store.resource("r").unwrap();
    let bound = res.textselection(&Offset::simple(0, 5)).unwrap(); //known, so carries a handle
    assert!(bound.inner().handle().is_some());
    let whole = ts(&store, 0, 11);
    // the part of `bound` that lies in the whole text: [0,5), handed out unbound
    let (part, _, _) = bound.inner().intersection(&whole).unwrap();
    assert_eq!((part.begin(), part.end()), (0, 5));
    assert!(part.test(&TextSelectionOperator::samerange(), bound.inner(), res.as_ref()));
    assert!(part.test(&TextSelectionOperator::embeds(), bound.inner(), res.as_ref()));
    assert!(part.test(&TextSelectionOperator::embedded(), bound.inner(), res.as_ref()));
    assert!(
        part.test(&TextSelectionOperator::equals(), bound.inner(), res.as_ref()),
        "[0,5) EQUALS [0,5) must hold whatever the handles"
    );
    assert!(bound.inner().test(&TextSelectionOperator::equals(), &part, res.as_ref()));
    assert!(!part.test(
        &TextSelectionOperator::equals().toggle_negate(),
        bound.inner(),
        res.as_ref()
    ));
    assert!(part.test(&TextSelectionOperator::inset(), bound.inner(), res.as_ref()));
}

/// Equals on sets is documented as "Both sets cover the exact same TextSelections, and all are
/// covered [...] commutative". With a range selected twice by A (legal: a MultiSelector naming
/// the same text twice) A EQUALS B holds and B EQUALS A does not.
///
/// Cause: src/textselection.rs, `TextSelectionSet::test_set()`, arm `Equals { negate: false }`:
/// it compares the lengths of the two (multi)sets and then only checks that every member of A
/// occurs in B, never that every member of B occurs in A; `TextSelectionSet::add()` (and
/// `sort()`) keep duplicates, so equal length does not make the inclusion mutual.
#[test]
fn equals_is_not_symmetric_when_a_range_is_selected_twice() {
    let store = store("abcdef")
        .with_annotation(AnnotationBuilder::new().with_id("A").with_target(
            SelectorBuilder::multiselector(vec![
                SelectorBuilder::textselector("r", Offset::simple(0, 1)),
                SelectorBuilder::textselector("r", Offset::simple(0, 1)),
            ]),
        ))
        .unwrap()
        .with_annotation(AnnotationBuilder::new().with_id("B").with_target(
            SelectorBuilder::multiselector(vec![
                SelectorBuilder::textselector("r", Offset::simple(0, 1)),
                SelectorBuilder::textselector("r", Offset::simple(2, 3)),
            ]),
        ))
        .unwrap();
    let a = store.annotation("A").unwrap();
    let b = store.annotation("B").unwrap();
    let op = TextSelectionOperator::equals();
    assert_eq!(
        a.test(&op, &b),
        b.test(&op, &a),
        "EQUALS must be symmetric (A covers only [0,1), B covers [0,1) and [2,3))"
    );
    // the same on the low level
    let res = store.resource("r").unwrap();
    let sa = set(&store, &[(0, 1), (0, 1)]);
    let sb = set(&store, &[(0, 1), (2, 3)]);
    assert_eq!(
        sa.test_set(&op, &sb, res.as_ref()),
        sb.test_set(&op, &sa, res.as_ref())
    );
}

/// A single range x tested for Equals against the set {x, y} gives true, whereas the singleton
/// set {x} against the same set gives false: wrapping the left operand in a singleton set changes
/// the outcome, and "[x] EQUALS {x,y}" contradicts "Both sets cover the exact same
/// TextSelections, and all are covered" (that is InSet, which exists separately).
///
/// Cause: src/textselection.rs, `TextSelection::test_set()`: `Equals { negate: false, .. }` is
/// lumped into the first arm ("any member of refset matches"), without the requirement that
/// every member of refset is matched, which `TextSelectionSet::test_set()` enforces by length.
#[test]
fn equals_of_one_range_against_a_larger_set() {
    let store = store("abcdef");
    let res = store.resource("r").unwrap();
    let x = ts(&store, 0, 1);
    let single = set(&store, &[(0, 1)]);
    let larger = set(&store, &[(0, 1), (0, 2)]);
    let op = TextSelectionOperator::equals();
    assert!(!single.test_set(&op, &larger, res.as_ref())); //(correct)
    assert_eq!(
        x.test_set(&op, &larger, res.as_ref()),
        single.test_set(&op, &larger, res.as_ref()),
        "a range and the singleton set of it must test alike"
    );
    // and Equals must be symmetric: {x,y} EQUALS x is false
    assert_eq!(
        x.test_set(&op, &larger, res.as_ref()),
        larger.test(&op, &x, res.as_ref())
    );
}

/// Overlaps on sets is documented as commutative ("Each TextSelection in A overlaps with a
/// TextSelection in B (cf. textfabric's `&&`), commutative"). It is not.
///
/// Cause: src/textselection.rs, `TextSelectionSet::test_set()`, the shared arm for the
/// non-`all` operators: for-all over A, exists over B; members of B without a partner in A are
/// not looked at, so swapping the operands changes the answer.
#[test]
fn overlaps_on_sets_is_not_symmetric() {
    let store = store("abcdef");
    let res = store.resource("r").unwrap();
    let a = set(&store, &[(0, 1)]);
    let b = set(&store, &[(0, 1), (1, 2)]);
    let op = TextSelectionOperator::overlaps();
    assert_eq!(
        a.test_set(&op, &b, res.as_ref()),
        b.test_set(&op, &a, res.as_ref()),
        "OVERLAPS is documented as commutative"
    );
}

/// Embeds on sets is documented as "All TextSelections in B are embedded by a TextSelection in
/// A", i.e. the converse of Embedded ("All TextSelections in A are embedded by a TextSelection in
/// B"). The code instead asks that every member of A embeds some member of B, so that
/// A EMBEDS B and B EMBEDDED A differ.
///
/// Cause: src/textselection.rs, `TextSelectionSet::test_set()` (and `test()`), the shared arm
/// for the non-`all` operators treats Embeds like the others (for-all over A, exists over B)
/// although its documented quantification runs over B.
#[test]
fn embeds_on_sets_is_not_the_converse_of_embedded() {
    let store = store("abcdef");
    let res = store.resource("r").unwrap();
    let a = set(&store, &[(0, 1)]);
    let b = set(&store, &[(0, 1), (3, 5)]);
    // [3,5) of B is not embedded by anything in A
    assert!(!b.test_set(&TextSelectionOperator::embedded(), &a, res.as_ref())); //(correct)
    assert!(
        !a.test_set(&TextSelectionOperator::embeds(), &b, res.as_ref()),
        "A EMBEDS B requires all of B to be embedded by something in A"
    );
}

/// Before and After with `all` and `limit` are not each other's converse on sets.
/// A = {[0,1)}, B = {[1,2),[4,5)}, limit 2:  A BEFORE(all,2) B is false, B AFTER(all,2) A is true.
///
/// Cause: src/textselection.rs: `TextSelectionSet::test_set()` reduces the left operand of
/// `Before{all}` / `After{all}` to its rightmost / leftmost member, and `TextSelection::test_set()`
/// then applies the limit to EVERY member of the right operand. So for Before the distance is
/// taken from the end of A to the farthest begin in B, for After from the nearest begin in B (the
/// left operand there) to the farthest end in A: two different distances for the same pair.
#[test]
fn before_and_after_with_all_and_limit_are_not_converses() {
    let store = store("abcdef");
    let res = store.resource("r").unwrap();
    let a = set(&store, &[(0, 1)]);
    let b = set(&store, &[(1, 2), (4, 5)]);
    let before = TextSelectionOperator::before().toggle_all().with_limit(2);
    let after = TextSelectionOperator::after().toggle_all().with_limit(2);
    assert_eq!(
        a.test_set(&before, &b, res.as_ref()),
        b.test_set(&after, &a, res.as_ref()),
        "A BEFORE B must be B AFTER A"
    );
}

/// The `limit` modifier: with a limit that is as large as can be, the test says that [3,4) comes
/// after [0,1) (A1 BEFORE A2 holds), but finding the text related by the very same operator
/// panics on an arithmetic overflow (debug build) or finds nothing at all (release build).
///
/// Cause: src/textselection.rs, `FindTextSelectionsIter::init_textseliters()`, arm
/// `TextSelectionOperator::Before { limit, .. }`: `refend + limit + 1` overflows.
#[test]
fn before_with_a_huge_limit_is_found_as_it_is_tested() {
    let store = store("abcdef")
        .with_annotation(
            AnnotationBuilder::new()
                .with_id("A1")
                .with_target(SelectorBuilder::textselector("r", Offset::simple(0, 1))),
        )
        .unwrap()
        .with_annotation(
            AnnotationBuilder::new()
                .with_id("A2")
                .with_target(SelectorBuilder::textselector("r", Offset::simple(3, 4))),
        )
        .unwrap();
    let a1 = store.annotation("A1").unwrap();
    let a2 = store.annotation("A2").unwrap();
    let op = TextSelectionOperator::before().with_limit(usize::MAX);
    assert!(a1.test(&op, &a2));
    let found: Vec<(usize, usize)> = a1.related_text(op).map(|x| (x.begin(), x.end())).collect();
    assert_eq!(found, vec![(3, 4)]);
}

/// ASIDE (not the relation property itself, but found on the way and in the same mechanism):
/// `related_text()` is documented to return the text selections "in textual order"
/// (src/textselection.rs, `TextResource::textselections_by_operator`: "Iterates over them in
/// textual order"; src/api/annotation.rs `related_text`: "in textual order"). For the operators
/// that are searched backwards (SameEnd, and Succeeds without whitespace) with a single reference
/// the results come out in REVERSE textual order.
///
/// Cause: src/textselection.rs, `FindTextSelectionsIter::next_textselection()`, branch
/// "reverse iteration": `TextSelectionIter::next_back()` walks the `end2begin` list of a position,
/// which is already in ascending order of begin, and every hit is `push_front`ed onto the buffer,
/// which reverses it.
#[test]
fn aside_related_text_sameend_is_in_textual_order() {
    let mut store = store("abcdef");
    for b in [0, 1, 2, 3] {
        store
            .annotate(
                AnnotationBuilder::new()
                    .with_target(SelectorBuilder::textselector("r", Offset::simple(b, 4))),
            )
            .unwrap();
    }
    let res = store.resource("r").unwrap();
    let reference = res.textselection(&Offset::simple(0, 4)).unwrap();
    let found: Vec<(usize, usize)> = reference
        .related_text(TextSelectionOperator::sameend())
        .map(|x| (x.begin(), x.end()))
        .collect();
    assert_eq!(found, vec![(1, 4), (2, 4), (3, 4)]);
}
