//! Violations of "public identifiers resolve to exactly the live item that carries them".
//! Every test here FAILS on the current code and would pass on a correct implementation.

use stam::*;

const CARGO_MANIFEST_DIR: &'static str = env!("CARGO_MANIFEST_DIR");

/// A substore (an included annotation store, a kind of item with its own id map, its own
/// temporary-id letter `!I` and the lookup `AnnotationStore::substore(request)`, whose request
/// "can be a `&str`") is NOT found by the public identifier it carries.
///
/// `tests/includetest.store.stam.json` includes `test.store.stam.json`, whose "@id" is "Example A".
/// After loading, `substore.id()` is `Some("Example A")`, but `store.substore("Example A")` is `None`.
///
/// Cause: `AnnotationStore::add_substore()` (src/substore.rs) inserts an id-less
/// `AnnotationSubStore::default()` *before* the included file is parsed; when the parser then meets
/// "@id" (`AnnotationStoreVisitor::visit_map`, src/annotationstore.rs, the `"@id"` arm with
/// `current_substore_path` non-empty) it assigns `substore.id = Some(id)` directly on the stored
/// item and never enters the identifier in `substore_idmap`. By the same reading of the code (not
/// tested here) two includes with the same "@id" are both accepted (no duplicate detection), and
/// with `Config::with_generate_ids(true)` the generated identifier stays in the map and resolves
/// to an item that no longer carries it.
#[test]
fn substore_is_found_by_the_identifier_it_carries() -> Result<(), StamError> {
    let store = AnnotationStore::from_file(
        &format!("{}/tests/includetest.store.stam.json", CARGO_MANIFEST_DIR),
        Config::default(),
    )?;
    let sub = store.substores().next().expect("there is one substore");
    assert_eq!(sub.id(), Some("Example A"));
    let handle = sub.handle();
    //the temporary identifier works
    assert_eq!(store.substore("!I0").map(|s| s.handle()), Some(handle));
    //the public identifier does not
    let found = store.substore("Example A");
    assert!(
        found.is_some(),
        "the live substore carries the identifier \"Example A\", but looking that identifier up finds nothing"
    );
    assert_eq!(found.unwrap().handle(), handle);
    Ok(())
}

/// Compaction (`AnnotationStore::reindex()`) redirects what a looked-up annotation names.
///
/// Three resources r0, r1, r2 and three datasets d0, d1, d2; annotation "a1" selects text of r1
/// and has data "D1" in d1. r0 and d0 are removed (which takes annotation "a0" along), then the
/// store is compacted. Looking up "a1" still finds the annotation that carries "a1", but that
/// annotation now reports resource "r2" and data ("d2", "D2"): everything it refers to was
/// silently redirected to another live item. (With only two resources the stale handle points
/// past the end of the store instead; later removals then panic.)
///
/// Cause: `AnnotationStore::reindex()` (src/annotationstore.rs) renumbers the resources,
/// datasets and annotations (`ReindexStore::reindex`, src/store.rs, via `with_handle`) and remaps
/// the id maps and some reverse indices, but never remaps the handles stored *inside* the
/// annotations: `Annotation::target` (`Selector::TextSelector(res_handle, ..)`,
/// `ResourceSelector`, `AnnotationSelector`, `DataSetSelector`, ...) and `Annotation::data`
/// (`(AnnotationDataSetHandle, AnnotationDataHandle)`) keep the old numbers. Nor are
/// `dataset_data_annotation_map`, `key_annotation_metamap`, `data_annotation_metamap`, the
/// substore maps and `AnnotationSubStore::{annotations,resources,annotationsets}` remapped.
#[test]
fn compaction_does_not_redirect_what_an_annotation_names() -> Result<(), StamError> {
    let mut store = AnnotationStore::new(Config::default()).with_id("s");
    for (r, text) in [("r0", "aaaa bbbb"), ("r1", "cccc dddd"), ("r2", "eeee ffff")] {
        store.add_resource(TextResourceBuilder::new().with_id(r).with_text(text))?;
    }
    for d in ["d0", "d1", "d2"] {
        store.add_dataset(AnnotationDataSetBuilder::new().with_id(d))?;
    }
    for (i, (r, d)) in [("r0", "d0"), ("r1", "d1"), ("r2", "d2")].iter().enumerate() {
        store.annotate(
            AnnotationBuilder::new()
                .with_id(format!("a{}", i))
                .with_target(SelectorBuilder::textselector(*r, Offset::simple(0, 4)))
                .with_data_with_id(*d, "k", "v", format!("D{}", i)),
        )?;
    }

    //before
    {
        let a1 = store.annotation("a1").or_fail()?;
        assert_eq!(a1.resources().next().unwrap().id(), Some("r1"));
        assert_eq!(a1.text().next(), Some("cccc"));
    }

    store.remove_resource("r0")?;
    store.remove_dataset("d0")?;
    let store = store.reindex();

    //identifiers still resolve to the items that carry them...
    assert!(store.annotation("a0").is_none());
    assert_eq!(store.resource("r1").or_fail()?.id(), Some("r1"));
    assert_eq!(store.dataset("d1").or_fail()?.id(), Some("d1"));
    let a1 = store.annotation("a1").or_fail()?;
    assert_eq!(a1.id(), Some("a1"));

    //...but what the annotation names has been redirected to other items
    let resources: Vec<Option<&str>> = a1.resources().map(|r| r.id()).collect();
    assert_eq!(
        resources,
        vec![Some("r1")],
        "annotation a1 was made on resource r1, compaction made it point at another resource"
    );
    assert_eq!(a1.text().next(), Some("cccc"));
    let data: Vec<(Option<&str>, Option<&str>)> =
        a1.data().map(|d| (d.set().id(), d.id())).collect();
    assert_eq!(
        data,
        vec![(Some("d1"), Some("D1"))],
        "annotation a1 has data D1 of dataset d1, compaction made it point at other data"
    );
    Ok(())
}

/// A temporary identifier written by `save()` resolves to ANOTHER annotation after loading,
/// when the store has a substore (`@include`).
///
/// The root store holds annotations without public identifiers at handles 0 ("hello") and 2 ("ll");
/// the annotation at handle 1 ("world") belongs to a substore; annotation "top" targets the
/// annotation at handle 2. `save()` writes the id-less annotations under their temporary
/// identifiers (`!A0`, `!A2` in the root file, `!A1` in the substore file) and writes the target of
/// "top" as `"annotation": "!A2"`. On loading, "top" targets the annotation on "hello" (formerly
/// `!A0`): the temporary identifier `!A2` has been redirected to another item, silently.
///
/// Cause: `AnnotationsVisitor::visit_seq` (src/annotationstore.rs). The `@include` is read first,
/// so when the root's own "annotations" list starts, `pre_length` is 2 (slot 0 empty, slot 1 the
/// substore's annotation). For an annotation with temporary identifier n the reader only checks
/// `annotations_len() > n.saturating_add(pre_length)` and pads when `n > annotations_len()`;
/// otherwise it simply appends. So `!A0` lands in slot 2 and `!A2` in slot 3, while the
/// reference `"!A2"` is resolved by `StoreFor::resolve_id` against the absolute slot number 2.
/// (`DataVisitor::visit_seq` in src/annotationdataset.rs has the same `pre_length` logic for `!D<n>`.)
#[test]
fn temporary_identifier_survives_save_and_load_with_a_substore() -> Result<(), StamError> {
    let dir = format!("{}/target/hunt-h3c03/include-tempids", CARGO_MANIFEST_DIR);
    std::fs::create_dir_all(&dir).expect("creating a directory for this test");

    let mut store = AnnotationStore::new(Config::default().with_workdir(dir.clone()))
        .with_id("root")
        .with_filename("root.store.stam.json");
    store.add_resource(
        TextResourceBuilder::new()
            .with_id("r")
            .with_text("hello world")
            .with_filename("r.txt"),
    )?;
    let sub = store.add_new_substore("sub", "sub.store.stam.json")?;
    //the (stand-off) resource is part of the substore as well, so that the substore file can be read on its own
    <AnnotationStore as AssociateSubStore<TextResource>>::associate_substore(&mut store, "r", sub)?;

    let _a0 = store.annotate(
        AnnotationBuilder::new()
            .with_target(SelectorBuilder::textselector("r", Offset::simple(0, 5))),
    )?;
    let a1 = store.annotate(
        AnnotationBuilder::new()
            .with_target(SelectorBuilder::textselector("r", Offset::simple(6, 11))),
    )?;
    <AnnotationStore as AssociateSubStore<Annotation>>::associate_substore(&mut store, a1, sub)?;
    let a2 = store.annotate(
        AnnotationBuilder::new()
            .with_target(SelectorBuilder::textselector("r", Offset::simple(2, 4))),
    )?;
    store.annotate(
        AnnotationBuilder::new()
            .with_id("top")
            .with_target(SelectorBuilder::annotationselector(a2, None)),
    )?;

    let targets = |store: &AnnotationStore| -> Vec<String> {
        store
            .annotation("top")
            .expect("annotation top")
            .annotations_in_targets(AnnotationDepth::One)
            .map(|a| a.text().next().unwrap().to_string())
            .collect()
    };
    assert_eq!(store.annotation("!A2").or_fail()?.text().next(), Some("ll"));
    assert_eq!(targets(&store), vec!["ll".to_string()]);

    store.save()?;

    let loaded = AnnotationStore::from_file(
        "root.store.stam.json",
        Config::default().with_workdir(dir.clone()),
    )?;
    assert_eq!(
        targets(&loaded),
        vec!["ll".to_string()],
        "annotation top targeted the annotation on \"ll\" (written as !A2); after loading, !A2 is another annotation"
    );
    Ok(())
}
