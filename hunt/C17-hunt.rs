//! Confirmed violations of the property
//! "Web Annotation export is well-formed JSON faithful to the annotation"
//! (src/api/webanno.rs). Every test here FAILS on the current code.

use serde_json::Value;
use stam::*;

const NS_ANNO: &str = "http://www.w3.org/ns/anno/";

fn cfg() -> WebAnnoConfig {
    WebAnnoConfig {
        auto_generated: false,
        auto_generator: false,
        ..WebAnnoConfig::default()
    }
}

fn base(resid: &str) -> AnnotationStore {
    AnnotationStore::default()
        .with_id("test")
        .with_resource(
            TextResourceBuilder::new()
                .with_id(resid.to_string())
                .with_text("Hello world, hello moon"),
        )
        .unwrap()
        .with_dataset(AnnotationDataSetBuilder::new().with_id("set"))
        .unwrap()
}

fn export(store: &AnnotationStore, id: &str, config: &WebAnnoConfig) -> Value {
    let out = store.annotation(id).unwrap().to_webannotation(config);
    println!("{}", out);
    serde_json::from_str(&out).expect("export must be well-formed JSON")
}

/// all scalar leaves below a JSON value
fn leaves(v: &Value, out: &mut Vec<Value>) {
    match v {
        Value::Array(a) => a.iter().for_each(|x| leaves(x, out)),
        Value::Object(o) => o.values().for_each(|x| leaves(x, out)),
        x => out.push(x.clone()),
    }
}

/// An annotation that carries two values under the same key (perfectly ordinary in STAM: two
/// tags, two authors, ...) is exported with the same member name twice in the body object:
///   "body": { ..., "_:set/tag": "a", "_:set/tag": "b" }
/// Member names of a JSON object are to be unique; every ordinary JSON parser (serde_json,
/// JavaScript, Python) keeps only the last one, so the value "a" is gone from the body.
/// The same happens at annotation level (two "motivation" or "creator" values of the anno set)
/// and for two sets that share a full-IRI key.
///
/// Cause: ResultItem<Annotation>::to_webannotation (src/api/webanno.rs, the loop over
/// self.data()) appends one `"predicate": value` member per AnnotationData to body_out/ann_out
/// and never groups the values of one predicate into a JSON array.
#[test]
fn two_values_under_one_key_are_both_in_the_body() {
    let store = base("res")
        .with_annotation(
            AnnotationBuilder::new()
                .with_id("A1")
                .with_target(SelectorBuilder::textselector("res", Offset::simple(0, 5)))
                .with_data("set", "tag", "a")
                .with_data("set", "tag", "b"),
        )
        .unwrap();
    let v = export(&store, "A1", &cfg());
    let mut found = Vec::new();
    leaves(&v["body"], &mut found);
    assert!(
        found.contains(&Value::from("a")) && found.contains(&Value::from("b")),
        "both values must survive parsing of the body, got {}",
        v["body"]
    );
}

/// Same defect at annotation level: two motivations (W3C allows several) end up as a
/// duplicated "motivation" member, the first is lost on parsing.
#[test]
fn two_motivations_are_both_exported() {
    let store = base("res")
        .with_dataset(AnnotationDataSetBuilder::new().with_id(NS_ANNO))
        .unwrap()
        .with_annotation(
            AnnotationBuilder::new()
                .with_id("A1")
                .with_target(SelectorBuilder::textselector("res", Offset::simple(0, 5)))
                .with_data(NS_ANNO, "motivation", "commenting")
                .with_data(NS_ANNO, "motivation", "tagging"),
        )
        .unwrap();
    let v = export(&store, "A1", &cfg());
    let mut found = Vec::new();
    leaves(&v["motivation"], &mut found);
    assert!(
        found.contains(&Value::from("commenting")) && found.contains(&Value::from("tagging")),
        "both motivations must survive parsing, got {}",
        v["motivation"]
    );
}

/// Two DIFFERENT keys of one set, "a b" and "a-b", are exported under the same member name
/// "_:set/a-b" (and so one of the two values is lost on parsing, and the other is attributed
/// to the wrong key).
///
/// Cause: into_iri (src/api/webanno.rs) replaces each of ' ', '\t', '\n' and '"' by '-', which
/// is not injective (no percent-encoding or other reversible escape), so distinct identifiers
/// are mapped to one IRI. The same function names resources, datasets and annotations.
#[test]
fn distinct_keys_stay_distinct() {
    let store = base("res")
        .with_annotation(
            AnnotationBuilder::new()
                .with_id("A1")
                .with_target(SelectorBuilder::textselector("res", Offset::simple(0, 5)))
                .with_data("set", "a b", 1)
                .with_data("set", "a-b", 2),
        )
        .unwrap();
    let v = export(&store, "A1", &cfg());
    let body = v["body"].as_object().unwrap();
    let members: Vec<_> = body
        .iter()
        .filter(|(k, _)| k.as_str() != "id" && k.as_str() != "type")
        .collect();
    assert_eq!(
        members.len(),
        2,
        "two different keys must give two different members, got {}",
        v["body"]
    );
}

/// Same cause as `distinct_keys_stay_distinct`, seen in the target: the resources "a b" and
/// "a-b" are both named "_:a-b", so the target no longer says which text is selected where.
#[test]
fn distinct_resources_stay_distinct_in_target() {
    let store = base("a b")
        .with_resource(
            TextResourceBuilder::new()
                .with_id("a-b")
                .with_text("Another text altogether"),
        )
        .unwrap()
        .with_annotation(
            AnnotationBuilder::new()
                .with_id("A1")
                .with_target(SelectorBuilder::directionalselector([
                    SelectorBuilder::textselector("a b", Offset::simple(0, 5)),
                    SelectorBuilder::textselector("a-b", Offset::simple(8, 12)),
                ])),
        )
        .unwrap();
    let v = export(&store, "A1", &cfg());
    let items = v["target"]["items"].as_array().unwrap();
    assert_eq!(items.len(), 2);
    assert_ne!(
        items[0]["source"], items[1]["source"],
        "two different resources must not be given the same name"
    );
}

/// With an extra target template, the resource identifier is substituted first and the result
/// is then scanned again for {begin} and {end}. A resource whose identifier contains the text
/// "{end}" (or "{begin}") has that part of its NAME replaced by a number:
///   resource "doc{end}", selection 0-5, template "{resource}/{begin}/{end}"
///   gives "_:doc5/0/5" where "_:doc{end}/0/5" is meant
/// (the regular target next to it does say "_:doc{end}"), so the two targets of the one
/// annotation name different resources.
///
/// Cause: output_selector (src/api/webanno.rs), the three consecutive `template.replace(..)`
/// calls: the later ones also work on what the earlier one inserted.
#[test]
fn extra_target_template_leaves_the_resource_name_alone() {
    let store = base("doc{end}")
        .with_annotation(
            AnnotationBuilder::new()
                .with_id("A1")
                .with_target(SelectorBuilder::textselector(
                    "doc{end}",
                    Offset::simple(0, 5),
                )),
        )
        .unwrap();
    let mut config = cfg();
    config.extra_target_template = Some("{resource}/{begin}/{end}".to_string());
    let v = export(&store, "A1", &config);
    let target = v["target"].as_array().unwrap();
    assert_eq!(target[0]["source"], Value::from("_:doc{end}"));
    assert_eq!(target[1], Value::from("_:doc{end}/0/5"));
}

/// A dataset as target (DataSetSelector) is named with the prefix for RESOURCES, whereas the
/// keys of that very dataset in the body are named with the prefix for DATASETS. With the two
/// prefixes set apart (options away from their defaults), one export calls the dataset
/// "http://res.example/set" in the target and "http://sets.example/set" in the body.
///
/// Cause: output_selector (src/api/webanno.rs), arm Selector::DataSetSelector, passes
/// config.default_resource_iri to into_iri; it should be config.default_set_iri (as in
/// `impl IRI for ResultItem<AnnotationDataSet>` / `ResultItem<DataKey>` used for the body).
#[test]
fn dataset_target_is_named_with_the_dataset_prefix() {
    let store = base("res")
        .with_annotation(
            AnnotationBuilder::new()
                .with_id("A1")
                .with_target(SelectorBuilder::datasetselector("set"))
                .with_data("set", "k", "v"),
        )
        .unwrap();
    let mut config = cfg();
    config.default_set_iri = "http://sets.example/".to_string();
    config.default_resource_iri = "http://res.example/".to_string();
    let v = export(&store, "A1", &config);
    assert_eq!(v["target"]["type"], Value::from("Dataset"));
    assert_eq!(v["target"]["id"], Value::from("http://sets.example/set"));
    //the body names the key as <dataset IRI>/k, which must be the same dataset IRI
    let dataset_iri = v["target"]["id"].as_str().unwrap();
    assert!(v["body"]
        .as_object()
        .unwrap()
        .keys()
        .any(|k| k == &format!("{}/k", dataset_iri)));
}

/// The keys "id" and "type" of the anno set are passed into the body as its id and type
/// (suppress_body_id / suppress_default_body_type). An identifier IS an IRI, but a string value
/// that looks like an IRI is wrapped into an object, so the body comes out as
///   "body": { "id": { "id": "http://example.org/body1" }, "type": { "id": "https://schema.org/Comment" } }
/// The value is no longer a JSON string as the data value was, and "id"/"type" (aliases of the
/// JSON-LD keywords @id/@type) do not admit an object at all.
///
/// Cause: output_predicate_datavalue (src/api/webanno.rs) wraps every IRI-like string as
/// `{ "id": .. }`, whatever the predicate; to_webannotation calls it for "id" and "type" too.
#[test]
fn explicit_body_id_and_type_stay_strings() {
    let store = base("res")
        .with_dataset(AnnotationDataSetBuilder::new().with_id(NS_ANNO))
        .unwrap()
        .with_annotation(
            AnnotationBuilder::new()
                .with_id("A1")
                .with_target(SelectorBuilder::textselector("res", Offset::simple(0, 5)))
                .with_data(NS_ANNO, "id", "http://example.org/body1")
                .with_data(NS_ANNO, "type", "https://schema.org/Comment")
                .with_data(NS_ANNO, "value", "hello"),
        )
        .unwrap();
    let v = export(&store, "A1", &cfg());
    assert_eq!(v["body"]["id"], Value::from("http://example.org/body1"));
    assert_eq!(v["body"]["type"], Value::from("https://schema.org/Comment"));
}
