//! Confirmed violations of the property
//! "Codepoint/byte conversion is exact and tuning knobs never change answers".
//!
//! The conversions themselves (`utf8byte` / `utf8byte_to_charpos` on resources, bound and unbound
//! sub-selections) held up under exhaustive differential testing. What does NOT hold is the second
//! half of the property: results that change with the performance-only milestone interval.

use stam::*;

const INTERVALS: [usize; 6] = [0, 1, 2, 3, 7, 100];

/// 9 codepoints, 1-4 byte characters
const TEXT: &str = "aé€𝄞bcdef";

/// A store with one resource and one annotation on codepoints 2..4 of it
fn store_with_one_annotation(interval: usize) -> AnnotationStore {
    let mut store = AnnotationStore::new(Config::default().with_milestone_interval(interval));
    store
        .add_resource(TextResourceBuilder::new().with_id("r").with_text(TEXT))
        .unwrap();
    store
        .annotate(
            AnnotationBuilder::new()
                .with_target(SelectorBuilder::textselector("r", Offset::simple(2, 4)))
                .with_data("set", "key", "value"),
        )
        .unwrap();
    store
}

/// VIOLATION 1: `PositionMode::Both` reports the milestones as positions "where a text selection
/// begins or ends", so the answer changes with the milestone interval.
///
/// The only text selection is 2..4, so the positions in use are [2, 4] whatever the interval. With
/// interval 1 the code answers [1, 2, 3, 4, 5, 6, 7, 8], with interval 3 it answers [2, 3, 4, 6], ...
/// The same goes for `TextResource::positions_in_range()` and for the high-level
/// `ResultTextSelection::positions()` which calls it.
///
/// Cause: src/resources.rs, `TextResource::positions()` and `TextResource::positions_in_range()`:
/// the `PositionMode::Both` arm returns all keys of the position index
/// (`self.positionindex.keys()` / `.map(|(k, _)| k)`), whereas the `Begin` and `End` arms filter on
/// non-empty `begin2end` / `end2begin`. `TextResource::create_milestones()` puts the milestones into
/// that very index as items with both lists empty, and `Both` does not leave them out.
/// (`SegmentationIter` in src/api/resources.rs filters them out by hand, these accessors do not.)
#[test]
fn positions_both_includes_milestones() {
    for interval in INTERVALS {
        let store = store_with_one_annotation(interval);
        let resource = store.resource("r").unwrap();
        let all: Vec<usize> = resource
            .as_ref()
            .positions(PositionMode::Both)
            .copied()
            .collect();
        assert_eq!(
            all,
            vec![2, 4],
            "TextResource::positions(Both), milestone interval {interval}"
        );
        let in_range: Vec<usize> = resource
            .as_ref()
            .positions_in_range(PositionMode::Both, 0, 10)
            .copied()
            .collect();
        assert_eq!(
            in_range,
            vec![2, 4],
            "TextResource::positions_in_range(Both), milestone interval {interval}"
        );
        let whole = resource.textselection(&Offset::simple(0, 9)).unwrap();
        let in_selection: Vec<usize> = whole.positions(PositionMode::Both).copied().collect();
        assert_eq!(
            in_selection,
            vec![2, 4],
            "ResultTextSelection::positions(Both), milestone interval {interval}"
        );
    }
}

/// VIOLATION 2 (same family, other accessor): `TextResource::position()` is documented as "Only
/// works for positions at which a TextSelection starts or ends (non-inclusive), returns None
/// otherwise", but it answers `Some` (an item with no selections at all) for every milestone, so
/// whether a position "exists" depends on the milestone interval.
///
/// Cause: src/resources.rs, `TextResource::position()` returns `self.positionindex.0.get(&index)`
/// as is; the milestone items that `TextResource::create_milestones()` inserted into the same map
/// are not told apart from positions that are in use.
#[test]
fn position_lookup_answers_for_milestones() {
    for interval in INTERVALS {
        let store = store_with_one_annotation(interval);
        let resource = store.resource("r").unwrap();
        let found: Vec<usize> = (0..=10)
            .filter(|p| resource.as_ref().position(*p).is_some())
            .collect();
        assert_eq!(
            found,
            vec![2, 4],
            "positions for which TextResource::position() answers, milestone interval {interval}"
        );
    }
}

/// VIOLATION 3: placing the milestones wipes text selections that are already in the position
/// index, so which text selections a resource knows depends on the milestone interval.
///
/// A resource that already holds text selections when it is inserted into a store (a copy of a
/// resource out of another store, or an unbound resource on which `StoreFor::insert()` was called
/// the way `AnnotationStore::selector()` does it) is "initialised" again on insertion. With
/// milestone interval 0, 3, 7 or 100 the selection 2..4 is still known afterwards; with interval 1
/// or 2 (milestones on 2 and 4) it is gone from the index: `known_textselection()` answers `None`
/// and `textselections()` is empty while `textselections_len()` still says 1. (With interval 4 only
/// the end side is wiped, and forward and backward iteration then disagree.) A following
/// annotation on the same offset then stores the same text selection a second time.
///
/// Cause: src/resources.rs, `TextResource::create_milestones()` (called from
/// `TextResource::initialize()`, i.e. from `preinsert` of every insertion, and from `with_string` /
/// `from_string`) does `self.positionindex.0.insert(charpos, PositionIndexItem { bytepos,
/// end2begin: smallvec!(), begin2end: smallvec!() })`: `BTreeMap::insert` replaces an entry that
/// is already there, with its `begin2end` / `end2begin` lists, instead of leaving it alone
/// (`entry(charpos).or_insert_with(..)`).
#[test]
fn milestones_overwrite_known_textselections() {
    for interval in INTERVALS {
        let config = Config::default().with_milestone_interval(interval);

        // (a) a copy of a resource that has an annotation on 2..4, inserted into a second store
        let store = store_with_one_annotation(interval);
        let copy: TextResource = store.resource("r").unwrap().as_ref().clone();
        let handle = copy
            .known_textselection(&Offset::simple(2, 4))
            .unwrap()
            .expect("the copy knows the text selection");
        let mut store2 = AnnotationStore::new(config.clone());
        store2.insert(copy).unwrap();
        let resource = store2.resource("r").unwrap();
        assert_eq!(
            resource
                .as_ref()
                .known_textselection(&Offset::simple(2, 4))
                .unwrap(),
            Some(handle),
            "copy: known_textselection(2..4) after insertion, milestone interval {interval}"
        );
        assert_eq!(
            resource
                .textselections()
                .map(|t| (t.begin(), t.end()))
                .collect::<Vec<_>>(),
            vec![(2, 4)],
            "copy: textselections() after insertion, milestone interval {interval}"
        );
        assert_eq!(
            resource
                .textselections()
                .rev()
                .map(|t| (t.begin(), t.end()))
                .collect::<Vec<_>>(),
            vec![(2, 4)],
            "copy: textselections().rev() after insertion, milestone interval {interval}"
        );

        // (b) an unbound resource that was given a text selection before it went into a store
        let mut unbound = TextResource::from_string("r", TEXT, config.clone());
        let textselection = unbound
            .textselection_by_offset(&Offset::simple(2, 4))
            .unwrap();
        let handle = unbound.insert(textselection).unwrap();
        let mut store3 = AnnotationStore::new(config.clone());
        store3.insert(unbound).unwrap();
        // annotating the same offset must find the text selection that is there, not store it again
        store3
            .annotate(
                AnnotationBuilder::new()
                    .with_target(SelectorBuilder::textselector("r", Offset::simple(2, 4)))
                    .with_data("set", "key", "value"),
            )
            .unwrap();
        let resource = store3.resource("r").unwrap();
        assert_eq!(
            resource.textselections_len(),
            1,
            "unbound: number of stored text selections, milestone interval {interval}"
        );
        assert_eq!(
            resource
                .as_ref()
                .known_textselection(&Offset::simple(2, 4))
                .unwrap(),
            Some(handle),
            "unbound: known_textselection(2..4), milestone interval {interval}"
        );
    }
}

/// ADJACENT FINDING (not about the tuning knobs, but about "byte positions inside a character ...
/// fail with an error, not a wrong number, not a panic"): `find_text_nocase()` hands byte positions
/// of a *lower-cased copy* of the text to `utf8byte_to_charpos()` of the *original* text. Where the
/// lower-case form of a character has another UTF-8 length ('ẞ' U+1E9E is 3 bytes, its lower case
/// 'ß' is 2; 'İ' U+0130 is 2 bytes, its lower case "i̇" is 3; 'Ⱥ' U+023A is 2 bytes, 'ⱥ' is 3) those
/// byte positions fall inside a character or past the text: the conversion rightly answers with an
/// error, and the iterator panics on it ("utf-8 byte must resolve to valid charpos").
///
/// Cause: src/api/text.rs, `FindNoCaseTextIter::next()`: `let text = text.to_lowercase();` followed by
/// `resource.utf8byte_to_charpos(beginbytepos + foundbytepos).expect(..)` and the same for
/// `endbytepos` (the source carries a "MAYBE TODO" on exactly this).
#[test]
fn find_text_nocase_feeds_byte_positions_of_another_string() {
    for (text, fragment, expected) in [
        ("ẞa", "a", vec![(1usize, 2usize)]),
        ("İx", "x", vec![(1, 2)]),
        ("Ⱥbc", "c", vec![(2, 3)]),
    ] {
        let mut store = AnnotationStore::default();
        store
            .add_resource(TextResourceBuilder::new().with_id("r").with_text(text))
            .unwrap();
        let resource = store.resource("r").unwrap();
        let found = std::panic::catch_unwind(std::panic::AssertUnwindSafe(|| {
            resource
                .find_text_nocase(fragment)
                .map(|t| (t.begin(), t.end()))
                .collect::<Vec<_>>()
        }));
        assert_eq!(
            found.ok(),
            Some(expected),
            "find_text_nocase({fragment:?}) in {text:?} (None = panicked)"
        );
    }
}
