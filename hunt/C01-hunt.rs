//! Confirmed violations of the property
//! "Reverse lookups agree with forward references after any history".
//!
//! Every test in this file FAILS on the current code and would pass on a correct implementation.
//! None of the tests writes files.

use stam::*;

fn handles<'a>(it: impl Iterator<Item = ResultItem<'a, Annotation>>) -> Vec<usize> {
    it.map(|a| a.handle().as_usize()).collect()
}

fn ids<'a>(it: impl Iterator<Item = ResultItem<'a, Annotation>>) -> Vec<String> {
    it.map(|a| a.id().unwrap_or("(no id)").to_string()).collect()
}

/// `ResultItem<Annotation>::datasets()` promises "This returns no duplicates even if a dataset is
/// referenced multiple times" and wraps its result in `ResultIter::new_sorted` (so
/// `returns_sorted()` is true), but it simply forwards `TargetIter<AnnotationDataSet>`, which yields
/// one handle per DataSetSelector in the order of the (sub)selectors, without a history.
///
/// Cause: src/api/annotation.rs `datasets()` (new_sorted over an undeduplicated, unsorted
/// `TargetIter`) together with src/annotation.rs `impl Iterator for TargetIter<AnnotationDataSet>`
/// (unlike the variants for TextResource and Annotation it keeps no `history`).
/// The sibling methods (`resources_as_metadata`, `keys_as_metadata`, `data_as_metadata`) collect
/// into a BTreeSet and are fine.
#[test]
fn annotation_datasets_yields_duplicates_and_claims_to_be_sorted() -> Result<(), StamError> {
    let mut store = AnnotationStore::default()
        .with_id("store")
        .with_dataset(AnnotationDataSetBuilder::new().with_id("s1"))?
        .with_dataset(AnnotationDataSetBuilder::new().with_id("s2"))?;
    let a = store.annotate(
        AnnotationBuilder::new()
            .with_id("A")
            .with_target(SelectorBuilder::directionalselector([
                SelectorBuilder::datasetselector("s2"),
                SelectorBuilder::datasetselector("s1"),
                SelectorBuilder::datasetselector("s2"),
            ]))
            .with_data("s1", "k", "v"),
    )?;
    let a = store.annotation(a).or_fail()?;

    //the reverse side is fine: each set knows the annotation once
    assert_eq!(handles(store.dataset("s1").or_fail()?.annotations()), vec![0]);
    assert_eq!(handles(store.dataset("s2").or_fail()?.annotations()), vec![0]);

    //the forward side:
    let iter = a.datasets();
    let claims_sorted = iter.returns_sorted();
    let got: Vec<usize> = iter.map(|set| set.handle().as_usize()).collect();
    let mut unique = got.clone();
    unique.sort();
    unique.dedup();
    assert_eq!(
        got.len(),
        unique.len(),
        "datasets() promises no duplicates, got {:?}",
        got
    );
    if claims_sorted {
        assert_eq!(got, unique, "datasets() says it returns sorted results");
    }
    Ok(())
}

/// With `Config::with_annotation_annotation_map(false)` (only the annotation->annotation index is
/// switched off, the text index stays on), an annotation whose target is an AnnotationSelector
/// *with a relative offset* is never entered into the text index: the text selection it targets
/// says that no annotation references it, and the resource does not list the annotation either,
/// while the annotation itself (forward) does report that text selection.
/// The very same selector inside a complex selector *is* indexed, whatever the setting.
///
/// Cause: src/annotationstore.rs `StoreCallbacks<Annotation>::inserted`, arm
/// `Selector::AnnotationSelector(a_handle, offset)`: the whole arm, including
/// `multitarget = true` (which is what leads to `textrelationmap` being filled for the offset), is
/// inside `if self.config.annotation_annotation_map { .. }`. The text part ought to depend on
/// `self.config.textrelationmap` only.
#[test]
fn relative_annotationselector_missing_from_text_index_when_annotation_index_is_off(
) -> Result<(), StamError> {
    let mut store = AnnotationStore::new(Config::default().with_annotation_annotation_map(false))
        .with_id("store")
        .with_resource(
            TextResourceBuilder::new()
                .with_id("r")
                .with_text("hello world"),
        )?;
    store.annotate(
        AnnotationBuilder::new()
            .with_id("A")
            .with_target(SelectorBuilder::textselector("r", Offset::simple(0, 5)))
            .with_data("set", "k", "v"),
    )?;
    store.annotate(
        AnnotationBuilder::new()
            .with_id("B")
            .with_target(SelectorBuilder::annotationselector(
                "A",
                Some(Offset::simple(1, 3)),
            ))
            .with_data("set", "k", "v2"),
    )?;

    //forward: B targets text 1..3 of r
    let b = store.annotation("B").or_fail()?;
    let forward: Vec<(usize, usize)> = b.textselections().map(|t| (t.begin(), t.end())).collect();
    assert_eq!(forward, vec![(1, 3)]);

    //reverse: the text selection 1..3 must know B
    let resource = store.resource("r").or_fail()?;
    let textselection = resource.textselection(&Offset::simple(1, 3))?;
    assert_eq!(
        ids(textselection.annotations()),
        vec!["B".to_string()],
        "text selection 1..3 must be referenced by B"
    );
    assert_eq!(textselection.annotations_len(), 1);
    assert_eq!(
        ids(resource.annotations()),
        vec!["A".to_string(), "B".to_string()],
        "the resource must list both annotations on its text"
    );
    Ok(())
}

/// `remove_resource()` ("Remove a resource, and all annotations that reference it") finds the
/// annotations to take along only through the optional reverse indices. With
/// `Config::with_textrelationmap(false)` the annotations on the text of the resource survive the
/// removal of the resource: they are live, but their target refers to something that no longer
/// exists (and asking them for their text selections yields nothing, where they were built with one).
/// The same goes for `with_resource_annotation_map(false)` and a ResourceSelector.
///
/// Cause: src/annotationstore.rs `StoreCallbacks<TextResource>::preremove` only consults
/// `resource_annotation_metamap` and `textrelationmap`; when those are switched off nothing is found.
/// (`StoreCallbacks<AnnotationDataSet>::preremove` in the same file shows the intended behaviour where
/// there is no index: it walks over all annotations.)
#[test]
fn remove_resource_leaves_dangling_annotations_when_text_index_is_off() -> Result<(), StamError> {
    let mut store = AnnotationStore::new(Config::default().with_textrelationmap(false))
        .with_id("store")
        .with_resource(
            TextResourceBuilder::new()
                .with_id("r")
                .with_text("hello world"),
        )?
        .with_resource(
            TextResourceBuilder::new()
                .with_id("other")
                .with_text("other text"),
        )?;
    store.annotate(
        AnnotationBuilder::new()
            .with_id("A")
            .with_target(SelectorBuilder::textselector("r", Offset::simple(0, 5)))
            .with_data("set", "k", "v"),
    )?;
    store.remove_resource("r")?;
    assert!(store.resource("r").is_none());
    assert!(
        store.annotation("A").is_none(),
        "annotation A targets text of the removed resource and must be gone; it is still live, its textselections() yields {} items",
        store.annotation("A").map(|a| a.textselections().count()).unwrap_or(0)
    );

    //same thing for a ResourceSelector when the metadata index is off
    let mut store = AnnotationStore::new(Config::default().with_resource_annotation_map(false))
        .with_id("store")
        .with_resource(
            TextResourceBuilder::new()
                .with_id("r")
                .with_text("hello world"),
        )?;
    store.annotate(
        AnnotationBuilder::new()
            .with_id("A")
            .with_target(SelectorBuilder::resourceselector("r"))
            .with_data("set", "k", "v"),
    )?;
    store.remove_resource("r")?;
    assert!(
        store.annotation("A").is_none(),
        "annotation A targets the removed resource and must be gone"
    );
    Ok(())
}

/// `remove_annotation()` ("Remove an annotation, and all annotations that reference it") finds the
/// referencing annotations only through `annotation_annotation_map`. With
/// `Config::with_annotation_annotation_map(false)` an annotation B that targets A survives the
/// removal of A: B is live, but its target refers to an annotation that no longer exists
/// (`annotations_in_targets()` yields nothing, where B was built with one target).
///
/// Cause: src/annotationstore.rs `StoreCallbacks<Annotation>::preremove`, the recursion step only
/// consults `self.annotation_annotation_map`.
#[test]
fn remove_annotation_leaves_dangling_annotations_when_annotation_index_is_off(
) -> Result<(), StamError> {
    let mut store = AnnotationStore::new(Config::default().with_annotation_annotation_map(false))
        .with_id("store")
        .with_resource(
            TextResourceBuilder::new()
                .with_id("r")
                .with_text("hello world"),
        )?;
    store.annotate(
        AnnotationBuilder::new()
            .with_id("A")
            .with_target(SelectorBuilder::resourceselector("r"))
            .with_data("set", "k", "v"),
    )?;
    store.annotate(
        AnnotationBuilder::new()
            .with_id("B")
            .with_target(SelectorBuilder::annotationselector("A", None))
            .with_data("set", "k", "v2"),
    )?;
    store.remove_annotation("A")?;
    assert!(store.annotation("A").is_none());
    assert!(
        store.annotation("B").is_none(),
        "annotation B targets the removed annotation A and must be gone; it is still live and its annotations_in_targets() yields {} items",
        store
            .annotation("B")
            .map(|b| b.annotations_in_targets(AnnotationDepth::One).count())
            .unwrap_or(0)
    );
    Ok(())
}

/// A dataset can silently hold only 65536 keys: the handle of the 65537th key wraps around to 0
/// (`DataKeyHandle` is a u16 and `Handle::new()` truncates), so the new key *is* the first key as
/// far as every lookup is concerned. An annotation built with data under key "k65536" ends up
/// under key "k0": asking key "k0" for the annotations that use it returns an annotation that was
/// never built with it, and the key "k65536" can not be told apart from "k0".
/// A correct implementation either refuses the 65537th key with an error or keeps the keys apart.
///
/// Cause: src/store.rs `StoreFor::insert` takes `self.next_handle()` =
/// `T::HandleType::new(self.store().len())` without checking that the number fits the handle type
/// (src/datakey.rs `DataKeyHandle::new`: `Self(intid as u16)`); the "sanity check" at the end of
/// `insert` compares two equally truncated handles and therefore passes.
#[test]
fn key_number_65537_aliases_the_first_key() -> Result<(), StamError> {
    let mut dataset = AnnotationDataSet::new(Config::default()).with_id("set");
    for i in 0..=65536 {
        if dataset.insert(DataKey::new(format!("k{}", i))).is_err() {
            //refusing is fine
            return Ok(());
        }
    }
    let mut store = AnnotationStore::default()
        .with_id("store")
        .with_resource(
            TextResourceBuilder::new()
                .with_id("r")
                .with_text("hello world"),
        )?;
    store.insert(dataset)?;
    store.annotate(
        AnnotationBuilder::new()
            .with_id("A0")
            .with_target(SelectorBuilder::textselector("r", Offset::simple(0, 5)))
            .with_data("set", "k0", "v"),
    )?;
    store.annotate(
        AnnotationBuilder::new()
            .with_id("A1")
            .with_target(SelectorBuilder::textselector("r", Offset::simple(6, 11)))
            .with_data("set", "k65536", "w"),
    )?;
    let first = store.key("set", "k0").or_fail()?;
    let last = store.key("set", "k65536").or_fail()?;
    assert_eq!(
        ids(first.annotations()),
        vec!["A0".to_string()],
        "only A0 was built with data under key k0"
    );
    assert_eq!(last.as_str(), "k65536", "asked for key k65536");
    assert_eq!(
        ids(last.annotations()),
        vec!["A1".to_string()],
        "only A1 was built with data under key k65536"
    );
    //and forward
    let a1 = store.annotation("A1").or_fail()?;
    let keys: Vec<&str> = a1.keys().map(|k| k.as_str()).collect();
    assert_eq!(keys, vec!["k65536"]);
    Ok(())
}

/// The same for datasets: `AnnotationDataSetHandle` is a u16 as well, the 65537th dataset of a store
/// gets handle 0 and from then on *is* the first dataset for all lookups: an annotation that
/// targets it with a DataSetSelector is listed under the first dataset.
///
/// Cause: as above, src/store.rs `StoreFor::insert` / src/annotationdataset.rs
/// `AnnotationDataSetHandle::new` (`Self(intid as u16)`).
#[test]
fn dataset_number_65537_aliases_the_first_dataset() -> Result<(), StamError> {
    let mut store = AnnotationStore::default().with_id("store");
    for i in 0..=65536 {
        if store
            .add_dataset(AnnotationDataSetBuilder::new().with_id(format!("s{}", i)))
            .is_err()
        {
            //refusing is fine
            return Ok(());
        }
    }
    store.annotate(
        AnnotationBuilder::new()
            .with_id("A")
            .with_target(SelectorBuilder::datasetselector("s65536"))
            .with_data("s1", "k", "v"),
    )?;
    let first = store.dataset("s0").or_fail()?;
    let last = store.dataset("s65536").or_fail()?;
    assert_eq!(
        ids(first.annotations()),
        Vec::<String>::new(),
        "no annotation targets dataset s0"
    );
    assert_eq!(last.id(), Some("s65536"), "asked for dataset s65536");
    assert_eq!(ids(last.annotations()), vec!["A".to_string()]);
    Ok(())
}

/// `AnnotationStore::reindex()` (public; closes the gaps that removals leave behind) renumbers the
/// annotations, resources and datasets and some of the reverse indices, but
///  - not the handles *inside* the annotations (their targets and their data references),
///  - not the annotation handles in `dataset_data_annotation_map`, `key_annotation_metamap`,
///    `data_annotation_metamap` (these maps are not touched at all).
/// After one removal followed by `reindex()` forward and reverse sides no longer agree at all: here
/// an annotation ends up targeting itself, data is listed under the wrong annotation, and data that
/// is in use is listed under no annotation.
/// (`reindex()` is not one of the operations the property statement lists, but it is a public
/// operation in the life of a store that is meant to preserve its contents.)
///
/// Cause: src/annotationstore.rs `AnnotationStore::reindex`: `self.annotations.reindex(..)` only
/// rebinds each annotation's own handle (src/store.rs `ReindexStore::reindex` -> `with_handle`),
/// nothing rewrites `Annotation::target` / `Annotation::data`, and the three maps named above are
/// never remapped.
#[test]
fn reindex_after_a_removal_breaks_forward_and_reverse_references() -> Result<(), StamError> {
    let mut store = AnnotationStore::default()
        .with_id("store")
        .with_resource(
            TextResourceBuilder::new()
                .with_id("r")
                .with_text("hello world"),
        )?;
    store.annotate(
        AnnotationBuilder::new()
            .with_id("A0")
            .with_target(SelectorBuilder::textselector("r", Offset::simple(0, 5)))
            .with_data("set", "k", "v0"),
    )?;
    store.annotate(
        AnnotationBuilder::new()
            .with_id("A1")
            .with_target(SelectorBuilder::textselector("r", Offset::simple(6, 11)))
            .with_data("set", "k", "v1"),
    )?;
    store.annotate(
        AnnotationBuilder::new()
            .with_id("A2")
            .with_target(SelectorBuilder::annotationselector("A1", None))
            .with_data("set", "k", "v2"),
    )?;
    store.remove_annotation("A0")?;
    let store = store.reindex();

    //forward: A2 was built with A1 as its target
    let a2 = store.annotation("A2").or_fail()?;
    assert_eq!(
        ids(a2.annotations_in_targets(AnnotationDepth::One)),
        vec!["A1".to_string()],
        "A2 targets A1"
    );
    //reverse: A1 is referenced by A2
    let a1 = store.annotation("A1").or_fail()?;
    assert_eq!(ids(a1.annotations()), vec!["A2".to_string()]);
    //reverse via data: v1 is used by A1 only, v2 by A2 only
    let set = store.dataset("set").or_fail()?;
    for (value, user) in [("v1", "A1"), ("v2", "A2")] {
        let data = set
            .find_data("k", DataOperator::Equals(value.into()))
            .next()
            .or_fail()?;
        assert_eq!(
            ids(data.annotations()),
            vec![user.to_string()],
            "annotations using data {}",
            value
        );
    }
    let key = store.key("set", "k").or_fail()?;
    assert_eq!(
        ids(key.annotations()),
        vec!["A1".to_string(), "A2".to_string()]
    );
    Ok(())
}
