#!/usr/bin/env python3
"""apply every seeded patch to /repo in turn, run the property's quick check, undo; update meta.json and print a table"""
import json, os, subprocess, sys
base='/verif/seeded'
rows=[]
only=sys.argv[1:]
for name in sorted(os.listdir(base)):
    d=os.path.join(base,name)
    mp=os.path.join(d,'meta.json')
    if not os.path.exists(mp): continue
    if only and not any(name.startswith(o) for o in only): continue
    m=json.load(open(mp))
    if m.get('neutralised_by_fix'):
        rows.append((name,m['property'],'neutralised-by-fix (skipped)')); continue
    pid=m['property']
    if subprocess.call(['git','-C','/repo','apply',os.path.join(d,'patch.diff')])!=0:
        rows.append((name,pid,'PATCH-DOES-NOT-APPLY')); continue
    p=subprocess.run(['./check',pid,'quick'],cwd='/verif',capture_output=True,text=True)
    subprocess.call(['git','-C','/repo','checkout','--','.'])
    viol=[l for l in p.stdout.splitlines() if l.startswith('VIOLATION')]
    m['check_rc_with_patch']=p.returncode
    m['detected']=p.returncode==1
    m['violations_reported']=[v.split('replay=')[1] for v in viol][:6]
    json.dump(m,open(mp,'w'),indent=1)
    open(os.path.join(d,'check_output.txt'),'w').write(p.stdout[-4000:])
    rows.append((name,pid,'detected' if p.returncode==1 else 'MISSED'))
# evidence must describe the unchanged tree: re-run the touched properties' checks on it
for pid in sorted(set(r[1] for r in rows)):
    subprocess.run(['./check',pid,'quick'],cwd='/verif',capture_output=True,text=True)
for r in rows: print(*r)
