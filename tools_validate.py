#!/usr/bin/env python3-vt
"""validate MANIFEST.json and every evidence file against the given schemas"""
import json, sys, glob, jsonschema
ok = True
try:
    jsonschema.validate(json.load(open('/verif/MANIFEST.json')), json.load(open('/root/.vp/MANIFEST.schema.json')))
    print("MANIFEST ok")
except Exception as e:
    ok = False; print("MANIFEST invalid:", str(e)[:300])
es = json.load(open('/root/.vp/EVIDENCE.schema.json'))
for f in sorted(glob.glob('/verif/evidence/C*.json')):
    try:
        jsonschema.validate(json.load(open(f)), es)
    except Exception as e:
        ok = False; print(f, "invalid:", str(e)[:300])
print("evidence files:", len(glob.glob('/verif/evidence/C*.json')))
sys.exit(0 if ok else 1)
