#!/usr/bin/env python3
"""assemble DESIGN.md: hand-written notes (design_notes/0*.md) + sections generated from checks.json, the Lean sources,
known_findings.json, evidence/*.json and seeded/*/meta.json"""
import json, os, re
V='/verif'
N=f'{V}/design_notes'
checks=json.load(open(f'{V}/checks.json'))
kf=json.load(open(f'{V}/known_findings.json'))
props={json.loads(l)['id']:json.loads(l) for l in open(f'{V}/properties.jsonl')}
def note(n): return open(f'{N}/{n}').read().rstrip('\n')+'\n'

def theorems(mod):
    """(name, first line of the doc comment) of every theorem of a Props module"""
    p=f"{V}/lean/{mod.replace('.','/')}.lean"
    src=open(p).read()
    out=[]
    for m in re.finditer(r'(?:/--(.*?)-/\s*)?(?:open [^\n]* in\s*)?^theorem\s+([A-Za-z0-9_.\']+)', src, re.S|re.M):
        pass
    # simpler and robust: walk theorem positions, look back for an immediately preceding doc comment
    for m in re.finditer(r'^theorem\s+([A-Za-z0-9_.\']+)', src, re.M):
        before=src[:m.start()].rstrip()
        before=re.sub(r'open [^\n]* in$', '', before).rstrip()
        doc=''
        if before.endswith('-/'):
            i=before.rfind('/--')
            j=before.rfind('/-')
            if i!=-1 and i==j:
                doc=' '.join(before[i+3:-2].split())
        out.append((m.group(1), doc))
    return out

def imports(mod, seen=None):
    """model files (StamModel/*.lean, not Lemmas/Props/Driver) a Props module depends on"""
    seen=seen if seen is not None else set()
    p=f"{V}/lean/{mod.replace('.','/')}.lean"
    try: src=open(p).read()
    except FileNotFoundError: return seen
    for m in re.findall(r'^import\s+(StamModel\.\S+)', src, re.M):
        if m not in seen:
            seen.add(m); imports(m, seen)
    return seen

def evidence(pid):
    try: return json.load(open(f'{V}/evidence/{pid}.json'))
    except Exception: return None

out=[]
out.append(note('00_summary.md'))
out.append('---------------------------------------------------------------------------------------\n')
out.append(note('01_why.md'))
out.append('---------------------------------------------------------------------------------------\n')
out.append(note('02_architecture.md'))
out.append('---------------------------------------------------------------------------------------\n')
out.append(note('03_trusted_base.md'))
out.append('---------------------------------------------------------------------------------------\n')
out.append(note('04_conventions.md'))
out.append('---------------------------------------------------------------------------------------\n')
out.append('## 5. The properties, one by one\n')
out.append('Generated from `properties.jsonl` (title), `checks.json` (families, trusted base, assumptions), the `Props` modules '
           '(theorem names and their doc comments), `evidence/*.json` (what the last run covered) and `known_findings.json`. '
           'The full statement of each theorem is in the named Lean file.\n')
for pid in sorted(props):
    pr=props[pid]; c=checks.get(pid)
    out.append(f"### 5/{pid} — {pr['title']}\n")
    if not c:
        out.append('Not claimed.\n'); continue
    models=sorted(m for mod in c['lean'] for m in imports(mod) if re.fullmatch(r'StamModel\.(Gen\.)?[A-Za-z0-9]+', m) and m!='StamModel.Prelude')
    out.append(f"* **Models:** {', '.join('`'+m.replace('StamModel.','')+'.lean`' for m in models)}. **Property theorems:** {', '.join('`'+m.replace('StamModel.','')+'.lean`' for m in c['lean'])}. **Families:** {', '.join('`'+f+'`' for f in c['families'])}"
               + (f" (answers also compared across store configurations: {', '.join('`'+f+'`' for f in c.get('digest_families',[]))})" if c.get('digest_families') else '') + '.')
    ths=[t for mod in c['lean'] for t in theorems(mod)]
    out.append('* **Theorems** (' + str(len(ths)) + '):')
    for n,d in ths:
        d=d.replace('**','')
        out.append(f"  * `{n}`" + (f" — {d[:260]}{'…' if len(d)>260 else ''}" if d else ''))
    if c.get('trusted'):
        out.append('* **Modelled / trusted / partial:**')
        for t in c['trusted']: out.append(f"  * {t}")
    if c.get('assumptions'):
        out.append('* **Assumptions of the theorems and limits of the claim:**')
        for t in c['assumptions']: out.append(f"  * {t}")
    ev=evidence(pid)
    if ev:
        cov=ev['coverage']
        out.append(f"* **Last run on the unchanged tree** (tier {ev['tier']}, seed {ev['seed']}): {cov['discharged']}/{cov['obligations']} theorems checked, "
                   f"{cov['evaluations']} cases evaluated ({cov['distinct_nontrivial']} distinct non-trivial), "
                   f"{sum(x['model_lines_compared'] for x in cov['correspondence'])} protocol lines compared with the model, "
                   f"{len(cov['known_findings_hit'])} known-finding signatures hit, {ev['violations']} violations.")
    nk=sum(1 for f in kf if f['property']==pid and f['status']=='known'); nf=sum(1 for f in kf if f['property']==pid and f['status']=='fixed')
    out.append(f"* **Defects:** {nf} repaired by `fix:` commits, {nk} recorded as known findings (sections 8, 9).\n")
out.append('---------------------------------------------------------------------------------------\n')
out.append(note('06_search.md'))
out.append('---------------------------------------------------------------------------------------\n')
out.append(note('07_false_alarms.md'))
out.append('---------------------------------------------------------------------------------------\n')
out.append('## 8. Known findings (genuine defects recorded, not repaired)\n')
out.append('The check prints `KNOWN-FINDING: property=<id> <signature>: <what>` for each and exits 0; a failure with any other signature is a VIOLATION. '
           'The file is never written at run time.\n')
for f in kf:
    if f['status']=='known':
        out.append(f"* **{f['property']}** `{f['signature']}` — {f['what']} *Replay:* `{f.get('replay','')}`. *Why not repaired:* {f.get('why_not_fixed','')}")
out.append('\n---------------------------------------------------------------------------------------\n')
out.append('## 9. Defects repaired in /repo\n')
out.append('One minimal unguarded `fix:` commit each (the pinned suite, unedited, passes with every one of them); each is a `fixed:` entry in '
           '`known_findings.json`, which suppresses nothing: the checks pass on the repaired tree and report the violation again if it returns.\n')
for f in kf:
    if f['status']=='fixed':
        out.append(f"* {f['property']} `{f['commit']}` — {f['what']}")
out.append('\n---------------------------------------------------------------------------------------\n')
out.append('## 10. Seeded changes and which check catches them\n')
out.append('Made by fresh sub-agents from the property text only (section 2.4). "violations reported" are the replay files the quick check wrote with the change applied.\n')
out.append('| seeded change | property | detected by `./check <id> quick` | violations reported |')
out.append('|---|---|---|---|')
sd=f'{V}/seeded'
for name in sorted(os.listdir(sd)):
    mp=f'{sd}/{name}/meta.json'
    if not os.path.exists(mp): continue
    m=json.load(open(mp))
    viol=[os.path.basename(v).replace('.json','') for v in m.get('violations_reported',[])]
    if not viol:
        co=f'{sd}/{name}/check_output.txt'
        if os.path.exists(co):
            viol=[os.path.basename(l.split('replay=')[1].split()[0]).replace('.json','') for l in open(co) if l.startswith('VIOLATION')]
    if m.get('neutralised_by_fix'):
        out.append(f"| {name} | {m['property']} | n/a — no longer breaks the property | {m['neutralised_by_fix'][:200]} |")
        continue
    out.append(f"| {name} | {m['property']} | {'yes' if m.get('detected') else 'NO'} | {', '.join(viol[:4])} |")
out.append('\n'+note('10_strengthened.md'))
out.append('---------------------------------------------------------------------------------------\n')
out.append(note('11_tooling.md'))
text='\n'.join(out)+'\n'
open(f'{V}/DESIGN.md','w').write(text)
print('DESIGN.md written,', len(text.splitlines()), 'lines')
