import StamModel.Csv
/-
  C15 — a row of the STAM CSV annotations table (src/csv.rs): the cells `AnnotationCsv::set_*` write for an
  annotation's target and data, and what `TryInto<AnnotationBuilder> for AnnotationCsv` reads from them.

  * a target is a simple selector or a complex selector over simple ones; the writers see the sub-selectors of a
    complex selector with internal ranged selectors expanded (Props/C15 `packGroups_aligned`: one position per expanded
    entry in every column), so the model works on the expanded list;
  * identifiers are the public identifiers the writer looks up; cursors are printed by `Display for Cursor` and read by
    `TryFrom<&str>` (`showCursor` / `parseCursor` of Csv.lean, with decimal printing/parsing as parameters);
  * the data cells are two parallel `;`-lists (data identifiers, dataset identifiers); the reader takes the last
    dataset identifier when the list of datasets is shorter.
-/
namespace Stam.Csv

abbrev S := List Char

inductive Kind where
  | text | ann | res | set | key | data | multi | comp | dir
deriving DecidableEq, Repr

def Kind.isComplex : Kind → Bool
  | .multi | .comp | .dir => true
  | _ => false

def kindStr : Kind → S
  | .text => "TextSelector".toList
  | .ann => "AnnotationSelector".toList
  | .res => "ResourceSelector".toList
  | .set => "DataSetSelector".toList
  | .key => "DataKeySelector".toList
  | .data => "AnnotationDataSelector".toList
  | .multi => "MultiSelector".toList
  | .comp => "CompositeSelector".toList
  | .dir => "DirectionalSelector".toList

/-- `SelectorKind::try_from(&str)` on the names the writer uses -/
def parseKind (s : S) : Option Kind :=
  [Kind.text, .ann, .res, .set, .key, .data, .multi, .comp, .dir].find? (fun k => kindStr k == s)

/-- a simple selector as written: public identifiers and cursors -/
inductive Sub where
  | text (r : S) (b e : Cursor)
  | ann (a : S) (off : Option (Cursor × Cursor))
  | res (r : S)
  | set (d : S)
  | key (d k : S)
  | data (d x : S)
deriving Repr

inductive Target where
  | simple (s : Sub)
  | complex (k : Kind) (subs : List Sub)
deriving Repr

def Sub.kind : Sub → Kind
  | .text .. => .text | .ann .. => .ann | .res _ => .res | .set _ => .set | .key .. => .key | .data .. => .data

/-- the cells of the target columns -/
structure Row where
  selectortype : S
  resource : S
  annotation : S
  dataset : S
  begin : S
  end_ : S
  key : S
  data : S
deriving Repr

/-- what each column holds for one simple selector -/
def cellResource : Sub → S
  | .text r _ _ => r | .res r => r | _ => []
def cellAnnotation : Sub → S
  | .ann a _ => a | _ => []
def cellDataset : Sub → S
  | .set d => d | .key d _ => d | .data d _ => d | _ => []
def cellBegin (showNat : Nat → S) : Sub → S
  | .text _ b _ => showCursor showNat b
  | .ann _ (some (b, _)) => showCursor showNat b
  | _ => []
def cellEnd (showNat : Nat → S) : Sub → S
  | .text _ _ e => showCursor showNat e
  | .ann _ (some (_, e)) => showCursor showNat e
  | _ => []
def cellKey : Sub → S
  | .key _ k => k | _ => []
def cellData : Sub → S
  | .data _ x => x | _ => []

/-- `AnnotationCsv::set_selectortype`, `set_targetresource`, … -/
def writeRow (showNat : Nat → S) : Target → Row
  | .simple s =>
    { selectortype := kindStr s.kind, resource := cellResource s, annotation := cellAnnotation s, dataset := cellDataset s,
      begin := cellBegin showNat s, end_ := cellEnd showNat s, key := cellKey s, data := cellData s }
  | .complex k subs =>
    { selectortype := kindStr k ++ packColumn (subs.map (fun s => kindStr s.kind)),
      resource := packColumn (subs.map cellResource), annotation := packColumn (subs.map cellAnnotation),
      dataset := packColumn (subs.map cellDataset), begin := packColumn (subs.map (cellBegin showNat)),
      end_ := packColumn (subs.map (cellEnd showNat)), key := packColumn (subs.map cellKey), data := packColumn (subs.map cellData) }

/-! ## reading -/

def optAllK : List (Option Kind) → Option (List Kind)
  | [] => some []
  | none :: _ => none
  | some k :: r => (optAllK r).map (k :: ·)

/-- `list.get(i).unwrap_or(list.last().unwrap())` on a list that `split` never leaves empty -/
def getOrLast (l : List S) (i : Nat) : S := (l[i]?).getD (l.getLast?.getD [])

def cursorOf (parseNat : S → Option Nat) (s : S) : Out Cursor := parseCursor parseNat s

/-- the sub-selector at position `i` of a complex selector -/
def readSub (parseNat : S → Option Nat) (kinds : List Kind) (res ann dset beg en keys dat : List S) (i : Nat) : Out Sub :=
  match (kinds[i]?).getD (kinds.getLast?.getD .text) with
  | .text =>
    let r := getOrLast res i
    if r.isEmpty then .err "CsvError" else
    match beg[i]?, en[i]? with
    | some b, some e =>
      match cursorOf parseNat b, cursorOf parseNat e with
      | .ok b, .ok e => .ok (.text r b e)
      | .err m, _ => .err m
      | _, .err m => .err m
      | .panic m, _ => .panic m
      | _, .panic m => .panic m
    | _, _ => .err "CsvError"
  | .ann =>
    let a := getOrLast ann i
    if a.isEmpty then .err "CsvError" else
    match beg[i]? with
    | some b =>
      if b.isEmpty then .ok (.ann a none) else
      match en[i]? with
      | some e =>
        if e.isEmpty then .err "CsvError" else
        match cursorOf parseNat b, cursorOf parseNat e with
        | .ok b, .ok e => .ok (.ann a (some (b, e)))
        | .err m, _ => .err m
        | _, .err m => .err m
        | .panic m, _ => .panic m
        | _, .panic m => .panic m
      | none => .err "CsvError"
    | none => .ok (.ann a none)
  | .res =>
    let r := getOrLast res i
    if r.isEmpty then .err "CsvError" else .ok (.res r)
  | .set =>
    let d := getOrLast dset i
    if d.isEmpty then .err "CsvError" else .ok (.set d)
  | .key =>
    let d := getOrLast dset i
    if d.isEmpty then .err "CsvError" else .ok (.key d (getOrLast keys i))
  | .data =>
    let d := getOrLast dset i
    if d.isEmpty then .err "CsvError" else .ok (.data d (getOrLast dat i))
  | _ => .err "CsvError"

def readSubs (parseNat : S → Option Nat) (kinds : List Kind) (res ann dset beg en keys dat : List S) : Nat → Nat → Out (List Sub)
  | _, 0 => .ok []
  | i, n + 1 =>
    match readSub parseNat kinds res ann dset beg en keys dat i with
    | .ok s =>
      match readSubs parseNat kinds res ann dset beg en keys dat (i + 1) n with
      | .ok r => .ok (s :: r)
      | .err m => .err m
      | .panic m => .panic m
    | .err m => .err m
    | .panic m => .panic m

def hasSemi (s : S) : Bool := s.contains ';'

/-- `TryInto<AnnotationBuilder> for AnnotationCsv`: the target -/
def readTarget (parseNat : S → Option Nat) (row : Row) : Out Target :=
  match optAllK ((splitSemi row.selectortype).map parseKind) with
  | none => .err "CsvError"
  | some [] => .err "CsvError"
  | some (k0 :: ks) =>
    if k0.isComplex ∧ ks.isEmpty then .err "CsvError"
    else if !k0.isComplex then
      if hasSemi row.resource || hasSemi row.dataset || hasSemi row.annotation || hasSemi row.begin || hasSemi row.end_ ||
          hasSemi row.key || hasSemi row.data then .err "CsvError"
      else match k0 with
        | .text =>
          match cursorOf parseNat row.begin, cursorOf parseNat row.end_ with
          | .ok b, .ok e => .ok (.simple (.text row.resource b e))
          | .err m, _ => .err m
          | _, .err m => .err m
          | .panic m, _ => .panic m
          | _, .panic m => .panic m
        | .ann =>
          if !row.begin.isEmpty && !row.end_.isEmpty then
            match cursorOf parseNat row.begin, cursorOf parseNat row.end_ with
            | .ok b, .ok e => .ok (.simple (.ann row.annotation (some (b, e))))
            | .err m, _ => .err m
            | _, .err m => .err m
            | .panic m, _ => .panic m
            | _, .panic m => .panic m
          else .ok (.simple (.ann row.annotation none))
        | .res => .ok (.simple (.res row.resource))
        | .set => .ok (.simple (.set row.dataset))
        | .key => .ok (.simple (.key row.dataset row.key))
        | .data => .ok (.simple (.data row.dataset row.data))
        | _ => .err "CsvError"
    else
      let kinds := k0 :: ks
      let res := splitSemi row.resource
      let dset := splitSemi row.dataset
      let ann := splitSemi row.annotation
      let keys := splitSemi row.key
      let dat := splitSemi row.data
      let beg := splitSemi row.begin
      let en := splitSemi row.end_
      let maxlen := [kinds.length, res.length, dset.length, ann.length, beg.length, en.length, keys.length, dat.length].foldl max 0
      match readSubs parseNat kinds res ann dset beg en keys dat 1 (maxlen - 1) with
      | .ok subs => .ok (.complex k0 subs)
      | .err m => .err m
      | .panic m => .panic m

/-! ## the data cells -/

/-- `AnnotationData` / `AnnotationDataSet` cells: one entry per data item in both -/
def writeData (items : List (S × S)) : S × S :=
  (intercalateSemi (items.map (·.2)), intercalateSemi (items.map (·.1)))
where intercalateSemi : List S → S
  | [] => []
  | [x] => x
  | x :: y :: r => x ++ ';' :: intercalateSemi (y :: r)

/-- the reader: (dataset, data identifier) pairs -/
def readData (dataIds setIds : S) : List (S × S) :=
  if dataIds.isEmpty then [] else
    let sets := splitSemi setIds
    (splitSemi dataIds).zipIdx.map (fun (d, i) => (getOrLast sets i, d))

end Stam.Csv
