import StamModel.Csv
/-
  C15 — a row of the STAM CSV annotations table (src/csv.rs): the cells `AnnotationCsv::set_*` write for an
  annotation's target and data, and what `TryInto<AnnotationBuilder> for AnnotationCsv` reads from them.

  * a target is a simple selector or a complex selector over simple ones; the writers see the sub-selectors of a
    complex selector with internal ranged selectors expanded (Props/C15 `packGroups_aligned`: one position per expanded
    entry in every column), so the model works on the expanded list;
  * identifiers are the public identifiers the writer looks up; cursors are printed by `Display for Cursor` and read by
    `TryFrom<&str>` (`showCursor` / `parseCursor` of Csv.lean, with decimal printing/parsing as parameters);
  * the data cells are two parallel `;`-lists (data identifiers, dataset identifiers); the reader takes the last
    dataset identifier when the list of datasets is shorter.
-/
namespace Stam.Csv

abbrev S := List Char

inductive Kind where
  | text | ann | res | set | key | data | multi | comp | dir
deriving DecidableEq, Repr

def Kind.isComplex : Kind → Bool
  | .multi | .comp | .dir => true
  | _ => false

def kindStr : Kind → S
  | .text => "TextSelector".toList
  | .ann => "AnnotationSelector".toList
  | .res => "ResourceSelector".toList
  | .set => "DataSetSelector".toList
  | .key => "DataKeySelector".toList
  | .data => "AnnotationDataSelector".toList
  | .multi => "MultiSelector".toList
  | .comp => "CompositeSelector".toList
  | .dir => "DirectionalSelector".toList

/-- `SelectorKind::try_from(&str)` on the names the writer uses -/
def parseKind (s : S) : Option Kind :=
  [Kind.text, .ann, .res, .set, .key, .data, .multi, .comp, .dir].find? (fun k => kindStr k == s)

/-- a simple selector as written: public identifiers and cursors -/
inductive Sub where
  | text (r : S) (b e : Cursor)
  | ann (a : S) (off : Option (Cursor × Cursor))
  | res (r : S)
  | set (d : S)
  | key (d k : S)
  | data (d x : S)
deriving Repr

inductive Target where
  | simple (s : Sub)
  | complex (k : Kind) (subs : List Sub)
deriving Repr

def Sub.kind : Sub → Kind
  | .text .. => .text | .ann .. => .ann | .res _ => .res | .set _ => .set | .key .. => .key | .data .. => .data

/-- the cells of the target columns -/
structure Row where
  selectortype : S
  resource : S
  annotation : S
  dataset : S
  begin : S
  end_ : S
  key : S
  data : S
deriving Repr

/-- what each column holds for one simple selector -/
def cellResource : Sub → S
  | .text r _ _ => r | .res r => r | _ => []
def cellAnnotation : Sub → S
  | .ann a _ => a | _ => []
def cellDataset : Sub → S
  | .set d => d | .key d _ => d | .data d _ => d | _ => []
def cellBegin (showNat : Nat → S) : Sub → S
  | .text _ b _ => showCursor showNat b
  | .ann _ (some (b, _)) => showCursor showNat b
  | _ => []
def cellEnd (showNat : Nat → S) : Sub → S
  | .text _ _ e => showCursor showNat e
  | .ann _ (some (_, e)) => showCursor showNat e
  | _ => []
def cellKey : Sub → S
  | .key _ k => k | _ => []
def cellData : Sub → S
  | .data _ x => x | _ => []

/-- `AnnotationCsv::set_selectortype`, `set_targetresource`, … -/
def writeRow (showNat : Nat → S) : Target → Row
  | .simple s =>
    { selectortype := kindStr s.kind, resource := cellResource s, annotation := cellAnnotation s, dataset := cellDataset s,
      begin := cellBegin showNat s, end_ := cellEnd showNat s, key := cellKey s, data := cellData s }
  | .complex k subs =>
    { selectortype := kindStr k ++ packColumn (subs.map (fun s => kindStr s.kind)),
      resource := packColumn (subs.map cellResource), annotation := packColumn (subs.map cellAnnotation),
      dataset := packColumn (subs.map cellDataset), begin := packColumn (subs.map (cellBegin showNat)),
      end_ := packColumn (subs.map (cellEnd showNat)), key := packColumn (subs.map cellKey), data := packColumn (subs.map cellData) }

/-! ## reading -/

def optAllK : List (Option Kind) → Option (List Kind)
  | [] => some []
  | none :: _ => none
  | some k :: r => (optAllK r).map (k :: ·)

/-- `list.last().unwrap()`: a panic when the list is empty -/
def lastP {α} (l : List α) : Out α :=
  match l.getLast? with
  | some x => .ok x
  | none => .panic "called `Option::unwrap()` on a `None` value"

/-- `list.get(i).unwrap_or(list.last().unwrap())` (the fall-back is evaluated first, as `unwrap_or` does) -/
def getOrLastP {α} (l : List α) (i : Nat) : Out α :=
  match lastP l with
  | .ok d => .ok ((l[i]?).getD d)
  | .err m => .err m
  | .panic m => .panic m

/-- `opt.unwrap()` -/
def unwrapP {α} : Option α → Out α
  | some x => .ok x
  | none => .panic "called `Option::unwrap()` on a `None` value"

def cursorOf (parseNat : S → Option Nat) (s : S) : Out Cursor := parseCursor parseNat s

def Out.bind {α β} (o : Out α) (f : α → Out β) : Out β :=
  match o with
  | .ok x => f x
  | .err m => .err m
  | .panic m => .panic m

/-- the sub-selector at position `i` of a complex selector, with every `unwrap` of the source where it stands -/
def readSub (parseNat : S → Option Nat) (kinds : List Kind) (res ann dset beg en keys dat : List S) (i : Nat) : Out Sub :=
  (getOrLastP kinds i).bind fun kind =>
  match kind with
  | .text =>
    (getOrLastP res i).bind fun r =>
    if r.isEmpty then .err "CsvError" else
    match beg[i]? with
    | none => .err "CsvError"
    | some b =>
      (cursorOf parseNat b).bind fun b =>
      match en[i]? with
      | none => .err "CsvError"
      | some e => (cursorOf parseNat e).bind fun e => .ok (.text r b e)
  | .ann =>
    (getOrLastP ann i).bind fun a =>
    if a.isEmpty then .err "CsvError" else
    -- `beginoffsets.get(i).is_some() && !beginoffsets.get(i).unwrap().is_empty()`
    if (beg[i]?).isSome && !((beg[i]?).getD []).isEmpty then
      -- `endoffsets.get(i).map(|x| x.is_empty()).unwrap_or(true)`
      if ((en[i]?).map List.isEmpty).getD true then .err "CsvError" else
      (unwrapP (beg[i]?)).bind fun b =>
      (cursorOf parseNat b).bind fun b =>
      (unwrapP (en[i]?)).bind fun e =>
      (cursorOf parseNat e).bind fun e => .ok (.ann a (some (b, e)))
    -- (an end without a begin: half an offset is refused) `endoffsets.get(i).map(|x| !x.is_empty()).unwrap_or(false)`
    else if ((en[i]?).map (fun x => !x.isEmpty)).getD false then .err "CsvError"
    else .ok (.ann a none)
  | .res =>
    (getOrLastP res i).bind fun r => if r.isEmpty then .err "CsvError" else .ok (.res r)
  | .set =>
    (getOrLastP dset i).bind fun d => if d.isEmpty then .err "CsvError" else .ok (.set d)
  | .key =>
    (getOrLastP dset i).bind fun d =>
    -- `targetkeys.get(i).or(targetkeys.last()).ok_or_else(..)`
    match (keys[i]?).or keys.getLast? with
    | none => .err "CsvError"
    | some k => if d.isEmpty then .err "CsvError" else .ok (.key d k)
  | .data =>
    (getOrLastP dset i).bind fun d =>
    match (dat[i]?).or dat.getLast? with
    | none => .err "CsvError"
    | some x => if d.isEmpty then .err "CsvError" else .ok (.data d x)
  | _ => .err "CsvError"

def readSubs (parseNat : S → Option Nat) (kinds : List Kind) (res ann dset beg en keys dat : List S) : Nat → Nat → Out (List Sub)
  | _, 0 => .ok []
  | i, n + 1 =>
    (readSub parseNat kinds res ann dset beg en keys dat i).bind fun s =>
    (readSubs parseNat kinds res ann dset beg en keys dat (i + 1) n).bind fun r => .ok (s :: r)

def hasSemi (s : S) : Bool := s.contains ';'

/-- `TryInto<AnnotationBuilder> for AnnotationCsv`: the target -/
def readTarget (parseNat : S → Option Nat) (row : Row) : Out Target :=
  match optAllK ((splitSemi row.selectortype).map parseKind) with
  | none => .err "CsvError"
  | some [] => .err "CsvError"
  | some (k0 :: ks) =>
    if k0.isComplex ∧ ks.isEmpty then .err "CsvError"
    else if !k0.isComplex then
      if hasSemi row.resource || hasSemi row.dataset || hasSemi row.annotation || hasSemi row.begin || hasSemi row.end_ ||
          hasSemi row.key || hasSemi row.data then .err "CsvError"
      else match k0 with
        | .text =>
          (cursorOf parseNat row.begin).bind fun b => (cursorOf parseNat row.end_).bind fun e => .ok (.simple (.text row.resource b e))
        | .ann =>
          if !row.begin.isEmpty && !row.end_.isEmpty then
            (cursorOf parseNat row.begin).bind fun b => (cursorOf parseNat row.end_).bind fun e => .ok (.simple (.ann row.annotation (some (b, e))))
          else if row.begin.isEmpty && row.end_.isEmpty then .ok (.simple (.ann row.annotation none))
          -- (half an offset is refused)
          else .err "CsvError"
        | .res => .ok (.simple (.res row.resource))
        | .set => .ok (.simple (.set row.dataset))
        | .key => .ok (.simple (.key row.dataset row.key))
        | .data => .ok (.simple (.data row.dataset row.data))
        | _ => .err "CsvError"
    else
      let kinds := k0 :: ks
      let res := splitSemi row.resource
      let dset := splitSemi row.dataset
      let ann := splitSemi row.annotation
      -- (an empty TargetKey / TargetData cell arrives as a missing value: no list at all)
      let keys := if row.key.isEmpty then [] else splitSemi row.key
      let dat := if row.data.isEmpty then [] else splitSemi row.data
      let beg := splitSemi row.begin
      let en := splitSemi row.end_
      let maxlen := [kinds.length, res.length, dset.length, ann.length, beg.length, en.length, keys.length, dat.length].foldl max 0
      (readSubs parseNat kinds res ann dset beg en keys dat 1 (maxlen - 1)).bind fun subs =>
      -- `match selectortypes[0] { Composite | Multi | Directional => …, _ => unreachable!() }`
      if k0.isComplex then .ok (.complex k0 subs) else .panic "internal error: entered unreachable code"

/-! ## the data cells -/

/-- `AnnotationData` / `AnnotationDataSet` cells: one entry per data item in both -/
def writeData (items : List (S × S)) : S × S :=
  (intercalateSemi (items.map (·.2)), intercalateSemi (items.map (·.1)))
where intercalateSemi : List S → S
  | [] => []
  | [x] => x
  | x :: y :: r => x ++ ';' :: intercalateSemi (y :: r)

/-- the reader: (dataset, data identifier) pairs -/
def readData (dataIds setIds : S) : List (S × S) :=
  if dataIds.isEmpty then [] else
    let sets := splitSemi setIds
    (splitSemi dataIds).zipIdx.map (fun (d, i) => ((sets[i]?).getD (sets.getLast?.getD []), d))

end Stam.Csv
