import StamModel.Vocab
import StamModel.Lemmas.Store
import StamModel.Lemmas.StoreIds
/-
  Lemmas for the vocabulary model (Vocab.lean): the index entries under insert / remove / clear.
-/
namespace Stam.Vocab
open Stam

abbrev Sorted (l : List Nat) : Prop := l.Pairwise (· < ·)

theorem sorted_nodup {l : List Nat} (h : Sorted l) : l.Nodup :=
  List.Pairwise.imp (fun hab => Nat.ne_of_lt hab) h

theorem sorted_le_last : ∀ (l : List Nat) (last : Nat), Sorted l → l.getLast? = some last → ∀ x ∈ l, x ≤ last := by
  intro l
  induction l with
  | nil => intro last _ h; simp at h
  | cons a r ih =>
    intro last hs hl x hx
    rw [Sorted, List.pairwise_cons] at hs
    cases r with
    | nil =>
      simp at hl; subst hl
      simp at hx; omega
    | cons b r' =>
      have hl' : (b :: r').getLast? = some last := by simpa [List.getLast?_cons_cons] using hl
      have hlast : last ∈ b :: r' := List.mem_of_getLast? hl'
      rcases List.mem_cons.mp hx with rfl | hx'
      · exact Nat.le_of_lt (hs.1 last hlast)
      · exact ih last hs.2 hl' x hx'

theorem dropWhile_ge (y : Nat) : ∀ (l : List Nat), Sorted l → ∀ z ∈ l.dropWhile (· < y), y ≤ z := by
  intro l
  induction l with
  | nil => intro _ z hz; simp at hz
  | cons a r ih =>
    intro hs z hz
    rw [Sorted, List.pairwise_cons] at hs
    by_cases ha : a < y
    · simp only [List.dropWhile_cons, ha, decide_true, if_true] at hz
      exact ih hs.2 z hz
    · simp only [List.dropWhile_cons, ha, decide_false] at hz
      simp only [Bool.false_eq_true, if_false] at hz
      rcases List.mem_cons.mp hz with rfl | hz'
      · omega
      · have := hs.1 z hz'; omega

theorem mem_take_drop (p : Nat → Bool) (l : List Nat) (x : Nat) :
    x ∈ l ↔ x ∈ l.takeWhile p ∨ x ∈ l.dropWhile p := by
  rw [← List.mem_append, List.takeWhile_append_dropWhile]

theorem takeWhile_all (p : Nat → Bool) : ∀ (l : List Nat), ∀ x ∈ l.takeWhile p, p x = true := by
  intro l
  induction l with
  | nil => intro x hx; simp at hx
  | cons a r ih =>
    intro x hx
    by_cases ha : p a = true
    · simp only [List.takeWhile_cons, ha, if_true] at hx
      rcases List.mem_cons.mp hx with rfl | hx'
      · exact ha
      · exact ih x hx'
    · simp only [List.takeWhile_cons, ha] at hx
      simp at hx

theorem mem_relInsert (l : List Nat) (y x : Nat) (hs : Sorted l) : x ∈ relInsert l y ↔ x = y ∨ x ∈ l := by
  unfold relInsert
  cases hl : l.getLast? with
  | none =>
    have : l = [] := by simpa using hl
    subst this; simp
  | some last =>
    have hlast : last ∈ l := List.mem_of_getLast? hl
    simp only
    by_cases h1 : last = y
    · subst h1; simp only [if_true]
      constructor
      · intro h; exact Or.inr h
      · rintro (rfl | h) <;> assumption
    · simp only [h1, if_false]
      by_cases h2 : y < last
      · simp only [h2, if_true]
        by_cases h3 : y ∈ l
        · simp only [h3, if_true]
          constructor
          · intro h; exact Or.inr h
          · rintro (rfl | h) <;> assumption
        · simp only [h3, if_false]
          have hsplit : x ∈ l ↔ x ∈ l.takeWhile (· < y) ∨ x ∈ l.dropWhile (· < y) := mem_take_drop _ l x
          simp only [List.mem_append, List.mem_cons]
          rw [hsplit]
          constructor
          · rintro (h | rfl | h)
            · exact Or.inr (Or.inl h)
            · exact Or.inl rfl
            · exact Or.inr (Or.inr h)
          · rintro (rfl | h | h)
            · exact Or.inr (Or.inl rfl)
            · exact Or.inl h
            · exact Or.inr (Or.inr h)
      · simp only [h2, if_false, List.mem_append, List.mem_singleton]
        constructor
        · rintro (h | rfl)
          · exact Or.inr h
          · exact Or.inl rfl
        · rintro (rfl | h)
          · exact Or.inr rfl
          · exact Or.inl h

theorem sorted_relInsert (l : List Nat) (y : Nat) (hs : Sorted l) : Sorted (relInsert l y) := by
  unfold relInsert
  cases hl : l.getLast? with
  | none =>
    have : l = [] := by simpa using hl
    subst this; simp [Sorted]
  | some last =>
    simp only
    by_cases h1 : last = y
    · simp only [h1, if_true]; exact hs
    · simp only [h1, if_false]
      by_cases h2 : y < last
      · simp only [h2, if_true]
        by_cases h3 : y ∈ l
        · simp only [h3, if_true]; exact hs
        · simp only [h3, if_false]
          have htw : Sorted (l.takeWhile (· < y)) := List.Pairwise.sublist (List.takeWhile_sublist _) hs
          have hdw : Sorted (l.dropWhile (· < y)) := List.Pairwise.sublist (List.dropWhile_sublist _) hs
          have hlt : ∀ x ∈ l.takeWhile (· < y), x < y := by
            intro x hx; simpa using takeWhile_all _ l x hx
          have hgt : ∀ z ∈ l.dropWhile (· < y), y < z := by
            intro z hz
            have h1 := dropWhile_ge y l hs z hz
            have hzl : z ∈ l := (List.dropWhile_sublist _).subset hz
            have : z ≠ y := fun h => h3 (h ▸ hzl)
            omega
          rw [Sorted, List.pairwise_append]
          refine ⟨htw, ?_, ?_⟩
          · rw [List.pairwise_cons]; exact ⟨hgt, hdw⟩
          · intro x hx z hz
            rcases List.mem_cons.mp hz with rfl | hz'
            · exact hlt x hx
            · have := hlt x hx; have := hgt z hz'; omega
      · simp only [h2, if_false]
        rw [Sorted, List.pairwise_append]
        refine ⟨hs, by simp, ?_⟩
        intro x hx z hz
        simp at hz; subst hz
        have := sorted_le_last l last hs hl x hx
        omega

/-! ### entries -/

theorem idxGet_set (ix : List (List Nat)) (k k' : Nat) (l : List Nat) :
    idxGet (ix.set k l) k' = if k' = k ∧ k < ix.length then l else idxGet ix k' := by
  unfold idxGet
  rw [List.getElem?_set]
  by_cases h : k = k'
  · subst h
    by_cases h2 : k < ix.length
    · simp [h2]
    · simp [h2, List.getElem?_eq_none (Nat.le_of_not_lt h2)]
  · have : ¬ k' = k := fun h' => h h'.symm
    simp [h, this]

theorem idxGet_pad (ix : List (List Nat)) (n k : Nat) : idxGet (ix ++ List.replicate n []) k = idxGet ix k := by
  unfold idxGet
  by_cases h : k < ix.length
  · rw [List.getElem?_append_left h]
  · have h' : ix.length ≤ k := Nat.le_of_not_lt h
    rw [List.getElem?_append_right h', List.getElem?_eq_none h']
    by_cases h2 : k - ix.length < n
    · simp [List.getElem?_replicate, h2]
    · simp [List.getElem?_replicate, h2]

theorem idxGet_idxInsert (ix : List (List Nat)) (k y k' : Nat) :
    idxGet (idxInsert ix k y) k' = if k' = k then relInsert (idxGet ix k) y else idxGet ix k' := by
  unfold idxInsert
  rw [idxGet_set, idxGet_pad]
  have hlen : k < (ix ++ List.replicate (k + 1 - ix.length) []).length := by
    simp only [List.length_append, List.length_replicate]; omega
  by_cases h : k' = k
  · simp only [h, hlen, and_self, if_true]
  · simp only [h, false_and, if_false]

theorem idxGet_idxRemove (ix : List (List Nat)) (k y k' : Nat) :
    idxGet (idxRemove ix k y) k' = if k' = k then (idxGet ix k).erase y else idxGet ix k' := by
  unfold idxRemove
  rw [idxGet_set]
  by_cases h : k' = k
  · subst h
    by_cases h2 : k' < ix.length
    · simp [h2]
    · have : idxGet ix k' = [] := by simp [idxGet, List.getElem?_eq_none (Nat.le_of_not_lt h2)]
      simp [h2, this]
  · simp [h]

theorem idxGet_idxClear (ix : List (List Nat)) (k k' : Nat) :
    idxGet (idxClear ix k) k' = if k' = k then [] else idxGet ix k' := by
  unfold idxClear
  rw [idxGet_set]
  by_cases h : k' = k
  · subst h
    by_cases h2 : k' < ix.length
    · simp [h2]
    · have : idxGet ix k' = [] := by simp [idxGet, List.getElem?_eq_none (Nat.le_of_not_lt h2)]
      simp [h2, this]
  · simp [h]

theorem mem_erase_sorted (l : List Nat) (y x : Nat) (hs : Sorted l) : x ∈ l.erase y ↔ x ∈ l ∧ x ≠ y := by
  rw [List.Nodup.mem_erase_iff (sorted_nodup hs)]
  constructor
  · rintro ⟨h1, h2⟩; exact ⟨h2, h1⟩
  · rintro ⟨h1, h2⟩; exact ⟨h2, h1⟩

theorem sorted_erase (l : List Nat) (y : Nat) (hs : Sorted l) : Sorted (l.erase y) :=
  List.Pairwise.sublist (List.erase_sublist) hs

end Stam.Vocab
