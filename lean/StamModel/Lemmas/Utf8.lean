import StamModel.Utf8
/-
  Helper lemmas for C12 (kept apart from the property theorems).
-/
namespace Stam

def WidthsWF (ws : List Nat) : Prop := ∀ w ∈ ws, 1 ≤ w

theorem prefixB_zero (ws : List Nat) : prefixB ws 0 = 0 := by simp [prefixB]

theorem prefixB_cons_succ (w : Nat) (ws : List Nat) (p : Nat) :
    prefixB (w :: ws) (p + 1) = w + prefixB ws p := by simp [prefixB]

theorem prefixB_length (ws : List Nat) : prefixB ws ws.length = ws.sum := by simp [prefixB]

theorem prefixB_ge_length (ws : List Nat) (p : Nat) (h : ws.length ≤ p) : prefixB ws p = ws.sum := by
  simp [prefixB, List.take_of_length_le h]

theorem prefixB_add (ws : List Nat) (c k : Nat) :
    prefixB ws (c + k) = prefixB ws c + prefixB (ws.drop c) k := by
  simp [prefixB, List.take_add, List.sum_append]

theorem prefixB_add_sum_drop (ws : List Nat) (c : Nat) : prefixB ws c + (ws.drop c).sum = ws.sum := by
  have h2 : (ws.take c ++ ws.drop c).sum = ws.sum := by rw [List.take_append_drop c ws]
  rw [List.sum_append] at h2
  exact h2

theorem WidthsWF.tail {w : Nat} {ws : List Nat} (h : WidthsWF (w :: ws)) : WidthsWF ws :=
  fun x hx => h x (by simp [hx])

theorem WidthsWF.drop {ws : List Nat} (h : WidthsWF ws) (c : Nat) : WidthsWF (ws.drop c) :=
  fun x hx => h x (List.mem_of_mem_drop hx)

/-- prefix sums are strictly increasing on `[0, length]` when every width is ≥ 1 -/
theorem prefixB_strict (ws : List Nat) (h : WidthsWF ws) :
    ∀ p q, p < q → q ≤ ws.length → prefixB ws p < prefixB ws q := by
  induction ws with
  | nil => intro p q hpq hq; simp at hq; omega
  | cons w ws ih =>
    intro p q hpq hq
    have hw : 1 ≤ w := h w (by simp)
    cases q with
    | zero => omega
    | succ q =>
      cases p with
      | zero => rw [prefixB_zero, prefixB_cons_succ]; omega
      | succ p =>
        rw [prefixB_cons_succ, prefixB_cons_succ]
        have := ih h.tail p q (by omega) (by simpa using hq)
        omega

theorem prefixB_inj (ws : List Nat) (h : WidthsWF ws) (p q : Nat) (hp : p ≤ ws.length) (hq : q ≤ ws.length)
    (he : prefixB ws p = prefixB ws q) : p = q := by
  rcases Nat.lt_trichotomy p q with hlt | heq | hgt
  · have := prefixB_strict ws h p q hlt hq; omega
  · exact heq
  · have := prefixB_strict ws h q p hgt hp; omega

theorem prefixB_le_sum (ws : List Nat) (p : Nat) : prefixB ws p ≤ ws.sum := by
  have := prefixB_add_sum_drop ws p; omega

theorem dropBytes_pos_cons (w : Nat) (ws : List Nat) (n : Nat) (hn : 0 < n) :
    dropBytes (w :: ws) n = if n ≥ w then dropBytes ws (n - w) else none := by
  cases n with
  | zero => omega
  | succ k => simp [dropBytes]

theorem dropBytes_zero (ws : List Nat) : dropBytes ws 0 = some ws := by
  cases ws <;> simp [dropBytes]

/-- slicing at a true char boundary yields the remaining code points -/
theorem dropBytes_prefix (ws : List Nat) (h : WidthsWF ws) :
    ∀ c, c ≤ ws.length → dropBytes ws (prefixB ws c) = some (ws.drop c) := by
  induction ws with
  | nil => intro c hc; simp at hc; subst hc; simp [prefixB, dropBytes]
  | cons w ws ih =>
    intro c hc
    have hw : 1 ≤ w := h w (by simp)
    cases c with
    | zero => simp [prefixB_zero, dropBytes_zero]
    | succ c =>
      rw [prefixB_cons_succ, dropBytes_pos_cons _ _ _ (by omega)]
      have : w + prefixB ws c ≥ w := by omega
      simp only [this, if_true]
      have e : w + prefixB ws c - w = prefixB ws c := by omega
      rw [e, ih h.tail c (by simpa using hc)]
      simp

theorem charScan_drop (ws : List Nat) (c k : Nat) (h : c + k < ws.length) :
    charScan (ws.drop c) k = some (prefixB ws (c + k) - prefixB ws c) := by
  unfold charScan
  have : k < (ws.drop c).length := by simp; omega
  simp only [this, if_true]
  rw [prefixB_add]; congr 1; omega

theorem charScan_none (ws : List Nat) (k : Nat) (h : ws.length ≤ k) : charScan ws k = none := by
  unfold charScan; simp; omega

theorem byteScan_boundary (ws : List Nat) (h : WidthsWF ws) :
    ∀ k i, k < ws.length → byteScan ws (prefixB ws k) i = some (i + k) := by
  induction ws with
  | nil => intro k i hk; simp at hk
  | cons w ws ih =>
    intro k i hk
    have hw : 1 ≤ w := h w (by simp)
    cases k with
    | zero => simp [prefixB_zero, byteScan]
    | succ k =>
      rw [prefixB_cons_succ]
      simp only [byteScan]
      have h1 : ¬ (w + prefixB ws k = 0) := by omega
      have h2 : ¬ (w + prefixB ws k < w) := by omega
      simp only [h1, h2, if_false]
      have e : w + prefixB ws k - w = prefixB ws k := by omega
      rw [e, ih h.tail k (i + 1) (by simpa using hk)]
      congr 1; omega

/-- whenever the scan finds something, it is a true boundary -/
theorem byteScan_some (ws : List Nat) :
    ∀ byte i j, byteScan ws byte i = some j → ∃ k, k < ws.length ∧ prefixB ws k = byte ∧ j = i + k := by
  induction ws with
  | nil => intro byte i j h; simp [byteScan] at h
  | cons w ws ih =>
    intro byte i j h
    simp only [byteScan] at h
    by_cases h0 : byte = 0
    · simp only [h0, if_true] at h
      exact ⟨0, by simp, by simp [prefixB_zero, h0], by simp at h; omega⟩
    · simp only [h0, if_false] at h
      by_cases h1 : byte < w
      · simp [h1] at h
      · simp only [h1, if_false] at h
        obtain ⟨k, hk, hp, hj⟩ := ih _ _ _ h
        refine ⟨k + 1, by simpa using hk, ?_, by omega⟩
        rw [prefixB_cons_succ]; omega

theorem prevBelow_aux (idx : List (Nat × Nat)) (key : Nat) :
    ∀ acc : Option (Nat × Nat), (∀ a, acc = some a → a.1 < key) →
    ∀ e, idx.foldl (fun acc e => if e.1 < key then
        (match acc with
         | none => some e
         | some a => if a.1 < e.1 then some e else some a)
      else acc) acc = some e → (e ∈ idx ∨ acc = some e) ∧ e.1 < key := by
  induction idx with
  | nil => intro acc hacc e h; simp at h; exact ⟨Or.inr h, hacc e h⟩
  | cons x xs ih =>
    intro acc hacc e h
    simp only [List.foldl_cons] at h
    by_cases hx : x.1 < key
    · simp only [hx, if_true] at h
      cases acc with
      | none =>
        have := ih (some x) (by intro a ha; cases ha; exact hx) e h
        rcases this with ⟨h1 | h1, h2⟩
        · exact ⟨Or.inl (by simp [h1]), h2⟩
        · cases h1; exact ⟨Or.inl (by simp), h2⟩
      | some a =>
        simp only [] at h
        by_cases ha : a.1 < x.1
        · simp only [ha, if_true] at h
          have := ih (some x) (by intro a ha; cases ha; exact hx) e h
          rcases this with ⟨h1 | h1, h2⟩
          · exact ⟨Or.inl (by simp [h1]), h2⟩
          · cases h1; exact ⟨Or.inl (by simp), h2⟩
        · simp only [ha, if_false] at h
          have := ih (some a) hacc e h
          rcases this with ⟨h1 | h1, h2⟩
          · exact ⟨Or.inl (by simp [h1]), h2⟩
          · exact ⟨Or.inr h1, h2⟩
    · simp only [hx, if_false] at h
      have := ih acc hacc e h
      rcases this with ⟨h1 | h1, h2⟩
      · exact ⟨Or.inl (by simp [h1]), h2⟩
      · exact ⟨Or.inr h1, h2⟩

theorem prevBelow_mem (idx : List (Nat × Nat)) (key : Nat) (e : Nat × Nat)
    (h : prevBelow idx key = some e) : e ∈ idx ∧ e.1 < key := by
  have := prevBelow_aux idx key none (by intro a ha; cases ha) e h
  rcases this with ⟨h1 | h1, h2⟩
  · exact ⟨h1, h2⟩
  · cases h1

end Stam
