import StamModel.Find
namespace Stam

theorem insSorted_perm (k : TSel → Nat) (x : TSel) (l : List TSel) : (insSorted k x l).Perm (x :: l) := by
  induction l with
  | nil => simp [insSorted]
  | cons y ys ih =>
    simp only [insSorted]
    split
    · exact List.Perm.refl _
    · exact (List.Perm.cons y ih).trans (List.Perm.swap x y ys)

theorem sortBy_perm_aux (k : TSel → Nat) (l : List TSel) :
    ∀ acc, (l.foldl (fun acc x => insSorted k x acc) acc).Perm (l.reverse ++ acc) := by
  induction l with
  | nil => intro acc; simp
  | cons x xs ih =>
    intro acc
    simp only [List.foldl_cons, List.reverse_cons, List.append_assoc, List.singleton_append]
    exact (ih _).trans (List.Perm.append_left _ (insSorted_perm k x acc))

theorem sortBy_perm (k : TSel → Nat) (l : List TSel) : (sortBy k l).Perm l := by
  have := sortBy_perm_aux k l []
  simp only [List.append_nil] at this
  exact this.trans (List.reverse_perm l)

theorem mem_sortBy (k : TSel → Nat) (l : List TSel) (a : TSel) : a ∈ sortBy k l ↔ a ∈ l :=
  (sortBy_perm k l).mem_iff

theorem nodup_sortBy (k : TSel → Nat) (l : List TSel) (h : l.Nodup) : (sortBy k l).Nodup :=
  (sortBy_perm k l).nodup_iff.2 h

theorem mem_fwdRange (sels : List TSel) (lo hi : Nat) (t : TSel) :
    t ∈ fwdRange sels lo hi ↔ (t ∈ sels ∧ lo ≤ t.b ∧ t.b < hi) := by
  simp [fwdRange, mem_sortBy]

theorem mem_bwdRange (sels : List TSel) (lo hi : Nat) (t : TSel) :
    t ∈ bwdRange sels lo hi ↔ (t ∈ sels ∧ lo ≤ t.e ∧ t.e < hi) := by
  simp [bwdRange, mem_sortBy]

theorem nodup_fwdRange (sels : List TSel) (lo hi : Nat) (h : sels.Nodup) : (fwdRange sels lo hi).Nodup :=
  nodup_sortBy _ _ (h.filter _)

theorem nodup_bwdRange (sels : List TSel) (lo hi : Nat) (h : sels.Nodup) : (bwdRange sels lo hi).Nodup :=
  nodup_sortBy _ _ ((List.reverse_perm _).nodup_iff.2 (h.filter _))

end Stam
