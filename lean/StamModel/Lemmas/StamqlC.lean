import StamModel.StamqlC
import StamModel.Props.C09
/-
  Lemmas for the constraint layer of STAMQL (C09): unquoted words through `get_arg`, trimming, the keyword dispatch.
-/
namespace Stam.QL
open Stam.QL.C09

/-- no quote, no delimiter (so no space either) -/
def Plain (w : Str) : Prop := ∀ c ∈ w, c ≠ '"' ∧ isDelim c = false

theorem isWs_space : isWs ' ' = true := by decide

theorem trimStart_cons_nonws (c : Char) (s : Str) (h : isWs c = false) : trimStart (c :: s) = c :: s := by
  simp [trimStart, h]

theorem trimStart_space (s : Str) : trimStart (' ' :: s) = trimStart s := by
  simp [trimStart, isWs_space]

theorem delim_cases (d : Char) (h : isDelim d = true) : d = ';' ∨ d = ' ' ∨ d = ']' ∨ d = '\n' ∨ d = '\t' := by
  simpa [isDelim] using h

theorem getArgAux_word (isDt : Str → Bool) (all : Str) (d : Char) (rest : Str) (hd : isDelim d = true) :
    ∀ (w : Str) (i : Nat) (esc : Bool) (b : Nat), Plain w →
      getArgAux isDt all (w ++ d :: rest) i false esc b =
        some (all.take (i + w.length), trimStart (d :: rest), argType isDt (all.take (i + w.length)) false) := by
  intro w
  induction w with
  | nil =>
    intro i esc b _
    have hq : d ≠ '"' := by rcases delim_cases d hd with h | h | h | h | h <;> subst h <;> decide
    simp only [List.nil_append, getArgAux, hq, false_and, ↓reduceIte, Bool.not_eq_true, Bool.false_eq_true, not_false_eq_true,
      true_and, hd, List.length_nil, Nat.add_zero]
    by_cases hor : startsWith (d :: rest) [' ', 'O', 'R', ' '] = true
    · have hsp : d = ' ' := by
        simp [startsWith, List.isPrefixOf] at hor
        exact hor.1.symm
      subst hsp
      simp [hor, trimStart_space]
    · simp [hor]
  | cons c cs ih =>
    intro i esc b hp
    have hc := hp c (by simp)
    have hp' : Plain cs := fun x hx => hp x (by simp [hx])
    have hsp : c ≠ ' ' := by intro h; subst h; simp [isDelim] at hc
    have hor : startsWith (c :: (cs ++ d :: rest)) [' ', 'O', 'R', ' '] = false := by
      simp [startsWith, List.isPrefixOf, Ne.symm hsp]
    simp only [List.cons_append, getArgAux, hc.1, false_and, ↓reduceIte, Bool.not_eq_true, Bool.false_eq_true, not_false_eq_true,
      true_and, hor, hc.2]
    rw [ih (i + 1) _ b hp']
    have : i + 1 + cs.length = i + (cs.length + 1) := by omega
    simp [this]

/-- an unquoted word followed by a delimiter is read back as it stands -/
theorem getArg_word (isDt : Str → Bool) (w : Str) (d : Char) (rest : Str) (hd : isDelim d = true) (hp : Plain w) :
    getArg isDt (w ++ d :: rest) = some (w, trimStart (d :: rest), argType isDt w false) := by
  unfold getArg
  rw [getArgAux_word isDt _ d rest hd w 0 false 0 hp]
  simp

theorem arg_word (isDt : Str → Bool) (w : Str) (d : Char) (rest : Str) (hd : isDelim d = true) (hp : Plain w) :
    arg isDt (w ++ d :: rest) = .ok (w, trimStart (d :: rest), argType isDt w false) := by
  simp [arg, getArg_word isDt w d rest hd hp]

theorem arg_quoted (isDt : Str → Bool) (v rest : Str) (hq : '"' ∉ v) (hb : '\\' ∉ v) :
    arg isDt (quote v ++ rest) = .ok (v, trimStart rest, argType isDt v true) := by
  have := getArg_quoted isDt v rest hq hb
  simp only [quote, List.cons_append, List.append_assoc, List.singleton_append] at this ⊢
  simp [arg, this]

/-! ## trimming the whole input -/

/-- the text does not end in white space -/
def NoTrailWs (s : Str) : Prop := ∀ c, s.getLast? = some c → isWs c = false

theorem trimEnd_of_last (s : Str) (h : NoTrailWs s) : trimEnd s = s := by
  unfold trimEnd
  cases hr : s.reverse with
  | nil => have : s = [] := by simpa using hr
           subst this; rfl
  | cons c t =>
    have hl : s.getLast? = some c := by
      have : s = (c :: t).reverse := by rw [← hr, List.reverse_reverse]
      rw [this]; simp
    rw [trimStart_cons_nonws c t (h c hl), ← hr, List.reverse_reverse]

theorem noTrail_append (a rest : Str) (c : Char) (hc : isWs c = false) (hr : NoTrailWs rest) : NoTrailWs (a ++ c :: rest) := by
  intro x hx
  cases rest with
  | nil => simp at hx; subst hx; exact hc
  | cons y ys =>
    have : (a ++ c :: y :: ys).getLast? = (y :: ys).getLast? := by
      rw [show a ++ c :: y :: ys = (a ++ [c]) ++ (y :: ys) by simp, List.getLast?_append]
      cases h : (y :: ys).getLast? with
      | none => simp at h
      | some z => simp
    rw [this] at hx
    exact hr x hx

end Stam.QL
