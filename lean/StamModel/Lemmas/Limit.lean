import StamModel.Collections
/-
  Lemmas for C08: the LimitIter step machine computes the slice (one fold lemma and one evaluation of `lfinish`
  and of `slice` per sign combination of begin and end).
-/
namespace Stam.Coll

variable {α : Type}

/-- case b ≥ 0, e = 0: everything from position b on is emitted at once -/
theorem fold_A (bn : Nat) : ∀ (xs : List α) (c : Nat) (out : List α),
    xs.foldl (lstep (bn : Int) 0) ⟨c, [], out, false⟩ = ⟨c + xs.length, [], out ++ xs.drop (bn - c), false⟩ := by
  intro xs
  induction xs with
  | nil => intro c out; simp
  | cons x xs ih =>
    intro c out
    simp only [List.foldl_cons]
    have h0 : ¬ ((bn : Int) < 0) := by omega
    by_cases h : bn ≤ c
    · have : lstep (bn : Int) 0 ⟨c, [], out, false⟩ x = ⟨c + 1, [], out ++ [x], false⟩ := by
        unfold lstep
        have h1 : ((c : Nat) : Int) ≥ (bn : Int) := by omega
        simp [h1]
      rw [this, ih]
      have e1 : bn - c = 0 := by omega
      have e2 : bn - (c + 1) = 0 := by omega
      simp [e1, e2]; omega
    · have : lstep (bn : Int) 0 ⟨c, [], out, false⟩ x = ⟨c + 1, [], out, false⟩ := by
        unfold lstep
        have h1 : ¬ ((c : Nat) : Int) ≥ (bn : Int) := by omega
        simp [h1, h0]
      rw [this, ih]
      have e1 : bn - c = (bn - (c + 1)) + 1 := by omega
      rw [e1, List.drop_succ_cons]
      simp; omega

/-- once stopped, nothing changes -/
theorem fold_stopped (b e : Int) : ∀ (xs : List α) (s : LState α), s.stopped = true → xs.foldl (lstep b e) s = s := by
  intro xs
  induction xs with
  | nil => intro s _; rfl
  | cons x xs ih =>
    intro s hs
    simp only [List.foldl_cons]
    have : lstep b e s x = s := by unfold lstep; simp [hs]
    rw [this]; exact ih s hs

/-- case b ≥ 0, e > 0: positions b ≤ c < e are emitted, then the iterator stops -/
theorem fold_B (bn en : Nat) (he : 0 < en) : ∀ (xs : List α) (c : Nat) (out : List α),
    ∃ c' st, xs.foldl (lstep (bn : Int) (en : Int)) ⟨c, [], out, false⟩ = ⟨c', [], out ++ (xs.take (en - c)).drop (bn - c), st⟩ := by
  intro xs
  induction xs with
  | nil => intro c out; exact ⟨c, false, by simp⟩
  | cons x xs ih =>
    intro c out
    simp only [List.foldl_cons]
    have h0 : ¬ ((bn : Int) < 0) := by omega
    have h0e : ¬ ((en : Int) = 0) := by omega
    have h0e' : ¬ ((en : Int) ≤ 0) := by omega
    have h0e'' : (en : Int) > 0 := by omega
    by_cases hb : bn ≤ c
    · by_cases hlt : c < en
      · have : lstep (bn : Int) (en : Int) ⟨c, [], out, false⟩ x = ⟨c + 1, [], out ++ [x], false⟩ := by
          unfold lstep
          have h1 : ((c : Nat) : Int) ≥ (bn : Int) := by omega
          have h2 : ((c : Nat) : Int) < (en : Int) := by omega
          simp [h1, h2]
        rw [this]
        obtain ⟨c', st, h⟩ := ih (c + 1) (out ++ [x])
        refine ⟨c', st, ?_⟩
        rw [h]
        have e1 : en - c = (en - (c + 1)) + 1 := by omega
        have e2 : bn - c = 0 := by omega
        have e3 : bn - (c + 1) = 0 := by omega
        rw [e1, List.take_succ_cons, e2, e3]
        simp
      · have : lstep (bn : Int) (en : Int) ⟨c, [], out, false⟩ x = ⟨c + 1, [], out, true⟩ := by
          unfold lstep
          have h1 : ((c : Nat) : Int) ≥ (bn : Int) := by omega
          have h2 : ¬ ((c : Nat) : Int) < (en : Int) := by omega
          have h3 : ((c : Nat) : Int) ≥ (en : Int) := by omega
          simp [h1, h2, h3, (show ¬ en = 0 by omega), he]
        rw [this, fold_stopped _ _ xs _ rfl]
        refine ⟨c + 1, true, ?_⟩
        have e1 : en - c = 0 := by omega
        simp [e1]
    · have : lstep (bn : Int) (en : Int) ⟨c, [], out, false⟩ x = ⟨c + 1, [], out, false⟩ := by
        unfold lstep
        have h1 : ¬ ((c : Nat) : Int) ≥ (bn : Int) := by omega
        simp [h1, h0]
      rw [this]
      obtain ⟨c', st, h⟩ := ih (c + 1) out
      refine ⟨c', st, ?_⟩
      rw [h]
      by_cases hlt : c < en
      · have e1 : en - c = (en - (c + 1)) + 1 := by omega
        have e2 : bn - c = (bn - (c + 1)) + 1 := by omega
        rw [e1, List.take_succ_cons, e2, List.drop_succ_cons]
      · have e1 : en - c = 0 := by omega
        have e2 : en - (c + 1) = 0 := by omega
        simp [e1, e2]

/-- case b ≥ 0, e < 0: everything from position b on is buffered -/
theorem fold_C (bn em : Nat) (he : 0 < em) : ∀ (xs : List α) (c : Nat) (buf : List α),
    xs.foldl (lstep (bn : Int) (-(em : Int))) ⟨c, buf, [], false⟩ = ⟨c + xs.length, buf ++ xs.drop (bn - c), [], false⟩ := by
  intro xs
  induction xs with
  | nil => intro c buf; simp
  | cons x xs ih =>
    intro c buf
    simp only [List.foldl_cons]
    have h0 : ¬ ((bn : Int) < 0) := by omega
    have he0 : ¬ (-(em : Int) = 0) := by omega
    have he1 : ¬ (-(em : Int) > 0) := by omega
    have he2 : (-(em : Int) ≤ 0) := by omega
    by_cases hb : bn ≤ c
    · have : lstep (bn : Int) (-(em : Int)) ⟨c, buf, [], false⟩ x = ⟨c + 1, buf ++ [x], [], false⟩ := by
        unfold lstep
        have h1 : ((c : Nat) : Int) ≥ (bn : Int) := by omega
        have h2 : ¬ ((c : Nat) : Int) < -(em : Int) := by omega
        simp [h1, h2, he0, he1, he2, h0]
      rw [this, ih]
      have e1 : bn - c = 0 := by omega
      have e2 : bn - (c + 1) = 0 := by omega
      simp [e1, e2]; omega
    · have : lstep (bn : Int) (-(em : Int)) ⟨c, buf, [], false⟩ x = ⟨c + 1, buf, [], false⟩ := by
        unfold lstep
        have h1 : ¬ ((c : Nat) : Int) ≥ (bn : Int) := by omega
        simp [h1, h0]
      rw [this, ih]
      have e1 : bn - c = (bn - (c + 1)) + 1 := by omega
      rw [e1, List.drop_succ_cons]
      simp; omega

def lastN (k : Nat) (l : List α) : List α := l.drop (l.length - k)

theorem lastN_append_lastN (k : Nat) (a b : List α) : lastN k (lastN k a ++ b) = lastN k (a ++ b) := by
  by_cases h : a.length ≤ k
  · have : a.length - k = 0 := by omega
    simp [lastN, this]
  · unfold lastN
    have hm : a.length - k ≤ a.length := by omega
    have e1 : (a.drop (a.length - k) ++ b).length - k = b.length := by simp; omega
    have e2 : (a ++ b).length - k = (a.length - k) + b.length := by simp; omega
    rw [e1, e2, ← List.drop_drop, List.drop_append_of_le_length hm]

/-- case b < 0, e = 0: the buffer holds the last |b| items -/
theorem fold_D (bm : Nat) (hb : 0 < bm) : ∀ (xs : List α) (c : Nat) (buf : List α), buf.length ≤ bm →
    xs.foldl (lstep (-(bm : Int)) 0) ⟨c, buf, [], false⟩ = ⟨c + xs.length, lastN bm (buf ++ xs), [], false⟩ := by
  intro xs
  induction xs with
  | nil =>
    intro c buf h
    have : buf.length - bm = 0 := by omega
    simp [lastN, this]
  | cons x xs ih =>
    intro c buf hlen
    simp only [List.foldl_cons]
    have h0 : ¬ (-(bm : Int) ≥ 0) := by omega
    have h1 : (-(bm : Int) < 0) := by omega
    have hbn : ¬ bm = 0 := by omega
    have hstep : lstep (-(bm : Int)) 0 ⟨c, buf, [], false⟩ x = ⟨c + 1, lastN bm (buf ++ [x]), [], false⟩ := by
      unfold lstep lastN
      by_cases hl : buf.length + 1 > bm
      · simp [h0, h1, hbn, hb, hl]
      · have : buf.length + 1 - bm = 0 := by omega
        simp [h0, h1, hbn, hb, hl, this]
    rw [hstep, ih _ _ (by unfold lastN; simp; omega), lastN_append_lastN]
    simp; omega

/-- case b < 0, e < 0: everything is buffered -/
theorem fold_E (bm em : Nat) (hb : 0 < bm) (he : 0 < em) : ∀ (xs : List α) (c : Nat) (buf : List α),
    xs.foldl (lstep (-(bm : Int)) (-(em : Int))) ⟨c, buf, [], false⟩ = ⟨c + xs.length, buf ++ xs, [], false⟩ := by
  intro xs
  induction xs with
  | nil => intro c buf; simp
  | cons x xs ih =>
    intro c buf
    simp only [List.foldl_cons]
    have hstep : lstep (-(bm : Int)) (-(em : Int)) ⟨c, buf, [], false⟩ x = ⟨c + 1, buf ++ [x], [], false⟩ := by
      unfold lstep
      have h0 : ¬ (-(bm : Int) ≥ 0) := by omega
      have h1 : (-(bm : Int) < 0) := by omega
      have h2 : (-(em : Int) ≤ 0) := by omega
      have h3 : ¬ (-(em : Int) = 0) := by omega
      simp [h0, h1, h2, h3, (show ¬ bm = 0 by omega), hb, (show ¬ em = 0 by omega)]
    rw [hstep, ih]; simp; omega

/-- case b < 0, e > 0: the first e items are buffered -/
theorem fold_F (bm en : Nat) (hb : 0 < bm) (he : 0 < en) : ∀ (xs : List α) (c : Nat) (buf : List α),
    xs.foldl (lstep (-(bm : Int)) (en : Int)) ⟨c, buf, [], false⟩ = ⟨c + xs.length, buf ++ xs.take (en - c), [], false⟩ := by
  intro xs
  induction xs with
  | nil => intro c buf; simp
  | cons x xs ih =>
    intro c buf
    simp only [List.foldl_cons]
    have h0 : ¬ (-(bm : Int) ≥ 0) := by omega
    have h1 : (-(bm : Int) < 0) := by omega
    have h3 : ¬ ((en : Int) = 0) := by omega
    have h4 : ¬ ((en : Int) ≤ 0) := by omega
    by_cases hlt : c < en
    · have hstep : lstep (-(bm : Int)) (en : Int) ⟨c, buf, [], false⟩ x = ⟨c + 1, buf ++ [x], [], false⟩ := by
        unfold lstep
        have h2 : ((c : Nat) : Int) < (en : Int) := by omega
        simp [h0, h1, h2, h3, (show ¬ en = 0 by omega), (show ¬ bm = 0 by omega), hb]
      rw [hstep, ih]
      have e1 : en - c = (en - (c + 1)) + 1 := by omega
      rw [e1, List.take_succ_cons]; simp; omega
    · have hstep : lstep (-(bm : Int)) (en : Int) ⟨c, buf, [], false⟩ x = ⟨c + 1, buf, [], false⟩ := by
        unfold lstep
        have h2 : ¬ ((c : Nat) : Int) < (en : Int) := by omega
        simp [h0, h1, h2, h3, h4, (show ¬ en = 0 by omega), (show ¬ en ≤ 0 by omega), (show ¬ bm = 0 by omega), hb, (show ¬ c < en by omega)]
      rw [hstep, ih]
      have e1 : en - c = 0 := by omega
      have e2 : en - (c + 1) = 0 := by omega
      simp [e1, e2]; omega

theorem limit_E (bm em : Nat) (hb : 0 < bm) (he : 0 < em) (xs : List α) :
    limit (-(bm : Int)) (-(em : Int)) xs = (xs.take (xs.length - em)).drop (xs.length - bm) := by
  unfold limit
  rw [fold_E bm em hb he]
  have h1 : ¬ (-(bm : Int) ≥ 0 ∧ -(em : Int) ≥ 0) := by omega
  have h2 : (-(bm : Int) < 0 ∧ -(em : Int) ≠ 0) := by omega
  have h3 : -(em : Int) < 0 := by omega
  simp only [lfinish]
  rw [if_neg (by simp), if_neg h1, if_pos h2, if_pos h3]
  simp only [List.nil_append, Nat.zero_add, Int.natAbs_neg, Int.natAbs_natCast, List.length_drop, List.drop_take]
  have hmin : min (xs.length - bm) xs.length = xs.length - bm := by omega
  rw [hmin]
  congr 1; omega

theorem slice_E (bm em : Nat) (hb : 0 < bm) (he : 0 < em) (xs : List α) :
    slice (-(bm : Int)) (-(em : Int)) xs = (xs.take (xs.length - em)).drop (xs.length - bm) := by
  simp only [slice]
  have h1 : ¬ (-(bm : Int) ≥ 0) := by omega
  have h2 : ¬ (-(em : Int) > 0) := by omega
  rw [if_neg h1, if_neg h2]
  have e1 : (max ((xs.length : Int) + -(em : Int)) 0).toNat = xs.length - em := by omega
  have e2 : (max ((xs.length : Int) + -(bm : Int)) 0).toNat = xs.length - bm := by omega
  rw [e1, e2]

theorem drop_min (xs : List α) (k : Nat) : xs.drop (min k xs.length) = xs.drop k := by
  by_cases h : k ≤ xs.length
  · have : min k xs.length = k := by omega
    rw [this]
  · have : min k xs.length = xs.length := by omega
    rw [this, List.drop_length, List.drop_eq_nil_of_le (by omega)]

theorem take_min (xs : List α) (k : Nat) : xs.take (min k xs.length) = xs.take k := by
  by_cases h : k ≤ xs.length
  · have : min k xs.length = k := by omega
    rw [this]
  · have : min k xs.length = xs.length := by omega
    rw [this, List.take_length, List.take_of_length_le (by omega)]

theorem limit_A (bn : Nat) (xs : List α) : limit (bn : Int) 0 xs = xs.drop bn := by
  unfold limit
  rw [fold_A]
  simp only [lfinish]
  have h1 : ((bn : Int) ≥ 0 ∧ (0 : Int) ≥ 0) := by omega
  rw [if_neg (by simp), if_pos h1]
  simp

theorem slice_A (bn : Nat) (xs : List α) : slice (bn : Int) 0 xs = xs.drop bn := by
  simp only [slice]
  have h1 : ((bn : Int) ≥ 0) := by omega
  have h2 : ¬ ((0 : Int) > 0) := by omega
  rw [if_pos h1, if_neg h2]
  have e1 : (max ((xs.length : Int) + 0) 0).toNat = xs.length := by omega
  have e2 : (min (bn : Int) (xs.length : Int)).toNat = min bn xs.length := by omega
  rw [e1, e2, List.take_length, drop_min]

theorem limit_B (bn en : Nat) (he : 0 < en) (xs : List α) : limit (bn : Int) (en : Int) xs = (xs.take en).drop bn := by
  unfold limit
  obtain ⟨c', st, h⟩ := fold_B bn en he xs 0 []
  rw [h]
  simp only [lfinish]
  have h1 : ((bn : Int) ≥ 0 ∧ (en : Int) ≥ 0) := by omega
  cases st
  · rw [if_neg (by simp), if_pos h1]; simp
  · rw [if_pos rfl]; simp

theorem slice_B (bn en : Nat) (he : 0 < en) (xs : List α) : slice (bn : Int) (en : Int) xs = (xs.take en).drop bn := by
  simp only [slice]
  have h1 : ((bn : Int) ≥ 0) := by omega
  have h2 : ((en : Int) > 0) := by omega
  rw [if_pos h1, if_pos h2]
  have e1 : (min (en : Int) (xs.length : Int)).toNat = min en xs.length := by omega
  have e2 : (min (bn : Int) (xs.length : Int)).toNat = min bn xs.length := by omega
  rw [e1, e2, take_min]
  by_cases h : bn ≤ xs.length
  · have : min bn xs.length = bn := by omega
    rw [this]
  · have : min bn xs.length = xs.length := by omega
    rw [this, List.drop_eq_nil_of_le (by simp; omega), List.drop_eq_nil_of_le (by simp; omega)]

theorem limit_C (bn em : Nat) (he : 0 < em) (xs : List α) :
    limit (bn : Int) (-(em : Int)) xs = (xs.take (xs.length - em)).drop bn := by
  unfold limit
  rw [fold_C bn em he]
  simp only [lfinish]
  have h1 : ¬ ((bn : Int) ≥ 0 ∧ -(em : Int) ≥ 0) := by omega
  have h2 : ¬ ((bn : Int) < 0 ∧ -(em : Int) ≠ 0) := by omega
  have h3 : -(em : Int) < 0 := by omega
  rw [if_neg (by simp), if_neg h1, if_neg h2, if_pos h3]
  simp only [List.nil_append, Nat.sub_zero, Int.natAbs_neg, Int.natAbs_natCast, List.length_drop, List.drop_take]
  congr 1; omega

theorem slice_C (bn em : Nat) (he : 0 < em) (xs : List α) :
    slice (bn : Int) (-(em : Int)) xs = (xs.take (xs.length - em)).drop bn := by
  simp only [slice]
  have h1 : ((bn : Int) ≥ 0) := by omega
  have h2 : ¬ (-(em : Int) > 0) := by omega
  rw [if_pos h1, if_neg h2]
  have e1 : (max ((xs.length : Int) + -(em : Int)) 0).toNat = xs.length - em := by omega
  have e2 : (min (bn : Int) (xs.length : Int)).toNat = min bn xs.length := by omega
  rw [e1, e2]
  by_cases h : bn ≤ xs.length
  · have : min bn xs.length = bn := by omega
    rw [this]
  · have : min bn xs.length = xs.length := by omega
    rw [this, List.drop_eq_nil_of_le (by simp), List.drop_eq_nil_of_le (by simp; omega)]

theorem limit_D (bm : Nat) (hb : 0 < bm) (xs : List α) : limit (-(bm : Int)) 0 xs = xs.drop (xs.length - bm) := by
  unfold limit
  rw [fold_D bm hb _ _ _ (by simp)]
  simp only [lfinish, lastN]
  have h1 : ¬ (-(bm : Int) ≥ 0 ∧ (0 : Int) ≥ 0) := by omega
  have h2 : ¬ (-(bm : Int) < 0 ∧ (0 : Int) ≠ 0) := by omega
  have h3 : ¬ ((0 : Int) < 0) := by omega
  rw [if_neg (by simp), if_neg h1, if_neg h2, if_neg h3]
  simp

theorem slice_D (bm : Nat) (hb : 0 < bm) (xs : List α) : slice (-(bm : Int)) 0 xs = xs.drop (xs.length - bm) := by
  simp only [slice]
  have h1 : ¬ (-(bm : Int) ≥ 0) := by omega
  have h2 : ¬ ((0 : Int) > 0) := by omega
  rw [if_neg h1, if_neg h2]
  have e1 : (max ((xs.length : Int) + 0) 0).toNat = xs.length := by omega
  have e2 : (max ((xs.length : Int) + -(bm : Int)) 0).toNat = xs.length - bm := by omega
  rw [e1, e2, List.take_length]

theorem limit_F (bm en : Nat) (hb : 0 < bm) (he : 0 < en) (xs : List α) :
    limit (-(bm : Int)) (en : Int) xs = (xs.take en).drop (xs.length - bm) := by
  unfold limit
  rw [fold_F bm en hb he]
  simp only [lfinish]
  have h1 : ¬ (-(bm : Int) ≥ 0 ∧ (en : Int) ≥ 0) := by omega
  have h2 : (-(bm : Int) < 0 ∧ (en : Int) ≠ 0) := by omega
  have h3 : ¬ ((en : Int) < 0) := by omega
  rw [if_neg (by simp), if_neg h1, if_pos h2, if_neg h3]
  simp only [List.nil_append, Nat.zero_add, Nat.sub_zero, Int.natAbs_neg, Int.natAbs_natCast]
  rw [drop_min]

theorem slice_F (bm en : Nat) (hb : 0 < bm) (he : 0 < en) (xs : List α) :
    slice (-(bm : Int)) (en : Int) xs = (xs.take en).drop (xs.length - bm) := by
  simp only [slice]
  have h1 : ¬ (-(bm : Int) ≥ 0) := by omega
  have h2 : ((en : Int) > 0) := by omega
  rw [if_neg h1, if_pos h2]
  have e1 : (min (en : Int) (xs.length : Int)).toNat = min en xs.length := by omega
  have e2 : (max ((xs.length : Int) + -(bm : Int)) 0).toNat = xs.length - bm := by omega
  rw [e1, e2, take_min]

/-- **C08 (LIMIT).** Whatever the signs of begin and end, `LimitIter` returns the slice. -/
theorem limit_eq_slice (b e : Int) (xs : List α) : limit b e xs = slice b e xs := by
  by_cases hb : b < 0
  · obtain ⟨bm, hbm, hbp⟩ : ∃ bm : Nat, b = -(bm : Int) ∧ 0 < bm := ⟨b.natAbs, by omega, by omega⟩
    subst hbm
    rcases Int.lt_trichotomy e 0 with he | he | he
    · obtain ⟨em, hem, hep⟩ : ∃ em : Nat, e = -(em : Int) ∧ 0 < em := ⟨e.natAbs, by omega, by omega⟩
      subst hem; rw [limit_E bm em hbp hep, slice_E bm em hbp hep]
    · subst he; rw [limit_D bm hbp, slice_D bm hbp]
    · obtain ⟨en, hen, hep⟩ : ∃ en : Nat, e = (en : Int) ∧ 0 < en := ⟨e.toNat, by omega, by omega⟩
      subst hen; rw [limit_F bm en hbp hep, slice_F bm en hbp hep]
  · obtain ⟨bn, hbn⟩ : ∃ bn : Nat, b = (bn : Int) := ⟨b.toNat, by omega⟩
    subst hbn
    rcases Int.lt_trichotomy e 0 with he | he | he
    · obtain ⟨em, hem, hep⟩ : ∃ em : Nat, e = -(em : Int) ∧ 0 < em := ⟨e.natAbs, by omega, by omega⟩
      subst hem; rw [limit_C bn em hep, slice_C bn em hep]
    · subst he; rw [limit_A, slice_A]
    · obtain ⟨en, hen, hep⟩ : ∃ en : Nat, e = (en : Int) ∧ 0 < en := ⟨e.toNat, by omega, by omega⟩
      subst hen; rw [limit_B bn en hep, slice_B bn en hep]

end Stam.Coll
