import StamModel.Lemmas.StamqlQ
/-
  C09 — the printed form of a SELECT query without its trailing white space (`coreQ`), and the parser on it.
-/
namespace Stam.QL
open Stam.QL.C09

/-- the white space `to_string` leaves at the end: the newline after the last constraint when no sub-query block follows -/
def tailOf : Q → Str
  | .mk _ _ _ cs subs => if !cs.isEmpty && subs.isEmpty then ['\n'] else []

/-- ` WHERE` and the constraints, without the last newline -/
def whereCore (ts : List Str) : Str := if ts.isEmpty then [] else ' ' :: kWHERE ++ chain ts []

/-- the block of sub-queries -/
def subsCore (ts : List Str) (noSubs : Bool) (st : Str) : Str :=
  if noSubs then [] else (if ts.isEmpty then [] else ['\n']) ++ ['\n', '{', '\n', ' '] ++ (st ++ ['\n', '}'])

mutual
/-- the text `to_string` writes, without the white space at its end -/
def coreQ (showI : Int → Str) : Q → Option Str
  | .mk optional ty name cs subs =>
    match optAll (cs.map (printCn showI)), coreSubs showI subs with
    | some ts, some st => some (headText optional ty name ++ (whereCore ts ++ subsCore ts subs.isEmpty st))
    | _, _ => none
/-- the sub-queries between the braces, from the first `SELECT` to the end of the last sub-query -/
def coreSubs (showI : Int → Str) : List Q → Option Str
  | [] => some []
  | q :: r =>
    match coreQ showI q, coreSubs showI r with
    | some c, some s => some (if r.isEmpty then c else c ++ (tailOf q ++ '\n' :: '|' :: ' ' :: s))
    | _, _ => none
end

mutual
/-- names and constraints that are read back as printed, at every level -/
def OKQ (E : Ext) (showI : Int → Str) : Q → Prop
  | .mk _ _ name cs subs => (∀ n, name = some n → NameOk n) ∧ (∀ c ∈ cs, ∃ t, CnGood E showI c t) ∧ OKQs E showI subs
def OKQs (E : Ext) (showI : Int → Str) : List Q → Prop
  | [] => True
  | q :: r => OKQ E showI q ∧ OKQs E showI r
end

mutual
/-- the fuel the parser needs -/
def wQ : Q → Nat
  | .mk _ _ _ _ subs => 1 + wL subs
def wL : List Q → Nat
  | [] => 0
  | q :: r => 1 + wQ q + wL r
end

theorem coreQ_starts (showI : Int → Str) (q : Q) (c : Str) (h : coreQ showI q = some c) : ∃ y, c = kSELECT ++ ' ' :: y := by
  cases q with
  | mk optional ty name cs subs =>
    unfold coreQ at h
    split at h
    · simp only [Option.some.injEq] at h
      subst h
      exact ⟨(if optional = true then kOPTIONAL ++ [' '] else []) ++ (ty.upper ++ (nameText name ++ _)), by simp only [headText, List.append_assoc, List.cons_append, List.nil_append]; rfl⟩
    · simp at h

theorem noTrail_close (rest : Str) (hr : NoTrailWs rest) : NoTrailWs ('\n' :: '}' :: rest) := by
  by_cases he : rest = []
  · subst he; intro x hx; simp at hx; subst hx; decide
  · exact noTrail_suffix ['\n', '}'] rest he hr

theorem goodRest_close (rest : Str) (h : GoodRest rest) : GoodRest ('\n' :: '}' :: rest) := by
  refine ⟨noTrail_close rest h.1, Or.inr ⟨'\n', _, rfl, by decide⟩, Or.inr (Or.inl ?_)⟩
  rw [show '\n' :: '}' :: rest = ['\n'] ++ ('}' :: rest) from rfl, trimStart_ws_append _ _ (by decide),
    trimStart_cons_nonws '}' _ (by decide)]
  exact firstWord_append ['}'] rest (by unfold Word; decide) h.2.1

/-- what follows the head of a printed query -/
theorem afterHead_facts (ts : List Str) (noSubs : Bool) (st rest : Str) (hr : GoodRest rest) :
    let y := whereCore ts ++ (subsCore ts noSubs st ++ rest)
    SplitStart y ∧ (trimStart y).head? ≠ some '?' ∧
      whereStep (trimStart y) = some (trimStart (chain ts (subsCore ts noSubs st ++ rest))) := by
  intro y
  cases hte : ts with
  | nil =>
    cases noSubs with
    | true =>
      have hy : y = rest := by simp [y, hte, whereCore, subsCore]
      rw [hy]
      refine ⟨hr.2.1, ?_, ?_⟩
      · rcases goodRest_head rest hr with h | h | h <;> rw [h] <;> simp
      · simp only [chain, subsCore, ↓reduceIte, List.nil_append]
        apply whereStep_stop
        rcases hr.2.2 with h | h | h
        · exact Or.inr (Or.inr (Or.inr h))
        · exact Or.inr (Or.inl h)
        · exact Or.inr (Or.inr (Or.inl h))
    | false =>
      have hy : y = '\n' :: '{' :: '\n' :: ' ' :: (st ++ ['\n', '}'] ++ rest) := by
        simp [y, hte, whereCore, subsCore]
      have ht : trimStart y = '{' :: '\n' :: ' ' :: (st ++ ['\n', '}'] ++ rest) := by
        rw [hy, show '\n' :: '{' :: '\n' :: ' ' :: (st ++ ['\n', '}'] ++ rest) = ['\n'] ++ ('{' :: '\n' :: ' ' :: (st ++ ['\n', '}'] ++ rest)) from rfl,
          trimStart_ws_append _ _ (by decide), trimStart_cons_nonws '{' _ (by decide)]
      refine ⟨by rw [hy]; exact Or.inr ⟨'\n', _, rfl, by decide⟩, by rw [ht]; simp, ?_⟩
      have hc : chain [] (subsCore [] false st ++ rest) = y := by simp [chain, y, hte, whereCore]
      rw [hc]
      apply whereStep_stop
      left
      rw [ht]
      exact firstWord_append ['{'] _ (by unfold Word; decide) (Or.inr ⟨'\n', _, rfl, by decide⟩)
  | cons t ts' =>
    have hy : y = ' ' :: (kWHERE ++ chain (t :: ts') (subsCore (t :: ts') noSubs st ++ rest)) := by
      simp only [y, hte, whereCore, List.isEmpty_cons, Bool.false_eq_true, ↓reduceIte, List.cons_append, List.append_assoc]
      rw [chain_append, List.nil_append]
    have ht : trimStart y = kWHERE ++ chain (t :: ts') (subsCore (t :: ts') noSubs st ++ rest) := by
      rw [hy, trimStart_space]
      exact trimStart_cons_nonws 'W' _ (by decide)
    refine ⟨by rw [hy]; exact splitStart_space _, by rw [ht]; simp [kWHERE], ?_⟩
    rw [ht]
    exact whereStep_where _ (Or.inr ⟨'\n', _, rfl, by decide⟩)

theorem chain_length_ge (ts : List Str) (x : Str) : 2 * ts.length ≤ (chain ts x).length := by
  induction ts with
  | nil => simp [chain]
  | cons t ts ih => simp only [chain, List.length_cons, List.length_append]; omega

theorem trimmed_chain_length (l : List (Cn × Str)) (E : Ext) (showI : Int → Str) (x : Str)
    (hg : ∀ p ∈ l, CnGood E showI p.1 p.2) : l.length ≤ (trimStart (chain (l.map (·.2)) x)).length := by
  cases l with
  | nil => simp
  | cons p l =>
    obtain ⟨_, _, ⟨c0, r0, ht, hws, _⟩, _⟩ := hg p (by simp)
    simp only [List.map_cons, chain]
    rw [show '\n' :: '\t' :: p.2 ++ chain (l.map (·.2)) x = ['\n', '\t'] ++ (p.2 ++ chain (l.map (·.2)) x) from rfl,
      trimStart_ws_append _ _ (by decide), ht, List.cons_append, trimStart_cons_nonws c0 _ hws]
    have := chain_length_ge (l.map (·.2)) x
    simp only [List.length_cons, List.length_append, List.length_map] at this ⊢
    omega

theorem dropByte_ascii (c : Char) (r : Str) (h : c.toNat < 128) : dropByte (c :: r) = .ok r := by
  simp [dropByte, h]

theorem tailOf_cases (q : Q) : tailOf q = [] ∨ tailOf q = ['\n'] := by
  cases q with
  | mk _ _ _ cs subs => simp only [tailOf]; split <;> simp

theorem tailOf_ws (q : Q) : ∀ x ∈ tailOf q, isWs x = true := by
  rcases tailOf_cases q with h | h <;> rw [h]
  · simp
  · decide

mutual
/-- the parser on the printed form of a SELECT query, followed by what may follow a query -/
theorem select_rt (E : Ext) (showI : Int → Str) : ∀ (q : Q) (c : Str), OKQ E showI q → coreQ showI q = some c →
    ∀ (rest : Str) (f : Nat), GoodRest rest → wQ q ≤ f → parseSelect E f (c ++ rest) = .ok (q, trimStart rest)
  | .mk optional ty name cs subs, c, hok, hc, rest, f, hr, hf => by
    unfold OKQ at hok
    obtain ⟨hname, hcs, hsubs⟩ := hok
    unfold coreQ at hc
    split at hc
    next ts st hts hst =>
      simp only [Option.some.injEq] at hc
      subst hc
      obtain ⟨l, hl1, hl2, hl3⟩ := pairs_of E showI cs ts hcs hts
      obtain ⟨hy1, hy2, hy3⟩ := afterHead_facts ts subs.isEmpty st rest hr
      unfold wQ at hf
      obtain ⟨f', rfl⟩ : ∃ f', f = f' + 1 := ⟨f - 1, by omega⟩
      unfold parseSelect
      rw [List.append_assoc, List.append_assoc, parseHead_printed optional ty name _ hname hy1 (fun _ => hy2)]
      simp only [hy3]
      -- the constraints
      have hnt : NoTrailWs (subsCore ts subs.isEmpty st ++ rest) := by
        cases hse : subs.isEmpty with
        | true => simpa [subsCore] using hr.1
        | false =>
          simp only [subsCore, Bool.false_eq_true, ↓reduceIte, List.append_assoc]
          have := noTrail_suffix ((if ts.isEmpty then [] else ['\n']) ++ (['\n', '{', '\n', ' '] ++ st)) ('\n' :: '}' :: rest) (by simp) (noTrail_close rest hr.1)
          simpa [List.append_assoc] using this
      have hstop : trimStart (subsCore ts subs.isEmpty st ++ rest) = [] ∨ atStop (subsCore ts subs.isEmpty st ++ rest) = true := by
        cases hse : subs.isEmpty with
        | true => simpa [subsCore] using goodRest_stop rest hr
        | false =>
          right
          unfold atStop
          have : trimStart (subsCore ts false st ++ rest) = '{' :: '\n' :: ' ' :: (st ++ ['\n', '}'] ++ rest) := by
            simp only [subsCore, Bool.false_eq_true, ↓reduceIte, List.append_assoc]
            rw [trimStart_ws_append _ _ (by intro c hc; split at hc <;> simp at hc; subst hc; decide)]
            rw [show ['\n', '{', '\n', ' '] ++ (st ++ (['\n', '}'] ++ rest)) = ['\n'] ++ ('{' :: '\n' :: ' ' :: (st ++ (['\n', '}'] ++ rest))) from rfl,
              trimStart_ws_append _ _ (by decide), trimStart_cons_nonws '{' _ (by decide)]
          rw [this]; rfl
      have hloop := cnLoop_printed E showI l hl3 (subsCore ts subs.isEmpty st ++ rest) []
        ((trimStart (chain ts (subsCore ts subs.isEmpty st ++ rest))).length + 1) hnt hstop (by
          have := trimmed_chain_length l E showI (subsCore ts subs.isEmpty st ++ rest) hl3
          rw [hl2] at this; omega)
      rw [hl2, hl1, List.nil_append] at hloop
      rw [hloop]
      simp only
      -- the sub-queries
      cases subs with
      | nil =>
        have hsc : subsCore ts ([] : List Q).isEmpty st ++ rest = rest := by simp [subsCore]
        rw [hsc, trimStart_idem]
        have hnb : (trimStart rest).head? ≠ some '{' := by
          rcases goodRest_head rest hr with h | h | h <;> rw [h] <;> simp
        rw [if_neg hnb]
      | cons q r =>
        have hsc : trimStart (subsCore ts (q :: r).isEmpty st ++ rest) = '{' :: ['\n', ' '] ++ (st ++ '\n' :: '}' :: rest) := by
          simp only [subsCore, List.isEmpty_cons, Bool.false_eq_true, ↓reduceIte, List.append_assoc]
          rw [trimStart_ws_append _ _ (by intro c hc; split at hc <;> simp at hc; subst hc; decide)]
          rw [show ['\n', '{', '\n', ' '] ++ (st ++ (['\n', '}'] ++ rest)) = ['\n'] ++ ('{' :: '\n' :: ' ' :: (st ++ (['\n', '}'] ++ rest))) from rfl,
            trimStart_ws_append _ _ (by decide), trimStart_cons_nonws '{' _ (by decide)]
          rfl
        rw [hsc]
        have hhead : (trimStart ('{' :: ['\n', ' '] ++ (st ++ '\n' :: '}' :: rest))).head? = some '{' := by
          rw [List.cons_append, trimStart_cons_nonws '{' _ (by decide)]; rfl
        rw [if_pos hhead]
        have htb : trimStart ('{' :: ['\n', ' '] ++ (st ++ '\n' :: '}' :: rest)) = '{' :: ['\n', ' '] ++ (st ++ '\n' :: '}' :: rest) := by
          rw [List.cons_append]; exact trimStart_cons_nonws '{' _ (by decide)
        rw [htb]
        have := subs_rt E showI (q :: r) st (by simp) hsubs hst rest f' '{' ['\n', ' '] [] hr (Or.inl rfl) (by decide) (by omega)
        rw [this]
        simp
    next => simp at hc
/-- the loop over the sub-queries on their printed form -/
theorem subs_rt (E : Ext) (showI : Int → Str) : ∀ (subs : List Q) (st : Str), subs ≠ [] → OKQs E showI subs → coreSubs showI subs = some st →
    ∀ (rest : Str) (f : Nat) (d : Char) (w : Str) (acc : List Q), GoodRest rest → (d = '{' ∨ d = '|') → (∀ x ∈ w, isWs x = true) → wL subs ≤ f →
      subLoop E f (d :: w ++ (st ++ '\n' :: '}' :: rest)) acc = .ok (acc ++ subs, trimStart rest)
  | [], _, hne, _, _, _, _, _, _, _, _, _, _, _ => absurd rfl hne
  | q :: r, st, _, hok, hst, rest, f, d, w, acc, hr, hd, hw, hf => by
    unfold OKQs at hok
    obtain ⟨hq, hrs⟩ := hok
    unfold coreSubs at hst
    split at hst
    next c s hc hs =>
      simp only [Option.some.injEq] at hst
      unfold wL at hf
      obtain ⟨f', rfl⟩ : ∃ f', f = f' + 1 := ⟨f - 1, by omega⟩
      obtain ⟨y, hy⟩ := coreQ_starts showI q c hc
      have hdb : dropByte (d :: w ++ (st ++ '\n' :: '}' :: rest)) = .ok (w ++ (st ++ '\n' :: '}' :: rest)) := by
        rw [List.cons_append]
        exact dropByte_ascii d _ (by rcases hd with rfl | rfl <;> decide)
      -- the text at the sub-query: it begins with SELECT and does not end in white space
      have hstS : ∃ z, st = 'S' :: z := by
        subst hst
        split
        · exact ⟨_, by rw [hy]; rfl⟩
        · exact ⟨_, by rw [hy]; rfl⟩
      obtain ⟨z, hz⟩ := hstS
      have htrim : trim (trimStart (w ++ (st ++ '\n' :: '}' :: rest))) = st ++ '\n' :: '}' :: rest := by
        rw [trimStart_ws_append _ _ hw, hz, List.cons_append, trimStart_cons_nonws 'S' _ (by decide)]
        apply trim_id 'S' _ (by decide)
        have := noTrail_suffix ('S' :: z) ('\n' :: '}' :: rest) (by simp) (noTrail_close rest hr.1)
        simpa using this
      unfold subLoop
      simp only [hdb, htrim]
      have hh : (st ++ '\n' :: '}' :: rest).head? ≠ some '@' := by rw [hz]; simp
      have hsel : startsWith (st ++ '\n' :: '}' :: rest) kSELECT = true := by
        subst hst
        split <;> (rw [hy]; simp [startsWith, kSELECT, List.isPrefixOf])
      simp only [hh, ↓reduceIte, hsel]
      by_cases hre : r = []
      · -- the last sub-query
        subst hre
        simp only [List.isEmpty_nil, ↓reduceIte] at hst
        subst hst
        rw [select_rt E showI q c hq hc ('\n' :: '}' :: rest) f' (goodRest_close rest hr) (by omega)]
        simp only [trimStart_idem]
        have ht : trimStart ('\n' :: '}' :: rest) = '}' :: rest := by
          rw [show '\n' :: '}' :: rest = ['\n'] ++ ('}' :: rest) from rfl, trimStart_ws_append _ _ (by decide),
            trimStart_cons_nonws '}' _ (by decide)]
        simp only [ht, List.head?_cons, dropByte_ascii '}' rest (by decide)]
      · -- a sub-query followed by another one
        have hrne : r.isEmpty = false := by cases r with | nil => exact absurd rfl hre | cons _ _ => rfl
        simp only [hrne, Bool.false_eq_true, ↓reduceIte] at hst
        subst hst
        -- what follows this sub-query
        have hws := tailOf_ws q
        have hbar : trimStart (tailOf q ++ '\n' :: '|' :: ' ' :: s ++ '\n' :: '}' :: rest) = '|' :: ' ' :: (s ++ '\n' :: '}' :: rest) := by
          rw [List.append_assoc, trimStart_ws_append _ _ hws]
          rw [show '\n' :: '|' :: ' ' :: s ++ '\n' :: '}' :: rest = ['\n'] ++ ('|' :: ' ' :: (s ++ '\n' :: '}' :: rest)) from rfl,
            trimStart_ws_append _ _ (by decide), trimStart_cons_nonws '|' _ (by decide)]
        have hb2 : trimStart ('|' :: ' ' :: (s ++ '\n' :: '}' :: rest)) = '|' :: ' ' :: (s ++ '\n' :: '}' :: rest) :=
          trimStart_cons_nonws '|' _ (by decide)
        have hR : GoodRest (tailOf q ++ '\n' :: '|' :: ' ' :: s ++ '\n' :: '}' :: rest) := by
          refine ⟨?_, ?_, Or.inr (Or.inr ?_)⟩
          · have := noTrail_suffix (tailOf q ++ '\n' :: '|' :: ' ' :: s) ('\n' :: '}' :: rest) (by simp) (noTrail_close rest hr.1)
            simpa [List.append_assoc] using this
          · rcases tailOf_cases q with h | h <;> rw [h] <;> exact Or.inr ⟨'\n', _, rfl, by decide⟩
          · rw [hbar]
            exact firstWord_append ['|'] _ (by unfold Word; decide) (splitStart_space _)
        have hcat : c ++ (tailOf q ++ '\n' :: '|' :: ' ' :: s) ++ '\n' :: '}' :: rest
            = c ++ (tailOf q ++ '\n' :: '|' :: ' ' :: s ++ '\n' :: '}' :: rest) := by simp [List.append_assoc]
        rw [hcat, select_rt E showI q c hq hc _ f' hR (by omega)]
        simp only [hbar, hb2, List.head?_cons]
        have hrec := subs_rt E showI r s hre hrs hs rest f' '|' [' '] (acc ++ [q]) hr (Or.inr rfl) (by decide) (by omega)
        simp only [List.cons_append, List.nil_append] at hrec
        rw [hrec]
        simp
    next => simp at hst
end

end Stam.QL
