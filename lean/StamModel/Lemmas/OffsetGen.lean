import StamModel.Gen.CursorKernels
/-
  C04 — the tie between the hand-written cursor resolution (`Stam.beginAligned` in Offset.lean, which the C04
  theorems are about) and the definitions the translator regenerates from `TextSelection::beginaligned_cursor`
  (src/textselection.rs) and `Text::beginaligned_cursor` (src/text.rs) on every run.
-/
namespace Stam

/-- resolving a cursor inside a selection `[b, e)` is resolving it against a text of length `e - b` -/
theorem gen_beginAlignedSel_agrees (b e : Nat) (c : Cursor) : Gen.beginAlignedSel b e c = beginAligned (e - b) c := by
  cases c <;> simp [Gen.beginAlignedSel, beginAligned]

/-- resolving a cursor against a text (resource) of length `len` -/
theorem gen_beginAlignedText_agrees (len : Nat) (c : Cursor) : Gen.beginAlignedText len c = beginAligned len c := by
  cases c <;> simp [Gen.beginAlignedText, beginAligned]

end Stam
