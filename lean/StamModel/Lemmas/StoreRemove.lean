import StamModel.Lemmas.Store
/-
  Removal of annotations (cascade) keeps the invariant; supporting facts for C01 / C02.
-/
namespace Stam

theorem mem_lookup' (s : State) (k : Key) (x : Nat) : x ∈ s.lookup k ↔ (k, x) ∈ s.edges := by
  simp only [State.lookup, List.mem_map, List.mem_filter]
  constructor
  · rintro ⟨e, ⟨he, hk⟩, hx⟩
    simp at hk
    cases e; simp at hk hx; subst hk; subst hx; exact he
  · intro h; exact ⟨(k, x), ⟨h, by simp⟩, rfl⟩

theorem eraseAll_props (h : Nat) : ∀ (ks : List Key) (es : List (Key × Nat)), es.Nodup → EdgesSorted es →
    (ks.foldl (fun es k => eraseEdge es k h) es).Nodup ∧ EdgesSorted (ks.foldl (fun es k => eraseEdge es k h) es) ∧
    ∀ e, e ∈ ks.foldl (fun es k => eraseEdge es k h) es ↔ (e ∈ es ∧ ¬ (e.2 = h ∧ e.1 ∈ ks)) := by
  intro ks
  induction ks with
  | nil => intro es hn hs; simp [hn, hs]
  | cons k ks ih =>
    intro es hn hs
    have hn1 : (eraseEdge es k h).Nodup := hn.erase _
    have hs1 : EdgesSorted (eraseEdge es k h) := List.Pairwise.sublist List.erase_sublist hs
    obtain ⟨g1, g2, g3⟩ := ih (eraseEdge es k h) hn1 hs1
    simp only [List.foldl_cons]
    refine ⟨g1, g2, ?_⟩
    intro e
    rw [g3]
    unfold eraseEdge
    rw [hn.mem_erase_iff]
    constructor
    · rintro ⟨⟨h1, h2⟩, h3⟩
      refine ⟨h2, ?_⟩
      rintro ⟨h4, h5⟩
      simp only [List.mem_cons] at h5
      rcases h5 with h5 | h5
      · exact h1 (by cases e; simp_all)
      · exact h3 ⟨h4, h5⟩
    · rintro ⟨h1, h2⟩
      refine ⟨⟨?_, h1⟩, ?_⟩
      · intro h3; subst h3; exact h2 ⟨rfl, by simp⟩
      · rintro ⟨h4, h5⟩; exact h2 ⟨h4, by simp [h5]⟩

/-- annotation `x` targets annotation `t` (anywhere in its selector) -/
def Targets (s : State) (x t : Nat) : Prop := ∃ a, getLive s.anns x = some a ∧ Key.ann t ∈ a.fwd

/-- `y` depends on `h`: it is `h` or targets something that depends on `h` -/
inductive DependsOn (s : State) (h : Nat) : Nat → Prop
  | self : DependsOn s h h
  | step {y t : Nat} : Targets s y t → DependsOn s h t → DependsOn s h y

theorem DependsOn.mono {s s' : State} {h y : Nat}
    (hm : ∀ x a, getLive s'.anns x = some a → getLive s.anns x = some a)
    (hd : DependsOn s' h y) : DependsOn s h y := by
  induction hd with
  | self => exact .self
  | step ht _ ih => obtain ⟨a, ha, hk⟩ := ht; exact .step ⟨a, hm _ _ ha, hk⟩ ih

theorem DependsOn.via {s : State} {d h y : Nat} (hd : DependsOn s d y) (ht : Targets s d h) : DependsOn s h y := by
  induction hd with
  | self => exact .step ht .self
  | step ht' _ ih => exact .step ht' ih

/-- what one successful `removeAnn` guarantees -/
structure Removed (s s' : State) (h : Nat) : Prop where
  inv : Inv s'
  len : s'.anns.length = s.anns.length
  mono : ∀ x a, getLive s'.anns x = some a → getLive s.anns x = some a
  gone : getLive s'.anns h = none
  res : s'.res = s.res
  sets : s'.sets = s.sets
  /-- no survivor refers to anything that was removed -/
  clean : ∀ y, (getLive s.anns y).isSome → getLive s'.anns y = none →
    ∀ x a, getLive s'.anns x = some a → Key.ann y ∉ a.fwd
  /-- only dependants of `h` were removed -/
  dep : ∀ y, (getLive s.anns y).isSome → getLive s'.anns y = none → DependsOn s h y

/-- folding conditional removals over a list: invariant kept, nothing revived, every listed handle gone -/
theorem fold_removed (f : State → Nat → Option State)
    (hf : ∀ s d s', Inv s → (getLive s.anns d).isSome → f s d = some s' → Removed s s' d) :
    ∀ (ds : List Nat) (s s' : State), Inv s →
    ds.foldl (fun acc d => acc.bind (fun st => if (getLive st.anns d).isSome then f st d else some st)) (some s) = some s' →
    Inv s' ∧ s'.anns.length = s.anns.length ∧ (∀ x a, getLive s'.anns x = some a → getLive s.anns x = some a) ∧
    (∀ d ∈ ds, getLive s'.anns d = none) ∧ s'.res = s.res ∧ s'.sets = s.sets ∧
    (∀ y, (getLive s.anns y).isSome → getLive s'.anns y = none →
      ∀ x a, getLive s'.anns x = some a → Key.ann y ∉ a.fwd) ∧
    (∀ y, (getLive s.anns y).isSome → getLive s'.anns y = none → ∃ d ∈ ds, DependsOn s d y) := by
  intro ds
  induction ds with
  | nil =>
    intro s s' hi h; simp at h; subst h
    refine ⟨hi, rfl, fun _ _ h => h, by simp, rfl, rfl, ?_, ?_⟩
    · intro y hy hg; rw [hg] at hy; cases hy
    · intro y hy hg; rw [hg] at hy; cases hy
  | cons d ds ih =>
    intro s s' hi h
    simp only [List.foldl_cons, Option.bind_some] at h
    by_cases hl : (getLive s.anns d).isSome
    · simp only [hl, if_true] at h
      cases hfd : f s d with
      | none =>
        rw [hfd] at h
        have : ∀ (l : List Nat), l.foldl (fun acc d => acc.bind (fun st => if (getLive st.anns d).isSome then f st d else some st)) none = none := by
          intro l; induction l <;> simp_all
        rw [this] at h; cases h
      | some s1 =>
        rw [hfd] at h
        have r := hf s d s1 hi hl hfd
        obtain ⟨i1, i2, i3, i4, i5, i6, i7, i8⟩ := ih s1 s' r.inv h
        refine ⟨i1, by rw [i2, r.len], fun x a hx => r.mono x a (i3 x a hx), ?_, by rw [i5, r.res], by rw [i6, r.sets], ?_, ?_⟩
        · intro x hx
          simp only [List.mem_cons] at hx
          rcases hx with hx | hx
          · subst hx
            cases hg : getLive s'.anns x with
            | none => rfl
            | some a => have := i3 x a hg; rw [r.gone] at this; cases this
          · exact i4 x hx
        · intro y hy hg x a hx
          cases hy1 : getLive s1.anns y with
          | none => exact r.clean y hy hy1 x a (i3 x a hx)
          | some ay => exact i7 y (by simp [hy1]) hg x a hx
        · intro y hy hg
          cases hy1 : getLive s1.anns y with
          | none => exact ⟨d, by simp, r.dep y hy hy1⟩
          | some ay =>
            obtain ⟨d', hd', hdep⟩ := i8 y (by simp [hy1]) hg
            exact ⟨d', by simp [hd'], hdep.mono r.mono⟩
    · simp only [hl, if_false] at h
      obtain ⟨i1, i2, i3, i4, i5, i6, i7, i8⟩ := ih s s' hi h
      refine ⟨i1, i2, i3, ?_, i5, i6, i7, ?_⟩
      · intro x hx
        simp only [List.mem_cons] at hx
        rcases hx with hx | hx
        · subst hx
          cases hg : getLive s'.anns x with
          | none => rfl
          | some a => have := i3 x a hg; simp [this] at hl
        · exact i4 x hx
      · intro y hy hg
        obtain ⟨d', hd', hdep⟩ := i8 y hy hg
        exact ⟨d', by simp [hd'], hdep⟩

theorem removeAnn_removed : ∀ (fuel : Nat) (s s' : State) (h : Nat), Inv s →
    State.removeAnn fuel s h = some s' → Removed s s' h := by
  intro fuel
  induction fuel with
  | zero => intro s s' h _ hr; simp [State.removeAnn] at hr
  | succ fuel ih =>
    intro s s' h hi hr
    simp only [State.removeAnn] at hr
    cases hl : getLive s.anns h with
    | none => rw [hl] at hr; cases hr
    | some a0 =>
      rw [hl] at hr
      simp only [] at hr
      cases hfold : (s.lookup (.ann h)).foldl (fun acc d =>
          acc.bind (fun st => if (getLive st.anns d).isSome then State.removeAnn fuel st d else some st)) (some s) with
      | none => rw [hfold] at hr; cases hr
      | some st =>
        rw [hfold] at hr
        simp only [Option.bind_some] at hr
        obtain ⟨i1, i2, i3, i4, i5, i6, i7, i8⟩ := fold_removed (State.removeAnn fuel)
          (fun s d s' hi _ hf => ih s s' d hi hf) (s.lookup (.ann h)) s st hi hfold
        cases hla : getLive st.anns h with
        | none => rw [hla] at hr; cases hr
        | some a =>
          rw [hla] at hr
          simp only [Option.some.injEq] at hr
          subst hr
          -- no live annotation of `st` targets `h` any more
          have hno : ∀ x a', getLive st.anns x = some a' → Key.ann h ∉ a'.fwd := by
            intro x a' hx hk
            have hx0 := i3 x a' hx
            have hmem : (Key.ann h, x) ∈ s.edges := (hi.mem _ _).2 ⟨a', hx0, hk⟩
            have : x ∈ s.lookup (.ann h) := by
              simp only [State.lookup, List.mem_map, List.mem_filter]
              exact ⟨(Key.ann h, x), ⟨hmem, by simp⟩, rfl⟩
            have := i4 x this
            rw [hx] at this; cases this
          have hn1 : (st.edges.filter (fun e => e.1 != Key.ann h)).Nodup := List.Pairwise.filter _ i1.nodup
          have hs1 : EdgesSorted (st.edges.filter (fun e => e.1 != Key.ann h)) := List.Pairwise.filter _ i1.sorted
          obtain ⟨g1, g2, g3⟩ := eraseAll_props h a.fwd _ hn1 hs1
          have hlt := getLive_lt _ _ _ hla
          have hmono' : ∀ x a', getLive (setAt st.anns h none) x = some a' → getLive st.anns x = some a' := by
            intro x a' hx
            rw [getLive_setAt] at hx
            by_cases hc : h = x ∧ h < st.anns.length
            · rw [if_pos hc] at hx; cases hx
            · rw [if_neg hc] at hx; exact hx
          refine ⟨⟨?_, g1, g2⟩, by simp [length_setAt, i2], ?_, ?_, i5, i6, ?_, ?_⟩
          · intro k x
            simp only []
            rw [g3, getLive_setAt]
            simp only [List.mem_filter, bne_iff_ne, ne_eq]
            constructor
            · rintro ⟨⟨h1, h2⟩, h3⟩
              obtain ⟨a', ha', hk⟩ := (i1.mem k x).1 h1
              have hxh : x ≠ h := by
                intro hx; subst hx
                rw [hla] at ha'; cases ha'
                exact h3 ⟨rfl, hk⟩
              have : ¬ (h = x ∧ h < st.anns.length) := by intro hc; exact hxh hc.1.symm
              exact ⟨a', by simp [this, ha'], hk⟩
            · rintro ⟨a', ha', hk⟩
              by_cases hc : h = x ∧ h < st.anns.length
              · rw [if_pos hc] at ha'; cases ha'
              · simp only [hc, if_false] at ha'
                have hxh : x ≠ h := by
                  intro hx; subst hx; exact hc ⟨rfl, hlt⟩
                refine ⟨⟨(i1.mem k x).2 ⟨a', ha', hk⟩, ?_⟩, ?_⟩
                · intro hk2; subst hk2; exact hno x a' ha' hk
                · rintro ⟨h4, _⟩; exact hxh h4
          · intro x a' hx
            simp only [] at hx
            rw [getLive_setAt] at hx
            by_cases hc : h = x ∧ h < st.anns.length
            · rw [if_pos hc] at hx; cases hx
            · simp only [hc, if_false] at hx
              exact i3 x a' hx
          · simp only []
            rw [getLive_setAt]
            simp [hlt]
          · -- clean
            intro y hy hg x a' hx
            simp only [] at hg hx
            have hx' := hmono' x a' hx
            cases hy1 : getLive st.anns y with
            | none => exact i7 y hy hy1 x a' hx'
            | some ay =>
              have : y = h := by
                rw [getLive_setAt] at hg
                by_cases hc : h = y ∧ h < st.anns.length
                · exact hc.1.symm
                · rw [if_neg hc, hy1] at hg; cases hg
              subst this
              exact hno x a' hx'
          · -- dep
            intro y hy hg
            simp only [] at hg
            cases hy1 : getLive st.anns y with
            | none =>
              obtain ⟨d, hd, hdep⟩ := i8 y hy hy1
              have hmem : (Key.ann h, d) ∈ s.edges := (mem_lookup' s (.ann h) d).1 hd
              obtain ⟨ad, had, hkd⟩ := (hi.mem _ _).1 hmem
              exact hdep.via ⟨ad, had, hkd⟩
            | some ay =>
              have : y = h := by
                rw [getLive_setAt] at hg
                by_cases hc : h = y ∧ h < st.anns.length
                · exact hc.1.symm
                · rw [if_neg hc, hy1] at hg; cases hg
              subst this
              exact .self

theorem removeAnnIfPresent_spec (s s' : State) (h : Nat) (hi : Inv s) (hr : s.removeAnnIfPresent h = some s') :
    Inv s' ∧ s'.anns.length = s.anns.length ∧ (∀ x a, getLive s'.anns x = some a → getLive s.anns x = some a) ∧
    getLive s'.anns h = none ∧ s'.res = s.res ∧ s'.sets = s.sets := by
  unfold State.removeAnnIfPresent at hr
  split at hr
  · have r := removeAnn_removed _ s s' h hi hr
    exact ⟨r.inv, r.len, r.mono, r.gone, r.res, r.sets⟩
  · rename_i hl
    cases hr
    refine ⟨hi, rfl, fun _ _ h => h, ?_, rfl, rfl⟩
    cases hg : getLive s.anns h with
    | none => rfl
    | some a => simp [hg] at hl

/-- `removeAll`: a list of annotations removed one after the other (those already gone skipped) -/
theorem removeAll_spec : ∀ (hs : List Nat) (s s' : State), Inv s → s.removeAll hs = some s' →
    Inv s' ∧ s'.anns.length = s.anns.length ∧ (∀ x a, getLive s'.anns x = some a → getLive s.anns x = some a) ∧
    (∀ d ∈ hs, getLive s'.anns d = none) ∧ s'.res = s.res ∧ s'.sets = s.sets := by
  intro hs
  induction hs with
  | nil => intro s s' hi h; simp [State.removeAll] at h; subst h; exact ⟨hi, rfl, fun _ _ h => h, by simp, rfl, rfl⟩
  | cons d ds ih =>
    intro s s' hi h
    simp only [State.removeAll, List.foldl_cons, Option.bind_some] at h
    cases hfd : s.removeAnnIfPresent d with
    | none =>
      rw [hfd] at h
      have : ∀ (l : List Nat), l.foldl (fun acc h => acc.bind (fun st => State.removeAnnIfPresent st h)) none = none := by
        intro l; induction l <;> simp_all
      rw [this] at h; cases h
    | some s1 =>
      rw [hfd] at h
      obtain ⟨r1, r2, r3, r4, r5, r6⟩ := removeAnnIfPresent_spec s s1 d hi hfd
      obtain ⟨i1, i2, i3, i4, i5, i6⟩ := ih s1 s' r1 h
      refine ⟨i1, by rw [i2, r2], fun x a hx => r3 x a (i3 x a hx), ?_, by rw [i5, r5], by rw [i6, r6]⟩
      intro x hx
      simp only [List.mem_cons] at hx
      rcases hx with hx | hx
      · subst hx
        cases hg : getLive s'.anns x with
        | none => rfl
        | some a => have := i3 x a hg; rw [r4] at this; cases this
      · exact i4 x hx

end Stam
