import StamModel.TextOps
import StamModel.Lemmas.Utf8
namespace Stam

/-- `n` occurs in `h` at position `k` -/
def OccursAt (n h : List Char) (k : Nat) : Prop := n.isPrefixOf (h.drop k) = true

theorem findFrom_some (n : List Char) : ∀ (h : List Char) (i j : Nat), findFrom n h i = some j →
    ∃ k, j = i + k ∧ k ≤ h.length ∧ OccursAt n h k ∧ ∀ k', k' < k → ¬ OccursAt n h k' := by
  intro h
  induction h with
  | nil =>
    intro i j hf
    simp only [findFrom] at hf
    split at hf
    · injection hf with hf
      refine ⟨0, by omega, by simp, ?_, by intro k' hk; omega⟩
      rename_i hn
      simp [OccursAt, List.isEmpty_iff.1 hn]
    · cases hf
  | cons c cs ih =>
    intro i j hf
    simp only [findFrom] at hf
    split at hf
    · injection hf with hf
      rename_i hp
      exact ⟨0, by omega, by simp, by simpa [OccursAt] using hp, by intro k' hk; omega⟩
    · rename_i hp
      obtain ⟨k, hj, hk, ho, hmin⟩ := ih (i + 1) j hf
      refine ⟨k + 1, by omega, by simp; omega, by simpa [OccursAt] using ho, ?_⟩
      intro k' hk'
      cases k' with
      | zero => simpa [OccursAt] using hp
      | succ k' => simpa [OccursAt] using hmin k' (by omega)

theorem findFrom_none (n : List Char) : ∀ (h : List Char) (i : Nat), findFrom n h i = none →
    ∀ k, k ≤ h.length → ¬ OccursAt n h k := by
  intro h
  induction h with
  | nil =>
    intro i hf k hk
    simp only [findFrom] at hf
    split at hf
    · cases hf
    · rename_i hn
      simp at hk; subst hk
      simp only [OccursAt, List.drop_nil]
      cases n with
      | nil => simp at hn
      | cons a as => simp [List.isPrefixOf]
  | cons c cs ih =>
    intro i hf k hk
    simp only [findFrom] at hf
    split at hf
    · cases hf
    · rename_i hp
      cases k with
      | zero => simpa [OccursAt] using hp
      | succ k => simpa [OccursAt] using ih (i + 1) hf k (by simpa using hk)

theorem occursAt_iff (n h : List Char) (k : Nat) :
    OccursAt n h k ↔ (h.drop k).take n.length = n := by
  unfold OccursAt
  rw [List.isPrefixOf_iff_prefix, List.prefix_iff_eq_take]
  exact eq_comm

theorem occursAt_len (n h : List Char) (k : Nat) (hk : k ≤ h.length) (ho : OccursAt n h k) : k + n.length ≤ h.length := by
  rw [occursAt_iff] at ho
  have := congrArg List.length ho
  simp at this
  omega

end Stam
