import StamModel.Store
/-
  Helper lemmas for the store model (G1).
-/
namespace Stam

/-! ### lists of slots -/

theorem getLive_append_lt {α} (l : List (Option α)) (x : Option α) (h : Nat) (hh : h < l.length) :
    getLive (l ++ [x]) h = getLive l h := by
  simp [getLive, List.getElem?_append, hh]

theorem getLive_append_last {α} (l : List (Option α)) (x : Option α) :
    getLive (l ++ [x]) l.length = x := by
  simp [getLive]

theorem getLive_ge {α} (l : List (Option α)) (h : Nat) (hh : l.length ≤ h) : getLive l h = none := by
  simp [getLive, List.getElem?_eq_none hh]

theorem getLive_lt {α} (l : List (Option α)) (h : Nat) (a : α) (hl : getLive l h = some a) : h < l.length := by
  rcases Nat.lt_or_ge h l.length with h1 | h1
  · exact h1
  · rw [getLive_ge l h h1] at hl; cases hl

theorem getLive_append {α} (l : List (Option α)) (x : Option α) (h : Nat) :
    getLive (l ++ [x]) h = if h < l.length then getLive l h else if h = l.length then x else none := by
  by_cases h1 : h < l.length
  · simp [h1, getLive_append_lt l x h h1]
  · by_cases h2 : h = l.length
    · subst h2; simp [getLive_append_last]
    · simp only [h1, h2, if_false]
      exact getLive_ge _ _ (by simp; omega)

theorem getLive_setAt {α} (l : List (Option α)) (i h : Nat) (x : Option α) :
    getLive (setAt l i x) h = if i = h ∧ i < l.length then x else getLive l h := by
  simp only [getLive, setAt, List.getElem?_set]
  by_cases h1 : i = h
  · subst h1
    by_cases h2 : i < l.length
    · simp [h2]
    · simp [h2, List.getElem?_eq_none (by omega : l.length ≤ i)]
  · simp [h1]

theorem length_setAt {α} (l : List α) (i : Nat) (x : α) : (setAt l i x).length = l.length := by
  simp [setAt]

/-! ### the edge list -/

/-- every recorded annotation handle is at most `h` -/
def EdgesLe (es : List (Key × Nat)) (h : Nat) : Prop := ∀ e ∈ es, e.2 ≤ h

def EdgesSorted (es : List (Key × Nat)) : Prop := es.Pairwise (fun e1 e2 => e1.2 ≤ e2.2)

theorem filter_key_last (es : List (Key × Nat)) (k : Key) (h : Nat)
    (hs : EdgesSorted es) (hn : es.Nodup) (hle : EdgesLe es h) (hm : (k, h) ∈ es) :
    (es.filter (fun e => e.1 == k)).getLast? = some (k, h) := by
  induction es with
  | nil => simp at hm
  | cons e rest ih =>
    rw [EdgesSorted, List.pairwise_cons] at hs
    rw [List.nodup_cons] at hn
    have hle' : EdgesLe rest h := fun x hx => hle x (by simp [hx])
    simp only [List.mem_cons] at hm
    rcases hm with hm | hm
    · -- e = (k,h): everything after has handle ≥ h and ≤ h, so equal key would be a duplicate
      subst hm
      have : rest.filter (fun e => e.1 == k) = [] := by
        rw [List.filter_eq_nil_iff]
        intro x hx hk
        have h1 := hs.1 x hx
        have h2 := hle' x hx
        simp at hk
        have : x = (k, h) := by
          cases x; simp at hk h1 h2; subst hk; simp; omega
        subst this
        exact hn.1 hx
      simp [List.filter_cons, this]
    · have := ih hs.2 hn.2 hle' hm
      simp only [List.filter_cons]
      split
      · rw [List.getLast?_cons]
        rw [this]; simp
      · exact this

theorem addEdge_eq (es : List (Key × Nat)) (k : Key) (h : Nat)
    (hs : EdgesSorted es) (hn : es.Nodup) (hle : EdgesLe es h) :
    addEdge es k h = if (k, h) ∈ es then es else es ++ [(k, h)] := by
  unfold addEdge
  by_cases hm : (k, h) ∈ es
  · simp [hm, filter_key_last es k h hs hn hle hm]
  · rw [if_neg hm]
    have : ¬ (((es.filter (fun e => e.1 == k)).getLast?.map (·.2)) == some h) = true := by
      intro hc
      simp only [beq_iff_eq, Option.map_eq_some_iff] at hc
      obtain ⟨e, he, he2⟩ := hc
      have hmem := List.mem_of_getLast? he
      rw [List.mem_filter] at hmem
      have : e = (k, h) := by
        cases e; simp at hmem he2; simp [hmem.2, he2]
      rw [this] at hmem
      exact hm hmem.1
    rw [if_neg this]

theorem addEdge_props (es : List (Key × Nat)) (k : Key) (h : Nat)
    (hs : EdgesSorted es) (hn : es.Nodup) (hle : EdgesLe es h) :
    EdgesSorted (addEdge es k h) ∧ (addEdge es k h).Nodup ∧ EdgesLe (addEdge es k h) h ∧
    ∀ e, e ∈ addEdge es k h ↔ (e ∈ es ∨ e = (k, h)) := by
  rw [addEdge_eq es k h hs hn hle]
  by_cases hm : (k, h) ∈ es
  · simp only [hm, if_true]
    refine ⟨hs, hn, hle, ?_⟩
    intro e; constructor
    · exact Or.inl
    · rintro (h1 | h1)
      · exact h1
      · rw [h1]; exact hm
  · simp only [hm, if_false]
    refine ⟨?_, ?_, ?_, ?_⟩
    · rw [EdgesSorted, List.pairwise_append]
      refine ⟨hs, by simp, ?_⟩
      intro a ha b hb; simp at hb; subst hb; exact hle a ha
    · rw [List.nodup_append]
      refine ⟨hn, by simp, ?_⟩
      intro a ha b hb; simp at hb; subst hb; intro h1; subst h1; exact hm ha
    · intro e he; simp at he; rcases he with he | he
      · exact hle e he
      · subst he; simp
    · intro e; simp

theorem addEdges_props (ks : List Key) (h : Nat) : ∀ (es : List (Key × Nat)),
    EdgesSorted es → es.Nodup → EdgesLe es h →
    EdgesSorted (addEdges es ks h) ∧ (addEdges es ks h).Nodup ∧ EdgesLe (addEdges es ks h) h ∧
    ∀ e, e ∈ addEdges es ks h ↔ (e ∈ es ∨ (e.2 = h ∧ e.1 ∈ ks)) := by
  induction ks with
  | nil => intro es hs hn hle; simp [addEdges, hs, hn, hle]
  | cons k ks ih =>
    intro es hs hn hle
    obtain ⟨h1, h2, h3, h4⟩ := addEdge_props es k h hs hn hle
    obtain ⟨g1, g2, g3, g4⟩ := ih (addEdge es k h) h1 h2 h3
    simp only [addEdges, List.foldl_cons] at g1 g2 g3 g4 ⊢
    refine ⟨g1, g2, g3, ?_⟩
    intro e
    rw [g4, h4]
    constructor
    · rintro ((h5 | h5) | h5)
      · exact Or.inl h5
      · subst h5; exact Or.inr ⟨rfl, by simp⟩
      · exact Or.inr ⟨h5.1, by simp [h5.2]⟩
    · rintro (h5 | ⟨h5, h6⟩)
      · exact Or.inl (Or.inl h5)
      · simp only [List.mem_cons] at h6
        rcases h6 with h6 | h6
        · exact Or.inl (Or.inr (by cases e; simp_all))
        · exact Or.inr ⟨h5, h6⟩

/-! ### the invariant of C01 -/

/-- the reverse index holds exactly the forward references of the live annotations, each once,
in chronological (= handle) order -/
structure Inv (s : State) : Prop where
  mem : ∀ k h, (k, h) ∈ s.edges ↔ ∃ a, getLive s.anns h = some a ∧ k ∈ a.fwd
  nodup : s.edges.Nodup
  sorted : EdgesSorted s.edges

theorem Inv.lt {s : State} (hi : Inv s) : ∀ e ∈ s.edges, e.2 < s.anns.length := by
  intro e he
  obtain ⟨a, ha, _⟩ := (hi.mem e.1 e.2).1 he
  exact getLive_lt _ _ _ ha

/-! ### frame lemmas: building selectors and data never touches annotations or the reverse index -/

theorem selector_frame (s s' : State) (r : SelReq) (m : SelM) (h : s.selector r = some (s', m)) :
    s'.anns = s.anns ∧ s'.edges = s.edges := by
  cases r <;> simp only [State.selector] at h
  all_goals first
    | (simp only [Option.map_eq_some_iff] at h; obtain ⟨_, _, h⟩ := h; cases h; exact ⟨rfl, rfl⟩)
    | (repeat' split at h) <;> simp_all
    | skip
  all_goals first
    | (obtain ⟨h1, _⟩ := h; subst h1; exact ⟨rfl, rfl⟩)
    | (simp only [Option.bind_eq_some_iff, Function.comp, Option.map_eq_some_iff] at h
       obtain ⟨_, _, _, _, h⟩ := h; cases h; exact ⟨rfl, rfl⟩)

theorem subselectors_frame : ∀ (rs : List SelReq) (s : State),
    (s.subselectors rs).2.anns = s.anns ∧ (s.subselectors rs).2.edges = s.edges ∧
    ∀ s' ms, (s.subselectors rs).1 = some (s', ms) → s' = (s.subselectors rs).2 := by
  intro rs
  induction rs with
  | nil => intro s; simp [State.subselectors]
  | cons r rs ih =>
    intro s
    simp only [State.subselectors]
    cases hsel : s.selector r with
    | none => simp
    | some p =>
      obtain ⟨s1, m⟩ := p
      obtain ⟨f1, f2⟩ := selector_frame s s1 r m hsel
      obtain ⟨i1, i2, i3⟩ := ih s1
      simp only []
      cases hsub : s1.subselectors rs with
      | mk o sf =>
        rw [hsub] at i1 i2 i3
        cases o with
        | none => simp only []; exact ⟨by rw [← f1]; exact i1, by rw [← f2]; exact i2, by intro _ _ h; cases h⟩
        | some q =>
          obtain ⟨s2, ms⟩ := q
          have := i3 s2 ms rfl
          simp only [] at this ⊢
          subst this
          exact ⟨by rw [← f1]; exact i1, by rw [← f2]; exact i2, by intro _ _ h; cases h; rfl⟩


theorem target_frame (s : State) (t : TargetReq) :
    (s.target t).2.anns = s.anns ∧ (s.target t).2.edges = s.edges := by
  cases t with
  | simple r =>
    simp only [State.target]
    cases hsel : s.selector r with
    | none => simp
    | some p => obtain ⟨s1, m⟩ := p; exact selector_frame s s1 r m hsel
  | complex k rs =>
    simp only [State.target]
    obtain ⟨i1, i2, i3⟩ := subselectors_frame rs s
    cases hsub : s.subselectors rs with
    | mk o sf =>
      rw [hsub] at i1 i2 i3
      cases o with
      | none => exact ⟨i1, i2⟩
      | some q =>
        obtain ⟨s2, ms⟩ := q
        have := i3 s2 ms rfl
        simp only [] at this ⊢
        subst this
        exact ⟨i1, i2⟩

theorem insertData_frame (s : State) (d : DataReq) :
    (s.insertData d).2.anns = s.anns ∧ (s.insertData d).2.edges = s.edges := by
  unfold State.insertData
  cases h1 : s.resolveSet d.set <;> simp only [] <;> (repeat' split) <;> simp_all

theorem insertDataList_frame : ∀ (ds : List DataReq) (s : State),
    (s.insertDataList ds).2.anns = s.anns ∧ (s.insertDataList ds).2.edges = s.edges := by
  intro ds
  induction ds with
  | nil => intro s; simp [State.insertDataList]
  | cons d ds ih =>
    intro s
    simp only [State.insertDataList]
    obtain ⟨f1, f2⟩ := insertData_frame s d
    cases h1 : s.insertData d with
    | mk o s1 =>
      rw [h1] at f1 f2
      cases o with
      | none => exact ⟨f1, f2⟩
      | some p =>
        obtain ⟨g1, g2⟩ := ih s1
        simp only []
        cases h2 : s1.insertDataList ds with
        | mk o2 s2 =>
          rw [h2] at g1 g2
          cases o2 <;> exact ⟨by rw [← f1]; exact g1, by rw [← f2]; exact g2⟩

/-- the invariant only looks at annotations and edges -/
theorem Inv.of_frame {s s' : State} (hi : Inv s) (h1 : s'.anns = s.anns) (h2 : s'.edges = s.edges) : Inv s' := by
  constructor
  · intro k h; rw [h2, h1]; exact hi.mem k h
  · rw [h2]; exact hi.nodup
  · rw [h2]; exact hi.sorted

/-- appending a new annotation together with its forward entries keeps the invariant -/
theorem Inv.push {s : State} (hi : Inv s) (a : AnnM) :
    Inv { s with anns := s.anns ++ [some a], edges := addEdges s.edges a.fwd s.anns.length } := by
  have hle : EdgesLe s.edges s.anns.length := fun e he => Nat.le_of_lt (hi.lt e he)
  obtain ⟨g1, g2, _, g4⟩ := addEdges_props a.fwd s.anns.length s.edges hi.sorted hi.nodup hle
  constructor
  · intro k h
    simp only []
    rw [g4, getLive_append]
    constructor
    · rintro (h1 | ⟨h1, h2⟩)
      · obtain ⟨a', ha, hk⟩ := (hi.mem k h).1 h1
        have := getLive_lt _ _ _ ha
        exact ⟨a', by simp [this, ha], hk⟩
      · simp only [] at h1 h2
        subst h1
        exact ⟨a, by simp, h2⟩
    · rintro ⟨a', ha, hk⟩
      by_cases h1 : h < s.anns.length
      · simp only [h1, if_true] at ha
        exact Or.inl ((hi.mem k h).2 ⟨a', ha, hk⟩)
      · simp only [h1, if_false] at ha
        by_cases h2 : h = s.anns.length
        · simp only [h2, if_true] at ha
          cases ha
          exact Or.inr ⟨h2, hk⟩
        · simp [h2] at ha
  · exact g2
  · exact g1

theorem annotate_inv (s : State) (id : Option String) (t : TargetReq) (ds : List DataReq) (hi : Inv s) :
    Inv (s.annotate id t ds).2 := by
  unfold State.annotate
  obtain ⟨t1, t2⟩ := target_frame s t
  cases ht : s.target t with
  | mk o s1 =>
    rw [ht] at t1 t2
    have hi1 : Inv s1 := hi.of_frame t1 t2
    cases o with
    | none => exact hi1
    | some tm =>
      simp only []
      obtain ⟨d1, d2⟩ := insertDataList_frame ds s1
      cases hd : s1.insertDataList ds with
      | mk o2 s2 =>
        rw [hd] at d1 d2
        have hi2 : Inv s2 := hi1.of_frame d1 d2
        cases o2 with
        | none => exact hi2
        | some data =>
          simp only []
          split
          · split <;> exact hi2
          · exact hi2.push _

theorem addRes_inv (s : State) (id : String) (len : Nat) (hi : Inv s) : Inv (s.addRes id len).2 := by
  unfold State.addRes
  split
  · split <;> exact hi
  · exact hi.of_frame rfl rfl

theorem addSet_inv (s : State) (id : String) (hi : Inv s) : Inv (s.addSet id).2 := by
  unfold State.addSet
  split
  · split
    · split <;> exact hi
    · exact hi
  · exact hi.of_frame rfl rfl

theorem addData_inv (s : State) (d : DataReq) (hi : Inv s) : Inv (s.addData d).2 := by
  unfold State.addData
  obtain ⟨f1, f2⟩ := insertData_frame s d
  cases h : s.insertData d with
  | mk o s1 =>
    rw [h] at f1 f2
    cases o with
    | none => exact hi.of_frame f1 f2
    | some p => obtain ⟨a, b⟩ := p; exact hi.of_frame f1 f2

end Stam
