import StamModel.Collections
/-
  Lemmas for C08: binary search on strictly sorted slices, the fast paths of Handles::union / intersection,
  insertion and sorting, and what union / intersection compute for collections whose flags tell the truth.
-/
namespace Stam.Coll

def StrictSorted (l : List Nat) : Prop := l.Pairwise (· < ·)

/-- on a strictly sorted list, everything before the lower bound is below `x`, everything from it on is not -/
theorem lowerBound_spec (s : List Nat) (x : Nat) (hs : StrictSorted s) :
    (∀ k y, k < lowerBound s x → s[k]? = some y → y < x) ∧ (∀ k y, lowerBound s x ≤ k → s[k]? = some y → x ≤ y) := by
  induction s with
  | nil => simp [lowerBound]
  | cons a r ih =>
    have hr : StrictSorted r := (List.pairwise_cons.mp hs).2
    have ha : ∀ y ∈ r, a < y := (List.pairwise_cons.mp hs).1
    obtain ⟨ih1, ih2⟩ := ih hr
    by_cases hax : a < x
    · have hlb : lowerBound (a :: r) x = lowerBound r x + 1 := by simp [lowerBound, List.takeWhile_cons, hax]
      rw [hlb]
      constructor
      · intro k y hk hy
        cases k with
        | zero => simp at hy; omega
        | succ k => exact ih1 k y (by omega) (by simpa using hy)
      · intro k y hk hy
        cases k with
        | zero => omega
        | succ k => exact ih2 k y (by omega) (by simpa using hy)
    · have hlb : lowerBound (a :: r) x = 0 := by simp [lowerBound, List.takeWhile_cons, hax]
      rw [hlb]
      constructor
      · intro k y hk; omega
      · intro k y _ hy
        cases k with
        | zero => simp at hy; omega
        | succ k =>
          have : y ∈ r := List.mem_of_getElem? (by simpa using hy)
          have := ha y this
          omega

/-- `binary_search` answers membership on a strictly sorted slice -/
theorem bsearch_found_iff (s : List Nat) (x : Nat) (hs : StrictSorted s) : (bsearch s x).1 = true ↔ x ∈ s := by
  unfold bsearch
  simp only [beq_iff_eq]
  constructor
  · intro h; exact List.mem_of_getElem? h
  · intro hx
    obtain ⟨k, hk⟩ := List.getElem?_of_mem hx
    obtain ⟨h1, h2⟩ := lowerBound_spec s x hs
    -- k is the lower bound: everything before k is smaller (sortedness), s[k] = x is not
    have hlk : lowerBound s x ≤ k := by
      rcases Nat.lt_or_ge k (lowerBound s x) with h | h
      · have := h1 k x h hk; omega
      · exact h
    have hkl : k ≤ lowerBound s x := by
      rcases Nat.lt_or_ge (lowerBound s x) k with h | h
      · -- the element at the lower bound is ≥ x, but it comes before s[k] = x in a strictly sorted list
        have hlt : lowerBound s x < s.length := by
          have : k < s.length := by
            rcases Nat.lt_or_ge k s.length with h' | h'
            · exact h'
            · simp [List.getElem?_eq_none h'] at hk
          omega
        have hy : s[lowerBound s x]? = some s[lowerBound s x] := List.getElem?_eq_getElem hlt
        have hge := h2 _ _ (Nat.le_refl _) hy
        have hkk : k < s.length := by
          rcases Nat.lt_or_ge k s.length with h' | h'
          · exact h'
          · simp [List.getElem?_eq_none h'] at hk
        have hxk : s[k] = x := by
          have := List.getElem?_eq_getElem hkk
          rw [this] at hk; exact Option.some.inj hk
        have := List.pairwise_iff_getElem.mp hs (lowerBound s x) k hlt hkk h
        omega
      · exact h
    have : lowerBound s x = k := by omega
    rw [this]; exact hk

theorem strictSorted_drop (l : List Nat) (k : Nat) (h : StrictSorted l) : StrictSorted (l.drop k) :=
  List.Pairwise.sublist (List.drop_sublist k l) h

/-- if everything before `offset` is below `x`, `x` can only occur from `offset` on -/
theorem mem_drop_of_prefix_lt (orig : List Nat) (offset x : Nat)
    (hpre : ∀ k y, k < offset → orig[k]? = some y → y < x) : x ∈ orig.drop offset ↔ x ∈ orig := by
  constructor
  · intro h; exact List.mem_of_mem_drop h
  · intro h
    obtain ⟨k, hk⟩ := List.getElem?_of_mem h
    have : offset ≤ k := by
      rcases Nat.lt_or_ge k offset with h' | h'
      · have := hpre k x h' hk; omega
      · exact h'
    apply List.mem_of_getElem? (i := k - offset)
    rw [List.getElem?_drop]
    have : offset + (k - offset) = k := by omega
    rw [this]; exact hk

/-- **the fast path of `union` computes what the general path computes**: the items of the other collection that
are not in this one, in order. `offset` bookkeeping: everything of `orig` before `offset` is below every item still
to come; `app` (appended so far) is below them too. -/
theorem unionFast_spec (orig : List Nat) (ho : StrictSorted orig) :
    ∀ (rest : List Nat) (offset : Nat) (app : List Nat), StrictSorted rest →
      (∀ k y, k < offset → orig[k]? = some y → ∀ x ∈ rest, y < x) →
      (∀ a ∈ app, ∀ x ∈ rest, a < x) →
      unionFast orig offset app rest = app ++ rest.filter (fun x => !orig.contains x) := by
  intro rest
  induction rest with
  | nil => intro offset app _ _ _; simp [unionFast]
  | cons x rest ih =>
    intro offset app hr hpre happ
    have hrr : StrictSorted rest := (List.pairwise_cons.mp hr).2
    have hxr : ∀ y ∈ rest, x < y := (List.pairwise_cons.mp hr).1
    have hprex : ∀ k y, k < offset → orig[k]? = some y → y < x := fun k y hk hy => hpre k y hk hy x (by simp)
    have hsl : StrictSorted (orig.drop offset) := strictSorted_drop orig offset ho
    obtain ⟨l1, l2⟩ := lowerBound_spec (orig.drop offset) x hsl
    unfold unionFast
    cases hb : bsearch (orig.drop offset) x with
    | mk found idx =>
      have hidx : idx = lowerBound (orig.drop offset) x := by unfold bsearch at hb; simp at hb; omega
      have hfound : found = true ↔ x ∈ orig := by
        have := bsearch_found_iff (orig.drop offset) x hsl
        rw [hb] at this
        rw [this, mem_drop_of_prefix_lt orig offset x hprex]
      simp only []
      cases found with
      | true =>
        have hin : x ∈ orig := hfound.mp rfl
        simp only [↓reduceIte]
        rw [ih (offset + idx + 1) app hrr ?_ (fun a ha y hy => happ a ha y (by simp [hy]))]
        · simp [List.filter_cons, hin]
        · -- everything before the new offset is ≤ x, hence below what is still to come
          intro k y hk hy z hz
          have hxz := hxr z hz
          rcases Nat.lt_or_ge k offset with h | h
          · have := hprex k y h hy; omega
          · have hy' : (orig.drop offset)[k - offset]? = some y := by
              rw [List.getElem?_drop]; have : offset + (k - offset) = k := by omega
              rw [this]; exact hy
            rcases Nat.lt_or_ge (k - offset) idx with h' | h'
            · have := l1 (k - offset) y (by omega) hy'; omega
            · -- k - offset = idx: that is x itself
              have hk' : k - offset = idx := by omega
              have hxat : (orig.drop offset)[idx]? = some x := by
                have hb' := hb
                unfold bsearch at hb'
                simp only [Prod.mk.injEq, beq_iff_eq] at hb'
                rw [← hb'.2]; exact hb'.1
              rw [hk'] at hy'
              rw [hxat] at hy'
              have := Option.some.inj hy'
              omega
      | false =>
        have hnin : x ∉ orig := fun h => by have := hfound.mpr h; cases this
        simp only [Bool.false_eq_true, ↓reduceIte]
        have hlast : app.getLast? ≠ some x := by
          intro h
          have : x ∈ app := List.mem_of_getLast? h
          have := happ x this x (by simp)
          omega
        simp only [hlast, ↓reduceIte]
        rw [ih (offset + idx) (app ++ [x]) hrr ?_ ?_]
        · simp [List.filter_cons, hnin]
        · intro k y hk hy z hz
          have hxz := hxr z hz
          rcases Nat.lt_or_ge k offset with h | h
          · have := hprex k y h hy; omega
          · have hy' : (orig.drop offset)[k - offset]? = some y := by
              rw [List.getElem?_drop]; have : offset + (k - offset) = k := by omega
              rw [this]; exact hy
            have := l1 (k - offset) y (by omega) hy'; omega
        · intro a ha y hy
          rcases List.mem_append.mp ha with h | h
          · exact happ a h y (by simp [hy])
          · simp at h; subst h; exact hxr y hy

/-- **the fast path of `intersection` keeps exactly the elements that occur in the other collection**, in order -/
theorem interFast_spec (other : List Nat) (ho : StrictSorted other) :
    ∀ (rest : List Nat) (offset : Nat), StrictSorted rest →
      (∀ k y, k < offset → other[k]? = some y → ∀ x ∈ rest, y < x) →
      interFast other offset rest = rest.filter (fun x => other.contains x) := by
  intro rest
  induction rest with
  | nil => intro offset _ _; simp [interFast]
  | cons x rest ih =>
    intro offset hr hpre
    have hrr : StrictSorted rest := (List.pairwise_cons.mp hr).2
    have hxr : ∀ y ∈ rest, x < y := (List.pairwise_cons.mp hr).1
    have hprex : ∀ k y, k < offset → other[k]? = some y → y < x := fun k y hk hy => hpre k y hk hy x (by simp)
    have hsl : StrictSorted (other.drop offset) := strictSorted_drop other offset ho
    obtain ⟨l1, l2⟩ := lowerBound_spec (other.drop offset) x hsl
    unfold interFast
    cases hb : bsearch (other.drop offset) x with
    | mk found idx =>
      have hb' := hb
      unfold bsearch at hb'
      simp only [Prod.mk.injEq] at hb'
      have hidx : idx = lowerBound (other.drop offset) x := hb'.2.symm
      have hfound : found = true ↔ x ∈ other := by
        have := bsearch_found_iff (other.drop offset) x hsl
        rw [hb] at this
        rw [this, mem_drop_of_prefix_lt other offset x hprex]
      have hnext : ∀ (off' : Nat), (off' = offset + idx + 1 ∧ found = true) ∨ (off' = offset + idx ∧ found = false) →
          ∀ k y, k < off' → other[k]? = some y → ∀ z ∈ rest, y < z := by
        intro off' hoff k y hk hy z hz
        have hxz := hxr z hz
        rcases Nat.lt_or_ge k offset with h | h
        · have := hprex k y h hy; omega
        · have hy' : (other.drop offset)[k - offset]? = some y := by
            rw [List.getElem?_drop]; have : offset + (k - offset) = k := by omega
            rw [this]; exact hy
          rcases Nat.lt_or_ge (k - offset) idx with h' | h'
          · have := l1 (k - offset) y (by omega) hy'; omega
          · rcases hoff with ⟨ho', hf⟩ | ⟨ho', _⟩
            · have hk' : k - offset = idx := by omega
              subst hf
              have hxat : (other.drop offset)[idx]? = some x := by
                have := hb'.1; simp only [beq_iff_eq] at this; rw [← hb'.2]; exact this
              rw [hk', hxat] at hy'
              have := Option.some.inj hy'
              omega
            · omega
      simp only []
      cases found with
      | true =>
        have hin : x ∈ other := hfound.mp rfl
        simp only [↓reduceIte]
        rw [ih (offset + idx + 1) hrr (hnext _ (Or.inl ⟨rfl, rfl⟩))]
        simp [List.filter_cons, hin]
      | false =>
        have hnin : x ∉ other := fun h => by have := hfound.mpr h; cases this
        simp only [Bool.false_eq_true, ↓reduceIte]
        rw [ih (offset + idx) hrr (hnext _ (Or.inr ⟨rfl, rfl⟩))]
        simp [List.filter_cons, hnin]

/-- the general path of `union`, for a duplicate-free other collection -/
theorem unionSlow_spec (orig : List Nat) : ∀ (rest app : List Nat), rest.Nodup → (∀ a ∈ app, a ∉ rest) →
    unionSlow orig app rest = app ++ rest.filter (fun x => !orig.contains x) := by
  intro rest
  induction rest with
  | nil => intro app _ _; simp [unionSlow]
  | cons x rest ih =>
    intro app hnd happ
    have hx : x ∉ rest := (List.nodup_cons.mp hnd).1
    have hr : rest.Nodup := (List.nodup_cons.mp hnd).2
    have hxa : x ∉ app := fun h => happ x h (by simp)
    unfold unionSlow
    by_cases hin : x ∈ orig
    · simp only [List.contains_eq_mem, hin, decide_true, true_or, ↓reduceIte]
      rw [ih app hr (fun a ha h => happ a ha (by simp [h]))]
      simp [List.filter_cons, hin]
    · simp only [List.contains_eq_mem, hin, hxa, decide_false, Bool.false_eq_true, or_self, ↓reduceIte]
      rw [ih (app ++ [x]) hr ?_]
      · simp [List.filter_cons, hin]
      · intro a ha h
        rcases List.mem_append.mp ha with h' | h'
        · exact happ a h' (by simp [h])
        · simp at h'; subst h'; exact hx h

/-! ### insertion and sorting -/

theorem mem_insertSorted (x y : Nat) (l : List Nat) : y ∈ insertSorted x l ↔ y = x ∨ y ∈ l := by
  induction l with
  | nil => simp [insertSorted]
  | cons a r ih =>
    unfold insertSorted
    split
    · simp
    · simp [ih]; constructor <;> (intro h; rcases h with h | h | h <;> simp [h])

theorem strictSorted_insertSorted (x : Nat) (l : List Nat) (hl : StrictSorted l) (hx : x ∉ l) :
    StrictSorted (insertSorted x l) := by
  induction l with
  | nil => simp [insertSorted, StrictSorted]
  | cons a r ih =>
    have hr : StrictSorted r := (List.pairwise_cons.mp hl).2
    have ha : ∀ y ∈ r, a < y := (List.pairwise_cons.mp hl).1
    have hxa : x ≠ a := fun h => hx (by simp [h])
    have hxr : x ∉ r := fun h => hx (by simp [h])
    unfold insertSorted
    split
    · rename_i hle
      apply List.pairwise_cons.mpr
      refine ⟨?_, hl⟩
      intro y hy
      rcases List.mem_cons.mp hy with rfl | hy
      · omega
      · have := ha y hy; omega
    · rename_i hle
      apply List.pairwise_cons.mpr
      refine ⟨?_, ih hr hxr⟩
      intro y hy
      rcases (mem_insertSorted x y r).mp hy with rfl | hy
      · omega
      · exact ha y hy

theorem sortList_spec (l : List Nat) (hl : l.Nodup) : StrictSorted (sortList l) ∧ ∀ y, y ∈ sortList l ↔ y ∈ l := by
  induction l with
  | nil => simp [sortList, StrictSorted]
  | cons a r ih =>
    have hr : r.Nodup := (List.nodup_cons.mp hl).2
    have har : a ∉ r := (List.nodup_cons.mp hl).1
    obtain ⟨h1, h2⟩ := ih hr
    have hs : sortList (a :: r) = insertSorted a (sortList r) := rfl
    rw [hs]
    refine ⟨strictSorted_insertSorted a _ h1 (fun h => har ((h2 a).mp h)), ?_⟩
    intro y
    rw [mem_insertSorted, h2]; simp

theorem strictSorted_nodup (l : List Nat) (h : StrictSorted l) : l.Nodup := by
  unfold StrictSorted at h
  exact List.Pairwise.imp (fun hab => by omega) h

/-- inserting at the lower bound is sorted insertion -/
theorem insert_at_lowerBound (x : Nat) (l : List Nat) :
    l.take (lowerBound l x) ++ x :: l.drop (lowerBound l x) = insertSorted x l := by
  induction l with
  | nil => simp [lowerBound, insertSorted]
  | cons a r ih =>
    by_cases hax : a < x
    · have hlb : lowerBound (a :: r) x = lowerBound r x + 1 := by simp [lowerBound, hax]
      have : ¬ x ≤ a := by omega
      rw [hlb]; simp [insertSorted, this, ih]
    · have hlb : lowerBound (a :: r) x = 0 := by simp [lowerBound, hax]
      have : x ≤ a := by omega
      rw [hlb]; simp [insertSorted, this]

/-! ### what a collection promises -/

/-- the flag tells the truth and there are no duplicates -/
def Truthful (h : H) : Prop := (h.sorted = true → StrictSorted h.arr) ∧ h.arr.Nodup

theorem add_spec (h : H) (x : Nat) (hh : Truthful h) :
    Truthful (add h x) ∧ (∀ y, y ∈ (add h x).arr ↔ y = x ∨ y ∈ h.arr) ∧ (add h x).sorted = h.sorted := by
  unfold add
  cases hs : h.sorted with
  | true =>
    have hsrt := hh.1 hs
    simp only [↓reduceIte]
    cases hb : bsearch h.arr x with
    | mk found pos =>
      have hf : found = true ↔ x ∈ h.arr := by have := bsearch_found_iff h.arr x hsrt; rw [hb] at this; exact this
      have hpos : pos = lowerBound h.arr x := by unfold bsearch at hb; simp only [Prod.mk.injEq] at hb; exact hb.2.symm
      simp only []
      cases found with
      | true =>
        have hin := hf.mp rfl
        simp only [↓reduceIte]
        refine ⟨hh, fun y => ⟨fun h' => Or.inr h', fun h' => ?_⟩, hs⟩
        rcases h' with h' | h'
        · rw [h']; exact hin
        · exact h'
      | false =>
        have hnin : x ∉ h.arr := fun h' => by have := hf.mpr h'; cases this
        simp only [Bool.false_eq_true, ↓reduceIte]
        rw [hpos, insert_at_lowerBound]
        have hss := strictSorted_insertSorted x h.arr hsrt hnin
        exact ⟨⟨fun _ => hss, strictSorted_nodup _ hss⟩, fun y => mem_insertSorted x y h.arr, trivial⟩
  | false =>
    simp only [Bool.false_eq_true, ↓reduceIte]
    by_cases hin : x ∈ h.arr
    · simp only [List.contains_eq_mem, hin, decide_true, ↓reduceIte]
      refine ⟨hh, fun y => ⟨fun h' => Or.inr h', fun h' => ?_⟩, hs⟩
      rcases h' with h' | h'
      · rw [h']; exact hin
      · exact h'
    · simp only [List.contains_eq_mem, hin, decide_false, Bool.false_eq_true, ↓reduceIte]
      refine ⟨⟨(fun h' => by cases h'), ?_⟩, (fun y => by simp [or_comm]), trivial⟩
      exact List.nodup_append.mpr ⟨hh.2, by simp, by intro a ha b hb; simp at hb; subst hb; intro h'; subst h'; exact hin ha⟩

/-- two strictly sorted lists with the same elements are the same list -/
theorem strictSorted_ext : ∀ (a b : List Nat), StrictSorted a → StrictSorted b → (∀ x, x ∈ a ↔ x ∈ b) → a = b := by
  intro a
  induction a with
  | nil =>
    intro b _ _ h
    cases b with
    | nil => rfl
    | cons y _ => exact absurd ((h y).mpr (by simp)) (by simp)
  | cons x a ih =>
    intro b ha hb h
    cases b with
    | nil => exact absurd ((h x).mp (by simp)) (by simp)
    | cons y b =>
      have hxa : ∀ z ∈ a, x < z := (List.pairwise_cons.mp ha).1
      have hyb : ∀ z ∈ b, y < z := (List.pairwise_cons.mp hb).1
      have hxy : x = y := by
        have h1 := (h x).mp (by simp)
        have h2 := (h y).mpr (by simp)
        rcases List.mem_cons.mp h1 with e | e
        · exact e
        · rcases List.mem_cons.mp h2 with e' | e'
          · exact e'.symm
          · have := hyb x e; have := hxa y e'; omega
      subst hxy
      congr 1
      apply ih b (List.pairwise_cons.mp ha).2 (List.pairwise_cons.mp hb).2
      intro z
      constructor
      · intro hz
        have := (h z).mp (by simp [hz])
        rcases List.mem_cons.mp this with e | e
        · have := hxa z hz; omega
        · exact e
      · intro hz
        have := (h z).mpr (by simp [hz])
        rcases List.mem_cons.mp this with e | e
        · have := hyb z hz; omega
        · exact e

theorem strictSorted_filter (l : List Nat) (p : Nat → Bool) (h : StrictSorted l) : StrictSorted (l.filter p) :=
  List.Pairwise.sublist (List.filter_sublist) h

/-- **C08 (intersection).** For collections whose flags tell the truth, `intersection` leaves exactly the elements
of this collection that also occur in the other one, in this collection's order, and keeps the flag. -/
theorem inter_spec (h o : H) (hh : Truthful h) (ho : Truthful o) :
    (inter h o).arr = h.arr.filter (fun x => o.arr.contains x) ∧ (inter h o).sorted = h.sorted := by
  unfold inter
  split
  · rename_i he
    refine ⟨?_, rfl⟩
    rcases he with he | he
    · have : h.arr = [] := by cases h' : h.arr <;> simp_all
      simp [this]
    · have : o.arr = [] := by cases h' : o.arr <;> simp_all
      simp [this]
  · split
    · rename_i heq
      refine ⟨?_, rfl⟩
      rw [← heq.2.2.2]
      symm; apply List.filter_eq_self.mpr; intro a ha; simpa using ha
    · split
      · rename_i hsub
        refine ⟨?_, rfl⟩
        obtain ⟨_, hs1, hs2, hsubset⟩ := hsub
        have h1 := hh.1 hs1
        have h2 := ho.1 hs2
        apply strictSorted_ext _ _ h2 (strictSorted_filter _ _ h1)
        intro x
        simp only [List.mem_filter, List.contains_eq_mem, decide_eq_true_eq]
        constructor
        · intro hx
          refine ⟨?_, hx⟩
          unfold isSubset at hsubset
          have := List.all_eq_true.mp hsubset x hx
          simpa using this
        · intro hx; exact hx.2
      · split
        · rename_i hsub
          refine ⟨?_, rfl⟩
          symm; apply List.filter_eq_self.mpr
          intro a ha
          unfold isSubset at hsub
          have := List.all_eq_true.mp hsub.2 a ha
          simpa using this
        · split
          · rename_i hboth
            refine ⟨?_, rfl⟩
            exact interFast_spec o.arr (ho.1 hboth.2) h.arr 0 (hh.1 hboth.1) (by intro k y hk; omega)
          · exact ⟨rfl, rfl⟩

/-- **C08 (union).** For collections whose flags tell the truth, `union` holds exactly the elements of both, each
once, and its flag still tells the truth. -/
theorem union_spec (h o : H) (hh : Truthful h) (ho : Truthful o) :
    Truthful (union h o) ∧ ∀ x, x ∈ (union h o).arr ↔ x ∈ h.arr ∨ x ∈ o.arr := by
  unfold union
  split
  · rename_i he
    exact ⟨hh, fun x => by simp [he]⟩
  · rename_i y he
    obtain ⟨h1, h2, _⟩ := add_spec h y hh
    exact ⟨h1, fun x => by rw [h2 x, he]; simp [or_comm]⟩
  · -- the general case: what is appended is the other collection minus this one
    have happ : (if h.sorted = true ∧ o.sorted = true then unionFast h.arr 0 [] o.arr else unionSlow h.arr [] o.arr)
        = o.arr.filter (fun x => !h.arr.contains x) := by
      split
      · rename_i hb
        have := unionFast_spec h.arr (hh.1 hb.1) o.arr 0 [] (ho.1 hb.2) (by intro k y hk; omega) (by simp)
        simpa using this
      · have := unionSlow_spec h.arr o.arr [] ho.2 (by simp)
        simpa using this
    simp only [happ]
    have hnd : (h.arr ++ o.arr.filter (fun x => !h.arr.contains x)).Nodup := by
      apply List.nodup_append.mpr
      refine ⟨hh.2, List.Nodup.sublist List.filter_sublist ho.2, ?_⟩
      intro a ha b hb hab
      subst hab
      simp only [List.mem_filter, List.contains_eq_mem, Bool.not_eq_eq_eq_not, Bool.not_true, decide_eq_false_iff_not] at hb
      exact hb.2 ha
    have hmem : ∀ x, x ∈ h.arr ++ o.arr.filter (fun x => !h.arr.contains x) ↔ x ∈ h.arr ∨ x ∈ o.arr := by
      intro x
      simp only [List.mem_append, List.mem_filter, List.contains_eq_mem, Bool.not_eq_eq_eq_not, Bool.not_true, decide_eq_false_iff_not]
      constructor
      · intro hx; rcases hx with hx | hx
        · exact Or.inl hx
        · exact Or.inr hx.1
      · intro hx; rcases hx with hx | hx
        · exact Or.inl hx
        · by_cases hin : x ∈ h.arr
          · exact Or.inl hin
          · exact Or.inr ⟨hx, hin⟩
    split
    · obtain ⟨s1, s2⟩ := sortList_spec _ hnd
      exact ⟨⟨fun _ => s1, strictSorted_nodup _ s1⟩, fun x => by rw [s2 x, hmem x]⟩
    · rename_i hns
      refine ⟨⟨?_, hnd⟩, hmem⟩
      intro hs
      -- the flag is set and nothing was appended
      have hemp : (o.arr.filter (fun x => !h.arr.contains x)) = [] := by
        have : (o.arr.filter (fun x => !h.arr.contains x)).isEmpty = true := by
          by_cases he : (o.arr.filter (fun x => !h.arr.contains x)).isEmpty = true
          · exact he
          · exact absurd ⟨hs, he⟩ hns
        exact List.isEmpty_iff.mp this
      rw [hemp, List.append_nil]
      exact hh.1 hs

/-- `Handles::from_iter` sets the flag truthfully (for a duplicate-free list) -/
theorem noDescent_sorted : ∀ (l : List Nat), noDescent l = true → l.Pairwise (· ≤ ·) := by
  intro l
  induction l with
  | nil => intro _; exact List.Pairwise.nil
  | cons a r ih =>
    intro h
    cases r with
    | nil => simp
    | cons b r' =>
      unfold noDescent at h
      split at h
      · cases h
      · rename_i hab
        have hr := ih h
        apply List.pairwise_cons.mpr
        refine ⟨?_, hr⟩
        intro y hy
        rcases List.mem_cons.mp hy with rfl | hy
        · omega
        · have := (List.pairwise_cons.mp hr).1 y hy; omega

theorem fromIter_truthful (l : List Nat) (hl : l.Nodup) : Truthful (fromIter l) := by
  refine ⟨?_, hl⟩
  intro hs
  have hle := noDescent_sorted l hs
  unfold StrictSorted
  have hboth : l.Pairwise (fun a b => a ≤ b ∧ a ≠ b) := List.Pairwise.and hle hl
  exact List.Pairwise.imp (fun h => by omega) hboth

end Stam.Coll
