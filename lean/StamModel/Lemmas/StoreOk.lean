import StamModel.Lemmas.StoreOps
/-
  Removal succeeds whenever the item exists (C02): the cascade's recursion is well-founded because an
  annotation can only target annotations that existed before it.
-/
namespace Stam

/-- an annotation only targets annotations with a smaller handle -/
def TargetsLt (s : State) : Prop := ∀ x a, getLive s.anns x = some a → ∀ t, Key.ann t ∈ a.fwd → t < x

theorem TargetsLt.of_sub {s s' : State} (h : TargetsLt s) (hs : Sub s s') : TargetsLt s' := by
  intro x a' hx t ht
  obtain ⟨a, ha, _, _, hk⟩ := hs x a' hx
  exact h x a ha t (hk _ ht)

theorem DependsOn.le {s : State} (ht : TargetsLt s) {d y : Nat} (hd : DependsOn s d y) : d ≤ y := by
  induction hd with
  | self => exact Nat.le_refl _
  | step htg _ ih => obtain ⟨a, ha, hk⟩ := htg; have := ht _ a ha _ hk; omega

theorem removeAnn_ok : ∀ (fuel : Nat) (s : State) (h : Nat), Inv s → TargetsLt s →
    (getLive s.anns h).isSome → s.anns.length - h < fuel → ∃ s', State.removeAnn fuel s h = some s' := by
  intro fuel
  induction fuel with
  | zero => intro s h _ _ _ hf; omega
  | succ fuel ih =>
    intro s h hi ht hl hf
    simp only [State.removeAnn]
    cases hla : getLive s.anns h with
    | none => simp [hla] at hl
    | some a0 =>
      simp only []
      have hhlt := getLive_lt _ _ _ hla
      -- the fold over the dependants succeeds
      have hfold : ∀ (ds : List Nat) (st : State), Inv st → TargetsLt st → st.anns.length = s.anns.length →
          (∀ d ∈ ds, h < d) →
          ∃ st', ds.foldl (fun acc d => acc.bind (fun st => if (getLive st.anns d).isSome then State.removeAnn fuel st d else some st)) (some st) = some st' := by
        intro ds
        induction ds with
        | nil => intro st _ _ _ _; exact ⟨st, rfl⟩
        | cons d ds ihd =>
          intro st hist htst hlen hds
          simp only [List.foldl_cons, Option.bind_some]
          have hd : h < d := hds d (by simp)
          by_cases hld : (getLive st.anns d).isSome
          · simp only [hld, if_true]
            obtain ⟨s1, hs1⟩ := ih st d hist htst hld (by rw [hlen]; omega)
            rw [hs1]
            have r := removeAnn_removed fuel st s1 d hist hs1
            exact ihd s1 r.inv (htst.of_sub (Sub.of_mono r.mono)) (by rw [r.len, hlen]) (fun x hx => hds x (by simp [hx]))
          · simp only [hld, if_false]
            exact ihd st hist htst hlen (fun x hx => hds x (by simp [hx]))
      have hdeps : ∀ d ∈ s.lookup (.ann h), h < d := by
        intro d hd
        obtain ⟨ad, had, hkd⟩ := (hi.mem _ _).1 ((mem_lookup' s (.ann h) d).1 hd)
        exact ht d ad had h hkd
      obtain ⟨st, hst⟩ := hfold (s.lookup (.ann h)) s hi ht rfl hdeps
      rw [hst]
      simp only [Option.bind_some]
      obtain ⟨_, _, i3, _, _, _, _, i8⟩ := fold_removed (State.removeAnn fuel)
        (fun s d s' hi _ hf => removeAnn_removed fuel s s' d hi hf) (s.lookup (.ann h)) s st hi hst
      -- `h` itself is still there: only dependants of the dependants were removed
      cases hlst : getLive st.anns h with
      | none =>
        obtain ⟨d, hd, hdep⟩ := i8 h (by simp [hla]) hlst
        have := hdep.le ht
        have := hdeps d hd
        omega
      | some a => exact ⟨_, rfl⟩

theorem removeAnnIfPresent_ok (s : State) (h : Nat) (hi : Inv s) (ht : TargetsLt s) :
    ∃ s', s.removeAnnIfPresent h = some s' := by
  unfold State.removeAnnIfPresent
  split
  · rename_i hl
    exact removeAnn_ok _ s h hi ht hl (by unfold State.fuel; omega)
  · exact ⟨s, rfl⟩

theorem removeAll_ok : ∀ (hs : List Nat) (s : State), Inv s → TargetsLt s → ∃ s', s.removeAll hs = some s' := by
  intro hs
  induction hs with
  | nil => intro s _ _; exact ⟨s, rfl⟩
  | cons d ds ih =>
    intro s hi ht
    simp only [State.removeAll, List.foldl_cons, Option.bind_some]
    obtain ⟨s1, hs1⟩ := removeAnnIfPresent_ok s d hi ht
    rw [hs1]
    obtain ⟨r1, _, r3, _, _, _⟩ := removeAnnIfPresent_spec s s1 d hi hs1
    exact ih s1 r1 (ht.of_sub (Sub.of_mono r3))

/-- **removing an annotation that exists succeeds** -/
theorem rmAnn_ok (s : State) (r : Ref) (h : Nat) (hi : Inv s) (ht : TargetsLt s)
    (hres : s.annHandleOf r = some h)
    (hl : (getLive s.anns h).isSome) : (s.rmAnn r).1 = .ok "-" := by
  unfold State.rmAnn
  rw [hres]
  simp only [Option.bind_some]
  obtain ⟨s1, hs1⟩ := removeAnn_ok s.fuel s h hi ht hl (by unfold State.fuel; omega)
  rw [hs1]

/-- **removing a resource that exists succeeds** -/
theorem rmRes_ok (s : State) (id : String) (rh : Nat) (hi : Inv s) (ht : TargetsLt s)
    (hres : s.lookupRes id = some rh) : (s.rmRes id).1 = .ok "-" := by
  unfold State.rmRes
  simp only [hres]
  obtain ⟨s1, hs1⟩ := removeAll_ok (s.lookup (.resMeta rh)) s hi ht
  rw [hs1]
  obtain ⟨i1, _, i3, _, _, _⟩ := removeAll_spec _ s s1 hi hs1
  simp only []
  generalize dedupSorted _ = l
  obtain ⟨s2, hs2⟩ := removeAll_ok l s1 i1 (ht.of_sub (Sub.of_mono i3))
  rw [hs2]

/-- **removing a dataset that exists succeeds** -/
theorem rmSet_ok (s : State) (id : String) (sh : Nat) (hi : Inv s) (ht : TargetsLt s)
    (hres : s.lookupSet id = some sh) : (s.rmSet id).1 = .ok "-" := by
  unfold State.rmSet
  simp only [hres]
  generalize hl : dedupSorted _ = l
  obtain ⟨s1, hs1⟩ := removeAll_ok l s hi ht
  rw [hs1]
  obtain ⟨i1, _, i3, _, _, _⟩ := removeAll_spec _ s s1 hi hs1
  simp only []
  obtain ⟨s2, hs2⟩ := removeAll_ok (s1.lookup (.setMeta sh)) s1 i1 (ht.of_sub (Sub.of_mono i3))
  rw [hs2]

end Stam
