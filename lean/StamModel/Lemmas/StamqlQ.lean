import StamModel.StamqlQ
import StamModel.Props.C09Constraints
/-
  Lemmas for the query layer of STAMQL (C09): words, white space, the head of a SELECT query, the constraint loop.
-/
namespace Stam.QL
open Stam.QL.C09

/-! ## white space and words -/

theorem split_is_ws (c : Char) (h : isSplit c = true) : isWs c = true := by
  have : c = ' ' ∨ c = '\n' ∨ c = '\r' ∨ c = '\t' := by simpa [isSplit] using h
  rcases this with rfl | rfl | rfl | rfl <;> decide

theorem trimStart_ws_append (w s : Str) (hw : ∀ c ∈ w, isWs c = true) : trimStart (w ++ s) = trimStart s := by
  induction w with
  | nil => rfl
  | cons c cs ih =>
    have hc := hw c (by simp)
    simp only [List.cons_append, trimStart, hc, ↓reduceIte]
    exact ih (fun x hx => hw x (by simp [hx]))

theorem trimStart_head_nonws (s : Str) (c : Char) (r : Str) (h : trimStart s = c :: r) : isWs c = false := by
  induction s with
  | nil => simp [trimStart] at h
  | cons d ds ih =>
    by_cases hd : isWs d = true
    · simp only [trimStart, hd, ↓reduceIte] at h; exact ih h
    · simp only [trimStart, hd, Bool.false_eq_true, ↓reduceIte, List.cons.injEq] at h
      obtain ⟨rfl, _⟩ := h
      simpa using hd

theorem trimStart_idem (s : Str) : trimStart (trimStart s) = trimStart s := by
  cases h : trimStart s with
  | nil => rfl
  | cons c r => exact trimStart_cons_nonws c r (trimStart_head_nonws s c r h)

/-- a word: no split character in it -/
def Word (w : Str) : Prop := ∀ x ∈ w, isSplit x = false

/-- the text is empty or begins with a split character -/
def SplitStart (y : Str) : Prop := y = [] ∨ ∃ c r, y = c :: r ∧ isSplit c = true

theorem firstWord_append (w y : Str) (hw : Word w) (hy : SplitStart y) : firstWord (w ++ y) = w := by
  unfold firstWord
  induction w with
  | nil =>
    rcases hy with rfl | ⟨c, r, rfl, hc⟩
    · rfl
    · simp [List.takeWhile, hc]
  | cons c cs ih =>
    have hc := hw c (by simp)
    simp only [List.cons_append, List.takeWhile, hc, Bool.not_false]
    rw [ih (fun x hx => hw x (by simp [hx]))]

theorem firstWord_self (w : Str) (hw : Word w) : firstWord w = w := by
  have := firstWord_append w [] hw (Or.inl rfl)
  simpa using this

theorem drop_append_self (w y : Str) : (w ++ y).drop w.length = y := by
  induction w with
  | nil => rfl
  | cons c cs ih => simpa using ih

theorem trim_id (c : Char) (t : Str) (hc : isWs c = false) (h : NoTrailWs (c :: t)) : trim (c :: t) = c :: t := by
  unfold trim
  rw [trimStart_cons_nonws c t hc]
  exact trimEnd_of_last _ h

theorem noTrail_suffix (a b : Str) (hb : b ≠ []) (h : NoTrailWs b) : NoTrailWs (a ++ b) := by
  intro x hx
  have : (a ++ b).getLast? = b.getLast? := by
    rw [List.getLast?_append]
    cases hl : b.getLast? with
    | none => simp at hl; exact absurd hl hb
    | some z => simp
  rw [this] at hx
  exact h x hx

/-! ## names -/

/-- a name that is printed and read back: no white space in it, not ending in a semicolon -/
def NameOk (n : Str) : Prop := (∀ c ∈ n, isWs c = false) ∧ n.getLast? ≠ some ';'

theorem nameOk_word (n : Str) (h : NameOk n) : Word n := by
  intro x hx
  have := h.1 x hx
  cases hs : isSplit x with
  | false => rfl
  | true => rw [split_is_ws x hs] at this; exact absurd this (by decide)

theorem trimEndSemis_id (n : Str) (h : n.getLast? ≠ some ';') : trimEndSemis n = n := by
  unfold trimEndSemis
  cases hr : n.reverse with
  | nil => have : n = [] := by simpa using hr
           subst this; rfl
  | cons c t =>
    have hl : n.getLast? = some c := by
      have : n = (c :: t).reverse := by rw [← hr, List.reverse_reverse]
      rw [this]; simp
    have hc : c ≠ ';' := by intro hc; subst hc; exact h hl
    simp only [List.dropWhile, hc, decide_false]
    rw [← hr, List.reverse_reverse]

theorem parseName_some (n y : Str) (hn : NameOk n) (hy : SplitStart y) :
    parseName ('?' :: n ++ y) = (some n, trimStart y) := by
  simp only [List.cons_append, parseName]
  rw [firstWord_append n y (nameOk_word n hn) hy, trimEndSemis_id n hn.2, drop_append_self]

theorem parseName_none (y : Str) (hy : y.head? ≠ some '?') : parseName y = (none, y) := by
  cases y with
  | nil => rfl
  | cons c r =>
    have : c ≠ '?' := by intro h; subst h; simp at hy
    unfold parseName
    split
    · rename_i r' heq; simp only [List.cons.injEq] at heq; exact absurd heq.1 this
    · rfl

/-! ## the head of a SELECT query -/

theorem upper_word (ty : RType) : Word ty.upper := by
  cases ty <;> (unfold Word RType.upper; decide)

theorem parseType_upper (ty : RType) : parseType ty.upper = some ty := by
  cases ty <;> decide

theorem word_kSELECT : Word kSELECT := by unfold Word kSELECT; decide
theorem word_kOPTIONAL : Word kOPTIONAL := by unfold Word kOPTIONAL; decide
theorem word_kWHERE : Word kWHERE := by unfold Word kWHERE; decide

theorem upper_ne_optional (ty : RType) : ty.upper ≠ kOPTIONAL := by cases ty <;> decide

theorem splitStart_space (y : Str) : SplitStart (' ' :: y) := Or.inr ⟨' ', y, rfl, by decide⟩

theorem trimStart_upper (ty : RType) (y : Str) : trimStart (ty.upper ++ y) = ty.upper ++ y := by
  cases ty <;> exact trimStart_cons_nonws _ _ (by decide)

theorem parseTypeName_printed (ty : RType) (name : Option Str) (y : Str)
    (hn : ∀ n, name = some n → NameOk n) (hy : SplitStart y) (hq : name = none → (trimStart y).head? ≠ some '?') :
    parseTypeName (ty.upper ++ (nameText name ++ y)) = some (ty, name, trimStart y) := by
  have tailSplit : SplitStart (nameText name ++ y) := by
    cases name with
    | none => simpa [nameText] using hy
    | some n => exact Or.inr ⟨' ', _, rfl, by decide⟩
  have afterType : parseName (trimStart (nameText name ++ y)) = (name, trimStart y) := by
    cases name with
    | none =>
      simp only [nameText, List.nil_append]
      exact parseName_none _ (hq rfl)
    | some n =>
      simp only [nameText, List.cons_append, List.nil_append, trimStart_space]
      rw [trimStart_cons_nonws '?' _ (by decide)]
      exact parseName_some n y (hn n rfl) hy
  unfold parseTypeName
  rw [firstWord_append _ _ (upper_word ty) tailSplit, parseType_upper]
  simp only [drop_append_self, afterType]

theorem parseOptional_yes (y : Str) : parseOptional (kOPTIONAL ++ ' ' :: y) = (true, trimStart y) := by
  unfold parseOptional
  rw [firstWord_append _ _ word_kOPTIONAL (splitStart_space _)]
  simp only [↓reduceIte]
  have : (kOPTIONAL ++ ' ' :: y).drop 8 = ' ' :: y := drop_append_self kOPTIONAL _
  rw [this, trimStart_space]

theorem parseOptional_no (ty : RType) (y : Str) (hy : SplitStart y) : parseOptional (ty.upper ++ y) = (false, ty.upper ++ y) := by
  unfold parseOptional
  rw [firstWord_append _ _ (upper_word ty) hy, if_neg (upper_ne_optional ty)]

/-- the printed head, followed by the end or a split character, is read back -/
theorem parseHead_printed (optional : Bool) (ty : RType) (name : Option Str) (y : Str)
    (hn : ∀ n, name = some n → NameOk n) (hy : SplitStart y) (hq : name = none → (trimStart y).head? ≠ some '?') :
    parseHead (headText optional ty name ++ y) = some (optional, ty, name, trimStart y) := by
  have tailSplit : SplitStart (nameText name ++ y) := by
    cases name with
    | none => simpa [nameText] using hy
    | some n => exact Or.inr ⟨' ', _, rfl, by decide⟩
  have hdrop : ∀ z : Str, (kSELECT ++ ' ' :: z).drop 6 = ' ' :: z := fun z => drop_append_self kSELECT _
  unfold parseHead headText
  cases optional with
  | true =>
    simp only [↓reduceIte, List.append_assoc, List.singleton_append, List.cons_append, List.nil_append]
    rw [hdrop, trimStart_space, show kOPTIONAL ++ ' ' :: (ty.upper ++ (nameText name ++ y)) = 'O' :: (kOPTIONAL.tail ++ ' ' :: (ty.upper ++ (nameText name ++ y))) from rfl,
      trimStart_cons_nonws 'O' _ (by decide),
      show 'O' :: (kOPTIONAL.tail ++ ' ' :: (ty.upper ++ (nameText name ++ y))) = kOPTIONAL ++ ' ' :: (ty.upper ++ (nameText name ++ y)) from rfl,
      parseOptional_yes, trimStart_upper, parseTypeName_printed ty name y hn hy hq]
  | false =>
    simp only [Bool.false_eq_true, ↓reduceIte, List.append_assoc, List.singleton_append, List.nil_append, List.cons_append]
    rw [hdrop, trimStart_space, trimStart_upper, parseOptional_no ty _ tailSplit, parseTypeName_printed ty name y hn hy hq]

/-! ## WHERE -/

theorem whereStep_where (y : Str) (hy : SplitStart y) : whereStep (kWHERE ++ y) = some (trimStart y) := by
  unfold whereStep
  rw [firstWord_append _ _ word_kWHERE hy]
  simp only [↓reduceIte]
  have : (kWHERE ++ y).drop 5 = y := drop_append_self kWHERE _
  rw [this]

theorem whereStep_stop (q : Str) (h : firstWord q = ['{'] ∨ firstWord q = ['}'] ∨ firstWord q = ['|'] ∨ firstWord q = []) :
    whereStep q = some q := by
  unfold whereStep
  have hne : firstWord q ≠ kWHERE := by
    rcases h with h | h | h | h <;> rw [h] <;> decide
  simp only [if_neg hne, if_pos h]

/-! ## the constraint loop -/

/-- the lines of the WHERE clause as they follow the keyword: a newline and a tab before each constraint -/
def chain : List Str → Str → Str
  | [], rest => rest
  | t :: ts, rest => '\n' :: '\t' :: t ++ chain ts rest

/-- a constraint with its printed text: it is read back from that text whatever follows, and the text begins with a
character that is neither white space nor one of the characters that end the WHERE clause -/
def CnGood (E : Ext) (showI : Int → Str) (c : Cn) (t : Str) : Prop :=
  printCn showI c = some t ∧ NoTrailWs t ∧
  (∃ c0 r0, t = c0 :: r0 ∧ isWs c0 = false ∧ stopChar c0 = false) ∧
  ∀ rest, NoTrailWs rest → E.cn (t ++ rest) = .ok (c, trimStart rest)

theorem noTrail_chain (l : List Str) (rest : Str) (hl : ∀ t ∈ l, NoTrailWs t ∧ t ≠ []) (hr : NoTrailWs rest) :
    NoTrailWs (chain l rest) := by
  induction l with
  | nil => exact hr
  | cons t ts ih =>
    have ht := hl t (by simp)
    have ih' := ih (fun x hx => hl x (by simp [hx]))
    unfold chain
    by_cases he : chain ts rest = []
    · rw [he, List.append_nil]
      exact noTrail_suffix ['\n', '\t'] t ht.2 ht.1
    · have := noTrail_suffix ('\n' :: '\t' :: t) (chain ts rest) he ih'
      simpa using this

theorem atStop_trimStart (q : Str) : atStop (trimStart q) = atStop q := by
  unfold atStop; rw [trimStart_idem]

theorem cnLoop_printed (E : Ext) (showI : Int → Str) :
    ∀ (l : List (Cn × Str)), (∀ p ∈ l, CnGood E showI p.1 p.2) →
      ∀ (rest : Str) (acc : List Cn) (f : Nat), NoTrailWs rest → (trimStart rest = [] ∨ atStop rest = true) → l.length < f →
        cnLoop E f (trimStart (chain (l.map (·.2)) rest)) acc = .ok (acc ++ l.map (·.1), trimStart rest) := by
  intro l
  induction l with
  | nil =>
    intro _ rest acc f _ hstop hf
    obtain ⟨f', rfl⟩ : ∃ f', f = f' + 1 := ⟨f - 1, by omega⟩
    simp only [List.map_nil, chain, List.append_nil]
    unfold cnLoop
    rcases hstop with h | h
    · simp [h]
    · rw [atStop_trimStart, h]; simp
  | cons p l ih =>
    intro hg rest acc f hr hstop hf
    obtain ⟨f', rfl⟩ : ∃ f', f = f' + 1 := ⟨f - 1, by omega⟩
    obtain ⟨_, hnt, ⟨c0, r0, ht, hws, hsc⟩, hrt⟩ := hg p (by simp)
    have hl : ∀ t ∈ l.map (·.2), NoTrailWs t ∧ t ≠ [] := by
      intro t ht'
      obtain ⟨q, hq, rfl⟩ := List.mem_map.mp ht'
      obtain ⟨_, h1, ⟨c1, r1, h2, _, _⟩, _⟩ := hg q (by simp [hq])
      exact ⟨h1, by rw [h2]; simp⟩
    have hchain := noTrail_chain (l.map (·.2)) rest hl hr
    have hstart : trimStart (chain ((p :: l).map (·.2)) rest) = p.2 ++ chain (l.map (·.2)) rest := by
      simp only [List.map_cons, chain]
      rw [show '\n' :: '\t' :: p.2 ++ chain (l.map (·.2)) rest = ['\n', '\t'] ++ (p.2 ++ chain (l.map (·.2)) rest) from rfl,
        trimStart_ws_append _ _ (by decide), ht]
      exact trimStart_cons_nonws c0 _ hws
    rw [hstart]
    unfold cnLoop
    have hne : (p.2 ++ chain (l.map (·.2)) rest).isEmpty = false := by rw [ht]; rfl
    have hns : atStop (p.2 ++ chain (l.map (·.2)) rest) = false := by
      unfold atStop
      rw [ht, List.cons_append, trimStart_cons_nonws c0 _ hws]
      simpa using hsc
    simp only [hne, hns, Bool.or_self, Bool.false_eq_true, ↓reduceIte, hrt _ hchain]
    rw [ih (fun q hq => hg q (by simp [hq])) rest (acc ++ [p.1]) f' hr hstop (by simpa using hf)]
    simp

theorem chain_append (ts : List Str) (a b : Str) : chain ts a ++ b = chain ts (a ++ b) := by
  induction ts with
  | nil => rfl
  | cons t ts ih => simp only [chain, List.cons_append, List.append_assoc, ih]

/-- the lines `to_string` writes are the chain followed by a newline -/
theorem lines_chain (ts : List Str) : '\n' :: (ts.map (fun t => '\t' :: t ++ ['\n'])).flatten = chain ts ['\n'] := by
  induction ts with
  | nil => rfl
  | cons t ts ih =>
    simp only [List.map_cons, List.flatten_cons, chain, List.cons_append, List.append_assoc, List.nil_append]
    simp only [List.cons_append] at ih
    rw [ih]

theorem optAll_length {α} : ∀ (l : List (Option α)) (r : List α), optAll l = some r → r.length = l.length := by
  intro l
  induction l with
  | nil => intro r h; simp [optAll] at h; subst h; rfl
  | cons x xs ih =>
    intro r h
    cases x with
    | none => simp [optAll] at h
    | some v =>
      simp only [optAll, Option.map_eq_some_iff] at h
      obtain ⟨r', hr', rfl⟩ := h
      simp [ih r' hr']

/-- the constraints with their printed texts, as one list of pairs -/
theorem pairs_of (E : Ext) (showI : Int → Str) : ∀ (cs : List Cn) (ts : List Str),
    (∀ c ∈ cs, ∃ t, CnGood E showI c t) → optAll (cs.map (printCn showI)) = some ts →
    ∃ l : List (Cn × Str), l.map (·.1) = cs ∧ l.map (·.2) = ts ∧ ∀ p ∈ l, CnGood E showI p.1 p.2 := by
  intro cs
  induction cs with
  | nil => intro ts _ h; simp [optAll] at h; subst h; exact ⟨[], rfl, rfl, by simp⟩
  | cons c cs ih =>
    intro ts hg h
    obtain ⟨t, ht⟩ := hg c (by simp)
    simp only [List.map_cons, ht.1, optAll, Option.map_eq_some_iff] at h
    obtain ⟨ts', hts', rfl⟩ := h
    obtain ⟨l, h1, h2, h3⟩ := ih ts' (fun x hx => hg x (by simp [hx])) hts'
    refine ⟨(c, t) :: l, by simp [h1], by simp [h2], ?_⟩
    intro p hp
    rcases List.mem_cons.mp hp with rfl | hp
    · exact ht
    · exact h3 p hp

/-! ## what may follow a printed query -/

/-- the text after a printed query: it does not end in white space, it is empty or begins with a split character, and
its first word is nothing, a closing brace or a bar -/
def GoodRest (rest : Str) : Prop :=
  NoTrailWs rest ∧ SplitStart rest ∧
  (firstWord (trimStart rest) = [] ∨ firstWord (trimStart rest) = ['}'] ∨ firstWord (trimStart rest) = ['|'])

theorem firstWord_nil_of_trimmed (s : Str) (h : firstWord (trimStart s) = []) : trimStart s = [] := by
  cases ht : trimStart s with
  | nil => rfl
  | cons c r =>
    have hc := trimStart_head_nonws s c r ht
    rw [ht] at h
    have hs : isSplit c = false := by
      cases hsp : isSplit c with
      | false => rfl
      | true => rw [split_is_ws c hsp] at hc; exact absurd hc (by decide)
    simp [firstWord, List.takeWhile, hs] at h

theorem firstWord_head (s : Str) (c : Char) (h : firstWord s = [c]) : s.head? = some c := by
  cases s with
  | nil => simp [firstWord] at h
  | cons d r =>
    simp only [firstWord, List.takeWhile] at h
    split at h
    · simp only [List.cons.injEq] at h; simp [h.1]
    · simp at h

theorem goodRest_head (rest : Str) (h : GoodRest rest) :
    trimStart rest = [] ∨ (trimStart rest).head? = some '}' ∨ (trimStart rest).head? = some '|' := by
  rcases h.2.2 with h | h | h
  · exact Or.inl (firstWord_nil_of_trimmed rest h)
  · exact Or.inr (Or.inl (firstWord_head _ _ h))
  · exact Or.inr (Or.inr (firstWord_head _ _ h))

theorem goodRest_stop (rest : Str) (h : GoodRest rest) : trimStart rest = [] ∨ atStop rest = true := by
  rcases goodRest_head rest h with h | h | h
  · exact Or.inl h
  · right; unfold atStop; rw [h]; rfl
  · right; unfold atStop; rw [h]; rfl

theorem goodRest_nil : GoodRest [] := ⟨fun _ h => by simp at h, Or.inl rfl, Or.inl rfl⟩

end Stam.QL
