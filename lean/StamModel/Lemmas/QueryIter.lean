import StamModel.QueryIter
/-
  Lemmas for C08's sub-query clause: the QueryIter state machine without OPTIONAL levels enumerates the nested
  iteration. `below d t` is the specification for a chain of `d` further non-optional levels under `t`.
-/
namespace Stam.QI
variable {α : Type}

/-- rows under `t` with `d` further (non-optional) levels -/
def below : Nat → Tree α → List (List α)
  | 0, t => [[t.label]]
  | d + 1, t => (t.kids.flatMap (below d)).map (t.label :: ·)

def NoOpt (opt : List Bool) : Prop := ∀ i : Nat, opt[i]?.getD false = false

def Good (st : List (St α)) : Prop := ∀ s ∈ st, s.done = false ∧ s.result.isSome = true

def Semi : List (St α) → Prop
  | [] => True
  | s :: rest => s.done = false ∧ Good rest

theorem Good.semi {st : List (St α)} (h : Good st) : Semi st := by
  cases st with
  | nil => trivial
  | cons s rest => exact ⟨(h s (by simp)).1, fun q hq => h q (by simp [hq])⟩

/-- what the iterators on the stack still stand for: for each state, the rows under the items its iterator has left -/
def pendRest (n : Nat) : List (St α) → List (List α)
  | [] => []
  | s :: rest => (s.iter.flatMap (below (n - (rest.length + 1)))).map (row rest ++ ·) ++ pendRest n rest

/-- … plus the rows under the item the top state holds now -/
def pendTop (n : Nat) : List (St α) → List (List α)
  | [] => []
  | s :: rest =>
    (match s.result with
      | some t => (below (n - (rest.length + 1)) t).map (row rest ++ ·)
      | none => []) ++ pendRest n (s :: rest)

/-! ### next_state -/

/-- what `next_state` does when no level is OPTIONAL: it drops the exhausted states on top and advances the first
state that has something left -/
theorem nextState_cases (opt : List Bool) (hopt : NoOpt opt) :
    ∀ (X : List (St α)), (∀ s ∈ X, s.done = false) →
      (∃ pop s x it rest, X = pop ++ s :: rest ∧ (∀ q ∈ pop, q.iter = []) ∧ s.iter = x :: it ∧
          nextState opt X X.length = ({ s with iter := it, result := some x } :: rest, rest.length + 1, .newState))
      ∨ ((∀ q ∈ X, q.iter = []) ∧ ∃ p, nextState opt X X.length = ([], p, .allDone)) := by
  intro X
  induction X with
  | nil => intro _; right; exact ⟨by simp, 0, rfl⟩
  | cons s rest ih =>
    intro hd
    have hs : s.done = false := hd s (by simp)
    have hrest : ∀ q ∈ rest, q.done = false := fun q hq => hd q (by simp [hq])
    cases hit : s.iter with
    | cons x it =>
      left
      refine ⟨[], s, x, it, rest, by simp, by simp, hit, ?_⟩
      simp [nextState, hs, hit]
    | nil =>
      have hstep : nextState opt (s :: rest) (s :: rest).length = nextState opt rest rest.length := by
        have ho := hopt rest.length
        simp [nextState, hs, hit, ho]
      rcases ih hrest with ⟨pop, s', x, it, rest', hX, hpop, hit', hns⟩ | ⟨hall, p, hns⟩
      · left
        refine ⟨s :: pop, s', x, it, rest', by simp [hX], ?_, hit', ?_⟩
        · intro q hq
          rcases List.mem_cons.mp hq with rfl | hq
          · exact hit
          · exact hpop q hq
        · rw [hstep, hns]
      · right
        refine ⟨?_, p, by rw [hstep, hns]⟩
        intro q hq
        rcases List.mem_cons.mp hq with rfl | hq
        · exact hit
        · exact hall q hq

/-! ### bookkeeping -/

theorem row_cons (s : St α) (rest : List (St α)) :
    row (s :: rest) = row rest ++ (match s.result with | some t => [t.label] | none => []) := by
  cases h : s.result <;> simp [row, List.filterMap_append, h]

theorem pendRest_pop (n : Nat) (pop Y : List (St α)) (h : ∀ q ∈ pop, q.iter = []) :
    pendRest n (pop ++ Y) = pendRest n Y := by
  induction pop with
  | nil => rfl
  | cons q pop ih =>
    have hq : q.iter = [] := h q (by simp)
    have := ih (fun r hr => h r (by simp [hr]))
    simp [pendRest, hq, this]

theorem nu_pop (n : Nat) (pop Y : List (St α)) (h : ∀ q ∈ pop, q.iter = []) :
    nu n (pop ++ Y) = nu n Y := by
  induction pop with
  | nil => rfl
  | cons q pop ih =>
    have hq : q.iter = [] := h q (by simp)
    have := ih (fun r hr => h r (by simp [hr]))
    simp [nu, hq, this, countForest]

theorem pendRest_all_empty (n : Nat) (X : List (St α)) (h : ∀ q ∈ X, q.iter = []) : pendRest n X = [] := by
  have := pendRest_pop n X [] h
  simpa [pendRest] using this

theorem pendTop_advance (n : Nat) (s : St α) (x : Tree α) (it : List (Tree α)) (rest : List (St α))
    (hit : s.iter = x :: it) :
    pendTop n ({ s with iter := it, result := some x } :: rest) = pendRest n (s :: rest) := by
  simp [pendTop, pendRest, hit, List.flatMap_cons, List.map_append, List.append_assoc]

def fresh (it : List (Tree α)) : St α := { iter := it, result := none, done := false }

/-- what the iterator of the next level yields, given the stack -/
def itOf (roots : List (Tree α)) : List (St α) → List (Tree α)
  | [] => roots
  | s :: _ => match s.result with | some t => t.kids | none => []

/-- the rows still to come from a stack between two calls of `next` -/
def expected (n : Nat) (roots : List (Tree α)) : List (St α) → List (List α)
  | [] => roots.flatMap (below (n - 1))
  | s :: rest => pendTop n (s :: rest)

theorem descend (n : Nat) (roots : List (Tree α)) (st : List (St α)) (hg : Good st) (hlen : st.length < n) :
    pendRest n (fresh (itOf roots st) :: st) = expected n roots st := by
  cases st with
  | nil => simp [pendRest, fresh, itOf, expected, row]
  | cons s rest =>
    obtain ⟨t, ht⟩ := Option.isSome_iff_exists.mp (hg s (by simp)).2
    have hd : n - (rest.length + 1) = (n - (rest.length + 1 + 1)) + 1 := by
      simp only [List.length_cons] at hlen; omega
    simp only [pendRest, fresh, itOf, expected, pendTop, ht, List.length_cons]
    rw [hd, below, row_cons, ht]
    simp [List.map_map, Function.comp_def, List.append_assoc]

theorem nu_fresh (n : Nat) (roots : List (Tree α)) (st : List (St α)) :
    nu n (fresh (itOf roots st) :: st) = mu n roots st := by
  cases st with
  | nil => simp [nu, fresh, itOf, mu]
  | cons s rest =>
    cases h : s.result <;> simp [nu, fresh, itOf, mu, h, countForest]

theorem initState_eq (opt : List Bool) (roots : List (Tree α)) (st : List (St α)) (hg : Good st) :
    initState opt roots st (st.length + 1) = nextState opt (fresh (itOf roots st) :: st) (st.length + 1) := by
  cases st with
  | nil => simp [initState, fresh, itOf]
  | cons s rest =>
    obtain ⟨t, ht⟩ := Option.isSome_iff_exists.mp (hg s (by simp)).2
    have hidx : (s :: rest).reverse[(s :: rest).length + 1 - 2]? = some s := by
      simp
    simp only [initState, hidx]
    simp [fresh, itOf, ht]

theorem count_succ (d : Nat) (t : Tree α) : count (d + 1) t = 1 + countForest d t.kids := rfl

theorem countForest_cons (d : Nat) (x : Tree α) (it : List (Tree α)) :
    countForest d (x :: it) = count d x + countForest d it := by simp [countForest]

/-- the members of the part of the stack below the advanced state are members of the old stack -/
theorem rest_sub (_X pop rest : List (St α)) (f s : St α) (st : List (St α))
    (hX : f :: st = pop ++ s :: rest) : ∀ q ∈ rest, q ∈ st := by
  intro q hq
  cases pop with
  | nil => simp at hX; rw [hX.2]; exact hq
  | cons p pop => simp at hX; rw [hX.2]; simp [hq]

/-! ### init_all_states -/

theorem initAll_spec (n : Nat) (hn : 1 ≤ n) (opt : List Bool) (hopt : NoOpt opt) (roots : List (Tree α)) :
    ∀ (fuel : Nat) (st : List (St α)), Good st → st.length ≤ n → 1 ≤ fuel →
      (st.length < n → mu n roots st + 2 ≤ fuel) →
      (∃ st', initAll n opt roots fuel st st.length = (st', n, .newState) ∧ Good st' ∧ st'.length = n ∧
          expected n roots st = row st' :: pendRest n st')
      ∨ ((∃ st' p, initAll n opt roots fuel st st.length = (st', p, .allDone)) ∧ expected n roots st = []) := by
  intro fuel
  induction fuel with
  | zero => intro st _ _ h1; omega
  | succ fuel ih =>
    intro st hg hlen _ hfuel
    by_cases hfull : st.length = n
    · -- the stack is full: nothing to initialise
      left
      refine ⟨st, ?_, hg, hfull, ?_⟩
      · have he : est n st.length = 1 := by
          unfold est; rw [hfull]; simp <;> omega
        unfold initAll
        rw [he, hfull]
        have : ¬ n < 1 := by omega
        first | done | simp [this]
      · cases st with
        | nil => simp at hfull; omega
        | cons s rest =>
          obtain ⟨t, ht⟩ := Option.isSome_iff_exists.mp (hg s (by simp)).2
          have hd : n - (rest.length + 1) = 0 := by simp at hfull; omega
          simp [expected, pendTop, ht, hd, below, row_cons]
    · have hlt : st.length < n := by omega
      have hest : st.length < est n st.length := by
        unfold est
        by_cases h0 : st.length = 0
        · simp [h0]
        · simp [h0, hlt]
      have hhead : ¬ (st.head?.map (·.done)) = some true := by
        cases st with
        | nil => simp
        | cons s rest => simp [(hg s (by simp)).1]
      have hX : (fresh (itOf roots st) :: st).length = st.length + 1 := by simp
      have hdoneX : ∀ q ∈ fresh (itOf roots st) :: st, q.done = false := by
        intro q hq
        rcases List.mem_cons.mp hq with rfl | hq
        · rfl
        · exact (hg q hq).1
      have hstep : initAll n opt roots (fuel + 1) st st.length =
          (match nextState opt (fresh (itOf roots st) :: st) (st.length + 1) with
            | (stack', path', .newState) => initAll n opt roots fuel stack' path'
            | r => r) := by
        conv => lhs; unfold initAll
        simp only [hest, if_true, hhead, if_false, initState_eq opt roots st hg]
        rfl
      have hexp := descend n roots st hg hlt
      have hmu := nu_fresh n roots st
      rcases nextState_cases opt hopt (fresh (itOf roots st) :: st) hdoneX with
        ⟨pop, s, x, it, rest, hXeq, hpop, hit, hns⟩ | ⟨hall, p, hns⟩
      · rw [hX] at hns
        rw [hstep, hns]
        simp only
        -- the new stack
        have hsub := rest_sub (fresh (itOf roots st) :: st) pop rest (fresh (itOf roots st)) s st hXeq
        have hsdone : s.done = false := hdoneX s (by rw [hXeq]; simp)
        have hg' : Good ({ s with iter := it, result := some x } :: rest) := by
          intro q hq
          rcases List.mem_cons.mp hq with rfl | hq
          · exact ⟨hsdone, rfl⟩
          · exact hg q (hsub q hq)
        have hlenX : pop.length + (rest.length + 1) = st.length + 1 := by
          have := congrArg List.length hXeq
          simp at this; omega
        have hlen' : ({ s with iter := it, result := some x } :: rest).length ≤ n := by
          simp; omega
        have hexp' : expected n roots st = expected n roots ({ s with iter := it, result := some x } :: rest) := by
          rw [← hexp, hXeq, pendRest_pop n pop _ hpop, ← pendTop_advance n s x it rest hit]
          rfl
        have hfuel1 : 1 ≤ fuel := by have := hfuel hlt; omega
        have hfuel' : ({ s with iter := it, result := some x } :: rest).length < n →
            mu n roots ({ s with iter := it, result := some x } :: rest) + 2 ≤ fuel := by
          intro hnf
          simp only [List.length_cons] at hnf
          have h1 : nu n (fresh (itOf roots st) :: st) = nu n (s :: rest) := by
            rw [hXeq]; exact nu_pop n pop _ hpop
          have hd : n - (rest.length + 1) = (n - (rest.length + 2)) + 1 := by omega
          have h2 : nu n (s :: rest) = 1 + countForest (n - (rest.length + 2)) x.kids
              + countForest (n - (rest.length + 1)) it + nu n rest := by
            simp only [nu, hit, countForest_cons]
            rw [hd, count_succ]
          have h3 : mu n roots ({ s with iter := it, result := some x } :: rest)
              = countForest (n - (rest.length + 2)) x.kids + countForest (n - (rest.length + 1)) it + nu n rest := by
            simp [mu, nu, Nat.add_assoc]
          have := hfuel hlt
          omega
        have hlen2 : ({ s with iter := it, result := some x } :: rest).length = rest.length + 1 := by simp
        have := ih ({ s with iter := it, result := some x } :: rest) hg' hlen' hfuel1 hfuel'
        rw [hlen2] at this
        rw [hexp']
        exact this
      · rw [hX] at hns
        right
        refine ⟨⟨[], p, by rw [hstep, hns]⟩, ?_⟩
        rw [← hexp]
        exact pendRest_all_empty n _ hall

/-! ### next, iterated -/

theorem run_allDone (n : Nat) (opt : List Bool) (roots : List (Tree α)) (fuel : Nat) (st : List (St α)) (p : Nat) :
    run n opt roots fuel st p .allDone = [] := by
  cases fuel <;> simp [run]

theorem run_spec (n : Nat) (hn : 1 ≤ n) (opt : List Bool) (hopt : NoOpt opt) (roots : List (Tree α)) :
    ∀ (fuel : Nat) (st : List (St α)) (status : Status), Good st → st.length ≤ n → status ≠ .allDone →
      (expected n roots st).length < fuel →
      run n opt roots fuel st st.length status = expected n roots st := by
  intro fuel
  induction fuel with
  | zero => intro st status _ _ _ h; omega
  | succ fuel ih =>
    intro st status hg hlen hstat hfuel
    have hf1 : 1 ≤ mu n roots st + n + 2 := by omega
    have hf2 : st.length < n → mu n roots st + 2 ≤ mu n roots st + n + 2 := by intro _; omega
    unfold run
    simp only [hstat, if_false]
    rcases initAll_spec n hn opt hopt roots (mu n roots st + n + 2) st hg hlen hf1 hf2 with
      ⟨st', hinit, hg', hlen', hexp⟩ | ⟨⟨st', p, hinit⟩, hexp⟩
    · rw [hinit]
      simp only
      have hdone : ∀ q ∈ st', q.done = false := fun q hq => (hg' q hq).1
      rcases nextState_cases opt hopt st' hdone with
        ⟨pop, s, x, it, rest, hXeq, hpop, hit, hns⟩ | ⟨hall, p, hns⟩
      · rw [hlen'] at hns
        rw [hns]
        simp only
        have hg'' : Good ({ s with iter := it, result := some x } :: rest) := by
          intro q hq
          rcases List.mem_cons.mp hq with rfl | hq
          · exact ⟨hdone s (by rw [hXeq]; simp), rfl⟩
          · exact hg' q (by rw [hXeq]; simp [hq])
        have hlen'' : ({ s with iter := it, result := some x } :: rest).length ≤ n := by
          have := congrArg List.length hXeq
          simp at this; simp; omega
        have hexp'' : expected n roots ({ s with iter := it, result := some x } :: rest) = pendRest n st' := by
          rw [hXeq, pendRest_pop n pop _ hpop, ← pendTop_advance n s x it rest hit]
          rfl
        have hl : (expected n roots ({ s with iter := it, result := some x } :: rest)).length < fuel := by
          rw [hexp''] ; rw [hexp] at hfuel; simp at hfuel; omega
        have := ih ({ s with iter := it, result := some x } :: rest) .newState hg'' hlen'' (by decide) hl
        simp only [List.length_cons] at this
        rw [this, hexp, hexp'']
      · rw [hlen'] at hns
        rw [hns]
        simp only
        rw [run_allDone, hexp, pendRest_all_empty n st' hall]
    · rw [hinit]
      simp only
      exact hexp.symm

/-! ### the number of rows is bounded by the number of nodes -/

theorem length_below_le (d : Nat) : ∀ t : Tree α, (below d t).length ≤ count d t := by
  induction d with
  | zero => intro t; simp [below, count]
  | succ d ih =>
    intro t
    simp only [below, count, List.length_map]
    have : ∀ l : List (Tree α), (l.flatMap (below d)).length ≤ (l.map (count d)).sum := by
      intro l
      induction l with
      | nil => simp
      | cons a l ihl => simp only [List.flatMap_cons, List.length_append, List.map_cons, List.sum_cons]; have := ih a; omega
    have := this t.kids
    omega

theorem length_flatMap_below_le (d : Nat) (l : List (Tree α)) : (l.flatMap (below d)).length ≤ countForest d l := by
  induction l with
  | nil => simp [countForest]
  | cons a l ih => simp only [List.flatMap_cons, List.length_append, countForest, List.map_cons, List.sum_cons] at *; have := length_below_le d a; omega

theorem count_mono (d : Nat) : ∀ t : Tree α, count d t ≤ count (d + 1) t := by
  induction d with
  | zero => intro t; simp [count]
  | succ d ih =>
    intro t
    simp only [count]
    have : ∀ l : List (Tree α), (l.map (count d)).sum ≤ (l.map (count (d + 1))).sum := by
      intro l
      induction l with
      | nil => simp
      | cons a l ihl => simp; have := ih a; omega
    have := this t.kids
    simp only [count] at this
    omega

theorem countForest_mono (d : Nat) (l : List (Tree α)) : countForest d l ≤ countForest (d + 1) l := by
  induction l with
  | nil => simp [countForest]
  | cons a l ih => simp [countForest] at *; have := count_mono d a; omega

/-- the machine without OPTIONAL levels yields the nested iteration -/
theorem rows_eq_below (n : Nat) (hn : 1 ≤ n) (opt : List Bool) (hopt : NoOpt opt) (roots : List (Tree α)) :
    rows n opt roots = roots.flatMap (below (n - 1)) := by
  unfold rows
  have hl : (expected n roots ([] : List (St α))).length < countForest n roots + 2 := by
    simp only [expected]
    have h1 := length_flatMap_below_le (n - 1) roots
    have h2 := countForest_mono (n - 1) roots
    have : n - 1 + 1 = n := by omega
    rw [this] at h2
    omega
  have := run_spec n hn opt hopt roots (countForest n roots + 2) [] .empty (by intro q hq; simp at hq) (by simp) (by decide) hl
  simpa [expected] using this

/-- `below` is the specification `rowsAt` for levels that are not OPTIONAL -/
theorem rowsAt_replicate_false (d : Nat) : ∀ t : Tree α, rowsAt (List.replicate d false) t = below d t := by
  induction d with
  | zero => intro t; simp [rowsAt, below]
  | succ d ih =>
    intro t
    have hf : rowsAt (α := α) (List.replicate d false) = below d := funext ih
    simp only [List.replicate_succ, rowsAt, hf, below]
    cases h : (t.kids.flatMap (below d)) <;> simp

end Stam.QI
