import StamModel.Lemmas.StoreRemove
/-
  Every removal operation keeps the C01 invariant.
-/
namespace Stam

theorem mem_dedupSorted (l : List Nat) (x : Nat) : x ∈ dedupSorted l ↔ x ∈ l := by
  simp [dedupSorted, List.mem_eraseDups, List.mem_mergeSort]

theorem mem_lookup (s : State) (k : Key) (x : Nat) : x ∈ s.lookup k ↔ (k, x) ∈ s.edges := by
  simp only [State.lookup, List.mem_map, List.mem_filter]
  constructor
  · rintro ⟨e, ⟨he, hk⟩, hx⟩
    simp at hk
    cases e; simp at hk hx; subst hk; subst hx; exact he
  · intro h; exact ⟨(k, x), ⟨h, by simp⟩, rfl⟩

/-- dropping index entries that no live annotation needs (after their referent is gone) -/
theorem Inv.filter_dead {s : State} (hi : Inv s) (p : Key → Bool)
    (hp : ∀ x a, getLive s.anns x = some a → ∀ k ∈ a.fwd, p k = true)
    (res' : List (Option ResM)) (sets' : List (Option SetM)) :
    Inv { res := res', sets := sets', anns := s.anns, edges := s.edges.filter (fun e => p e.1) } := by
  constructor
  · intro k h
    simp only [List.mem_filter]
    constructor
    · rintro ⟨h1, _⟩; exact (hi.mem k h).1 h1
    · rintro ⟨a, ha, hk⟩; exact ⟨(hi.mem k h).2 ⟨a, ha, hk⟩, hp h a ha k hk⟩
  · exact List.Pairwise.filter _ hi.nodup
  · exact List.Pairwise.filter _ hi.sorted

theorem rmAnn_inv (s : State) (r : Ref) (hi : Inv s) : Inv (s.rmAnn r).2 := by
  unfold State.rmAnn
  split
  · rename_i s1 hs
    simp only [Option.bind_eq_some_iff] at hs
    obtain ⟨h, _, hr⟩ := hs
    exact (removeAnn_removed _ s s1 h hi hr).inv
  · exact hi

theorem rmRes_inv (s : State) (id : String) (hi : Inv s) : Inv (s.rmRes id).2 := by
  unfold State.rmRes
  split
  · exact hi
  · rename_i rh _
    simp only []
    cases h1 : s.removeAll (s.lookup (.resMeta rh)) with
    | none => exact hi
    | some s1 =>
      obtain ⟨i1, _, i3, i4, _, _⟩ := removeAll_spec _ s s1 hi h1
      simp only []
      cases h2 : s1.removeAll (dedupSorted ((s1.edges.filter (fun e => match e.1 with | .tsel r _ => r == rh | _ => false)).map (·.2))) with
      | none => exact i1
      | some s2 =>
        obtain ⟨j1, _, j3, j4, _, _⟩ := removeAll_spec _ s1 s2 i1 h2
        simp only []
        have := j1.filter_dead (fun k => match k with
          | .resMeta r => r != rh
          | .tsel r _ => r != rh
          | _ => true) ?_ (setAt s2.res rh none) s2.sets
        · exact this
        · intro x a hx k hk
          cases k with
          | resMeta r =>
            simp only [bne_iff_ne, ne_eq]
            intro hr; subst hr
            have hx1 := j3 x a hx
            have hx0 := i3 x a hx1
            have : x ∈ s.lookup (.resMeta r) := (mem_lookup _ _ _).2 ((hi.mem _ _).2 ⟨a, hx0, hk⟩)
            have := i4 x this
            rw [hx1] at this; cases this
          | tsel r t =>
            simp only [bne_iff_ne, ne_eq]
            intro hr; subst hr
            have hx1 := j3 x a hx
            have hmem : (Key.tsel r t, x) ∈ s1.edges := (i1.mem _ _).2 ⟨a, hx1, hk⟩
            have : x ∈ dedupSorted ((s1.edges.filter (fun e => match e.1 with | .tsel r' _ => r' == r | _ => false)).map (·.2)) := by
              rw [mem_dedupSorted, List.mem_map]
              exact ⟨(Key.tsel r t, x), by simp [List.mem_filter, hmem], rfl⟩
            have := j4 x this
            rw [hx] at this; cases this
          | _ => rfl

theorem rmSet_inv (s : State) (id : String) (hi : Inv s) : Inv (s.rmSet id).2 := by
  unfold State.rmSet
  split
  · exact hi
  · rename_i sh _
    simp only []
    split
    · exact hi
    · rename_i s1 h1
      obtain ⟨i1, i2, i3, i4, _, _⟩ := removeAll_spec _ s s1 hi h1
      split
      · exact i1
      · rename_i s2 h2
        obtain ⟨j1, _, j3, j4, _, _⟩ := removeAll_spec _ s1 s2 i1 h2
        have := j1.filter_dead (fun k => match k with
          | .setMeta x => x != sh
          | .keyMeta x _ => x != sh
          | .dataMeta x _ => x != sh
          | .data x _ => x != sh
          | _ => true) ?_ s2.res (setAt s2.sets sh none)
        · exact this
        · intro x a hx k hk
          have hx1 := j3 x a hx
          have hx0 := i3 x a hx1
          have hxlt := getLive_lt _ _ _ hx0
          -- x survived the first sweep, so it is in none of the swept classes
          have hnot : x ∉ dedupSorted (((List.range s.anns.length).filter (fun h =>
              match getLive s.anns h with
              | some a => a.data.any (fun p => p.1 == sh)
              | none => false)) ++
              (s.edges.filter (fun e => match e.1 with
                | .keyMeta x _ => x == sh
                | .dataMeta x _ => x == sh
                | _ => false)).map (·.2)) := by
            intro hc
            have := i4 x hc
            rw [hx1] at this; cases this
          rw [mem_dedupSorted, List.mem_append, not_or] at hnot
          cases k with
          | setMeta y =>
            simp only [bne_iff_ne, ne_eq]
            intro hy; subst hy
            have : x ∈ s1.lookup (.setMeta y) := (mem_lookup _ _ _).2 ((i1.mem _ _).2 ⟨a, hx1, hk⟩)
            have := j4 x this
            rw [hx] at this; cases this
          | keyMeta y kk =>
            simp only [bne_iff_ne, ne_eq]
            intro hy; subst hy
            apply hnot.2
            rw [List.mem_map]
            exact ⟨(Key.keyMeta y kk, x), by simp [List.mem_filter, (hi.mem _ _).2 ⟨a, hx0, hk⟩], rfl⟩
          | dataMeta y dd =>
            simp only [bne_iff_ne, ne_eq]
            intro hy; subst hy
            apply hnot.2
            rw [List.mem_map]
            exact ⟨(Key.dataMeta y dd, x), by simp [List.mem_filter, (hi.mem _ _).2 ⟨a, hx0, hk⟩], rfl⟩
          | data y dd =>
            simp only [bne_iff_ne, ne_eq]
            intro hy; subst hy
            apply hnot.1
            rw [List.mem_filter, List.mem_range]
            refine ⟨hxlt, ?_⟩
            rw [hx0]
            simp only [List.any_eq_true]
            -- a `data` key of an annotation comes from its data list
            simp only [AnnM.fwd, List.mem_append, List.mem_map, List.mem_flatMap] at hk
            rcases hk with ⟨p, hp, hpe⟩ | ⟨m, _, hm⟩
            · exact ⟨p, hp, by cases hpe; simp⟩
            · cases m <;> simp [SelM.keys] at hm
          | _ => rfl

end Stam

namespace Stam

/-- every live annotation of `s'` is a live annotation of `s` that refers to no more than before -/
def Sub (s s' : State) : Prop :=
  ∀ x a', getLive s'.anns x = some a' → ∃ a, getLive s.anns x = some a ∧ a'.id = a.id ∧ a'.target = a.target ∧
    ∀ k ∈ a'.fwd, k ∈ a.fwd

theorem Sub.refl (s : State) : Sub s s := fun _ a h => ⟨a, h, rfl, rfl, fun _ hk => hk⟩
theorem Sub.trans {s s1 s2 : State} (h1 : Sub s s1) (h2 : Sub s1 s2) : Sub s s2 := by
  intro x a2 hx
  obtain ⟨a1, ha1, e1, e2, hk1⟩ := h2 x a2 hx
  obtain ⟨a, ha, e3, e4, hk⟩ := h1 x a1 ha1
  exact ⟨a, ha, e1.trans e3, e2.trans e4, fun k hk2 => hk k (hk1 k hk2)⟩
theorem Sub.of_mono {s s' : State} (h : ∀ x a, getLive s'.anns x = some a → getLive s.anns x = some a) : Sub s s' :=
  fun x a hx => ⟨a, h x a hx, rfl, rfl, fun _ hk => hk⟩

theorem fwd_filter_data (a : AnnM) (sh dh : Nat) (k : Key) :
    k ∈ ({ a with data := a.data.filter (fun p => !(p.1 == sh && p.2 == dh)) } : AnnM).fwd ↔
      (k ∈ a.fwd ∧ k ≠ Key.data sh dh) := by
  simp only [AnnM.fwd, List.mem_append, List.mem_map, List.mem_filter, List.mem_flatMap]
  constructor
  · rintro (⟨p, ⟨hp, hne⟩, rfl⟩ | ⟨m, hm, hk⟩)
    · refine ⟨Or.inl ⟨p, hp, rfl⟩, ?_⟩
      intro hc; simp at hc; simp [hc.1, hc.2] at hne
    · refine ⟨Or.inr ⟨m, hm, hk⟩, ?_⟩
      intro hc; subst hc; cases m <;> simp [SelM.keys] at hk
  · rintro ⟨(⟨p, hp, rfl⟩ | ⟨m, hm, hk⟩), hne⟩
    · refine Or.inl ⟨p, ⟨hp, ?_⟩, rfl⟩
      simp only [Bool.not_eq_true', Bool.and_eq_false_iff, beq_eq_false_iff_ne]
      by_cases h1 : p.1 = sh
      · right; intro h2; exact hne (by rw [h1, h2])
      · left; exact h1
    · exact Or.inr ⟨m, hm, hk⟩

theorem dropData_spec (s s' : State) (sh dh : Nat) (strict : Bool) (ah : Nat) (hi : Inv s)
    (hd : s.dropData sh dh strict ah = some s') :
    Inv s' ∧ Sub s s' ∧ (∀ a', getLive s'.anns ah = some a' → Key.data sh dh ∉ a'.fwd) ∧
    s'.sets = s.sets ∧ s'.res = s.res := by
  unfold State.dropData at hd
  cases hl : getLive s.anns ah with
  | none =>
    rw [hl] at hd; simp only [] at hd; cases hd
    exact ⟨hi, Sub.refl _, (fun a' h => by rw [hl] at h; cases h), rfl, rfl⟩
  | some a =>
    rw [hl] at hd
    simp only [] at hd
    have viaRemove : ∀ (hr : s.removeAnn s.fuel ah = some s'), _ := fun hr =>
      let r := removeAnn_removed _ s s' ah hi hr
      (⟨r.inv, Sub.of_mono r.mono, (fun a' h => by rw [r.gone] at h; cases h), r.sets, r.res⟩ :
        Inv s' ∧ Sub s s' ∧ (∀ a', getLive s'.anns ah = some a' → Key.data sh dh ∉ a'.fwd) ∧
        s'.sets = s.sets ∧ s'.res = s.res)
    split at hd
    · exact viaRemove hd
    · split at hd
      · exact viaRemove hd
      · cases hd
        have hlt := getLive_lt _ _ _ hl
        refine ⟨⟨?_, hi.nodup.erase _, List.Pairwise.sublist List.erase_sublist hi.sorted⟩, ?_, ?_, rfl, rfl⟩
        · intro k x
          simp only [eraseEdge]
          rw [hi.nodup.mem_erase_iff, getLive_setAt]
          by_cases hx : ah = x ∧ ah < s.anns.length
          · obtain ⟨hx1, _⟩ := hx
            subst hx1
            simp only [hlt, and_self, if_true]
            constructor
            · rintro ⟨hne, hm⟩
              obtain ⟨a1, ha1, hk⟩ := (hi.mem k ah).1 hm
              rw [hl] at ha1; cases ha1
              refine ⟨_, rfl, ?_⟩
              rw [fwd_filter_data]
              exact ⟨hk, by intro hc; subst hc; exact hne rfl⟩
            · rintro ⟨a1, ha1, hk⟩
              cases ha1
              rw [fwd_filter_data] at hk
              exact ⟨by intro hc; cases hc; exact hk.2 rfl, (hi.mem k ah).2 ⟨a, hl, hk.1⟩⟩
          · simp only [hx, if_false]
            have hne : x ≠ ah := by intro hc; subst hc; exact hx ⟨rfl, hlt⟩
            constructor
            · rintro ⟨_, hm⟩; exact (hi.mem k x).1 hm
            · rintro h; exact ⟨by intro hc; cases hc; exact hne rfl, (hi.mem k x).2 h⟩
        · intro x a' hx
          simp only [] at hx
          rw [getLive_setAt] at hx
          by_cases hc : ah = x ∧ ah < s.anns.length
          · rw [if_pos hc] at hx; cases hx
            obtain ⟨hc1, _⟩ := hc; subst hc1
            exact ⟨a, hl, rfl, rfl, fun k hk => ((fwd_filter_data a sh dh k).1 hk).1⟩
          · rw [if_neg hc] at hx
            exact ⟨a', hx, rfl, rfl, fun _ hk => hk⟩
        · intro a' ha'
          simp only [] at ha'
          rw [getLive_setAt] at ha'
          simp only [hlt, and_self, if_true] at ha'
          cases ha'
          intro hk
          exact ((fwd_filter_data a sh dh _).1 hk).2 rfl

theorem foldDrop_spec (sh dh : Nat) (strict : Bool) : ∀ (us : List Nat) (s s' : State), Inv s →
    us.foldl (fun acc ah => acc.bind (fun st => st.dropData sh dh strict ah)) (some s) = some s' →
    Inv s' ∧ Sub s s' ∧ (∀ u ∈ us, ∀ a', getLive s'.anns u = some a' → Key.data sh dh ∉ a'.fwd) ∧
    s'.sets = s.sets ∧ s'.res = s.res := by
  intro us
  induction us with
  | nil => intro s s' hi h; simp at h; subst h; exact ⟨hi, Sub.refl _, by simp, rfl, rfl⟩
  | cons u us ih =>
    intro s s' hi h
    simp only [List.foldl_cons, Option.bind_some] at h
    cases hd : s.dropData sh dh strict u with
    | none =>
      rw [hd] at h
      have : ∀ (l : List Nat), l.foldl (fun acc ah => acc.bind (fun st => State.dropData st sh dh strict ah)) none = none := by
        intro l; induction l <;> simp_all
      rw [this] at h; cases h
    | some s1 =>
      rw [hd] at h
      obtain ⟨d1, d2, d3, d4, d5⟩ := dropData_spec s s1 sh dh strict u hi hd
      obtain ⟨i1, i2, i3, i4, i5⟩ := ih s1 s' d1 h
      refine ⟨i1, d2.trans i2, ?_, by rw [i4, d4], by rw [i5, d5]⟩
      intro x hx a' ha'
      simp only [List.mem_cons] at hx
      rcases hx with hx | hx
      · subst hx
        obtain ⟨a1, ha1, _, _, hk⟩ := i2 x a' ha'
        intro hc
        exact d3 a1 ha1 (hk _ hc)
      · exact i3 x hx a' ha'

theorem rmDataH_inv (s s' : State) (sh dh : Nat) (strict : Bool) (hi : Inv s)
    (h : s.rmDataH sh dh strict = some s') : Inv s' := by
  unfold State.rmDataH at h
  simp only [] at h
  cases h1 : (s.lookup (.data sh dh)).foldl (fun acc ah => acc.bind (fun st => st.dropData sh dh strict ah)) (some s) with
  | none => rw [h1] at h; cases h
  | some s1 =>
    rw [h1] at h
    obtain ⟨i1, i2, i3, _, _⟩ := foldDrop_spec sh dh strict _ s s1 hi h1
    simp only [] at h
    cases h2 : s1.removeAll (s1.lookup (.dataMeta sh dh)) with
    | none => rw [h2] at h; cases h
    | some s2 =>
      rw [h2] at h
      obtain ⟨j1, _, j3, j4, _, _⟩ := removeAll_spec _ s1 s2 i1 h2
      simp only [] at h
      split at h
      · cases h
      · split at h
        · cases h
        · cases h
          refine j1.filter_dead (fun k => k != Key.dataMeta sh dh) ?_ s2.res _
          · intro x a hx k hk
            simp only [bne_iff_ne, ne_eq]
            intro hc; subst hc
            have hx1 := j3 x a hx
            have : x ∈ s1.lookup (.dataMeta sh dh) := (mem_lookup _ _ _).2 ((i1.mem _ _).2 ⟨a, hx1, hk⟩)
            have := j4 x this
            rw [hx] at this; cases this

theorem rmData_inv (s : State) (set : String) (d : Ref) (strict : Bool) (hi : Inv s) :
    Inv (s.rmData set d strict).2 := by
  unfold State.rmData
  split
  · exact hi
  · split
    · exact hi
    · split
      · exact hi
      · split
        · rename_i s1 h1; exact rmDataH_inv s s1 _ _ strict hi h1
        · exact hi

theorem foldRmData_inv (sh : Nat) (strict : Bool) : ∀ (ds : List Nat) (s s' : State), Inv s →
    ds.foldl (fun acc dh => acc.bind (fun st => st.rmDataH sh dh strict)) (some s) = some s' → Inv s' := by
  intro ds
  induction ds with
  | nil => intro s s' hi h; simp at h; subst h; exact hi
  | cons d ds ih =>
    intro s s' hi h
    simp only [List.foldl_cons, Option.bind_some] at h
    cases hd : s.rmDataH sh d strict with
    | none =>
      rw [hd] at h
      have : ∀ (l : List Nat), l.foldl (fun acc dh => acc.bind (fun st => State.rmDataH st sh dh strict)) none = none := by
        intro l; induction l <;> simp_all
      rw [this] at h; cases h
    | some s1 =>
      rw [hd] at h
      exact ih s1 s' (rmDataH_inv s s1 sh d strict hi hd) h

theorem rmKey_inv (s : State) (set key : String) (strict : Bool) (hi : Inv s) :
    Inv (s.rmKey set key strict).2 := by
  unfold State.rmKey
  split
  · exact hi
  · rename_i sh _
    split
    · exact hi
    · rename_i m _
      split
      · exact hi
      · rename_i kh _
        simp only []
        split
        · exact hi
        · rename_i s1 h1
          have i1 := foldRmData_inv sh strict _ s s1 hi h1
          split
          · exact i1
          · rename_i m1 _
            have i2 : Inv { s1 with sets := setAt s1.sets sh (some { m1 with keys := setAt m1.keys kh none }) } :=
              i1.of_frame rfl rfl
            split
            · exact i2
            · rename_i s3 h3
              obtain ⟨j1, _, j3, j4, _, _⟩ := removeAll_spec _ _ s3 i2 h3
              have := j1.filter_dead (fun k => k != Key.keyMeta sh kh) ?_ s3.res s3.sets
              · exact this
              · intro x a hx k hk
                simp only [bne_iff_ne, ne_eq]
                intro hc; subst hc
                have hx1 := j3 x a hx
                have : x ∈ State.lookup { s1 with sets := setAt s1.sets sh (some { m1 with keys := setAt m1.keys kh none }) } (.keyMeta sh kh) :=
                  (mem_lookup _ _ _).2 ((i2.mem _ _).2 ⟨a, hx1, hk⟩)
                have := j4 x this
                rw [hx] at this; cases this

end Stam
