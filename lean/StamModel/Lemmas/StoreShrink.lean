import StamModel.Lemmas.StoreSub
/-
  Removal operations only shrink the store, and never leave a survivor pointing at something
  they removed (C02: nothing dangles).
-/
namespace Stam

structure Shrinks (s s' : State) : Prop where
  sub : Sub s s'
  len : s'.anns.length = s.anns.length
  clean : ∀ y, (getLive s.anns y).isSome → getLive s'.anns y = none →
    ∀ x a, getLive s'.anns x = some a → Key.ann y ∉ a.fwd

theorem Shrinks.refl (s : State) : Shrinks s s :=
  ⟨Sub.refl s, rfl, fun y hy hg => by rw [hg] at hy; cases hy⟩

theorem Shrinks.trans {s s1 s2 : State} (h1 : Shrinks s s1) (h2 : Shrinks s1 s2) : Shrinks s s2 := by
  refine ⟨h1.sub.trans h2.sub, by rw [h2.len, h1.len], ?_⟩
  intro y hy hg x a hx
  cases hy1 : getLive s1.anns y with
  | none =>
    obtain ⟨a1, ha1, _, _, hk⟩ := h2.sub x a hx
    intro hc
    exact h1.clean y hy hy1 x a1 ha1 (hk _ hc)
  | some ay => exact h2.clean y (by simp [hy1]) hg x a hx

theorem Shrinks.of_removed {s s' : State} {h : Nat} (r : Removed s s' h) : Shrinks s s' :=
  ⟨Sub.of_mono r.mono, r.len, r.clean⟩

theorem Shrinks.of_anns_eq {s s' : State} (h : s'.anns = s.anns) : Shrinks s s' :=
  ⟨Sub.of_anns_eq h, by rw [h], fun y hy hg => by rw [h] at hg; rw [hg] at hy; cases hy⟩

theorem removeAnnIfPresent_shrinks (s s' : State) (h : Nat) (hi : Inv s) (hr : s.removeAnnIfPresent h = some s') :
    Shrinks s s' := by
  unfold State.removeAnnIfPresent at hr
  split at hr
  · exact Shrinks.of_removed (removeAnn_removed _ s s' h hi hr)
  · cases hr; exact Shrinks.refl s

theorem removeAll_shrinks : ∀ (hs : List Nat) (s s' : State), Inv s → s.removeAll hs = some s' → Shrinks s s' := by
  intro hs
  induction hs with
  | nil => intro s s' _ h; simp [State.removeAll] at h; subst h; exact Shrinks.refl s
  | cons d ds ih =>
    intro s s' hi h
    simp only [State.removeAll, List.foldl_cons, Option.bind_some] at h
    cases hfd : s.removeAnnIfPresent d with
    | none =>
      rw [hfd] at h
      have : ∀ (l : List Nat), l.foldl (fun acc h => acc.bind (fun st => State.removeAnnIfPresent st h)) none = none := by
        intro l; induction l <;> simp_all
      rw [this] at h; cases h
    | some s1 =>
      rw [hfd] at h
      obtain ⟨r1, _⟩ := removeAnnIfPresent_spec s s1 d hi hfd
      exact (removeAnnIfPresent_shrinks s s1 d hi hfd).trans (ih s1 s' r1 h)

theorem dropData_shrinks (s s' : State) (sh dh : Nat) (strict : Bool) (ah : Nat) (hi : Inv s)
    (hd : s.dropData sh dh strict ah = some s') : Shrinks s s' := by
  obtain ⟨_, d2, _, _, _⟩ := dropData_spec s s' sh dh strict ah hi hd
  unfold State.dropData at hd
  cases hl : getLive s.anns ah with
  | none => rw [hl] at hd; simp only [] at hd; cases hd; exact Shrinks.refl s
  | some a =>
    rw [hl] at hd
    simp only [] at hd
    split at hd
    · exact Shrinks.of_removed (removeAnn_removed _ s s' ah hi hd)
    · split at hd
      · exact Shrinks.of_removed (removeAnn_removed _ s s' ah hi hd)
      · cases hd
        refine ⟨d2, by simp [length_setAt], ?_⟩
        intro y hy hg
        -- nothing was removed in this branch
        simp only [] at hg
        rw [getLive_setAt] at hg
        by_cases hc : ah = y ∧ ah < s.anns.length
        · rw [if_pos hc] at hg; cases hg
        · rw [if_neg hc] at hg; rw [hg] at hy; cases hy

theorem foldDrop_shrinks (sh dh : Nat) (strict : Bool) : ∀ (us : List Nat) (s s' : State), Inv s →
    us.foldl (fun acc ah => acc.bind (fun st => st.dropData sh dh strict ah)) (some s) = some s' → Shrinks s s' := by
  intro us
  induction us with
  | nil => intro s s' _ h; simp at h; subst h; exact Shrinks.refl s
  | cons u us ih =>
    intro s s' hi h
    simp only [List.foldl_cons, Option.bind_some] at h
    cases hd : s.dropData sh dh strict u with
    | none =>
      rw [hd] at h
      have : ∀ (l : List Nat), l.foldl (fun acc ah => acc.bind (fun st => State.dropData st sh dh strict ah)) none = none := by
        intro l; induction l <;> simp_all
      rw [this] at h; cases h
    | some s1 =>
      rw [hd] at h
      obtain ⟨d1, _⟩ := dropData_spec s s1 sh dh strict u hi hd
      exact (dropData_shrinks s s1 sh dh strict u hi hd).trans (ih s1 s' d1 h)

theorem rmDataH_shrinks (s s' : State) (sh dh : Nat) (strict : Bool) (hi : Inv s)
    (h : s.rmDataH sh dh strict = some s') : Shrinks s s' := by
  unfold State.rmDataH at h
  simp only [] at h
  cases h1 : (s.lookup (.data sh dh)).foldl (fun acc ah => acc.bind (fun st => st.dropData sh dh strict ah)) (some s) with
  | none => rw [h1] at h; cases h
  | some s1 =>
    rw [h1] at h
    obtain ⟨i1, _⟩ := foldDrop_spec sh dh strict _ s s1 hi h1
    have b1 := foldDrop_shrinks sh dh strict _ s s1 hi h1
    simp only [] at h
    cases h2 : s1.removeAll (s1.lookup (.dataMeta sh dh)) with
    | none => rw [h2] at h; cases h
    | some s2 =>
      rw [h2] at h
      have b2 := removeAll_shrinks _ s1 s2 i1 h2
      simp only [] at h
      split at h
      · cases h
      · split at h
        · cases h
        · cases h
          exact b1.trans (b2.trans (Shrinks.of_anns_eq rfl))

theorem foldRmData_shrinks (sh : Nat) (strict : Bool) : ∀ (ds : List Nat) (s s' : State), Inv s →
    ds.foldl (fun acc dh => acc.bind (fun st => st.rmDataH sh dh strict)) (some s) = some s' → Shrinks s s' := by
  intro ds
  induction ds with
  | nil => intro s s' _ h; simp at h; subst h; exact Shrinks.refl s
  | cons d ds ih =>
    intro s s' hi h
    simp only [List.foldl_cons, Option.bind_some] at h
    cases hd : s.rmDataH sh d strict with
    | none =>
      rw [hd] at h
      have : ∀ (l : List Nat), l.foldl (fun acc dh => acc.bind (fun st => State.rmDataH st sh dh strict)) none = none := by
        intro l; induction l <;> simp_all
      rw [this] at h; cases h
    | some s1 =>
      rw [hd] at h
      exact (rmDataH_shrinks s s1 sh d strict hi hd).trans (ih s1 s' (rmDataH_inv s s1 sh d strict hi hd) h)

/-! ### every removal operation shrinks -/

theorem rmAnn_shrinks (s : State) (r : Ref) (hi : Inv s) : Shrinks s (s.rmAnn r).2 := by
  unfold State.rmAnn
  split
  · rename_i s1 hs
    simp only [Option.bind_eq_some_iff] at hs
    obtain ⟨h, _, hr⟩ := hs
    exact Shrinks.of_removed (removeAnn_removed _ s s1 h hi hr)
  · exact Shrinks.refl s

theorem rmRes_shrinks (s : State) (id : String) (hi : Inv s) : Shrinks s (s.rmRes id).2 := by
  unfold State.rmRes
  split
  · exact Shrinks.refl s
  · rename_i rh _
    simp only []
    cases h1 : s.removeAll (s.lookup (.resMeta rh)) with
    | none => exact Shrinks.refl s
    | some s1 =>
      obtain ⟨i1, _⟩ := removeAll_spec _ s s1 hi h1
      have b1 := removeAll_shrinks _ s s1 hi h1
      simp only []
      generalize dedupSorted _ = l
      cases h2 : s1.removeAll l with
      | none => exact b1
      | some s2 => exact b1.trans ((removeAll_shrinks _ s1 s2 i1 h2).trans (Shrinks.of_anns_eq rfl))

theorem rmSet_shrinks (s : State) (id : String) (hi : Inv s) : Shrinks s (s.rmSet id).2 := by
  unfold State.rmSet
  split
  · exact Shrinks.refl s
  · rename_i sh _
    simp only []
    generalize dedupSorted _ = l
    cases h1 : s.removeAll l with
    | none => exact Shrinks.refl s
    | some s1 =>
      obtain ⟨i1, _⟩ := removeAll_spec _ s s1 hi h1
      have b1 := removeAll_shrinks _ s s1 hi h1
      simp only []
      cases h2 : s1.removeAll (s1.lookup (.setMeta sh)) with
      | none => exact b1
      | some s2 => exact b1.trans ((removeAll_shrinks _ s1 s2 i1 h2).trans (Shrinks.of_anns_eq rfl))

theorem rmData_shrinks (s : State) (set : String) (d : Ref) (strict : Bool) (hi : Inv s) :
    Shrinks s (s.rmData set d strict).2 := by
  unfold State.rmData
  split
  · exact Shrinks.refl s
  · split
    · exact Shrinks.refl s
    · split
      · exact Shrinks.refl s
      · split
        · rename_i s1 h1; exact rmDataH_shrinks s s1 _ _ strict hi h1
        · exact Shrinks.refl s

theorem rmKey_shrinks (s : State) (set key : String) (strict : Bool) (hi : Inv s) :
    Shrinks s (s.rmKey set key strict).2 := by
  unfold State.rmKey
  split
  · exact Shrinks.refl s
  · rename_i sh _
    split
    · exact Shrinks.refl s
    · rename_i m _
      split
      · exact Shrinks.refl s
      · rename_i kh _
        simp only []
        split
        · exact Shrinks.refl s
        · rename_i s1 h1
          have i1 := foldRmData_inv sh strict _ s s1 hi h1
          have b1 := foldRmData_shrinks sh strict _ s s1 hi h1
          split
          · exact b1
          · rename_i m1 _
            have i2 : Inv { s1 with sets := setAt s1.sets sh (some { m1 with keys := setAt m1.keys kh none }) } :=
              i1.of_frame rfl rfl
            split
            · exact b1.trans (Shrinks.of_anns_eq rfl)
            · rename_i s3 h3
              have b2 : Shrinks s1 { s1 with sets := setAt s1.sets sh (some { m1 with keys := setAt m1.keys kh none }) } :=
                Shrinks.of_anns_eq rfl
              have b3 := removeAll_shrinks _ _ s3 i2 h3
              have b4 : Shrinks s3 { s3 with edges := s3.edges.filter (fun e => e.1 != Key.keyMeta sh kh) } :=
                Shrinks.of_anns_eq rfl
              exact b1.trans (b2.trans (b3.trans b4))

end Stam
