import StamModel.WebAnnoDoc
/-
  Lemmas for the document assembly of the Web Annotation export (C17): joining with commas, the data loop,
  the selector walk.
-/
namespace Stam.WD
open Stam.WA (Str WV WVs isIri)

/-! ## joining -/

def NE (L : List Toks) : Prop := ∀ x ∈ L, x ≠ []

theorem sepBy_cons_cons (x y : Toks) (r : List Toks) : sepBy (x :: y :: r) = x ++ [.comma] ++ sepBy (y :: r) := rfl

theorem sepBy_cons_ne (x : Toks) (L : List Toks) (h : L ≠ []) : sepBy (x :: L) = x ++ [.comma] ++ sepBy L := by
  cases L with
  | nil => exact absurd rfl h
  | cons y r => rfl

theorem sepBy_append (L1 L2 : List Toks) (h1 : L1 ≠ []) (h2 : L2 ≠ []) :
    sepBy (L1 ++ L2) = sepBy L1 ++ [.comma] ++ sepBy L2 := by
  induction L1 with
  | nil => exact absurd rfl h1
  | cons x r ih =>
    cases r with
    | nil => simp [sepBy_cons_ne _ _ h2, sepBy]
    | cons y r' =>
      have : (y :: r') ++ L2 ≠ [] := by simp
      rw [List.cons_append, sepBy_cons_ne _ _ this, ih (by simp), sepBy_cons_cons]
      simp [List.append_assoc]

/-- every member followed by a comma -/
def withCommas (L : List Toks) : Toks := L.flatMap (fun x => x ++ [.comma])

theorem withCommas_append (A B : List Toks) : withCommas (A ++ B) = withCommas A ++ withCommas B := by
  simp [withCommas]

theorem sepBy_comma (L : List Toks) : (if L.isEmpty then [] else sepBy L ++ [.comma]) = withCommas L := by
  induction L with
  | nil => rfl
  | cons x r ih =>
    cases r with
    | nil => simp [sepBy, withCommas]
    | cons y r' =>
      simp only [List.isEmpty_cons] at ih ⊢
      rw [sepBy_cons_cons]
      simp only [Bool.false_eq_true, ↓reduceIte] at ih ⊢
      simp only [withCommas, List.flatMap_cons] at ih ⊢
      rw [← ih]; simp [List.append_assoc]

theorem sepBy_append_ne (L1 L2 : List Toks) (h2 : L2 ≠ []) : sepBy (L1 ++ L2) = withCommas L1 ++ sepBy L2 := by
  cases L1 with
  | nil => simp [withCommas]
  | cons x r =>
    rw [sepBy_append _ _ (by simp) h2, ← sepBy_comma]
    simp

theorem sepBy_eq_nil (L : List Toks) (h : NE L) : sepBy L = [] ↔ L = [] := by
  constructor
  · intro e
    cases L with
    | nil => rfl
    | cons x r =>
      exfalso
      have hx : x ≠ [] := h x (by simp)
      cases r with
      | nil => exact hx (by simpa [sepBy] using e)
      | cons y r' => rw [sepBy_cons_cons] at e; simp at e
  · intro e; subst e; rfl

theorem sepBy_isEmpty (L : List Toks) (h : NE L) : (sepBy L).isEmpty = L.isEmpty := by
  cases L with
  | nil => rfl
  | cons x r =>
    have : sepBy (x :: r) ≠ [] := fun e => absurd ((sepBy_eq_nil (x :: r) h).mp e) (by simp)
    simp [this]

theorem sepBy_snoc (L : List Toks) (m : Toks) :
    sepBy (L ++ [m]) = (if L.isEmpty then sepBy L else sepBy L ++ [.comma]) ++ m := by
  cases L with
  | nil => simp [sepBy]
  | cons x r => rw [sepBy_append _ _ (by simp) (by simp)]; simp [sepBy]

theorem NE_append {A B : List Toks} (ha : NE A) (hb : NE B) : NE (A ++ B) := by
  intro x hx; rcases List.mem_append.mp hx with h | h
  · exact ha x h
  · exact hb x h

/-! ## members -/

/-- a member as it is written -/
def memToks (m : Str × Toks) : Toks := [.str m.1, .colon] ++ m.2

theorem objT_eq (ms : List (Str × Toks)) : objT ms = [.lb] ++ sepBy (ms.map memToks) ++ [.rb] := rfl

theorem memToks_ne (m : Str × Toks) : memToks m ≠ [] := by simp [memToks]

theorem NE_map_memToks (ms : List (Str × Toks)) : NE (ms.map memToks) := by
  intro x hx; rcases List.mem_map.mp hx with ⟨m, _, rfl⟩; exact memToks_ne m

theorem outPred_eq (showI : Int → Str) (c : Cfg) (pred : Str) (v : WV) :
    outPred showI c pred v = memToks (predMember showI c pred v) := by
  unfold outPred predMember memToks
  cases h : valueIsIri v <;> simp [objT, sepBy]

/-! ## the context -/

theorem nsLoop_spec (L : List (Str × Str)) (B : List (Str × Toks)) :
    nsLoop (sepBy (B.map memToks)) L = sepBy ((B ++ L.map (fun p => (p.2, [Tok.str p.1]))).map memToks) := by
  induction L generalizing B with
  | nil => simp [nsLoop]
  | cons p r ih =>
    obtain ⟨uri, ns⟩ := p
    simp only [nsLoop]
    have hstep : (if (sepBy (B.map memToks)).isEmpty then sepBy (B.map memToks) else sepBy (B.map memToks) ++ [.comma]) ++ [.str ns, .colon, .str uri]
        = sepBy ((B ++ [(ns, [Tok.str uri])]).map memToks) := by
      rw [List.map_append, List.map_cons, List.map_nil, sepBy_snoc, sepBy_isEmpty _ (NE_map_memToks B)]
      simp [memToks]
    rw [hstep, ih]
    simp

theorem ctxToks_eq (c : Cfg) : ctxToks c = ctxSpec c := by
  have hns : nsLoop [] c.namespaces = sepBy ((c.namespaces.map (fun p => (p.2, [Tok.str p.1]))).map memToks) := by
    have := nsLoop_spec c.namespaces []
    simpa [sepBy] using this
  unfold ctxToks ctxSpec
  rw [hns]
  by_cases he : c.extraContext = [] <;> by_cases hn : c.namespaces = []
  · simp [he, hn]
  · simp [he, hn, arrT, objT, sepBy, memToks, Function.comp_def]
  · have hex : (c.extraContext.map (fun u => [Tok.str u])) ≠ [] := by simpa using he
    simp only [arrT]
    rw [show ([[Tok.str vContextAnno]] ++ c.extraContext.map (fun u => [Tok.str u]) ++ (if c.namespaces.isEmpty = true then [] else [objT (c.namespaces.map (fun p => (p.2, [Tok.str p.1])))]))
        = [Tok.str vContextAnno] :: c.extraContext.map (fun u => [Tok.str u]) from by simp [hn],
      sepBy_cons_ne _ _ hex]
    simp [he, hn]
  · have hex : (c.extraContext.map (fun u => [Tok.str u])) ≠ [] := by simpa using he
    simp only [arrT]
    have h2 : (c.extraContext.map (fun u => [Tok.str u]) ++ [objT (c.namespaces.map (fun p => (p.2, [Tok.str p.1])))]) ≠ [] := by simp
    rw [show ([[Tok.str vContextAnno]] ++ c.extraContext.map (fun u => [Tok.str u]) ++ (if c.namespaces.isEmpty = true then [] else [objT (c.namespaces.map (fun p => (p.2, [Tok.str p.1])))]))
        = [Tok.str vContextAnno] :: (c.extraContext.map (fun u => [Tok.str u]) ++ [objT (c.namespaces.map (fun p => (p.2, [Tok.str p.1])))]) from by simp [hn],
      sepBy_cons_ne _ _ h2, sepBy_append _ _ hex (by simp)]
    simp [he, hn, sepBy, objT, memToks, Function.comp_def]

/-! ## the data loop -/

theorem mainMembers_cons (showI : Int → Str) (c : Cfg) (d : Datum) (data : List Datum) :
    mainMembers showI c (d :: data) = (if isMain d then [predMember showI c d.keyId d.val] else []) ++ mainMembers showI c data := by
  unfold mainMembers; by_cases h : isMain d <;> simp [List.filter_cons, h]

theorem bodyMembers_cons (showI : Int → Str) (c : Cfg) (d : Datum) (data : List Datum) :
    bodyMembers showI c (d :: data) =
      (if isMain d then [] else [predMember showI c (if d.inAnno then d.keyId else d.keyIri) d.val]) ++ bodyMembers showI c data := by
  unfold bodyMembers; by_cases h : isMain d <;> simp [List.filter_cons, h]

theorem hasAnnoKey_cons (k : Str) (d : Datum) (data : List Datum) :
    hasAnnoKey k (d :: data) = ((d.inAnno && decide (d.keyId = k)) || hasAnnoKey k data) := by
  simp [hasAnnoKey]

/-- what the loop maintains: the annotation-level members and the body members put out so far, joined by commas -/
structure LoopInv (P : Toks) (M B : List (Str × Toks)) (t g r e : Bool) (st : LoopSt) : Prop where
  ann : st.annOut = P ++ sepBy (M.map memToks)
  om : st.outMain = !M.isEmpty
  body : st.bodyOut = sepBy (B.map memToks)
  st_ : st.supType = t
  si : st.supId = g
  sg : st.supGenerated = r
  sr : st.supGenerator = e

theorem push_main (P : Toks) (M : List (Str × Toks)) (m : Str × Toks) (outMain : Bool) (annOut : Toks)
    (ha : annOut = P ++ sepBy (M.map memToks)) (ho : outMain = !M.isEmpty) :
    (if outMain then annOut ++ [.comma] else annOut) ++ memToks m = P ++ sepBy ((M ++ [m]).map memToks) := by
  rw [List.map_append, List.map_cons, List.map_nil, sepBy_snoc, ha, ho]
  cases M <;> simp [List.append_assoc]

theorem push_body (B : List (Str × Toks)) (m : Str × Toks) (bodyOut : Toks) (hb : bodyOut = sepBy (B.map memToks)) :
    (if bodyOut.isEmpty then bodyOut else bodyOut ++ [.comma]) ++ memToks m = sepBy ((B ++ [m]).map memToks) := by
  rw [List.map_append, List.map_cons, List.map_nil, sepBy_snoc, hb, sepBy_isEmpty _ (NE_map_memToks B)]
  cases B <;> simp

theorem step_inv (showI : Int → Str) (c : Cfg) (P : Toks) (M B : List (Str × Toks)) (t g r e : Bool) (st : LoopSt) (d : Datum)
    (h : LoopInv P M B t g r e st) :
    LoopInv P (M ++ (if isMain d then [predMember showI c d.keyId d.val] else []))
      (B ++ (if isMain d then [] else [predMember showI c (if d.inAnno then d.keyId else d.keyIri) d.val]))
      (t || (d.inAnno && decide (d.keyId = kType))) (g || (d.inAnno && decide (d.keyId = kId)))
      (r || (d.inAnno && decide (d.keyId = kGenerated))) (e || (d.inAnno && decide (d.keyId = kGenerator)))
      (stepDatum showI c st d) := by
  obtain ⟨ha, ho, hb, ht, hg, hr, he⟩ := h
  unfold stepDatum
  by_cases hA : d.inAnno = true
  · rw [if_pos hA]
    by_cases h1 : d.keyId = kGenerated
    · have hm : isMain d = true := by simp [isMain, isMainKey, hA, h1]
      rw [if_pos h1]; simp only [hm, ↓reduceIte]
      refine ⟨?_, ?_, ?_, ?_, ?_, ?_, ?_⟩
      · show _ ++ outPred showI c d.keyId d.val = _
        rw [outPred_eq]; exact push_main P M _ _ _ ha ho
      · show true = _; simp
      · show st.bodyOut = _; simpa using hb
      · show st.supType = _; simp [ht, hA, h1, kGenerated, kType]
      · show st.supId = _; simp [hg, hA, h1, kGenerated, kId]
      · show true = _; simp [hA, h1]
      · show st.supGenerator = _; simp [he, hA, h1, kGenerated, kGenerator]
    · rw [if_neg h1]
      by_cases h2 : d.keyId = kGenerator
      · have hm : isMain d = true := by simp [isMain, isMainKey, hA, h2]
        rw [if_pos h2]; simp only [hm, ↓reduceIte]
        refine ⟨?_, ?_, ?_, ?_, ?_, ?_, ?_⟩
        · show _ ++ outPred showI c d.keyId d.val = _
          rw [outPred_eq]; exact push_main P M _ _ _ ha ho
        · show true = _; simp
        · show st.bodyOut = _; simpa using hb
        · show st.supType = _; simp [ht, hA, h2, kGenerator, kType]
        · show st.supId = _; simp [hg, hA, h2, kGenerator, kId]
        · show st.supGenerated = _; simp [hr, hA, h1]
        · show true = _; simp [hA, h2]
      · rw [if_neg h2]
        by_cases h3 : d.keyId = kMotivation ∨ d.keyId = kCreated ∨ d.keyId = kCreator
        · have hm : isMain d = true := by
            rcases h3 with h | h | h <;> simp [isMain, isMainKey, hA, h]
          rw [if_pos h3]; simp only [hm, ↓reduceIte]
          refine ⟨?_, ?_, ?_, ?_, ?_, ?_, ?_⟩
          · show _ ++ outPred showI c d.keyId d.val = _
            rw [outPred_eq]; exact push_main P M _ _ _ ha ho
          · show true = _; simp
          · show st.bodyOut = _; simpa using hb
          · show st.supType = _
            rcases h3 with h | h | h <;> simp [ht, hA, h, kMotivation, kCreated, kCreator, kType]
          · show st.supId = _
            rcases h3 with h | h | h <;> simp [hg, hA, h, kMotivation, kCreated, kCreator, kId]
          · show st.supGenerated = _; simp [hr, hA, h1]
          · show st.supGenerator = _; simp [he, hA, h2]
        · have hm : isMain d = false := by
            simp only [not_or] at h3
            simp [isMain, isMainKey, hA, h1, h2, h3.1, h3.2.1, h3.2.2]
          rw [if_neg h3]; simp only [hm, Bool.false_eq_true, ↓reduceIte]
          refine ⟨?_, ?_, ?_, ?_, ?_, ?_, ?_⟩
          · show st.annOut = _; simpa using ha
          · show st.outMain = _; simpa using ho
          · show _ ++ outPred showI c d.keyId d.val = _
            rw [outPred_eq, if_pos hA]; exact push_body B _ _ hb
          · show (st.supType || decide (d.keyId = kType)) = _; simp [ht, hA]
          · show (st.supId || (decide (d.keyId ≠ kType) && decide (d.keyId = kId))) = _
            by_cases hk : d.keyId = kId
            · simp [hg, hA, hk, kId, kType]
            · simp [hg, hA, hk]
          · show st.supGenerated = _; simp [hr, hA, h1]
          · show st.supGenerator = _; simp [he, hA, h2]
  · have hA' : d.inAnno = false := by simpa using hA
    have hm : isMain d = false := by simp [isMain, hA']
    rw [if_neg hA]; simp only [hm, Bool.false_eq_true, ↓reduceIte]
    refine ⟨?_, ?_, ?_, ?_, ?_, ?_, ?_⟩
    · show st.annOut = _; simpa using ha
    · show st.outMain = _; simpa using ho
    · show _ ++ outPred showI c d.keyIri d.val = _
      rw [outPred_eq, if_neg hA]; exact push_body B _ _ hb
    · show st.supType = _; simp [ht, hA']
    · show st.supId = _; simp [hg, hA']
    · show st.supGenerated = _; simp [hr, hA']
    · show st.supGenerator = _; simp [he, hA']

theorem loop_inv (showI : Int → Str) (c : Cfg) (P : Toks) (data : List Datum) :
    ∀ (M B : List (Str × Toks)) (t g r e : Bool) (st : LoopSt), LoopInv P M B t g r e st →
      LoopInv P (M ++ mainMembers showI c data) (B ++ bodyMembers showI c data)
        (t || hasAnnoKey kType data) (g || hasAnnoKey kId data) (r || hasAnnoKey kGenerated data) (e || hasAnnoKey kGenerator data)
        (data.foldl (stepDatum showI c) st) := by
  induction data with
  | nil => intro M B t g r e st h; simpa [mainMembers, bodyMembers, hasAnnoKey] using h
  | cons d rest ih =>
    intro M B t g r e st h
    have h1 := step_inv showI c P M B t g r e st d h
    have h2 := ih _ _ _ _ _ _ _ h1
    simp only [List.foldl_cons]
    rw [mainMembers_cons, bodyMembers_cons, hasAnnoKey_cons, hasAnnoKey_cons, hasAnnoKey_cons, hasAnnoKey_cons]
    simpa [List.append_assoc, Bool.or_assoc] using h2

end Stam.WD
