import StamModel.WebAnnoDoc
/-
  Lemmas for the document assembly of the Web Annotation export (C17): joining with commas, the data loop,
  the selector walk.
-/
namespace Stam.WD
open Stam.WA (Str WV WVs isIri)

/-! ## joining -/

def NE (L : List Toks) : Prop := ∀ x ∈ L, x ≠ []

theorem sepBy_cons_cons (x y : Toks) (r : List Toks) : sepBy (x :: y :: r) = x ++ [.comma] ++ sepBy (y :: r) := rfl

theorem sepBy_cons_ne (x : Toks) (L : List Toks) (h : L ≠ []) : sepBy (x :: L) = x ++ [.comma] ++ sepBy L := by
  cases L with
  | nil => exact absurd rfl h
  | cons y r => rfl

theorem sepBy_append (L1 L2 : List Toks) (h1 : L1 ≠ []) (h2 : L2 ≠ []) :
    sepBy (L1 ++ L2) = sepBy L1 ++ [.comma] ++ sepBy L2 := by
  induction L1 with
  | nil => exact absurd rfl h1
  | cons x r ih =>
    cases r with
    | nil => simp [sepBy_cons_ne _ _ h2, sepBy]
    | cons y r' =>
      have : (y :: r') ++ L2 ≠ [] := by simp
      rw [List.cons_append, sepBy_cons_ne _ _ this, ih (by simp), sepBy_cons_cons]
      simp [List.append_assoc]

/-- every member followed by a comma -/
def withCommas (L : List Toks) : Toks := L.flatMap (fun x => x ++ [.comma])

theorem withCommas_append (A B : List Toks) : withCommas (A ++ B) = withCommas A ++ withCommas B := by
  simp [withCommas]

theorem sepBy_comma (L : List Toks) : (if L.isEmpty then [] else sepBy L ++ [.comma]) = withCommas L := by
  induction L with
  | nil => rfl
  | cons x r ih =>
    cases r with
    | nil => simp [sepBy, withCommas]
    | cons y r' =>
      simp only [List.isEmpty_cons] at ih ⊢
      rw [sepBy_cons_cons]
      simp only [Bool.false_eq_true, ↓reduceIte] at ih ⊢
      simp only [withCommas, List.flatMap_cons] at ih ⊢
      rw [← ih]; simp [List.append_assoc]

theorem sepBy_append_ne (L1 L2 : List Toks) (h2 : L2 ≠ []) : sepBy (L1 ++ L2) = withCommas L1 ++ sepBy L2 := by
  cases L1 with
  | nil => simp [withCommas]
  | cons x r =>
    rw [sepBy_append _ _ (by simp) h2, ← sepBy_comma]
    simp

theorem sepBy_eq_nil (L : List Toks) (h : NE L) : sepBy L = [] ↔ L = [] := by
  constructor
  · intro e
    cases L with
    | nil => rfl
    | cons x r =>
      exfalso
      have hx : x ≠ [] := h x (by simp)
      cases r with
      | nil => exact hx (by simpa [sepBy] using e)
      | cons y r' => rw [sepBy_cons_cons] at e; simp at e
  · intro e; subst e; rfl

theorem sepBy_isEmpty (L : List Toks) (h : NE L) : (sepBy L).isEmpty = L.isEmpty := by
  cases L with
  | nil => rfl
  | cons x r =>
    have : sepBy (x :: r) ≠ [] := fun e => absurd ((sepBy_eq_nil (x :: r) h).mp e) (by simp)
    simp [this]

theorem sepBy_snoc (L : List Toks) (m : Toks) :
    sepBy (L ++ [m]) = (if L.isEmpty then sepBy L else sepBy L ++ [.comma]) ++ m := by
  cases L with
  | nil => simp [sepBy]
  | cons x r => rw [sepBy_append _ _ (by simp) (by simp)]; simp [sepBy]

theorem NE_append {A B : List Toks} (ha : NE A) (hb : NE B) : NE (A ++ B) := by
  intro x hx; rcases List.mem_append.mp hx with h | h
  · exact ha x h
  · exact hb x h

/-! ## members -/

/-- a member as it is written -/
def memToks (m : Str × Toks) : Toks := [.str m.1, .colon] ++ m.2

theorem objT_eq (ms : List (Str × Toks)) : objT ms = [.lb] ++ sepBy (ms.map memToks) ++ [.rb] := rfl

theorem memToks_ne (m : Str × Toks) : memToks m ≠ [] := by simp [memToks]

theorem NE_map_memToks (ms : List (Str × Toks)) : NE (ms.map memToks) := by
  intro x hx; rcases List.mem_map.mp hx with ⟨m, _, rfl⟩; exact memToks_ne m

theorem outPred_eq (showI : Int → Str) (c : Cfg) (pred : Str) (v : WV) :
    outPred showI c pred v = memToks (predMember showI c pred v) := by
  unfold outPred predMember memToks
  cases h : valueIsIri v <;> simp [objT, sepBy]

/-! ## the context -/

theorem nsLoop_spec (L : List (Str × Str)) (B : List (Str × Toks)) :
    nsLoop (sepBy (B.map memToks)) L = sepBy ((B ++ L.map (fun p => (p.2, [Tok.str p.1]))).map memToks) := by
  induction L generalizing B with
  | nil => simp [nsLoop]
  | cons p r ih =>
    obtain ⟨uri, ns⟩ := p
    simp only [nsLoop]
    have hstep : (if (sepBy (B.map memToks)).isEmpty then sepBy (B.map memToks) else sepBy (B.map memToks) ++ [.comma]) ++ [.str ns, .colon, .str uri]
        = sepBy ((B ++ [(ns, [Tok.str uri])]).map memToks) := by
      rw [List.map_append, List.map_cons, List.map_nil, sepBy_snoc, sepBy_isEmpty _ (NE_map_memToks B)]
      simp [memToks]
    rw [hstep, ih]
    simp

theorem ctxToks_eq (c : Cfg) : ctxToks c = ctxSpec c := by
  have hns : nsLoop [] c.namespaces = sepBy ((c.namespaces.map (fun p => (p.2, [Tok.str p.1]))).map memToks) := by
    have := nsLoop_spec c.namespaces []
    simpa [sepBy] using this
  unfold ctxToks ctxSpec
  rw [hns]
  by_cases he : c.extraContext = [] <;> by_cases hn : c.namespaces = []
  · simp [he, hn]
  · simp [he, hn, arrT, objT, sepBy, memToks, Function.comp_def]
  · have hex : (c.extraContext.map (fun u => [Tok.str u])) ≠ [] := by simpa using he
    simp only [arrT]
    rw [show ([[Tok.str vContextAnno]] ++ c.extraContext.map (fun u => [Tok.str u]) ++ (if c.namespaces.isEmpty = true then [] else [objT (c.namespaces.map (fun p => (p.2, [Tok.str p.1])))]))
        = [Tok.str vContextAnno] :: c.extraContext.map (fun u => [Tok.str u]) from by simp [hn],
      sepBy_cons_ne _ _ hex]
    simp [he, hn]
  · have hex : (c.extraContext.map (fun u => [Tok.str u])) ≠ [] := by simpa using he
    simp only [arrT]
    have h2 : (c.extraContext.map (fun u => [Tok.str u]) ++ [objT (c.namespaces.map (fun p => (p.2, [Tok.str p.1])))]) ≠ [] := by simp
    rw [show ([[Tok.str vContextAnno]] ++ c.extraContext.map (fun u => [Tok.str u]) ++ (if c.namespaces.isEmpty = true then [] else [objT (c.namespaces.map (fun p => (p.2, [Tok.str p.1])))]))
        = [Tok.str vContextAnno] :: (c.extraContext.map (fun u => [Tok.str u]) ++ [objT (c.namespaces.map (fun p => (p.2, [Tok.str p.1])))]) from by simp [hn],
      sepBy_cons_ne _ _ h2, sepBy_append _ _ hex (by simp)]
    simp [he, hn, sepBy, objT, memToks, Function.comp_def]

/-! ## the data loop -/

theorem mainMembers_cons (showI : Int → Str) (c : Cfg) (d : Datum) (data : List Datum) :
    mainMembers showI c (d :: data) = (if isMain d then [predMember showI c d.keyId d.val] else []) ++ mainMembers showI c data := by
  unfold mainMembers; by_cases h : isMain d <;> simp [List.filter_cons, h]

theorem bodyMembers_cons (showI : Int → Str) (c : Cfg) (d : Datum) (data : List Datum) :
    bodyMembers showI c (d :: data) =
      (if isMain d then [] else [predMember showI c (if d.inAnno then d.keyId else d.keyIri) d.val]) ++ bodyMembers showI c data := by
  unfold bodyMembers; by_cases h : isMain d <;> simp [List.filter_cons, h]

theorem hasAnnoKey_cons (k : Str) (d : Datum) (data : List Datum) :
    hasAnnoKey k (d :: data) = ((d.inAnno && decide (d.keyId = k)) || hasAnnoKey k data) := by
  simp [hasAnnoKey]

/-- what the loop maintains: the annotation-level members and the body members put out so far, joined by commas -/
structure LoopInv (P : Toks) (M B : List (Str × Toks)) (t g r e : Bool) (st : LoopSt) : Prop where
  ann : st.annOut = P ++ sepBy (M.map memToks)
  om : st.outMain = !M.isEmpty
  body : st.bodyOut = sepBy (B.map memToks)
  st_ : st.supType = t
  si : st.supId = g
  sg : st.supGenerated = r
  sr : st.supGenerator = e

theorem push_main (P : Toks) (M : List (Str × Toks)) (m : Str × Toks) (outMain : Bool) (annOut : Toks)
    (ha : annOut = P ++ sepBy (M.map memToks)) (ho : outMain = !M.isEmpty) :
    (if outMain then annOut ++ [.comma] else annOut) ++ memToks m = P ++ sepBy ((M ++ [m]).map memToks) := by
  rw [List.map_append, List.map_cons, List.map_nil, sepBy_snoc, ha, ho]
  cases M <;> simp

theorem push_body (B : List (Str × Toks)) (m : Str × Toks) (bodyOut : Toks) (hb : bodyOut = sepBy (B.map memToks)) :
    (if bodyOut.isEmpty then bodyOut else bodyOut ++ [.comma]) ++ memToks m = sepBy ((B ++ [m]).map memToks) := by
  rw [List.map_append, List.map_cons, List.map_nil, sepBy_snoc, hb, sepBy_isEmpty _ (NE_map_memToks B)]

theorem step_inv (showI : Int → Str) (c : Cfg) (P : Toks) (M B : List (Str × Toks)) (t g r e : Bool) (st : LoopSt) (d : Datum)
    (h : LoopInv P M B t g r e st) :
    LoopInv P (M ++ (if isMain d then [predMember showI c d.keyId d.val] else []))
      (B ++ (if isMain d then [] else [predMember showI c (if d.inAnno then d.keyId else d.keyIri) d.val]))
      (t || (d.inAnno && decide (d.keyId = kType))) (g || (d.inAnno && decide (d.keyId = kId)))
      (r || (d.inAnno && decide (d.keyId = kGenerated))) (e || (d.inAnno && decide (d.keyId = kGenerator)))
      (stepDatum showI c st d) := by
  obtain ⟨ha, ho, hb, ht, hg, hr, he⟩ := h
  by_cases hA : d.inAnno = true
  · by_cases h1 : d.keyId = kGenerated
    · have hm : isMain d = true := by simp [isMain, isMainKey, hA, h1]
      have hs : stepDatum showI c st d = { st with annOut := (if st.outMain then st.annOut ++ [.comma] else st.annOut) ++ outPred showI c d.keyId d.val, supGenerated := true, outMain := true } := by
        simp [stepDatum, hA, h1]
      rw [hs, hm]
      refine ⟨?_, ?_, ?_, ?_, ?_, ?_, ?_⟩
      · show _ ++ outPred showI c d.keyId d.val = _
        rw [outPred_eq]; exact push_main P M _ _ _ ha ho
      · show true = _; simp
      · show st.bodyOut = _; simpa using hb
      · show st.supType = _; simp [ht, h1, kGenerated, kType]
      · show st.supId = _; simp [hg, h1, kGenerated, kId]
      · show true = _; simp [hA, h1]
      · show st.supGenerator = _; simp [he, h1, kGenerated, kGenerator]
    · by_cases h2 : d.keyId = kGenerator
      · have hm : isMain d = true := by simp [isMain, isMainKey, hA, h2]
        have hs : stepDatum showI c st d = { st with annOut := (if st.outMain then st.annOut ++ [.comma] else st.annOut) ++ outPred showI c d.keyId d.val, supGenerator := true, outMain := true } := by
          simp only [stepDatum, hA, ↓reduceIte, if_neg h1, if_pos h2]
        rw [hs, hm]
        refine ⟨?_, ?_, ?_, ?_, ?_, ?_, ?_⟩
        · show _ ++ outPred showI c d.keyId d.val = _
          rw [outPred_eq]; exact push_main P M _ _ _ ha ho
        · show true = _; simp
        · show st.bodyOut = _; simpa using hb
        · show st.supType = _; simp [ht, h2, kGenerator, kType]
        · show st.supId = _; simp [hg, h2, kGenerator, kId]
        · show st.supGenerated = _; simp [hr, h1]
        · show true = _; simp [hA, h2]
      · by_cases h3 : d.keyId = kMotivation ∨ d.keyId = kCreated ∨ d.keyId = kCreator
        · have hm : isMain d = true := by
            rcases h3 with h | h | h <;> simp [isMain, isMainKey, hA, h]
          have hs : stepDatum showI c st d = { st with annOut := (if st.outMain then st.annOut ++ [.comma] else st.annOut) ++ outPred showI c d.keyId d.val, outMain := true } := by
            simp only [stepDatum, hA, ↓reduceIte, if_neg h1, if_neg h2, if_pos h3]
          rw [hs, hm]
          refine ⟨?_, ?_, ?_, ?_, ?_, ?_, ?_⟩
          · show _ ++ outPred showI c d.keyId d.val = _
            rw [outPred_eq]; exact push_main P M _ _ _ ha ho
          · show true = _; simp
          · show st.bodyOut = _; simpa using hb
          · show st.supType = _
            rcases h3 with h | h | h <;> simp [ht, h, kMotivation, kCreated, kCreator, kType]
          · show st.supId = _
            rcases h3 with h | h | h <;> simp [hg, h, kMotivation, kCreated, kCreator, kId]
          · show st.supGenerated = _; simp [hr, h1]
          · show st.supGenerator = _; simp [he, h2]
        · have hm : isMain d = false := by
            simp only [not_or] at h3
            simp [isMain, isMainKey, hA, h1, h2, h3.1, h3.2.1, h3.2.2]
          have hs : stepDatum showI c st d =
              { st with
                supType := (st.supType || decide (d.keyId = kType))
                supId := (st.supId || (decide (d.keyId ≠ kType) && decide (d.keyId = kId)))
                bodyOut := (if st.bodyOut.isEmpty then st.bodyOut else st.bodyOut ++ [.comma]) ++ outPred showI c d.keyId d.val } := by
            simp only [stepDatum, hA, ↓reduceIte, if_neg h1, if_neg h2, if_neg h3]
          rw [hs, hm]
          refine ⟨?_, ?_, ?_, ?_, ?_, ?_, ?_⟩
          · show st.annOut = _; simpa using ha
          · show st.outMain = _; simpa using ho
          · show _ ++ outPred showI c d.keyId d.val = _
            rw [outPred_eq]; simp only [hA, ↓reduceIte, Bool.false_eq_true]; exact push_body B _ _ hb
          · show (st.supType || decide (d.keyId = kType)) = _; simp [ht, hA]
          · show (st.supId || (decide (d.keyId ≠ kType) && decide (d.keyId = kId))) = _
            by_cases hk : d.keyId = kId
            · simp [hg, hA, hk, kId, kType]
            · simp [hg, hA, hk]
          · show st.supGenerated = _; simp [hr, h1]
          · show st.supGenerator = _; simp [he, h2]
  · have hA' : d.inAnno = false := by simpa using hA
    have hm : isMain d = false := by simp [isMain, hA']
    have hs : stepDatum showI c st d = { st with bodyOut := (if st.bodyOut.isEmpty then st.bodyOut else st.bodyOut ++ [.comma]) ++ outPred showI c d.keyIri d.val } := by
      simp [stepDatum, hA']
    rw [hs, hm]
    refine ⟨?_, ?_, ?_, ?_, ?_, ?_, ?_⟩
    · show st.annOut = _; simpa using ha
    · show st.outMain = _; simpa using ho
    · show _ ++ outPred showI c d.keyIri d.val = _
      rw [outPred_eq]; simp only [hA', Bool.false_eq_true, ↓reduceIte]; exact push_body B _ _ hb
    · show st.supType = _; simp [ht, hA']
    · show st.supId = _; simp [hg, hA']
    · show st.supGenerated = _; simp [hr, hA']
    · show st.supGenerator = _; simp [he, hA']

theorem loop_inv (showI : Int → Str) (c : Cfg) (P : Toks) (data : List Datum) :
    ∀ (M B : List (Str × Toks)) (t g r e : Bool) (st : LoopSt), LoopInv P M B t g r e st →
      LoopInv P (M ++ mainMembers showI c data) (B ++ bodyMembers showI c data)
        (t || hasAnnoKey kType data) (g || hasAnnoKey kId data) (r || hasAnnoKey kGenerated data) (e || hasAnnoKey kGenerator data)
        (data.foldl (stepDatum showI c) st) := by
  induction data with
  | nil => intro M B t g r e st h; simpa [mainMembers, bodyMembers, hasAnnoKey] using h
  | cons d rest ih =>
    intro M B t g r e st h
    have h1 := step_inv showI c P M B t g r e st d h
    have h2 := ih _ _ _ _ _ _ _ h1
    simp only [List.foldl_cons]
    rw [mainMembers_cons, bodyMembers_cons, hasAnnoKey_cons, hasAnnoKey_cons, hasAnnoKey_cons, hasAnnoKey_cons]
    simpa [List.append_assoc, Bool.or_assoc] using h2

/-! ## selectors -/

theorem objT_ne (ms : List (Str × Toks)) : objT ms ≠ [] := by simp [objT]

theorem textObj_eq (resIri : Str) (b e : Nat) : textObj resIri b e = textSpec resIri b e := by
  simp [textObj, textSpec, objT, sepBy]

mutual
theorem selItems_ne (tmpl second : Bool) : ∀ s, NE (selItems tmpl second s)
  | .text resIri b e t => by
    intro x hx
    unfold selItems at hx
    by_cases hs : second = true <;> by_cases ht : tmpl = true <;> simp [hs, ht, textSpec] at hx <;> subst hx <;> simp [objT]
  | .ann (some iri) => by intro x hx; simp [selItems] at hx; subst hx; exact objT_ne _
  | .ann none => by intro x hx; simp [selItems] at hx; subst hx; exact objT_ne _
  | .res iri => by intro x hx; simp [selItems] at hx; subst hx; exact objT_ne _
  | .set iri => by intro x hx; simp [selItems] at hx; subst hx; exact objT_ne _
  | .complex kind subs => by intro x hx; simp [selItems] at hx; subst hx; exact objT_ne _
  | .skip => by intro x hx; simp [selItems] at hx
  | .ranged subs => by unfold selItems; exact selsItems_ne tmpl second subs
theorem selsItems_ne (tmpl second : Bool) : ∀ ss, NE (selsItems tmpl second ss)
  | [] => by intro x hx; simp [selsItems] at hx
  | s :: ss => by unfold selsItems; exact NE_append (selItems_ne tmpl second s) (selsItems_ne tmpl second ss)
end

/-- joining the non-empty ones among the joined groups is joining everything -/
theorem join_groups (I : List Toks) (F R : List Toks) (hI : NE I) (hF : NE F) (hR : NE R) (h : sepBy F = sepBy R) :
    sepBy ((sepBy I :: F).filter (fun i => !i.isEmpty)) = sepBy (I ++ R) := by
  have hFf : F.filter (fun i => !i.isEmpty) = F := by
    apply List.filter_eq_self.mpr; intro x hx; simpa [List.isEmpty_iff] using hF x hx
  have hFR : F = [] ↔ R = [] := by rw [← sepBy_eq_nil F hF, ← sepBy_eq_nil R hR, h]
  by_cases hi : I = []
  · subst hi; simp [sepBy, hFf, h]
  · have hne : sepBy I ≠ [] := fun e => hi ((sepBy_eq_nil I hI).mp e)
    have : (sepBy I :: F).filter (fun i => !i.isEmpty) = sepBy I :: F := by
      rw [List.filter_cons]; simp [List.isEmpty_iff, hne, hFf]
    rw [this]
    by_cases hf : F = []
    · have hr : R = [] := hFR.mp hf
      subst hf; subst hr; simp [sepBy]
    · have hr : R ≠ [] := fun e => hf (hFR.mpr e)
      rw [sepBy_cons_ne _ _ hf, sepBy_append _ _ hi hr, h]

mutual
theorem outSel_nested (tmpl second : Bool) : ∀ s, (outSel tmpl true second s).1 = sepBy (selItems tmpl second s)
  | .text resIri b e t => by
    cases second <;> cases tmpl <;> simp [outSel, selItems, sepBy, textObj_eq]
  | .ann (some iri) => by simp [outSel, selItems, sepBy, objT]
  | .ann none => by simp [outSel, selItems, sepBy, objT]
  | .res iri => by simp [outSel, selItems, sepBy, objT]
  | .set iri => by simp [outSel, selItems, sepBy, objT]
  | .complex kind subs => by
    have := outSels_items tmpl second subs
    simp only [outSel, selItems, sepBy, objT, arrT, List.map_cons, List.map_nil]
    rw [this]; simp
  | .skip => by simp [outSel, selItems, sepBy]
  | .ranged subs => by
    have := outSels_items tmpl second subs
    simp only [outSel, selItems, ↓reduceIte]
    exact this
theorem outSels_items (tmpl second : Bool) : ∀ ss,
    sepBy (((outSels tmpl second ss).1).filter (fun i => !i.isEmpty)) = sepBy (selsItems tmpl second ss)
  | [] => by simp [outSels, selsItems]
  | s :: ss => by
    have h1 := outSel_nested tmpl second s
    have h2 := outSels_items tmpl second ss
    simp only [outSels, selsItems]
    rw [h1]
    have hF : NE (((outSels tmpl second ss).1).filter (fun i => !i.isEmpty)) := by
      intro x hx; have := (List.mem_filter.mp hx).2; simpa [List.isEmpty_iff] using this
    have := join_groups (selItems tmpl second s) _ (selsItems tmpl second ss) (selItems_ne tmpl second s) hF (selsItems_ne tmpl second ss) h2
    rw [← this]
    rw [List.filter_cons, List.filter_cons]
    by_cases he : (sepBy (selItems tmpl second s)).isEmpty = true <;> simp [he]
end

mutual
theorem outSel_need (tmpl : Bool) : ∀ s, (outSel tmpl true false s).2 = (tmpl && hasText s)
  | .text resIri b e t => by simp [outSel, hasText]
  | .ann (some iri) => by simp [outSel, hasText]
  | .ann none => by simp [outSel, hasText]
  | .res iri => by simp [outSel, hasText]
  | .set iri => by simp [outSel, hasText]
  | .complex kind subs => by simp [outSel, hasText, outSels_need tmpl subs]
  | .skip => by simp [outSel, hasText]
  | .ranged subs => by simp [outSel, hasText, outSels_need tmpl subs]
theorem outSels_need (tmpl : Bool) : ∀ ss, (outSels tmpl false ss).2 = (tmpl && hasTexts ss)
  | [] => by simp [outSels, hasTexts]
  | s :: ss => by
    simp only [outSels, hasTexts, outSel_need tmpl s, outSels_need tmpl ss]
    cases tmpl <;> simp
end

/-! ## the target -/

theorem complex_pass (tmpl second : Bool) (kind : Nat) (subs : List Sel) :
    (outSel tmpl false second (.complex kind subs)).1
      = objT [(kType, [.str (complexType kind)]), (kItems, arrT (selsItems tmpl second subs))] := by
  have := outSels_items tmpl second subs
  simp only [outSel, objT, arrT, sepBy, List.map_cons, List.map_nil]
  rw [this]; simp

theorem target_eq (tmpl : Bool) (sel : Sel) (h : TopOk sel) :
    (if (outSel tmpl false false sel).2 then
        [Tok.lk] ++ (outSel tmpl false false sel).1 ++ [.comma] ++ (outSel tmpl false true sel).1 ++ [.rk]
      else (outSel tmpl false false sel).1) = targetSpec tmpl sel := by
  cases sel with
  | text resIri b e t => cases tmpl <;> simp [outSel, targetSpec, arrT, sepBy, textObj_eq]
  | ann iri => cases iri <;> simp [outSel, targetSpec, selItems, sepBy, objT]
  | res iri => simp [outSel, targetSpec, selItems, sepBy, objT]
  | set iri => simp [outSel, targetSpec, selItems, sepBy, objT]
  | complex kind subs =>
    have hn : (outSel tmpl false false (.complex kind subs)).2 = (tmpl && hasTexts subs) := by
      simp [outSel, outSels_need]
    rw [hn, complex_pass, complex_pass]
    simp only [targetSpec]
    by_cases hc : (tmpl && hasTexts subs) = true
    · simp [hc, arrT, sepBy]
    · simp [hc]
  | skip => exact absurd h (by simp [TopOk])
  | ranged subs => exact absurd h (by simp [TopOk])

/-! ## the document -/

theorem withCommas_singleton (x : Toks) : withCommas [x] = x ++ [.comma] := by simp [withCommas]
theorem withCommas_nil : withCommas [] = [] := rfl
theorem withCommas_cons (x : Toks) (L : List Toks) : withCommas (x :: L) = x ++ [.comma] ++ withCommas L := by
  simp [withCommas]

theorem objT_append_ne (X Y : List (Str × Toks)) (hy : Y ≠ []) :
    objT (X ++ Y) = [.lb] ++ withCommas (X.map memToks) ++ sepBy (Y.map memToks) ++ [.rb] := by
  rw [objT_eq, List.map_append, sepBy_append_ne _ _ (by simpa using hy)]
  simp

theorem idToks_eq (c : Cfg) (annIri : Option Str) (suffix : Str) :
    idToks c annIri suffix = withCommas ((idMem c annIri suffix).map memToks) := by
  unfold idToks idMem
  cases annIri with
  | some iri => simp [withCommas, memToks]
  | none => cases c.genIri <;> simp [withCommas, memToks]

theorem prefix_eq (c : Cfg) (annIri : Option Str) :
    prefixToks c annIri = [.lb] ++ withCommas ((([(kContext, ctxSpec c)] ++ idMem c annIri [] ++ [(kType, [Tok.str vAnnotation])]) : List (Str × Toks)).map memToks) := by
  simp only [prefixToks, ctxToks_eq, idToks_eq, List.map_append, withCommas_append]
  simp [withCommas, memToks]

theorem finish_spec (c : Cfg) (annIri : Option Str) (sel : Sel) (h : TopOk sel)
    (P : Toks) (M B : List (Str × Toks)) (t g r e : Bool) (st : LoopSt) (hi : LoopInv P M B t g r e st) :
    finish c annIri st sel =
      P ++ withCommas ((M
        ++ (if c.autoGenerated && !r then [(kGenerated, [Tok.str nowMark])] else [])
        ++ (if c.autoGenerator && !e then
              [(kGenerator, objT [(kId, [.str vLibIri]), (kType, [.str vSoftware]), (kName, [.str vLibName])])] else [])
        ++ (if B.isEmpty then [] else
              [(kBody, objT ((if t then [] else [(kType, [Tok.str vDataset])])
                ++ (if g then [] else idMem c annIri vBodySuffix) ++ B))])).map memToks)
        ++ memToks (kTarget, targetSpec c.hasTemplate sel) ++ [.rb] := by
  obtain ⟨ha, ho, hb, ht, hg, hr, he⟩ := hi
  have hbe : st.bodyOut.isEmpty = B.isEmpty := by rw [hb, sepBy_isEmpty _ (NE_map_memToks _)]; simp
  have hme : (if st.outMain then st.annOut ++ [.comma] else st.annOut) = P ++ withCommas (M.map memToks) := by
    rw [ha, ho, ← sepBy_comma]
    cases M <;> simp [sepBy]
  have htg := target_eq c.hasTemplate sel h
  unfold finish
  simp only [hme, hbe, ht, hg, hr, he]
  rw [show (if (outSel c.hasTemplate false false sel).2 = true then
        (_ : Toks) ++ [Tok.str kTarget, Tok.colon] ++ ([Tok.lk] ++ (outSel c.hasTemplate false false sel).1 ++ [Tok.comma] ++ (outSel c.hasTemplate false true sel).1 ++ [Tok.rk])
      else _ ++ [Tok.str kTarget, Tok.colon] ++ (outSel c.hasTemplate false false sel).1)
      = _ ++ [Tok.str kTarget, Tok.colon] ++ targetSpec c.hasTemplate sel from by rw [← htg]; split <;> rfl]
  by_cases h3 : B = []
  · subst h3
    by_cases h1 : (c.autoGenerated && !r) = true <;> by_cases h2 : (c.autoGenerator && !e) = true <;>
      simp [h1, h2, withCommas, memToks, objT, sepBy]
  · have hB : B.isEmpty = false := by simpa [List.isEmpty_iff] using h3
    have hbody' : ∀ R : Toks, [Tok.str kBody, Tok.colon, Tok.lb] ++
        ((if (!t) = true then [Tok.str kType, Tok.colon, Tok.str vDataset, Tok.comma] else []) ++
          ((if (!g) = true then idToks c annIri vBodySuffix else []) ++ (st.bodyOut ++ ([Tok.rb, Tok.comma] ++ R))))
        = withCommas ([(kBody, objT ((if t then [] else [(kType, [Tok.str vDataset])])
                ++ ((if g then [] else idMem c annIri vBodySuffix) ++ B)))].map memToks) ++ R := by
      intro R
      rw [← List.append_assoc _ _ B, objT_append_ne _ B h3, hb, idToks_eq]
      cases t <;> cases g <;> simp [withCommas, memToks]
    simp only [hB, Bool.not_false, ↓reduceIte, Bool.false_eq_true]
    by_cases h1 : (c.autoGenerated && !r) = true <;> by_cases h2 : (c.autoGenerator && !e) = true
    all_goals
      simp only [h1, h2, ↓reduceIte, List.append_assoc, Bool.false_eq_true]
      rw [hbody']
      simp only [List.map_append, withCommas_append, List.append_assoc, List.nil_append, List.map_nil, withCommas_nil]
      simp [withCommas, memToks, sepBy, objT_eq]

/-! ## the specified document is well-formed JSON -/

def wvList : WVs → List WV
  | .nil => []
  | .cons x xs => x :: wvList xs

theorem elemToks_eq (showI : Int → Str) : ∀ xs, elemToks showI xs = sepBy ((wvList xs).map (valToks showI))
  | .nil => by simp [elemToks, wvList, sepBy]
  | .cons x .nil => by simp [elemToks, wvList, sepBy]
  | .cons x (.cons y ys) => by
    have := elemToks_eq showI (.cons y ys)
    simp only [elemToks, wvList, List.map_cons] at this ⊢
    rw [this, sepBy_cons_cons]

mutual
theorem valToks_wf (showI : Int → Str) : ∀ v, WF (valToks showI v)
  | .null => by simp only [valToks]; exact WF.raw _
  | .bool true => by simp only [valToks]; exact WF.raw _
  | .bool false => by simp only [valToks]; exact WF.raw _
  | .int n => by simp only [valToks]; exact WF.raw _
  | .str s => by simp only [valToks]; exact WF.str _
  | .lit l => by simp only [valToks]; exact WF.raw _
  | .list xs => by
    simp only [valToks, elemToks_eq]
    exact WF.arr _ (elems_wf showI xs)
theorem elems_wf (showI : Int → Str) : ∀ xs, ∀ t ∈ (wvList xs).map (valToks showI), WF t
  | .nil => by intro t ht; simp [wvList] at ht
  | .cons x xs => by
    intro t ht
    simp only [wvList, List.map_cons, List.mem_cons] at ht
    rcases ht with rfl | ht
    · exact valToks_wf showI x
    · exact elems_wf showI xs t ht
end

theorem wf_obj1 (k : Str) (v : Toks) (hv : WF v) : WF (objT [(k, v)]) :=
  WF.obj _ (by intro m hm; simp at hm; subst hm; exact hv)

theorem predMember_wf (showI : Int → Str) (c : Cfg) (pred : Str) (v : WV) : WF (predMember showI c pred v).2 := by
  unfold predMember
  cases h : valueIsIri v with
  | some s => exact wf_obj1 _ _ (WF.str s)
  | none => exact valToks_wf showI v

theorem ctxSpec_wf (c : Cfg) : WF (ctxSpec c) := by
  unfold ctxSpec
  split
  · exact WF.str _
  · refine WF.arr _ ?_
    intro t ht
    simp only [List.mem_append, List.mem_cons, List.mem_map, List.not_mem_nil, or_false] at ht
    rcases ht with (rfl | ⟨u, _, rfl⟩) | ht
    · exact WF.str _
    · exact WF.str _
    · split at ht
      · simp at ht
      · simp only [List.mem_cons, List.not_mem_nil, or_false] at ht
        subst ht
        refine WF.obj _ ?_
        intro m hm
        rcases List.mem_map.mp hm with ⟨p, _, rfl⟩
        exact WF.str _

theorem textSpec_wf (resIri : Str) (b e : Nat) : WF (textSpec resIri b e) := by
  unfold textSpec
  refine WF.obj _ ?_
  intro m hm
  simp only [List.mem_cons, List.not_mem_nil, or_false] at hm
  rcases hm with rfl | rfl
  · exact WF.str _
  · refine WF.obj _ ?_
    intro m hm
    simp only [List.mem_cons, List.not_mem_nil, or_false] at hm
    rcases hm with rfl | rfl | rfl
    · exact WF.str _
    · exact WF.raw _
    · exact WF.raw _

theorem wf_obj2 (k1 k2 : Str) (v1 v2 : Toks) (h1 : WF v1) (h2 : WF v2) : WF (objT [(k1, v1), (k2, v2)]) :=
  WF.obj _ (by
    intro m hm
    simp only [List.mem_cons, List.not_mem_nil, or_false] at hm
    rcases hm with rfl | rfl
    · exact h1
    · exact h2)

mutual
theorem selItems_wf (tmpl second : Bool) : ∀ s, ∀ t ∈ selItems tmpl second s, WF t
  | .text resIri b e tm => by
    intro t ht
    unfold selItems at ht
    by_cases hs : second = true <;> by_cases hm : tmpl = true <;> simp [hs, hm] at ht <;> subst ht
    · exact WF.str _
    · exact textSpec_wf _ _ _
    · exact textSpec_wf _ _ _
  | .ann (some iri) => by intro t ht; simp [selItems] at ht; subst ht; exact wf_obj2 _ _ _ _ (WF.str _) (WF.str _)
  | .ann none => by intro t ht; simp [selItems] at ht; subst ht; exact wf_obj1 _ _ (WF.raw _)
  | .res iri => by intro t ht; simp [selItems] at ht; subst ht; exact wf_obj2 _ _ _ _ (WF.str _) (WF.str _)
  | .set iri => by intro t ht; simp [selItems] at ht; subst ht; exact wf_obj2 _ _ _ _ (WF.str _) (WF.str _)
  | .complex kind subs => by
    intro t ht; simp [selItems] at ht; subst ht
    exact wf_obj2 _ _ _ _ (WF.str _) (WF.arr _ (selsItems_wf tmpl second subs))
  | .skip => by intro t ht; simp [selItems] at ht
  | .ranged subs => by unfold selItems; exact selsItems_wf tmpl second subs
theorem selsItems_wf (tmpl second : Bool) : ∀ ss, ∀ t ∈ selsItems tmpl second ss, WF t
  | [] => by intro t ht; simp [selsItems] at ht
  | s :: ss => by
    intro t ht
    unfold selsItems at ht
    rcases List.mem_append.mp ht with h | h
    · exact selItems_wf tmpl second s t h
    · exact selsItems_wf tmpl second ss t h
end

theorem targetSpec_wf (tmpl : Bool) (sel : Sel) (h : TopOk sel) : WF (targetSpec tmpl sel) := by
  cases sel with
  | text resIri b e t =>
    simp only [targetSpec]
    split
    · refine WF.arr _ ?_
      intro x hx
      simp only [List.mem_cons, List.not_mem_nil, or_false] at hx
      rcases hx with rfl | rfl
      · exact textSpec_wf _ _ _
      · exact WF.str _
    · exact textSpec_wf _ _ _
  | ann iri =>
    have := selItems_wf tmpl false (.ann iri)
    cases iri <;> simp only [targetSpec, selItems, sepBy] at this ⊢ <;> exact this _ (by simp)
  | res iri =>
    have := selItems_wf tmpl false (.res iri)
    simp only [targetSpec, selItems, sepBy] at this ⊢; exact this _ (by simp)
  | set iri =>
    have := selItems_wf tmpl false (.set iri)
    simp only [targetSpec, selItems, sepBy] at this ⊢; exact this _ (by simp)
  | complex kind subs =>
    have hp : ∀ second, WF (objT [(kType, [.str (complexType kind)]), (kItems, arrT (selsItems tmpl second subs))]) :=
      fun second => wf_obj2 _ _ _ _ (WF.str _) (WF.arr _ (selsItems_wf tmpl second subs))
    simp only [targetSpec]
    split
    · refine WF.arr _ ?_
      intro x hx
      simp only [List.mem_cons, List.not_mem_nil, or_false] at hx
      rcases hx with rfl | rfl
      · exact hp false
      · exact hp true
    · exact hp false
  | skip => exact absurd h (by simp [TopOk])
  | ranged subs => exact absurd h (by simp [TopOk])

theorem idMem_wf (c : Cfg) (annIri : Option Str) (suffix : Str) : ∀ m ∈ idMem c annIri suffix, WF m.2 := by
  intro m hm
  unfold idMem at hm
  cases annIri with
  | some iri => simp at hm; subst hm; exact WF.str _
  | none =>
    simp only at hm
    split at hm
    · simp at hm; subst hm; exact WF.str _
    · simp at hm

end Stam.WD
