import StamModel.Gen.Kernels
/-
  C13 — the tie between the hand-written relation model (`Stam.relPos`, `Stam.test` in Rel.lean, which the C13 and
  C06 theorems are about) and the definition the translator regenerates from `src/textselection.rs` on every run
  (`Stam.Gen.relPos`). A change of an arm of `TextSelection::test` changes the generated definition, and these
  theorems no longer check.
-/
namespace Stam

/-- both sides are boolean combinations of comparisons: compare them as propositions of linear arithmetic -/
macro "arith_bool" : tactic =>
  `(tactic| (simp only [Gen.relPos, relPos, Option.some.injEq]
             first
               | done
               | (rw [Bool.eq_iff_iff]
                  simp only [Bool.and_eq_true, Bool.or_eq_true, decide_eq_true_eq]
                  first | done | omega)))

/-- two selections are the same when their ends are (the source compares the ends; the model compares the selections) -/
theorem tsel_decide_eq (a c : TSel) : (decide (a.b = c.b) && decide (a.e = c.e)) = decide (a = c) := by
  cases a; cases c; simp

/-- on every operator without `negate` the source's arm computes what the model computes -/
theorem gen_relPos_agrees (op : Op) (a c : TSel) (r : Res) (h : op.neg = false) :
    Gen.relPos op a c r = some (relPos op a c r) := by
  cases op <;> simp only [Op.neg] at h <;> subst h
  all_goals first
    | (simp [Gen.relPos, relPos]; done)
    | (simp [Gen.relPos, relPos, tsel_decide_eq]; done)
    | (rename_i l; cases l <;> simp [Gen.relPos, relPos, Bool.and_assoc]; done)
    | (rename_i w; cases w <;> simp [Gen.relPos, relPos]; done)
    -- a rewrite of an arm into an equivalent piece of linear arithmetic still checks
    | arith_bool
    | (rename_i l; cases l <;> arith_bool)

/-- on every operator with `negate` the source recurses through `toggle_negate` (no arm of its own) -/
theorem gen_relPos_negated (op : Op) (a c : TSel) (r : Res) (h : op.neg = true) : Gen.relPos op a c r = none := by
  cases op <;> simp only [Op.neg] at h <;> subst h <;> simp [Gen.relPos]

/-- the recursive arm names all twelve operators -/
theorem gen_negatedArm_complete :
    Gen.negatedArm = ["after", "before", "embedded", "embeds", "equals", "inset", "overlaps", "precedes",
      "samebegin", "sameend", "samerange", "succeeds"] := by decide

/-- so `TextSelection::test`, as the source has it, is the model's `test` -/
theorem gen_test_agrees (op : Op) (a c : TSel) (r : Res) :
    test op a c r = (if op.neg then (Gen.relPos op.toggleNeg a c r).map (!·) else Gen.relPos op a c r).getD false := by
  by_cases h : op.neg = true
  · have h2 : op.toggleNeg.neg = false := by cases op <;> simp_all [Op.neg, Op.toggleNeg]
    have h3 : relPos op.toggleNeg a c r = relPos op a c r := by
      cases op <;> first
        | (simp [Op.toggleNeg, relPos]; done)
        | (rename_i l; cases l <;> simp [Op.toggleNeg, relPos])
    simp [test, h, gen_relPos_agrees _ a c r h2, h3]
  · have h' : op.neg = false := by simpa using h
    simp [test, h', gen_relPos_agrees _ a c r h']

end Stam
