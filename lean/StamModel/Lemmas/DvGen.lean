import StamModel.Gen.DvTest
/-
  C10 — the tie between the hand-written comparison model (`Stam.dvTest` in DataValue.lean, which the C10 theorems are
  about) and the definition the translator regenerates from `DataValue::test` in `src/datavalue.rs` on every run
  (`Stam.Gen.dvTest`). A change of an arm changes the generated definition, and this theorem no longer checks.

  `pd` (RFC 3339 parsing, for `Equals(string)` against a datetime) is instantiated with "no string is a datetime":
  the model does not cover comparing datetimes with strings (the `data` family checks it against its own oracle).
-/
namespace Stam

def noDt : String → Option Int := fun _ => none

theorem gen_elem_eq (s : String) : ∀ l : List DV,
    Gen.dvAnyElem noDt l (.eq s) = l.any (elemEq s)
  | [] => by simp [Gen.dvAnyElem]
  | e :: es => by
    rw [Gen.dvAnyElem, gen_elem_eq s es, List.any_cons]
    congr 1
    cases e with
    | bool b => cases b <;> simp [Gen.dvTest, truthy, elemEq]
    | int n => simp only [Gen.dvTest, elemEq]; cases parseIsize s <;> simp [BEq.comm (a := n)]
    | flt q => simp only [Gen.dvTest, elemEq]; cases parseQuarter s <;> simp [BEq.comm (a := q)]
    | dt t => simp [Gen.dvTest, noDt, elemEq]
    | _ => simp [Gen.dvTest, elemEq]

theorem gen_elem_eqi (n : Int) : ∀ l : List DV,
    Gen.dvAnyElem noDt l (.eqi n) = l.any (elemEqi n)
  | [] => by simp [Gen.dvAnyElem]
  | e :: es => by
    rw [Gen.dvAnyElem, gen_elem_eqi n es, List.any_cons]
    congr 1
    cases e <;> simp [Gen.dvTest, elemEqi]

theorem gen_elem_eqf (q : Int) : ∀ l : List DV,
    Gen.dvAnyElem noDt l (.eqf q) = l.any (elemEqf q)
  | [] => by simp [Gen.dvAnyElem]
  | e :: es => by
    rw [Gen.dvAnyElem, gen_elem_eqf q es, List.any_cons]
    congr 1
    cases e <;> simp [Gen.dvTest, elemEqf]

mutual
/-- the source's `DataValue::test`, arm by arm, computes what the model computes -/
theorem gen_dvTest_agrees : ∀ (o : DOp) (v : DV), Gen.dvTest noDt v o = dvTest v o
  | .not o, v => by
    have := gen_dvTest_agrees o v
    cases v <;> simp [Gen.dvTest, dvTest, this]
  | .and os, v => by
    have := gen_dvAll_agrees os v
    cases v <;> simp [Gen.dvTest, dvTest, this]
  | .or os, v => by
    have := gen_dvAny_agrees os v
    cases v <;> simp [Gen.dvTest, dvTest, this]
  | .has s, v => by cases v <;> simp [Gen.dvTest, dvTest, gen_elem_eq]
  | .hasi n, v => by cases v <;> simp [Gen.dvTest, dvTest, gen_elem_eqi]
  | .hasf q, v => by cases v <;> simp [Gen.dvTest, dvTest, gen_elem_eqf]
  | .eq s, v => by
    cases v with
    | bool b => cases b <;> simp [Gen.dvTest, dvTest, truthy]
    | int n => simp only [Gen.dvTest, dvTest]; cases parseIsize s <;> simp [BEq.comm (a := n)]
    | flt q => simp only [Gen.dvTest, dvTest]; cases parseQuarter s <;> simp [BEq.comm (a := q)]
    | dt t => simp [Gen.dvTest, dvTest, noDt]
    | _ => simp [Gen.dvTest, dvTest]
  | .any, v => by cases v <;> simp [Gen.dvTest, dvTest]
  | .null, v => by cases v <;> simp [Gen.dvTest, dvTest]
  | .tru, v => by cases v <;> (try rename_i b; cases b) <;> simp [Gen.dvTest, dvTest]
  | .fls, v => by cases v <;> (try rename_i b; cases b) <;> simp [Gen.dvTest, dvTest]
  | .eqi n, v => by cases v <;> simp [Gen.dvTest, dvTest]
  | .gt n, v => by cases v <;> simp [Gen.dvTest, dvTest]
  | .ge n, v => by cases v <;> simp [Gen.dvTest, dvTest]
  | .lt n, v => by cases v <;> simp [Gen.dvTest, dvTest]
  | .le n, v => by cases v <;> simp [Gen.dvTest, dvTest]
  | .eqf n, v => by cases v <;> simp [Gen.dvTest, dvTest]
  | .gtf n, v => by cases v <;> simp [Gen.dvTest, dvTest]
  | .gef n, v => by cases v <;> simp [Gen.dvTest, dvTest]
  | .ltf n, v => by cases v <;> simp [Gen.dvTest, dvTest]
  | .lef n, v => by cases v <;> simp [Gen.dvTest, dvTest]
  | .dte n, v => by cases v <;> simp [Gen.dvTest, dvTest]
  | .dta n, v => by cases v <;> simp [Gen.dvTest, dvTest]
  | .dtb n, v => by cases v <;> simp [Gen.dvTest, dvTest]
  | .dtae n, v => by cases v <;> simp [Gen.dvTest, dvTest]
  | .dtbe n, v => by cases v <;> simp [Gen.dvTest, dvTest]
theorem gen_dvAll_agrees : ∀ (os : List DOp) (v : DV), Gen.dvAll noDt v os = dvAll v os
  | [], v => by simp [Gen.dvAll, dvAll]
  | o :: os, v => by simp [Gen.dvAll, dvAll, gen_dvTest_agrees o v, gen_dvAll_agrees os v]
theorem gen_dvAny_agrees : ∀ (os : List DOp) (v : DV), Gen.dvAny noDt v os = dvAny v os
  | [], v => by simp [Gen.dvAny, dvAny]
  | o :: os, v => by simp [Gen.dvAny, dvAny, gen_dvTest_agrees o v, gen_dvAny_agrees os v]
end

end Stam
