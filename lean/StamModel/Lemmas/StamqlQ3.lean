import StamModel.Lemmas.StamqlQ2
/-
  C09 — `Query::to_string` (printQ) writes the core text followed by its trailing white space; the fuel bound; trimming.
-/
namespace Stam.QL
open Stam.QL.C09

theorem noTrail_of_all (x : Str) (h : ∀ c ∈ x, isWs c = false) : NoTrailWs x := by
  intro c hc
  exact h c (List.mem_of_getLast? hc)

theorem noTrail_upper (ty : RType) : NoTrailWs ty.upper := by
  apply noTrail_of_all
  cases ty <;> (unfold RType.upper; decide)

theorem upper_ne_nil (ty : RType) : ty.upper ≠ [] := by cases ty <;> simp [RType.upper]

theorem noTrail_head (optional : Bool) (ty : RType) (name : Option Str) (hn : ∀ n, name = some n → NameOk n) :
    NoTrailWs (headText optional ty name) := by
  unfold headText
  cases name with
  | none =>
    simp only [nameText, List.append_nil]
    exact noTrail_suffix _ _ (upper_ne_nil ty) (noTrail_upper ty)
  | some x =>
    have hx := hn x rfl
    simp only [nameText]
    by_cases he : x = []
    · subst he
      apply noTrail_suffix _ [' ', '?'] (by simp)
      intro c hc; simp at hc; subst hc; decide
    · have := noTrail_suffix (kSELECT ++ [' '] ++ (if optional = true then kOPTIONAL ++ [' '] else []) ++ ty.upper ++ [' ', '?']) x he (noTrail_of_all x hx.1)
      simpa [List.append_assoc] using this

/-- the tail of the last sub-query -/
def tailLast : List Q → Str
  | [] => []
  | [q] => tailOf q
  | _ :: r => tailLast r

theorem tailLast_cons (q : Q) (r : List Q) (h : r ≠ []) : tailLast (q :: r) = tailLast r := by
  cases r with
  | nil => exact absurd rfl h
  | cons _ _ => rfl

theorem tailLast_cases (l : List Q) : tailLast l = [] ∨ tailLast l = ['\n'] := by
  induction l with
  | nil => exact Or.inl rfl
  | cons q r ih =>
    cases r with
    | nil => exact tailOf_cases q
    | cons a b => exact ih

/-- the closing brace goes on a line of its own -/
theorem ensure_close (x st tl : Str) (hne : st ≠ []) (hnt : NoTrailWs st) (htl : tl = [] ∨ tl = ['\n']) :
    ensureNewline (x ++ st ++ tl) ++ ['}'] = x ++ st ++ ['\n', '}'] := by
  unfold ensureNewline
  rcases htl with rfl | rfl
  · have hl : (x ++ st ++ []).getLast? ≠ some '\n' := by
      cases h : st.getLast? with
      | none => simp at h; exact absurd h hne
      | some c =>
        have := hnt c h
        rw [List.append_nil, List.getLast?_append, h, Option.some_or]
        intro hc
        simp only [Option.some.injEq] at hc
        subst hc
        exact absurd this (by decide)
    rw [if_neg hl]; simp
  · have hl : (x ++ st ++ ['\n']).getLast? = some '\n' := by simp
    rw [if_pos hl]; simp

theorem optAll_isEmpty {α} (l : List (Option α)) (r : List α) (h : optAll l = some r) : r.isEmpty = l.isEmpty := by
  have := optAll_length l r h
  cases l <;> cases r <;> simp_all

mutual
/-- `to_string` writes the core text and then its trailing white space -/
theorem print_core (E : Ext) (showI : Int → Str) : ∀ (q : Q) (t : Str), OKQ E showI q → printQ showI q = some t →
    ∃ c, coreQ showI q = some c ∧ t = c ++ tailOf q ∧ NoTrailWs c
  | .mk optional ty name cs subs, t, hok, h => by
    unfold OKQ at hok
    obtain ⟨hname, hcs, hsubs⟩ := hok
    unfold printQ at h
    split at h
    next lines subsText hl hsT =>
      simp only [Option.some.injEq] at h
      simp only [cnLines, Option.map_eq_some_iff] at hl
      obtain ⟨ts, hts, rfl⟩ := hl
      have hemp : ts.isEmpty = cs.isEmpty := by
        have := optAll_isEmpty _ _ hts
        simpa using this
      obtain ⟨l, hl1, hl2, hl3⟩ := pairs_of E showI cs ts hcs hts
      have htsn : ∀ t ∈ ts, NoTrailWs t ∧ t ≠ [] := by
        intro t ht
        rw [← hl2] at ht
        obtain ⟨p, hp, rfl⟩ := List.mem_map.mp ht
        obtain ⟨_, h1, ⟨c1, r1, h2, _, _⟩, _⟩ := hl3 p hp
        exact ⟨h1, by rw [h2]; simp⟩
      -- the WHERE clause as printed: the core and a newline
      have hwhere : (if cs.isEmpty = true then [] else [' '] ++ kWHERE ++ ['\n'] ++ (ts.map (fun t => '\t' :: t ++ ['\n'])).flatten)
          = whereCore ts ++ (if ts.isEmpty then [] else ['\n']) := by
        unfold whereCore
        rw [hemp]
        cases cs.isEmpty with
        | true => rfl
        | false =>
          have h1 : '\n' :: (ts.map (fun t => '\t' :: t ++ ['\n'])).flatten = chain ts [] ++ ['\n'] :=
            (lines_chain ts).trans (chain_append ts [] ['\n']).symm
          generalize (ts.map (fun t => '\t' :: t ++ ['\n'])).flatten = L at h1 ⊢
          simp only [Bool.false_eq_true, ↓reduceIte]
          rw [show [' '] ++ kWHERE ++ ['\n'] ++ L = ' ' :: kWHERE ++ ('\n' :: L) by simp, h1]
          simp
      cases subs with
      | nil =>
        have : subsText = [] := by simp [printSubs] at hsT; exact hsT
        subst this
        refine ⟨headText optional ty name ++ (whereCore ts ++ subsCore ts true []), ?_, ?_, ?_⟩
        · unfold coreQ; simp [hts, coreSubs]
        · subst h
          simp only [List.isEmpty_nil, ↓reduceIte, hwhere, subsCore, List.append_nil, tailOf, Bool.and_true]
          rw [← hemp]
          cases ts.isEmpty <;> simp
        · simp only [subsCore, ↓reduceIte, List.append_nil]
          unfold whereCore
          cases hte : ts.isEmpty with
          | true => simpa using noTrail_head optional ty name hname
          | false =>
            simp only [Bool.false_eq_true, ↓reduceIte]
            have hc := noTrail_chain ts [] htsn (fun _ h => by simp at h)
            have hne : chain ts [] ≠ [] := by
              cases ts with
              | nil => simp at hte
              | cons a b => simp [chain]
            have := noTrail_suffix (headText optional ty name ++ ' ' :: kWHERE) (chain ts []) hne hc
            simpa [List.append_assoc] using this
      | cons q r =>
        obtain ⟨st, hst, hsT', hstnt, hstne⟩ := printSubs_core E showI (q :: r) true subsText (by simp) hsubs hsT
        refine ⟨headText optional ty name ++ (whereCore ts ++ subsCore ts false st), ?_, ?_, ?_⟩
        · unfold coreQ; simp [hts, hst]
        · subst h
          simp only [List.isEmpty_cons, Bool.false_eq_true, ↓reduceIte, hwhere, tailOf, Bool.and_false, List.append_nil]
          rw [hsT']
          simp only [↓reduceIte, List.nil_append]
          have := ensure_close (headText optional ty name ++ (whereCore ts ++ (if ts.isEmpty then [] else ['\n'])) ++ ['\n', '{', '\n', ' ']) st (tailLast (q :: r)) hstne hstnt (tailLast_cases _)
          simp only [subsCore, Bool.false_eq_true, ↓reduceIte]
          simp only [List.append_assoc, List.cons_append, List.nil_append] at this ⊢
          exact this
        · simp only [subsCore, Bool.false_eq_true, ↓reduceIte]
          have := noTrail_suffix (headText optional ty name ++ (whereCore ts ++ ((if ts.isEmpty then [] else ['\n']) ++ ['\n', '{', '\n', ' '] ++ st ++ ['\n']))) ['}'] (by simp)
            (by intro c hc; simp at hc; subst hc; decide)
          simpa [List.append_assoc] using this
    next => simp at h
/-- the sub-queries between the braces -/
theorem printSubs_core (E : Ext) (showI : Int → Str) : ∀ (subs : List Q) (first : Bool) (t : Str), subs ≠ [] → OKQs E showI subs →
    printSubs showI subs first = some t →
    ∃ st, coreSubs showI subs = some st ∧ t = (if first then [] else ['\n', '|']) ++ ' ' :: st ++ tailLast subs ∧ NoTrailWs st ∧ st ≠ []
  | [], _, _, hne, _, _ => absurd rfl hne
  | q :: r, first, t, _, hok, h => by
    unfold OKQs at hok
    obtain ⟨hq, hrs⟩ := hok
    unfold printSubs at h
    split at h
    next tq rt htq hrt =>
      simp only [Option.some.injEq] at h
      obtain ⟨c, hc, hct, hcnt⟩ := print_core E showI q tq hq htq
      obtain ⟨y, hy⟩ := coreQ_starts showI q c hc
      cases r with
      | nil =>
        have : rt = [] := by simp [printSubs] at hrt; exact hrt
        subst this
        refine ⟨c, by unfold coreSubs; simp [hc, coreSubs], ?_, hcnt, by rw [hy]; simp⟩
        subst h hct
        simp [tailLast]
      | cons a b =>
        obtain ⟨s, hs, hrt', hsnt, hsne⟩ := printSubs_core E showI (a :: b) false rt (by simp) hrs hrt
        refine ⟨c ++ (tailOf q ++ '\n' :: '|' :: ' ' :: s), by unfold coreSubs; simp [hc, hs], ?_, ?_, by rw [hy]; simp⟩
        · subst h hct hrt'
          rw [tailLast_cons q (a :: b) (by simp)]
          simp [List.append_assoc]
        · have := noTrail_suffix (c ++ (tailOf q ++ ['\n', '|', ' '])) s hsne hsnt
          simpa [List.append_assoc] using this
    next => simp at h
end

end Stam.QL
