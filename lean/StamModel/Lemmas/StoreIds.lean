import StamModel.Lemmas.StoreOk
/-
  Identifier resolution (C03) and the "targets are older" invariant over whole histories.
-/
namespace Stam

theorem findIdx_go_some {α} (p : α → Bool) : ∀ (l : List (Option α)) (i j : Nat),
    findIdx.go p l i = some j → ∃ k a, j = i + k ∧ getLive l k = some a ∧ p a = true ∧
      ∀ k' a', k' < k → getLive l k' = some a' → p a' = false := by
  intro l
  induction l with
  | nil => intro i j h; simp [findIdx.go] at h
  | cons x xs ih =>
    intro i j h
    cases x with
    | none =>
      simp only [findIdx.go] at h
      obtain ⟨k, a, hj, hl, hp, hmin⟩ := ih (i + 1) j h
      refine ⟨k + 1, a, by omega, by simpa [getLive] using hl, hp, ?_⟩
      intro k' a' hk' hl'
      cases k' with
      | zero => simp [getLive] at hl'
      | succ k' => exact hmin k' a' (by omega) (by simpa [getLive] using hl')
    | some a =>
      simp only [findIdx.go] at h
      by_cases hp : p a = true
      · simp only [hp, if_true, Option.some.injEq] at h
        exact ⟨0, a, by omega, by simp [getLive], hp, by intro k' _ hk'; omega⟩
      · simp only [hp, if_false, Bool.false_eq_true] at h
        obtain ⟨k, a2, hj, hl, hp2, hmin⟩ := ih (i + 1) j h
        refine ⟨k + 1, a2, by omega, by simpa [getLive] using hl, hp2, ?_⟩
        intro k' a' hk' hl'
        cases k' with
        | zero => simp [getLive] at hl'; subst hl'; simpa using hp
        | succ k' => exact hmin k' a' (by omega) (by simpa [getLive] using hl')

theorem findIdx_go_none {α} (p : α → Bool) : ∀ (l : List (Option α)) (i : Nat),
    findIdx.go p l i = none → ∀ k a, getLive l k = some a → p a = false := by
  intro l
  induction l with
  | nil => intro i _ k a h; simp [getLive] at h
  | cons x xs ih =>
    intro i h k a hl
    cases x with
    | none =>
      simp only [findIdx.go] at h
      cases k with
      | zero => simp [getLive] at hl
      | succ k => exact ih (i + 1) h k a (by simpa [getLive] using hl)
    | some a0 =>
      simp only [findIdx.go] at h
      by_cases hp : p a0 = true
      · simp [hp] at h
      · simp only [hp, if_false, Bool.false_eq_true] at h
        cases k with
        | zero => simp [getLive] at hl; subst hl; simpa using hp
        | succ k => exact ih (i + 1) h k a (by simpa [getLive] using hl)

/-- `findIdx` returns the first live item satisfying the predicate -/
theorem findIdx_some {α} (l : List (Option α)) (p : α → Bool) (j : Nat) (h : findIdx l p = some j) :
    ∃ a, getLive l j = some a ∧ p a = true ∧ ∀ k' a', k' < j → getLive l k' = some a' → p a' = false := by
  obtain ⟨k, a, hj, hl, hp, hmin⟩ := findIdx_go_some p l 0 j h
  have : j = k := by omega
  subst this
  exact ⟨a, hl, hp, hmin⟩

theorem findIdx_none {α} (l : List (Option α)) (p : α → Bool) (h : findIdx l p = none) :
    ∀ k a, getLive l k = some a → p a = false := findIdx_go_none p l 0 h

theorem resolveAnn_live (s : State) (r : Ref) (h : Nat) (hr : s.resolveAnn r = some h) :
    (getLive s.anns h).isSome := by
  cases r with
  | id i =>
    obtain ⟨a, ha, _⟩ := findIdx_some _ _ _ hr
    simp [ha]
  | h n =>
    simp only [State.resolveAnn] at hr
    split at hr
    · cases hr; assumption
    · cases hr

theorem isSome_lt {α} (l : List (Option α)) (x : Nat) (hx : (getLive l x).isSome) : x < l.length := by
  cases hg : getLive l x with
  | none => simp [hg] at hx
  | some a => exact getLive_lt _ _ _ hg

theorem selector_ann_live (s s' : State) (r : SelReq) (m : SelM) (h : s.selector r = some (s', m)) :
    ∀ t, Key.ann t ∈ m.keys → (getLive s.anns t).isSome := by
  intro t ht
  have live_lt : ∀ x, (getLive s.anns x).isSome → (getLive s.anns x).isSome := fun _ h => h
  cases r with
  | res r =>
    simp only [State.selector, Option.map_eq_some_iff] at h
    obtain ⟨_, _, he⟩ := h; cases he; simp [SelM.keys] at ht
  | text r o =>
    simp only [State.selector] at h
    (repeat' split at h) <;> (try cases h) <;> simp [SelM.keys] at ht
  | ann a =>
    simp only [State.selector, Option.map_eq_some_iff] at h
    obtain ⟨x, hx, he⟩ := h
    cases he
    simp [SelM.keys] at ht; subst ht
    exact live_lt _ (resolveAnn_live s a _ hx)
  | annoff a o =>
    simp only [State.selector] at h
    cases hra : s.resolveAnn a with
    | none => rw [hra] at h; cases h
    | some ah =>
      rw [hra] at h
      have hl := live_lt _ (resolveAnn_live s a ah hra)
      simp only [] at h
      (repeat' split at h) <;> (try cases h) <;> simp [SelM.keys] at ht <;> (try subst ht) <;> (try exact hl)
  | set x =>
    simp only [State.selector, Option.map_eq_some_iff] at h
    obtain ⟨_, _, he⟩ := h; cases he; simp [SelM.keys] at ht
  | key x k =>
    simp only [State.selector] at h
    split at h
    · cases h
    · simp only [Option.map_eq_some_iff] at h
      obtain ⟨_, _, he⟩ := h; cases he; simp [SelM.keys] at ht
  | data x d =>
    simp only [State.selector] at h
    split at h
    · cases h
    · simp only [Option.map_eq_some_iff] at h
      obtain ⟨_, _, he⟩ := h; cases he; simp [SelM.keys] at ht
  | nested => simp [State.selector] at h


theorem mem_insertSel (le : SelM → SelM → Bool) (x : SelM) : ∀ (l : List SelM) (y : SelM),
    y ∈ insertSel le x l ↔ (y = x ∨ y ∈ l) := by
  intro l
  induction l with
  | nil => intro y; simp [insertSel]
  | cons z zs ih =>
    intro y
    simp only [insertSel]
    split
    · simp only [List.mem_cons, ih]
      constructor
      · rintro (h | h | h) <;> simp [h]
      · rintro (h | h | h) <;> simp [h]
    · simp

theorem mem_sortSels (le : SelM → SelM → Bool) (l : List SelM) (y : SelM) : y ∈ sortSels le l ↔ y ∈ l := by
  have : ∀ (l acc : List SelM), y ∈ l.foldl (fun acc x => insertSel le x acc) acc ↔ (y ∈ l ∨ y ∈ acc) := by
    intro l
    induction l with
    | nil => intro acc; simp
    | cons x xs ih =>
      intro acc
      simp only [List.foldl_cons, ih, mem_insertSel, List.mem_cons]
      constructor
      · rintro (h | h | h) <;> simp [h]
      · rintro ((h | h) | h) <;> simp [h]
  simp [sortSels, this]

theorem subselectors_ann_live : ∀ (rs : List SelReq) (s s' : State) (ms : List SelM),
    (s.subselectors rs).1 = some (s', ms) → ∀ m ∈ ms, ∀ t, Key.ann t ∈ m.keys → (getLive s.anns t).isSome := by
  intro rs
  induction rs with
  | nil => intro s s' ms h; simp [State.subselectors] at h; obtain ⟨_, h⟩ := h; subst h; simp
  | cons r rs ih =>
    intro s s' ms h
    simp only [State.subselectors] at h
    cases hsel : s.selector r with
    | none => rw [hsel] at h; cases h
    | some p =>
      obtain ⟨s1, m⟩ := p
      rw [hsel] at h
      simp only [] at h
      obtain ⟨f1, _⟩ := selector_frame s s1 r m hsel
      cases hsub : s1.subselectors rs with
      | mk o sf =>
        rw [hsub] at h
        cases o with
        | none => cases h
        | some q =>
          obtain ⟨s2, ms2⟩ := q
          simp only [Option.some.injEq, Prod.mk.injEq] at h
          obtain ⟨_, hms⟩ := h
          subst hms
          intro m' hm' t ht
          simp only [List.mem_cons] at hm'
          rcases hm' with hm' | hm'
          · subst hm'; exact selector_ann_live s s1 r m' hsel t ht
          · have := ih s1 s2 ms2 (by rw [hsub]) m' hm' t ht
            rw [f1] at this; exact this

theorem target_ann_live (s : State) (t : TargetReq) (tm : TargetM) (h : (s.target t).1 = some tm) :
    ∀ m ∈ tm.sels, ∀ x, Key.ann x ∈ m.keys → (getLive s.anns x).isSome := by
  cases t with
  | simple r =>
    simp only [State.target] at h
    cases hsel : s.selector r with
    | none => rw [hsel] at h; cases h
    | some p =>
      obtain ⟨s1, m⟩ := p
      rw [hsel] at h; simp only [Option.some.injEq] at h; subst h
      intro m' hm'; simp [TargetM.sels] at hm'; subst hm'
      exact selector_ann_live s s1 r m' hsel
  | complex k rs =>
    simp only [State.target] at h
    cases hsub : s.subselectors rs with
    | mk o sf =>
      rw [hsub] at h
      cases o with
      | none => cases h
      | some q =>
        obtain ⟨s2, ms⟩ := q
        simp only [Option.some.injEq] at h; subst h
        intro m' hm'
        simp only [TargetM.sels] at hm'
        have hmem : m' ∈ ms := by
          split at hm'
          · exact hm'
          · exact (mem_sortSels _ _ _).1 hm'
        exact subselectors_ann_live rs s s2 ms (by rw [hsub]) m' hmem

theorem annotate_targetsLt (s : State) (id : Option String) (t : TargetReq) (ds : List DataReq)
    (ht : TargetsLt s) : TargetsLt (s.annotate id t ds).2 := by
  unfold State.annotate
  obtain ⟨t1, _⟩ := target_frame s t
  have htl := target_ann_live s t
  cases htg : s.target t with
  | mk o s1 =>
    rw [htg] at t1 htl
    have ht1 : TargetsLt s1 := by intro x a hx; rw [t1] at hx; exact ht x a hx
    cases o with
    | none => exact ht1
    | some tm =>
      simp only []
      obtain ⟨d1, _⟩ := insertDataList_frame ds s1
      cases hd : s1.insertDataList ds with
      | mk o2 s2 =>
        rw [hd] at d1
        have ht2 : TargetsLt s2 := by intro x a hx; rw [d1] at hx; exact ht1 x a hx
        cases o2 with
        | none => exact ht2
        | some data =>
          simp only []
          split
          · split <;> exact ht2
          · intro x a hx tt htt
            simp only [] at hx
            rw [getLive_append] at hx
            by_cases h1 : x < s2.anns.length
            · simp only [h1, if_true] at hx; exact ht2 x a hx tt htt
            · simp only [h1, if_false] at hx
              by_cases h2 : x = s2.anns.length
              · simp only [h2, if_true, Option.some.injEq] at hx
                subst hx
                simp only [AnnM.fwd, List.mem_append, List.mem_map, List.mem_flatMap] at htt
                rcases htt with ⟨p, _, hp⟩ | ⟨m, hm, hk⟩
                · cases hp
                · have := isSome_lt _ _ (htl tm rfl m hm tt hk)
                  rw [h2, d1, t1]; exact this
              · simp [h2] at hx

end Stam
