import StamModel.Lemmas.Transpose
/-
  Lemmas for "transposing back over the new transposition returns the original offsets" (C16).
-/
namespace Stam.TP

theorem inter_disjoint {tb te fb fe : Nat} (h : te ≤ fb ∨ fe ≤ tb) (ht : tb < te) (hf : fb < fe) :
    inter tb te fb fe = none := by
  unfold inter
  have c1 : ¬ (fb ≤ tb ∧ fe ≥ te) := by omega
  have c2 : ¬ (tb ≤ fb ∧ te ≥ fe) := by omega
  have b1 : ¬ (fb ≥ tb ∧ fb < te) := by omega
  have b2 : ¬ (tb ≥ fb ∧ tb < fe) := by omega
  simp [c1, c2, b1, b2]

theorem inter_self (tb te : Nat) : inter tb te tb te = some (tb, te, none) := by
  unfold inter
  simp

/-- two fragments do not share a character -/
def Disjoint (a b : Frag) : Prop := a.e ≤ b.b ∨ b.e ≤ a.b

/-- scanning a list in which everything before `t` is disjoint from `t` finds `t` itself, whole -/
theorem findFrag_self (res : Nat) (t : Frag) (hres : t.res = res) (hpos : t.b < t.e) :
    ∀ (pre post : List Frag) (j0 : Nat),
      (∀ f ∈ pre, f.b < f.e ∧ Disjoint f t) →
      findFrag res t.b t.e (pre ++ t :: post) j0 =
        some (⟨j0 + pre.length, 0, t.e - t.b, t.b, t.e⟩, none) := by
  intro pre
  induction pre with
  | nil =>
    intro post j0 _
    simp only [List.nil_append, List.length_nil, Nat.add_zero]
    unfold findFrag
    have : ¬ t.res ≠ res := by simpa using hres
    rw [if_neg this, inter_self]
    simp
  | cons f pre ih =>
    intro post j0 hpre
    have hf := hpre f (List.mem_cons_self ..)
    have hrest := ih post (j0 + 1) (fun g hg => hpre g (List.mem_cons_of_mem _ hg))
    simp only [List.cons_append, List.length_cons]
    unfold findFrag
    by_cases hr : f.res ≠ res
    · rw [if_pos hr, hrest]
      have : j0 + 1 + pre.length = j0 + (pre.length + 1) := by omega
      rw [this]
    · rw [if_neg hr]
      have hd : inter t.b t.e f.b f.e = none := by
        apply inter_disjoint _ hpos hf.1
        rcases hf.2 with h | h
        · right; exact h
        · left; exact h
      rw [hd]
      simp only []
      rw [hrest]
      have : j0 + 1 + pre.length = j0 + (pre.length + 1) := by omega
      rw [this]

/-- the piece that stands for fragment `t` at index `j` of its own side -/
def selfPiece (j : Nat) (t : Frag) : Piece := ⟨j, 0, t.e - t.b, t.b, t.e⟩

def selfPieces : Nat → List Frag → List Piece
  | _, [] => []
  | j, t :: ts => selfPiece j t :: selfPieces (j + 1) ts

theorem selfPieces_length (j : Nat) (ts : List Frag) : (selfPieces j ts).length = ts.length := by
  induction ts generalizing j with
  | nil => rfl
  | cons t ts ih => simp [selfPieces, ih]

theorem selfPieces_get (ts : List Frag) : ∀ (j k : Nat) (t : Frag), ts[k]? = some t →
    (selfPieces j ts)[k]? = some (selfPiece (j + k) t) := by
  induction ts with
  | nil => intro j k t h; simp at h
  | cons a ts ih =>
    intro j k t h
    cases k with
    | zero => simp at h; subst h; simp [selfPieces]
    | succ k =>
      simp only [List.getElem?_cons_succ] at h
      simp only [selfPieces, List.getElem?_cons_succ]
      rw [ih (j + 1) k t h]
      congr 2; omega

/-- matching the fragments of a side against that side itself: every fragment is found whole, in place -/
theorem consumeAll_self (res : Nat) :
    ∀ (pre suf : List Frag),
      (∀ t ∈ pre ++ suf, t.res = res ∧ t.b < t.e) →
      (pre ++ suf).Pairwise Disjoint →
      consumeAll (pre ++ suf) res (suf.map (fun t => (t.b, t.e))) = some (selfPieces pre.length suf) := by
  intro pre suf
  induction suf generalizing pre with
  | nil => intro _ _; simp [consumeAll, selfPieces]
  | cons t suf ih =>
    intro hall hpw
    have ht := hall t (by simp)
    have hfind : findFrag res t.b t.e (pre ++ t :: suf) 0 = some (selfPiece pre.length t, none) := by
      have := findFrag_self res t ht.1 ht.2 pre suf 0 (by
        intro f hf
        refine ⟨(hall f (by simp [hf])).2, ?_⟩
        have := List.pairwise_append.mp hpw
        exact this.2.2 f hf t (by simp))
      simpa [selfPiece] using this
    have hcons : consume (pre ++ t :: suf) res (t.e - t.b + 1) t.b t.e = some [selfPiece pre.length t] := by
      unfold consume
      rw [hfind]
    have hrec := ih (pre ++ [t]) (by
        intro x hx; apply hall x; simpa using hx) (by simpa using hpw)
    simp only [List.map_cons, consumeAll, hcons]
    have e1 : pre ++ [t] ++ suf = pre ++ t :: suf := by simp
    rw [e1] at hrec
    rw [hrec]
    simp [selfPieces]

end Stam.TP
