import StamModel.Transpose
namespace Stam.TP

theorem rem_cases {tb te ib ie : Nat} {rem : Option (Nat × Nat)}
    (hr : (if ib > tb then some (tb, ib) else if ie < te then some (ie, te) else none) = rem)
    (hu : ∀ r1 r2, rem = some (r1, r2) → ¬ r1 ≤ ib) (hge : tb ≤ ib) (hle : ie ≤ te) :
    ib = tb ∧ ((rem = none ∧ ie = te) ∨ (rem = some (ie, te) ∧ ie < te ∧ tb < ie)) := by
  by_cases c3 : ib > tb
  · simp only [c3, ↓reduceIte] at hr
    exact absurd c3 (by have := hu tb ib hr.symm; omega)
  · simp only [c3, ↓reduceIte] at hr
    by_cases c4 : ie < te
    · simp only [c4, ↓reduceIte] at hr
      have := hu ie te hr.symm
      subst hr; simp; omega
    · simp only [c4, ↓reduceIte] at hr
      subst hr; simp; omega

theorem inter_usable {tb te fb fe ib ie : Nat} {rem : Option (Nat × Nat)}
    (h : inter tb te fb fe = some (ib, ie, rem)) (hne : tb < te)
    (hu : ∀ r1 r2, rem = some (r1, r2) → ¬ r1 ≤ ib) :
    ib = tb ∧ fb ≤ tb ∧ ie ≤ fe ∧ ie ≤ te ∧ tb < ie ∧
      ((rem = none ∧ ie = te) ∨ (rem = some (ie, te) ∧ ie < te)) := by
  unfold inter at h
  by_cases c1 : fb ≤ tb ∧ fe ≥ te
  · simp only [c1, and_self, ↓reduceIte, Option.some.injEq, Prod.mk.injEq] at h
    obtain ⟨h1, h2, hr⟩ := h; subst h1; subst h2
    obtain ⟨h0, hrem⟩ := rem_cases hr hu (by omega) (by omega)
    refine ⟨by omega, by omega, by omega, by omega, ?_, hrem.imp id (fun h => ⟨h.1, h.2.1⟩)⟩
    rcases hrem with ⟨_, h⟩ | ⟨_, _, h⟩ <;> omega
  · by_cases c2 : tb ≤ fb ∧ te ≥ fe
    · simp only [c1, c2, and_self, ↓reduceIte, Option.some.injEq, Prod.mk.injEq] at h
      obtain ⟨h1, h2, hr⟩ := h; subst h1; subst h2
      obtain ⟨h0, hrem⟩ := rem_cases hr hu (by omega) (by omega)
      refine ⟨by omega, by omega, by omega, by omega, ?_, hrem.imp id (fun h => ⟨h.1, h.2.1⟩)⟩
      rcases hrem with ⟨_, h⟩ | ⟨_, _, h⟩ <;> omega
    · simp only [c1, c2, ↓reduceIte] at h
      by_cases b1 : fb ≥ tb ∧ fb < te
      · by_cases e1 : fe > tb ∧ fe ≤ te
        · exfalso; omega
        · by_cases e2 : te > fb ∧ te ≤ fe
          · simp only [b1, e1, e2, and_self, ↓reduceIte, Option.some.injEq, Prod.mk.injEq] at h
            obtain ⟨h1, h2, hr⟩ := h; subst h1; subst h2
            obtain ⟨h0, hrem⟩ := rem_cases hr hu (by omega) (by omega)
            refine ⟨by omega, by omega, by omega, by omega, ?_, hrem.imp id (fun h => ⟨h.1, h.2.1⟩)⟩
            rcases hrem with ⟨_, h⟩ | ⟨_, _, h⟩ <;> omega
          · exfalso; omega
      · by_cases b2 : tb ≥ fb ∧ tb < fe
        · by_cases e1 : fe > tb ∧ fe ≤ te
          · simp only [b1, b2, e1, and_self, ↓reduceIte, Option.some.injEq, Prod.mk.injEq] at h
            obtain ⟨h1, h2, hr⟩ := h; subst h1; subst h2
            obtain ⟨h0, hrem⟩ := rem_cases hr hu (by omega) (by omega)
            refine ⟨by omega, by omega, by omega, by omega, ?_, hrem.imp id (fun h => ⟨h.1, h.2.1⟩)⟩
            rcases hrem with ⟨_, h⟩ | ⟨_, _, h⟩ <;> omega
          · exfalso; omega
        · simp only [b1, b2, ↓reduceIte] at h
          simp at h

/-- a found piece lies inside fragment `p.j` of the side, starts where the selection starts -/
def PieceIn (side : Side) (res : Nat) (p : Piece) : Prop :=
  ∃ f, side[p.j]? = some f ∧ f.res = res ∧ f.b ≤ p.ab ∧ p.ae ≤ f.e ∧ p.ab < p.ae ∧
    p.rb = p.ab - f.b ∧ p.re = p.ae - f.b

theorem findFrag_spec (res tb te : Nat) (hne : tb < te) :
    ∀ (side : Side) (j0 : Nat) (p : Piece) (rem : Option (Nat × Nat)),
      findFrag res tb te side j0 = some (p, rem) →
      (∃ f, side[p.j - j0]? = some f ∧ j0 ≤ p.j ∧ f.res = res ∧ f.b ≤ p.ab ∧ p.ae ≤ f.e ∧
        p.rb = p.ab - f.b ∧ p.re = p.ae - f.b) ∧
      p.ab = tb ∧ p.ae ≤ te ∧ tb < p.ae ∧
      ((rem = none ∧ p.ae = te) ∨ (rem = some (p.ae, te) ∧ p.ae < te)) := by
  intro side
  induction side with
  | nil => intro j0 p rem h; simp [findFrag] at h
  | cons f rest ih =>
    intro j0 p rem h
    have step : findFrag res tb te rest (j0 + 1) = some (p, rem) →
        (∃ f', (f :: rest)[p.j - j0]? = some f' ∧ j0 ≤ p.j ∧ f'.res = res ∧ f'.b ≤ p.ab ∧ p.ae ≤ f'.e ∧
          p.rb = p.ab - f'.b ∧ p.re = p.ae - f'.b) ∧
        p.ab = tb ∧ p.ae ≤ te ∧ tb < p.ae ∧
        ((rem = none ∧ p.ae = te) ∨ (rem = some (p.ae, te) ∧ p.ae < te)) := by
      intro h'
      obtain ⟨⟨f', hf', hj, r⟩, rest'⟩ := ih (j0 + 1) p rem h'
      refine ⟨⟨f', ?_, by omega, r⟩, rest'⟩
      have : p.j - j0 = (p.j - (j0 + 1)) + 1 := by omega
      rw [this, List.getElem?_cons_succ]; exact hf'
    unfold findFrag at h
    by_cases hres : f.res ≠ res
    · rw [if_pos hres] at h
      exact step h
    · rw [if_neg hres] at h
      have hres' : f.res = res := by simpa using hres
      cases hi : inter tb te f.b f.e with
      | none => rw [hi] at h; exact step h
      | some v =>
        obtain ⟨ib, ie, rem'⟩ := v
        rw [hi] at h
        cases rem' with
        | none =>
          simp only [Option.some.injEq, Prod.mk.injEq] at h
          obtain ⟨hp, hr⟩ := h
          have hu : ∀ r1 r2, (none : Option (Nat × Nat)) = some (r1, r2) → ¬ r1 ≤ ib := by intro _ _ h; cases h
          obtain ⟨h1, h2, h3, h4, h5, h6⟩ := inter_usable hi hne hu
          subst hp; subst hr
          refine ⟨⟨f, by simp, by simp, hres', by simp; omega, by simpa using h3, by simp, by simp⟩, by simpa using h1, by simpa using h4, by simpa using h5, ?_⟩
          rcases h6 with ⟨_, h6⟩ | ⟨h6, _⟩
          · left; exact ⟨rfl, by simpa using h6⟩
          · cases h6
        | some r =>
          obtain ⟨r1, r2⟩ := r
          by_cases hpre : r1 ≤ ib
          · simp only [] at h
            rw [if_pos hpre] at h
            exact step h
          · simp only [] at h
            rw [if_neg hpre] at h
            simp only [Option.some.injEq, Prod.mk.injEq] at h
            obtain ⟨hp, hr⟩ := h
            have hu : ∀ a b, (some (r1, r2) : Option (Nat × Nat)) = some (a, b) → ¬ a ≤ ib := by
              intro a b h; simp only [Option.some.injEq, Prod.mk.injEq] at h; omega
            obtain ⟨h1, h2, h3, h4, h5, h6⟩ := inter_usable hi hne hu
            subst hp; subst hr
            refine ⟨⟨f, by simp, by simp, hres', by simp; omega, by simpa using h3, by simp, by simp⟩, by simpa using h1, by simpa using h4, by simpa using h5, ?_⟩
            rcases h6 with ⟨h6, _⟩ | ⟨h6, h7⟩
            · cases h6
            · right; exact ⟨by simpa using h6, by simpa using h7⟩

/-- the characters (positions) a list of pieces selects, in order -/
def ranges (ps : List Piece) : List Nat := ps.flatMap (fun p => List.range' p.ab (p.ae - p.ab))

theorem consume_spec (side : Side) (res : Nat) :
    ∀ (fuel tb te : Nat) (ps : List Piece), tb < te → consume side res fuel tb te = some ps →
      ranges ps = List.range' tb (te - tb) ∧ (∀ p ∈ ps, PieceIn side res p) ∧ ps ≠ [] := by
  intro fuel
  induction fuel with
  | zero => intro tb te ps _ h; simp [consume] at h
  | succ n ih =>
    intro tb te ps hne h
    unfold consume at h
    cases hf : findFrag res tb te side 0 with
    | none => rw [hf] at h; cases h
    | some v =>
      obtain ⟨p, rem⟩ := v
      rw [hf] at h
      obtain ⟨⟨f, hf1, _, hf2, hf3, hf4, hf5, hf6⟩, hab, hle, hlt, hrem⟩ := findFrag_spec res tb te hne side 0 p rem hf
      have hpin : PieceIn side res p := ⟨f, by simpa using hf1, hf2, hf3, hf4, by omega, hf5, hf6⟩
      rcases hrem with ⟨hr, hae⟩ | ⟨hr, hae⟩
      · subst hr
        simp only [Option.some.injEq] at h
        subst h
        refine ⟨?_, ?_, by simp⟩
        · simp [ranges, hab, hae]
        · intro q hq; simp only [List.mem_singleton] at hq; subst hq; exact hpin
      · subst hr
        simp only [Option.map_eq_some_iff] at h
        obtain ⟨qs, hqs, rfl⟩ := h
        obtain ⟨hr1, hr2, _⟩ := ih p.ae te qs hae hqs
        refine ⟨?_, ?_, by simp⟩
        · have : ranges (p :: qs) = List.range' p.ab (p.ae - p.ab) ++ ranges qs := by simp [ranges]
          rw [this, hr1, hab]
          have e2 : te - tb = (p.ae - tb) + (te - p.ae) := by omega
          rw [e2]
          have e3 : tb + (p.ae - tb) = p.ae := by omega
          have := @List.range'_append_1 tb (p.ae - tb) (te - p.ae)
          rw [e3] at this
          exact this
        · intro q hq
          rcases List.mem_cons.mp hq with rfl | hq
          · exact hpin
          · exact hr2 q hq

def srcRanges (source : List (Nat × Nat)) : List Nat := source.flatMap (fun s => List.range' s.1 (s.2 - s.1))

theorem consumeAll_spec (side : Side) (res : Nat) :
    ∀ (source : List (Nat × Nat)) (ps : List Piece), (∀ s ∈ source, s.1 < s.2) →
      consumeAll side res source = some ps →
      ranges ps = srcRanges source ∧ (∀ p ∈ ps, PieceIn side res p) := by
  intro source
  induction source with
  | nil => intro ps _ h; simp [consumeAll] at h; subst h; simp [ranges, srcRanges]
  | cons s rest ih =>
    intro ps hne h
    obtain ⟨tb, te⟩ := s
    unfold consumeAll at h
    cases h1 : consume side res (te - tb + 1) tb te with
    | none => rw [h1] at h; simp at h
    | some p1 =>
      cases h2 : consumeAll side res rest with
      | none => rw [h1, h2] at h; simp at h
      | some p2 =>
        rw [h1, h2] at h
        simp only [Option.some.injEq] at h
        subst h
        have hlt : tb < te := hne (tb, te) (List.mem_cons_self ..)
        obtain ⟨a1, a2, _⟩ := consume_spec side res _ tb te p1 hlt h1
        obtain ⟨b1, b2⟩ := ih p2 (fun s hs => hne s (List.mem_cons_of_mem _ hs)) h2
        refine ⟨?_, ?_⟩
        · have : ranges (p1 ++ p2) = ranges p1 ++ ranges p2 := by simp [ranges]
          rw [this, a1, b1]; simp [srcRanges]
        · intro p hp
          rcases List.mem_append.mp hp with hp | hp
          · exact a2 p hp
          · exact b2 p hp

end Stam.TP
