import StamModel.QuerySem
import StamModel.Props.C01
/-
  C08 — index-driven and filter evaluation of data constraints agree in every reachable store (from the exactness
  of the reverse index, C01).
-/
namespace Stam
open Stam.C01

theorem eraseDups_strict : ∀ (n : Nat) (l : List Nat), l.length ≤ n → l.Pairwise (· ≤ ·) →
    l.eraseDups.Pairwise (· < ·) := by
  intro n
  induction n with
  | zero => intro l hl _; cases l with | nil => simp | cons a as => simp at hl
  | succ n ih =>
    intro l hl hs
    cases l with
    | nil => simp
    | cons a as =>
      rw [List.eraseDups_cons, List.pairwise_cons]
      rw [List.pairwise_cons] at hs
      constructor
      · intro x hx
        rw [List.mem_eraseDups, List.mem_filter] at hx
        have h1 := hs.1 x hx.1
        have h2 : x ≠ a := by simpa using hx.2
        omega
      · apply ih
        · have := List.length_filter_le (fun b => !b == a) as
          simp only [List.length_cons] at hl; omega
        · exact hs.2.filter _

theorem dedupSorted_strict (l : List Nat) : (dedupSorted l).Pairwise (· < ·) := by
  unfold dedupSorted
  apply eraseDups_strict _ _ (Nat.le_refl _)
  have := List.pairwise_mergeSort (le := fun (a b : Nat) => decide (a ≤ b))
    (by intro a b c h1 h2; simp only [decide_eq_true_eq] at *; omega)
    (by intro a b; simp only [Bool.or_eq_true, decide_eq_true_eq]; omega) l
  exact this.imp (by intro a b h; simpa using h)

/-- a `.data` key occurs among an annotation's forward references exactly for its own data -/
theorem data_key_mem_fwd (a : AnnM) (sh dh : Nat) : Key.data sh dh ∈ a.fwd ↔ (sh, dh) ∈ a.data := by
  unfold AnnM.fwd
  rw [List.mem_append]
  constructor
  · rintro (h | h)
    · rw [List.mem_map] at h
      obtain ⟨p, hp, he⟩ := h
      cases p; simp only [Key.data.injEq] at he; rw [← he.1, ← he.2]; exact hp
    · exfalso
      rw [List.mem_flatMap] at h
      obtain ⟨sel, _, hk⟩ := h
      cases sel <;> simp [SelM.keys] at hk
  · intro h; left; rw [List.mem_map]; exact ⟨(sh, dh), h, rfl⟩

theorem mem_annsOfData (s : State) (hi : Inv s) (found : List (Nat × Nat)) (h : Nat) :
    h ∈ s.annsOfData found ↔ ∃ a, getLive s.anns h = some a ∧ ∃ p ∈ found, p ∈ a.data := by
  unfold State.annsOfData
  rw [mem_dedupSorted, List.mem_flatMap]
  constructor
  · rintro ⟨p, hp, hl⟩
    rw [mem_lookup, hi.mem] at hl
    obtain ⟨a, ha, hk⟩ := hl
    exact ⟨a, ha, p, hp, by cases p; exact (data_key_mem_fwd a _ _).1 hk⟩
  · rintro ⟨a, ha, p, hp, hd⟩
    refine ⟨p, hp, ?_⟩
    rw [mem_lookup, hi.mem]
    exact ⟨a, ha, by cases p; exact (data_key_mem_fwd a _ _).2 hd⟩

theorem mem_annsWithData (s : State) (found : List (Nat × Nat)) (h : Nat) :
    h ∈ s.annsWithData found ↔ ∃ a, getLive s.anns h = some a ∧ ∃ p ∈ found, p ∈ a.data := by
  unfold State.annsWithData
  rw [List.mem_filter, List.mem_range]
  constructor
  · rintro ⟨_, hp⟩
    cases ha : getLive s.anns h with
    | none => simp [ha] at hp
    | some a =>
      simp only [ha, List.any_eq_true, List.contains_iff_mem] at hp
      obtain ⟨p, hpd, hpf⟩ := hp
      exact ⟨a, rfl, p, hpf, hpd⟩
  · rintro ⟨a, ha, p, hpf, hpd⟩
    refine ⟨getLive_lt _ _ _ ha, ?_⟩
    simp only [ha, List.any_eq_true, List.contains_iff_mem]
    exact ⟨p, hpd, hpf⟩

theorem annsWithData_strict (s : State) (found : List (Nat × Nat)) : (s.annsWithData found).Pairwise (· < ·) :=
  List.Pairwise.filter _ List.pairwise_lt_range

/-- **index-driven = filter** in every state whose reverse index is exact -/
theorem annsOfData_eq_annsWithData (s : State) (hi : Inv s) (found : List (Nat × Nat)) :
    s.annsOfData found = s.annsWithData found := by
  have h1 : (s.annsOfData found).Pairwise (· < ·) := dedupSorted_strict _
  apply strict_eq_of_mem_iff _ _ h1 (annsWithData_strict s found)
  intro h
  rw [mem_annsOfData s hi, mem_annsWithData]

theorem mem_foldl_filter (s : State) (others : List (List (Nat × Nat))) : ∀ (acc : List Nat) (h : Nat),
    h ∈ others.foldl (fun acc found => acc.filter (fun h => (s.annsWithData found).contains h)) acc ↔
      h ∈ acc ∧ ∀ f ∈ others, h ∈ s.annsWithData f := by
  induction others with
  | nil => intro acc h; simp
  | cons f fs ih =>
    intro acc h
    rw [List.foldl_cons, ih]
    simp only [List.mem_filter, List.contains_iff_mem, List.mem_cons, forall_eq_or_imp]
    constructor
    · rintro ⟨⟨h1, h2⟩, h3⟩; exact ⟨h1, h2, h3⟩
    · rintro ⟨h1, h2, h3⟩; exact ⟨⟨h1, h2⟩, h3⟩

/-- a conjunction of data constraints yields exactly the annotations that satisfy every one of them -/
theorem mem_annsQuery (s : State) (hi : Inv s) (first : List (Nat × Nat)) (others : List (List (Nat × Nat))) (h : Nat) :
    h ∈ s.annsQuery first others ↔ ∀ f ∈ first :: others, h ∈ s.annsWithData f := by
  unfold State.annsQuery
  rw [mem_foldl_filter, annsOfData_eq_annsWithData s hi]
  simp only [List.mem_cons, forall_eq_or_imp]

theorem annsQuery_strict (s : State) (first : List (Nat × Nat)) (others : List (List (Nat × Nat))) :
    (s.annsQuery first others).Pairwise (· < ·) := by
  unfold State.annsQuery
  have h0 : (s.annsOfData first).Pairwise (· < ·) := dedupSorted_strict _
  generalize s.annsOfData first = acc at h0
  induction others generalizing acc with
  | nil => simpa using h0
  | cons f fs ih => rw [List.foldl_cons]; exact ih _ (h0.filter _)

end Stam
