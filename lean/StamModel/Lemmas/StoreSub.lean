import StamModel.Lemmas.StoreIds
/-
  No operation other than `annotate` adds or changes a reference: survivors refer to no more than
  before (`Sub`). Used for "touches nothing else" (C02) and for the well-foundedness invariant.
-/
namespace Stam

theorem Sub.of_anns_eq {s s' : State} (h : s'.anns = s.anns) : Sub s s' := by
  intro x a hx; rw [h] at hx; exact ⟨a, hx, rfl, rfl, fun _ hk => hk⟩

theorem rmAnn_sub (s : State) (r : Ref) (hi : Inv s) : Sub s (s.rmAnn r).2 := by
  unfold State.rmAnn
  split
  · rename_i s1 hs
    simp only [Option.bind_eq_some_iff] at hs
    obtain ⟨h, _, hr⟩ := hs
    exact Sub.of_mono (removeAnn_removed _ s s1 h hi hr).mono
  · exact Sub.refl s

theorem rmRes_sub (s : State) (id : String) (hi : Inv s) : Sub s (s.rmRes id).2 := by
  unfold State.rmRes
  split
  · exact Sub.refl s
  · rename_i rh _
    simp only []
    cases h1 : s.removeAll (s.lookup (.resMeta rh)) with
    | none => exact Sub.refl s
    | some s1 =>
      obtain ⟨i1, _, i3, _, _, _⟩ := removeAll_spec _ s s1 hi h1
      simp only []
      generalize dedupSorted _ = l
      cases h2 : s1.removeAll l with
      | none => exact Sub.of_mono i3
      | some s2 =>
        obtain ⟨_, _, j3, _, _, _⟩ := removeAll_spec _ s1 s2 i1 h2
        exact (Sub.of_mono i3).trans ((Sub.of_mono j3).trans (Sub.of_anns_eq rfl))

theorem rmSet_sub (s : State) (id : String) (hi : Inv s) : Sub s (s.rmSet id).2 := by
  unfold State.rmSet
  split
  · exact Sub.refl s
  · rename_i sh _
    simp only []
    generalize dedupSorted _ = l
    cases h1 : s.removeAll l with
    | none => exact Sub.refl s
    | some s1 =>
      obtain ⟨i1, _, i3, _, _, _⟩ := removeAll_spec _ s s1 hi h1
      simp only []
      cases h2 : s1.removeAll (s1.lookup (.setMeta sh)) with
      | none => exact Sub.of_mono i3
      | some s2 =>
        obtain ⟨_, _, j3, _, _, _⟩ := removeAll_spec _ s1 s2 i1 h2
        exact (Sub.of_mono i3).trans ((Sub.of_mono j3).trans (Sub.of_anns_eq rfl))

theorem rmDataH_sub (s s' : State) (sh dh : Nat) (strict : Bool) (hi : Inv s)
    (h : s.rmDataH sh dh strict = some s') : Sub s s' := by
  unfold State.rmDataH at h
  simp only [] at h
  cases h1 : (s.lookup (.data sh dh)).foldl (fun acc ah => acc.bind (fun st => st.dropData sh dh strict ah)) (some s) with
  | none => rw [h1] at h; cases h
  | some s1 =>
    rw [h1] at h
    obtain ⟨i1, i2, _, _, _⟩ := foldDrop_spec sh dh strict _ s s1 hi h1
    simp only [] at h
    cases h2 : s1.removeAll (s1.lookup (.dataMeta sh dh)) with
    | none => rw [h2] at h; cases h
    | some s2 =>
      rw [h2] at h
      obtain ⟨_, _, j3, _, _, _⟩ := removeAll_spec _ s1 s2 i1 h2
      simp only [] at h
      split at h
      · cases h
      · split at h
        · cases h
        · cases h
          exact i2.trans ((Sub.of_mono j3).trans (Sub.of_anns_eq rfl))

theorem rmData_sub (s : State) (set : String) (d : Ref) (strict : Bool) (hi : Inv s) :
    Sub s (s.rmData set d strict).2 := by
  unfold State.rmData
  split
  · exact Sub.refl s
  · split
    · exact Sub.refl s
    · split
      · exact Sub.refl s
      · split
        · rename_i s1 h1; exact rmDataH_sub s s1 _ _ strict hi h1
        · exact Sub.refl s

theorem foldRmData_sub (sh : Nat) (strict : Bool) : ∀ (ds : List Nat) (s s' : State), Inv s →
    ds.foldl (fun acc dh => acc.bind (fun st => st.rmDataH sh dh strict)) (some s) = some s' → Sub s s' := by
  intro ds
  induction ds with
  | nil => intro s s' _ h; simp at h; subst h; exact Sub.refl s
  | cons d ds ih =>
    intro s s' hi h
    simp only [List.foldl_cons, Option.bind_some] at h
    cases hd : s.rmDataH sh d strict with
    | none =>
      rw [hd] at h
      have : ∀ (l : List Nat), l.foldl (fun acc dh => acc.bind (fun st => State.rmDataH st sh dh strict)) none = none := by
        intro l; induction l <;> simp_all
      rw [this] at h; cases h
    | some s1 =>
      rw [hd] at h
      exact (rmDataH_sub s s1 sh d strict hi hd).trans (ih s1 s' (rmDataH_inv s s1 sh d strict hi hd) h)

theorem rmKey_sub (s : State) (set key : String) (strict : Bool) (hi : Inv s) :
    Sub s (s.rmKey set key strict).2 := by
  unfold State.rmKey
  split
  · exact Sub.refl s
  · rename_i sh _
    split
    · exact Sub.refl s
    · rename_i m _
      split
      · exact Sub.refl s
      · rename_i kh _
        simp only []
        split
        · exact Sub.refl s
        · rename_i s1 h1
          have i1 := foldRmData_inv sh strict _ s s1 hi h1
          have b1 := foldRmData_sub sh strict _ s s1 hi h1
          split
          · exact b1
          · rename_i m1 _
            have i2 : Inv { s1 with sets := setAt s1.sets sh (some { m1 with keys := setAt m1.keys kh none }) } :=
              i1.of_frame rfl rfl
            split
            · exact b1.trans (Sub.of_anns_eq rfl)
            · rename_i s3 h3
              obtain ⟨_, _, j3, _, _, _⟩ := removeAll_spec _ _ s3 i2 h3
              exact b1.trans ((Sub.of_anns_eq rfl).trans ((Sub.of_mono j3).trans (Sub.of_anns_eq rfl)))

end Stam
