import StamModel.Prelude
/-
  C19 — the part of loading that turns numbers in the input into allocations: temporary identifiers
  (src/store.rs resolve_temp_id; AnnotationsVisitor / DataVisitor in src/annotationstore.rs,
  src/annotationdataset.rs).

  A STAM JSON document lists items in handle order; an item without public identifier may carry a temporary
  one (`!A<n>`, `!D<n>`) naming the handle it had. The loader fills the gap up to that handle with empty slots
  (after asking the allocator, `try_reserve`) and appends the item.
-/
namespace Stam.UT

abbrev Str := List Char

def digitsToNat? : Str → Option Nat
  | [] => none
  | cs => if cs.all Char.isDigit then some (cs.foldl (fun n c => n * 10 + (c.toNat - 48)) 0) else none

/-- `char::is_uppercase` for the characters the correspondence check sends: ASCII and Latin-1 (beyond that the
Unicode table is std's) -/
def isUpperChar (c : Char) : Bool := c.isUpper || (0xC0 ≤ c.toNat && c.toNat ≤ 0xDE && c.toNat != 0xD7)

/-- `resolve_temp_id`: `!`, one upper-case character, digits (no sign; bounds are the machine's, not modelled) -/
def resolveTempId (s : Str) : Option Nat :=
  match s with
  | '!' :: x :: rest => if isUpperChar x then digitsToNat? rest else none
  | _ => none

/-- the visitor loop on a fresh store: `slots` is the number of slots so far; the result lists where each item
landed. `canAlloc gap` is the allocator's answer to `try_reserve(gap)`. -/
def load (canAlloc : Nat → Bool) : (slots : Nat) → List (Option Nat) → Option (List Nat)
  | _, [] => some []
  | slots, none :: rest => (load canAlloc (slots + 1) rest).map (slots :: ·)
  | slots, some h :: rest =>
    if slots > h then none                      -- "unable to resolve temporary public identifiers"
    else if h > slots ∧ ¬ canAlloc (h - slots) then none   -- "temporary public identifier ... is too large"
    else (load canAlloc (h + 1) rest).map (h :: ·)

/-- the visitor loop on a store that holds `pre` annotations already (a second document merged into it, an included
sub-store): a temporary identifier is accepted as long as the store has not grown beyond it by more than what was
there before; an item lands at its handle when that lies beyond the slots in use, and is appended otherwise -/
def loadInto (canAlloc : Nat → Bool) (pre : Nat) : (slots : Nat) → List (Option Nat) → Option (List Nat)
  | _, [] => some []
  | slots, none :: rest => (loadInto canAlloc pre (slots + 1) rest).map (slots :: ·)
  | slots, some h :: rest =>
    if slots > h + pre then none
    else if h > slots ∧ ¬ canAlloc (h - slots) then none
    else (loadInto canAlloc pre (max h slots + 1) rest).map (max h slots :: ·)

end Stam.UT
