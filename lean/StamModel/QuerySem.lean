import StamModel.Store
import StamModel.DataValue
/-
  C08 — the two evaluations of a data constraint in `SELECT ANNOTATION` (src/api/query.rs):

   * as the first constraint (`init_state_annotations`): `store.find_data(set, key, op).annotations()` for
     `DATA set key op value`, `store.key(set, key).annotations()` for `DATA set key`, `find_data(any, any, op)
     .annotations()` for `VALUE op value` — the annotations the reverse index (`dataset_data_annotation_map`) lists
     for each matching data item, collected, sorted and deduplicated (`DataIterator::annotations`);
   * as a later constraint (`update_state_annotations`): `iter.filter_key_value(..)`, `filter_key(..)`,
     `filter_value(..)` — each annotation of the incoming iterator is kept if one of its own data items matches
     (`FilteredAnnotations::test_filter`: `annotation.data().filter_…().test()`).

  `found` is the list of matching data items (set handle, data handle) — for the three constraints it is what
  `State.findData` (DataValue.lean, the C10 model) returns.
-/
namespace Stam

/-- index-driven: through the reverse index of each matching data item -/
def State.annsOfData (s : State) (found : List (Nat × Nat)) : List Nat :=
  dedupSorted (found.flatMap (fun p => s.lookup (.data p.1 p.2)))

/-- filter: over the live annotations, by their own data -/
def State.annsWithData (s : State) (found : List (Nat × Nat)) : List Nat :=
  (List.range s.anns.length).filter (fun h => match getLive s.anns h with
    | some a => a.data.any (fun p => found.contains p)
    | none => false)

/-- a conjunction of constraints: the first is index-driven, the others filter its result in turn -/
def State.annsQuery (s : State) (first : List (Nat × Nat)) (others : List (List (Nat × Nat))) : List Nat :=
  others.foldl (fun acc found => acc.filter (fun h => (s.annsWithData found).contains h)) (s.annsOfData first)

end Stam
