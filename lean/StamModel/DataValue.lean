import StamModel.Store
/-
  C10 model: `DataValue::test(DataOperator)` (src/datavalue.rs) and `find_data` as a scan.
  Floats are restricted to multiples of 1/4 (exact in f64) and carried as the integer numerator;
  datetimes as seconds. Comparing a float with a string (`Equals`) is left to correspondence.
-/
namespace Stam

inductive DV where
  | null
  | str (s : String)
  | bool (b : Bool)
  | int (i : Int)
  | flt (q : Int)          -- the float q/4
  | dt (t : Int)
  | list (l : List DV)
deriving Repr, Inhabited

inductive DOp where
  | any | null | tru | fls
  | eq (s : String)
  | eqi (n : Int) | gt (n : Int) | ge (n : Int) | lt (n : Int) | le (n : Int)
  | eqf (q : Int) | gtf (q : Int) | gef (q : Int) | ltf (q : Int) | lef (q : Int)
  | has (s : String) | hasi (n : Int) | hasf (q : Int)
  | dte (t : Int) | dta (t : Int) | dtb (t : Int) | dtae (t : Int) | dtbe (t : Int)
  | not (o : DOp)
  | and (os : List DOp)
  | or (os : List DOp)
deriving Repr

def truthy (s : String) : Bool :=
  ["yes", "1", "enable", "enabled", "on", "true"].contains s.toLower

/-- `str::parse::<isize>()`: optional sign, ASCII digits, within 64 bits -/
def parseIsize (s : String) : Option Int :=
  match s.toList with
  | '-' :: rest => (if rest.isEmpty || !rest.all (fun c => '0' ≤ c && c ≤ '9') then none else
      let v := rest.foldl (fun acc c => acc * 10 + (c.toNat - '0'.toNat)) 0
      if v ≤ 2 ^ 63 then some (-(v : Int)) else none)
  | cs => (parseUsize cs).bind (fun v => if v < 2 ^ 63 then some (v : Int) else none)

/-- parse a string as a float that is a multiple of 1/4 in plain decimal notation ("3", "-1.25", "0.5") -/
def parseQuarter (s : String) : Option Int :=
  let (neg, body) := match s.toList with
    | '-' :: r => (true, r)
    | '+' :: r => (false, r)
    | r => (false, r)
  let ip := body.takeWhile (· ≠ '.')
  let fp := (body.dropWhile (· ≠ '.')).drop 1
  if ip.isEmpty || !ip.all (fun c => '0' ≤ c && c ≤ '9') then none else
  let iv := ip.foldl (fun acc c => acc * 10 + (c.toNat - '0'.toNat)) 0
  let frac : Option Nat := match String.ofList fp with
    | "" => if body.contains '.' then none else some 0
    | "0" => some 0 | "25" => some 1 | "5" => some 2 | "50" => some 2 | "75" => some 3
    | _ => none
  frac.map (fun f => let v : Int := (iv * 4 + f : Nat); if neg then -v else v)

/-- an element of a list against `Equals(s)` (no nesting: a list inside a list matches nothing) -/
def elemEq (s : String) : DV → Bool
  | .str x => x == s
  | .bool b => b == truthy s
  | .int n => parseIsize s == some n
  | .flt q => parseQuarter s == some q
  | _ => false
def elemEqi (n : Int) : DV → Bool
  | .int m => m == n
  | _ => false
def elemEqf (q : Int) : DV → Bool
  | .flt r => r == q
  | _ => false

mutual
/-- `DataValue::test` -/
def dvTest : DV → DOp → Bool
  | _, .any => true
  | .null, .null => true
  | .bool true, .tru => true
  | .bool false, .fls => true
  | .bool b, .eq s => b == truthy s
  | .str s, .eq s2 => s == s2
  | .int n, .eqi m => n == m
  | .int n, .gt m => n > m
  | .int n, .ge m => n ≥ m
  | .int n, .lt m => n < m
  | .int n, .le m => n ≤ m
  | .int n, .eq s => parseIsize s == some n
  | .flt q, .eqf r => q == r
  | .flt q, .gtf r => q > r
  | .flt q, .gef r => q ≥ r
  | .flt q, .ltf r => q < r
  | .flt q, .lef r => q ≤ r
  | .flt q, .eq s => parseQuarter s == some q
  -- the ordering operators compare any numeric value, integer or float, by value (`cmp_float_int`); `q` is in quarters
  | .flt q, .gt n => q > 4 * n
  | .flt q, .ge n => q ≥ 4 * n
  | .flt q, .lt n => q < 4 * n
  | .flt q, .le n => q ≤ 4 * n
  | .int n, .gtf r => 4 * n > r
  | .int n, .gef r => 4 * n ≥ r
  | .int n, .ltf r => 4 * n < r
  | .int n, .lef r => 4 * n ≤ r
  | .dt t, .dte u => t == u
  | .dt t, .dta u => t > u
  | .dt t, .dtb u => t < u
  | .dt t, .dtae u => t ≥ u
  | .dt t, .dtbe u => t ≤ u
  | .list l, .has s => l.any (elemEq s)
  | .list l, .hasi n => l.any (elemEqi n)
  | .list l, .hasf q => l.any (elemEqf q)
  | v, .not o => !dvTest v o
  | v, .and os => dvAll v os
  | v, .or os => dvAny v os
  | _, _ => false
def dvAll : DV → List DOp → Bool
  | _, [] => true
  | v, o :: os => dvTest v o && dvAll v os
def dvAny : DV → List DOp → Bool
  | _, [] => false
  | v, o :: os => dvTest v o || dvAny v os
end

/-- value renderings of the protocol -/
partial def DV.parse (s : String) : DV :=
  match s.splitOn ":" with
  | ["n"] => .null
  | "b" :: v :: _ => .bool (v == "1")
  | "i" :: _ => match parseIntLit ((s.drop 2).toString) with | some n => .int n | none => .null
  | "f" :: _ => match parseIntLit ((s.drop 2).toString) with | some n => .flt n | none => .null
  | "d" :: _ => match parseIntLit ((s.drop 2).toString) with | some n => .dt n | none => .null
  | "s" :: _ => .str ((s.drop 2).toString)
  | "l" :: _ => .list ((((s.drop 2).toString).splitOn "|").filter (· ≠ "") |>.map DV.parse)
  | _ => .null
where parseIntLit (t : String) : Option Int :=
  if t.startsWith "-" then ((t.drop 1).toNat?).map (fun n => -(n : Int)) else t.toNat?.map (fun n => (n : Int))

/-- `find_data(set, key, op)` on the store: a scan over the live data of the chosen set(s); a key
without a set is ignored (documented as invalid use) -/
def State.findData (s : State) (set : Option String) (key : Option String) (test : String → Bool) : List (Nat × Nat) :=
  match set with
  | some sid =>
    match s.resolveSet sid with
    | none => []
    | some sh =>
      match getLive s.sets sh with
      | none => []
      | some m =>
        let kh : Option (Option Nat) := match key with
          | none => some none
          | some k => (m.keyByName k).map some
        match kh with
        | none => []        -- the requested key does not exist
        | some kf =>
          (List.range m.data.length).filterMap (fun dh => match getLive m.data dh with
            | some d => if (kf.isNone || kf == some d.key) && test d.val then some (sh, dh) else none
            | none => none)
  | none =>
    (List.range s.sets.length).flatMap (fun sh => match getLive s.sets sh with
      | none => []
      | some m => (List.range m.data.length).filterMap (fun dh => match getLive m.data dh with
          | some d => if test d.val then some (sh, dh) else none
          | none => none))

end Stam
