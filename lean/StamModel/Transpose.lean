import StamModel.Prelude
/-
  C16 — transposition (src/api/transpose.rs, TextSelection::intersection / relative_offset in
  src/textselection.rs).

  Model of `Transposable::transpose` for a text selection set over a transposition whose sides lie in
  pairwise different resources (the property's "pair of texts"; with two sides in one resource the code
  interleaves its search over the sides, which this model does not reproduce — see DESIGN.md).

  * a fragment / piece is `(res, b, e)`, absolute and in code points;
  * a transposition is a list of sides, a side a list of fragments; fragment `j` of every side is meant to
    hold the same text (`Aligned` in Props/C16);
  * `consume` is the `while let Some(tsel) = tselbuffer.pop_front()` loop for one source selection: find the
    first fragment of the source side that intersects it, holds its begin and consumes something of it, keep the intersection, push the
    remainder (the part after the fragment's end) back;
  * `mapPiece` is `reftsel.textselection(&relative_offset)` on another side.
-/
namespace Stam.TP

structure Frag where
  res : Nat
  b : Nat
  e : Nat
deriving Repr, DecidableEq

abbrev Side := List Frag

/-- `TextSelection::intersection(self = [tb,te), other = [fb,fe))`: the intersection and what is left of `self`
(a prefix when the fragment starts later, else a suffix when the fragment ends earlier), transcribed
branch by branch. -/
def inter (tb te fb fe : Nat) : Option (Nat × Nat × Option (Nat × Nat)) :=
  let begin1 : Option Nat :=
    if fb ≥ tb ∧ fb < te then some fb else if tb ≥ fb ∧ tb < fe then some tb else none
  let end1 : Option Nat :=
    if fe > tb ∧ fe ≤ te then some fe else if te > fb ∧ te ≤ fe then some te else none
  let (begin2, end2) : Option Nat × Option Nat :=
    if fb ≤ tb ∧ fe ≥ te then (some tb, some te)
    else if tb ≤ fb ∧ te ≥ fe then (some fb, some fe)
    else (begin1, end1)
  match begin2, end2 with
  | some ib, some ie =>
    let rem : Option (Nat × Nat) :=
      if ib > tb then some (tb, ib) else if ie < te then some (ie, te) else none
    some (ib, ie, rem)
  | _, _ => none

/-- one found source piece: fragment number within the side, offset relative to that fragment, absolute range -/
structure Piece where
  j : Nat
  rb : Nat
  re : Nat
  ab : Nat
  ae : Nat
deriving Repr, DecidableEq

/-- scan the fragments of the source side (from index `j`) for the first usable one -/
def findFrag (res tb te : Nat) : (side : Side) → (j : Nat) → Option (Piece × Option (Nat × Nat))
  | [], _ => none
  | f :: rest, j =>
    if f.res ≠ res then findFrag res tb te rest (j + 1) else
    match inter tb te f.b f.e with
    | none => findFrag res tb te rest (j + 1)
    | some (ib, ie, rem) =>
      match rem with
      | some (rb, _) =>
        if rb ≤ ib then findFrag res tb te rest (j + 1)   -- the remainder precedes, or nothing was consumed: fragment skipped
        else some (⟨j, ib - f.b, ie - f.b, ib, ie⟩, rem)
      | none => some (⟨j, ib - f.b, ie - f.b, ib, ie⟩, none)

/-- the buffer loop for one source selection; `none` = some part is found in no fragment (→ TransposeError) -/
def consume (side : Side) (res : Nat) : (fuel : Nat) → (tb te : Nat) → Option (List Piece)
  | 0, _, _ => none
  | fuel + 1, tb, te =>
    match findFrag res tb te side 0 with
    | none => none
    | some (p, none) => some [p]
    | some (p, some (rb, re)) => (consume side res fuel rb re).map (p :: ·)

def consumeAll (side : Side) (res : Nat) : List (Nat × Nat) → Option (List Piece)
  | [] => some []
  | (tb, te) :: rest =>
    match consume side res (te - tb + 1) tb te, consumeAll side res rest with
    | some ps, some qs => some (ps ++ qs)
    | _, _ => none

/-- the simple branch: every selection must lie wholly inside the (single) fragment of the side -/
def simpleAll (f : Frag) (res : Nat) : List (Nat × Nat) → Option (List Piece)
  | [] => some []
  | (tb, te) :: rest =>
    if f.res ≠ res then none else
    match inter tb te f.b f.e, simpleAll f res rest with
    | some (ib, ie, none), some qs => some (⟨0, ib - f.b, ie - f.b, ib, ie⟩ :: qs)
    | _, _ => none

/-- `reftsel.textselection(&Offset::simple(rb, re))` on fragment `j` of another side -/
def mapPiece (side : Side) (p : Piece) : Out Frag :=
  match side[p.j]? with
  | none => .panic "element must exist"
  | some f =>
    if p.rb > f.e - f.b ∨ p.re > f.e - f.b then .err "CursorOutOfBounds"
    else if p.re < p.rb then .err "InvalidOffset"
    else .ok ⟨f.res, f.b + p.rb, f.b + p.re⟩

def mapPieces (side : Side) : List Piece → Out (List Frag)
  | [] => .ok []
  | p :: ps =>
    match mapPiece side p, mapPieces side ps with
    | .ok f, .ok fs => .ok (f :: fs)
    | .ok _, o => o
    | .err c, _ => .err c
    | .panic m, _ => .panic m

def mapSides (via : List Side) (src : Nat) (res : Nat) (pieces : List Piece) : (i : Nat) → List Side → Out (List (List Frag))
  | _, [] => .ok []
  | i, side :: rest =>
    let here : Out (List Frag) :=
      if i = src then .ok (pieces.map (fun p => ⟨res, p.ab, p.ae⟩)) else mapPieces side pieces
    match here, mapSides via src res pieces (i + 1) rest with
    | .ok s, .ok ss => .ok (s :: ss)
    | .ok _, o => o
    | .err c, _ => .err c
    | .panic m, _ => .panic m

/-- source side: forced, or the first side with a fragment in the source's resource -/
def sourceSide (via : List Side) (res : Nat) (byIndex : Option Nat) : Option Nat :=
  match byIndex with
  | some i => some i
  | none => via.findIdx? (fun s => s.any (fun f => f.res = res))

/-- the sides of the transposition that `transpose` returns (source side first … in the order of `via`) -/
def transpose (via : List Side) (simple : Bool) (res : Nat) (source : List (Nat × Nat)) (byIndex : Option Nat) :
    Out (List (List Frag)) :=
  match sourceSide via res byIndex with
  | none => .err "TransposeError"
  | some src =>
    match via[src]? with
    | none => .err "TransposeError"
    | some side =>
      let found : Option (List Piece) :=
        if simple then (match side with | [f] => simpleAll f res source | _ => none) else consumeAll side res source
      match found with
      | none => .err "TransposeError"
      | some [] => .err "TransposeError"
      | some pieces => mapSides via src res pieces 0 via

end Stam.TP
