import StamModel.DataValue
import StamModel.Lemmas.DvGen
import StamModel.Lemmas.StoreIds
/-
  C10 — Annotation data is a deduplicated vocabulary and data search equals a scan.
-/
namespace Stam.C10
open Stam

/-! ### the comparison semantics -/

theorem any_true (v : DV) : dvTest v .any = true := by cases v <;> simp [dvTest]

/-- negation is the exact complement -/
theorem not_compl (v : DV) (o : DOp) : dvTest v (.not o) = !dvTest v o := by
  cases v <;> simp [dvTest]

theorem and_all (v : DV) (os : List DOp) : dvTest v (.and os) = os.all (dvTest v) := by
  have h : ∀ os : List DOp, dvAll v os = os.all (dvTest v) := by
    intro os; induction os with
    | nil => simp [dvAll]
    | cons o os ih => simp [dvAll, ih]
  cases v <;> simp [dvTest, h]

theorem or_any (v : DV) (os : List DOp) : dvTest v (.or os) = os.any (dvTest v) := by
  have h : ∀ os : List DOp, dvAny v os = os.any (dvTest v) := by
    intro os; induction os with
    | nil => simp [dvAny]
    | cons o os ih => simp [dvAny, ih]
  cases v <;> simp [dvTest, h]

/-- De Morgan -/
theorem not_and (v : DV) (os : List DOp) : dvTest v (.not (.and os)) = dvTest v (.or (os.map .not)) := by
  rw [not_compl, and_all, or_any]
  induction os with
  | nil => simp
  | cons o os ih =>
    simp only [List.all_cons, List.map_cons, List.any_cons, not_compl, Bool.not_and, ih]

theorem not_or (v : DV) (os : List DOp) : dvTest v (.not (.or os)) = dvTest v (.and (os.map .not)) := by
  rw [not_compl, and_all, or_any]
  induction os with
  | nil => simp
  | cons o os ih =>
    simp only [List.all_cons, List.map_cons, List.any_cons, not_compl, Bool.not_or, ih]

theorem not_not (v : DV) (o : DOp) : dvTest v (.not (.not o)) = dvTest v o := by
  simp [not_compl]

/-- equality is by type: an integer value is never matched by a float equality and vice versa; a string is never
matched by a numeric operator -/
theorem cross_type (n q : Int) (s : String) :
    dvTest (.int n) (.eqf q) = false ∧ dvTest (.flt q) (.eqi n) = false ∧
    dvTest (.str s) (.eqi n) = false ∧ dvTest (.str s) (.gtf q) = false ∧ dvTest (.str s) (.gt n) = false ∧
    dvTest .null (.eq s) = false := by
  simp [dvTest]

/-- **C10 (numeric cross-type comparison).** The ordering operators are "the value is numeric and greater (less) than
the operand": a float value (`q` quarters) and an integer operand, or an integer value and a float operand, are
compared by value. -/
theorem numeric_order (n q : Int) :
    (dvTest (.flt q) (.gt n) = true ↔ q > 4 * n) ∧ (dvTest (.flt q) (.ge n) = true ↔ q ≥ 4 * n) ∧
    (dvTest (.flt q) (.lt n) = true ↔ q < 4 * n) ∧ (dvTest (.flt q) (.le n) = true ↔ q ≤ 4 * n) ∧
    (dvTest (.int n) (.gtf q) = true ↔ 4 * n > q) ∧ (dvTest (.int n) (.gef q) = true ↔ 4 * n ≥ q) ∧
    (dvTest (.int n) (.ltf q) = true ↔ 4 * n < q) ∧ (dvTest (.int n) (.lef q) = true ↔ 4 * n ≤ q) := by
  simp [dvTest]

/-- an integer operand and the float operand of the same value give the same answer, on integers and on floats -/
theorem operand_type_is_immaterial (v : DV) (n : Int) (hv : (∃ m, v = .int m) ∨ (∃ q, v = .flt q)) :
    dvTest v (.gt n) = dvTest v (.gtf (4 * n)) ∧ dvTest v (.ge n) = dvTest v (.gef (4 * n)) ∧
    dvTest v (.lt n) = dvTest v (.ltf (4 * n)) ∧ dvTest v (.le n) = dvTest v (.lef (4 * n)) := by
  rcases hv with ⟨m, rfl⟩ | ⟨q, rfl⟩
  · simp only [dvTest]
    refine ⟨?_, ?_, ?_, ?_⟩ <;> (apply decide_eq_decide.mpr; omega)
  · simp [dvTest]

theorem int_order (n m : Int) :
    (dvTest (.int n) (.gt m) = true ↔ n > m) ∧ (dvTest (.int n) (.ge m) = true ↔ n ≥ m) ∧
    (dvTest (.int n) (.lt m) = true ↔ n < m) ∧ (dvTest (.int n) (.le m) = true ↔ n ≤ m) ∧
    (dvTest (.int n) (.eqi m) = true ↔ n = m) := by
  simp [dvTest]

/-! ### tie to the source: `Stam.Gen.dvTest` is regenerated from `DataValue::test` (src/datavalue.rs) on every run -/

/-- every arm of the source's `DataValue::test` computes what the model's `dvTest` computes (strings are never
datetimes here: comparing a datetime with a string is outside the model) -/
theorem source_test_is_the_model (v : DV) (o : DOp) : Gen.dvTest noDt v o = dvTest v o :=
  gen_dvTest_agrees o v

/-- so the laws above are laws of the source's function -/
theorem source_not_compl (v : DV) (o : DOp) : Gen.dvTest noDt v (.not o) = !Gen.dvTest noDt v o := by
  rw [source_test_is_the_model, source_test_is_the_model, not_compl]

theorem string_eq (s t : String) : dvTest (.str s) (.eq t) = true ↔ s = t := by simp [dvTest]

/-! ### the vocabulary -/

theorem setAt_same {α} (l : List (Option α)) (i : Nat) (a : α) (h : getLive l i = some a) :
    setAt l i (some a) = l := by
  simp only [setAt]
  apply List.ext_getElem?
  intro j
  rw [List.getElem?_set]
  by_cases hij : i = j
  · subst hij
    have hlt := getLive_lt _ _ _ h
    simp only [hlt, if_true]
    simp only [getLive] at h
    cases hx : l[i]? with
    | none => simp [hx] at h
    | some o => simp [hx] at h; simp [h]
  · simp [hij]

/-- **dedup**: adding data without an identifier whose (key, value) already exists returns the
existing item and changes nothing -/
theorem insert_existing_is_noop (s : State) (set key val : String) (sh kh dh : Nat) (m : SetM)
    (h1 : s.resolveSet set = some sh) (h2 : getLive s.sets sh = some m)
    (h3 : m.keyByName key = some kh)
    (h4 : findIdx m.data (fun x => x.key == kh && x.val == val) = some dh) :
    s.insertData ⟨set, some key, some val, none⟩ = (some (sh, dh), s) := by
  unfold State.insertData
  simp only [h1, h2, h3, Option.bind_none, Option.isNone_none, Bool.not_false, Bool.true_and,
    Option.getD_some, h4]
  rw [setAt_same _ _ _ h2]
  simp only [if_true]

/-- the existing item really carries that key and value, and is the only answer the API can give:
every annotation built with the same (key, value) refers to this one item -/
theorem dedup_target (m : SetM) (kh dh : Nat) (val : String)
    (h4 : findIdx m.data (fun x => x.key == kh && x.val == val) = some dh) :
    ∃ d, getLive m.data dh = some d ∧ d.key = kh ∧ d.val = val := by
  obtain ⟨d, hd, hp, _⟩ := findIdx_some _ _ _ h4
  simp at hp
  exact ⟨d, hd, hp.1, hp.2⟩

/-- a new key is only created when no live key has that name -/
def KeysUnique (m : SetM) : Prop :=
  ∀ k1 k2 name, getLive m.keys k1 = some name → getLive m.keys k2 = some name → k1 = k2

theorem keyByName_exact (m : SetM) (hu : KeysUnique m) (name : String) (kh : Nat) :
    m.keyByName name = some kh ↔ getLive m.keys kh = some name := by
  unfold SetM.keyByName
  constructor
  · intro h
    obtain ⟨a, ha, hp, _⟩ := findIdx_some _ _ _ h
    simp at hp; rw [hp] at ha; exact ha
  · intro h
    cases hr : findIdx m.keys (fun k => k == name) with
    | none => have := findIdx_none _ _ hr kh name h; simp at this
    | some j =>
      obtain ⟨a, ha, hp, _⟩ := findIdx_some _ _ _ hr
      simp at hp; rw [hp] at ha
      rw [hu j kh name ha h]

theorem append_key_unique (m : SetM) (hu : KeysUnique m) (name : String) (hnew : m.keyByName name = none) :
    KeysUnique { m with keys := m.keys ++ [some name] } := by
  intro k1 k2 nm l1 l2
  simp only [] at l1 l2
  rw [getLive_append] at l1 l2
  have hfresh : ∀ k, getLive m.keys k = some name → False := by
    intro k hk
    have := findIdx_none _ _ hnew k name hk
    simp at this
  by_cases c1 : k1 < m.keys.length
  · simp only [c1, if_true] at l1
    by_cases c2 : k2 < m.keys.length
    · simp only [c2, if_true] at l2; exact hu k1 k2 nm l1 l2
    · simp only [c2, if_false] at l2
      split at l2
      · cases l2; exact absurd l1 (fun h => hfresh k1 h)
      · cases l2
  · simp only [c1, if_false] at l1
    split at l1
    · cases l1
      by_cases c2 : k2 < m.keys.length
      · simp only [c2, if_true] at l2; exact absurd l2 (fun h => hfresh k2 h)
      · simp only [c2, if_false] at l2
        split at l2
        · omega
        · cases l2
    · cases l1

/-! ### data search equals a scan -/

/-- **find_data_scan**: searching a dataset by key and value test returns exactly the live data
items of that set that carry the key and whose value passes the test -/
theorem find_data_scan (s : State) (sid : String) (sh : Nat) (m : SetM) (key : Option String) (test : String → Bool)
    (h1 : s.resolveSet sid = some sh) (h2 : getLive s.sets sh = some m)
    (hk : ∀ k, key = some k → (m.keyByName k).isSome) (p : Nat × Nat) :
    p ∈ s.findData (some sid) key test ↔
      (p.1 = sh ∧ ∃ d, getLive m.data p.2 = some d ∧ test d.val = true ∧
        (∀ k, key = some k → m.keyByName k = some d.key)) := by
  unfold State.findData
  simp only [h1, h2]
  cases key with
  | none =>
    simp only [List.mem_filterMap, List.mem_range]
    constructor
    · rintro ⟨dh, _, hx⟩
      cases hd : getLive m.data dh with
      | none => simp [hd] at hx
      | some d =>
        simp only [hd, Option.isNone_none, Bool.true_or, Bool.true_and] at hx
        split at hx
        · cases hx; exact ⟨rfl, d, hd, by assumption, by intro k hk; cases hk⟩
        · cases hx
    · rintro ⟨rfl, d, hd, ht, _⟩
      refine ⟨p.2, getLive_lt _ _ _ hd, ?_⟩
      simp [hd, ht]
  | some k =>
    have := hk k rfl
    cases hkk : m.keyByName k with
    | none => simp [hkk] at this
    | some kh =>
      simp only [hkk, Option.map_some, List.mem_filterMap, List.mem_range]
      constructor
      · rintro ⟨dh, _, hx⟩
        cases hd : getLive m.data dh with
        | none => simp [hd] at hx
        | some d =>
          simp only [hd, Option.isNone_some, Bool.false_or] at hx
          split at hx
          · rename_i hc
            cases hx
            simp only [Bool.and_eq_true, beq_iff_eq, Option.some.injEq] at hc
            exact ⟨rfl, d, hd, hc.2, by intro k' hk'; cases hk'; rw [hkk, hc.1]⟩
          · cases hx
      · rintro ⟨rfl, d, hd, ht, hkey⟩
        refine ⟨p.2, getLive_lt _ _ _ hd, ?_⟩
        have := hkey k rfl
        rw [hkk] at this; cases this
        simp [hd, ht]

/-! ### Non-vacuity -/
example : dvTest (.int 3) (.or [.eq "3", .gt 5]) = true ∧ dvTest (.flt 4) (.eqi 1) = false ∧ dvTest (.flt 14) (.gt 3) = true ∧
    dvTest (.list [.int 1, .str "v0"]) (.has "v0") = true := by decide
example : (State.empty.insertData ⟨"s", some "k", some "s:v", none⟩).2.insertData ⟨"s", some "k", some "s:v", none⟩
    = (some (0, 0), (State.empty.insertData ⟨"s", some "k", some "s:v", none⟩).2) := by decide

end Stam.C10
