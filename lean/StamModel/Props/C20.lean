import StamModel.Concurrency
/-
  C20 — Concurrent readers of a shared store see sequential results.

  The theorem is about `StamModel/Concurrency.lean`: under the per-thread "no @include" state, whatever the
  interleaving, each reader is — at every moment — exactly where it would be after the same number of its own
  steps running alone; in particular when it has finished it has produced its sequential output.
  `shared_cell_interferes` exhibits the interleaving that the former shared cell allowed.

  Partial: only the serialisation-mode state machine is modelled. That the other readers (iteration, search,
  queries, the parallel adaptors) touch no interior-mutable state, and the changed flags (written only by a
  serialisation that has to write a stand-off file), are covered by the `concurrent` family's scheduler on the
  implementation, not by a theorem; memory-model level races are outside any executable model (Rust's `Sync`
  bound and the absence of `unsafe` in the crate are the argument there).
-/
namespace Stam.CC.C20
open Stam.CC

theorem stepFixed_other (cfgAllow : Bool) (ts : List Thread) (i j : Nat) (h : i ≠ j) :
    (stepFixed cfgAllow ts i)[j]? = ts[j]? := by
  unfold stepFixed
  cases hi : ts[i]? with
  | none => rfl
  | some t => simp [List.getElem?_set, h]

theorem stepFixed_self (cfgAllow : Bool) (ts : List Thread) (i : Nat) (t : Thread) (hi : ts[i]? = some t) :
    (stepFixed cfgAllow ts i)[i]? = some (t.step cfgAllow) := by
  unfold stepFixed
  rw [hi]
  have : i < ts.length := by
    rcases Nat.lt_or_ge i ts.length with h | h
    · exact h
    · simp [List.getElem?_eq_none h] at hi
  simp [List.getElem?_set, this]

theorem steps_succ (cfgAllow : Bool) (n : Nat) (t : Thread) :
    Thread.steps cfgAllow (n + 1) t = (Thread.steps cfgAllow n t).step cfgAllow := by
  induction n generalizing t with
  | zero => rfl
  | succ n ih => simp only [Thread.steps] at ih ⊢; rw [ih]

/-- **C20 (serialisation mode).** After any trace, thread `j` is in the state it reaches alone after as many
steps as the trace gives it: no other thread's steps are visible to it. -/
theorem runFixed_independent (cfgAllow : Bool) (trace : List Nat) (ts : List Thread) (j : Nat) (t : Thread)
    (hj : ts[j]? = some t) :
    (runFixed cfgAllow ts trace)[j]? = some (Thread.steps cfgAllow (trace.count j) t) := by
  unfold runFixed
  induction trace generalizing ts t with
  | nil => simpa [Thread.steps] using hj
  | cons i tr ih =>
    simp only [List.foldl_cons]
    by_cases h : i = j
    · subst h
      rw [ih _ _ (stepFixed_self cfgAllow ts i t hj)]
      simp [List.count_cons, Thread.steps]
    · have := stepFixed_other cfgAllow ts i j h
      rw [ih _ t (by rw [this]; exact hj)]
      have hc : List.count j (i :: tr) = List.count j tr := by simp [List.count_cons, h]
      rw [hc]

/-- the sequential output of a program -/
def soloOut (cfgAllow : Bool) (prog : List Act) : List Bool :=
  (Thread.steps cfgAllow prog.length (Thread.start cfgAllow prog)).out

theorem step_done (cfgAllow : Bool) (t : Thread) (h : t.todo = []) : t.step cfgAllow = t := by
  unfold Thread.step; rw [h]

theorem steps_done (cfgAllow : Bool) (n : Nat) (t : Thread) (h : t.todo = []) : Thread.steps cfgAllow n t = t := by
  induction n with
  | zero => rfl
  | succ n ih => simp [Thread.steps, step_done cfgAllow t h, ih]

/-- **C20 (result).** If the trace lets reader `j` run to completion, its output is its sequential output —
for every interleaving with any number of other readers. -/
theorem output_is_sequential (cfgAllow : Bool) (progs : List (List Act)) (trace : List Nat) (j : Nat)
    (prog : List Act) (hj : progs[j]? = some prog)
    (hdone : (Thread.steps cfgAllow (trace.count j) (Thread.start cfgAllow prog)).todo = []) :
    ∃ t, (runFixed cfgAllow (progs.map (Thread.start cfgAllow)) trace)[j]? = some t ∧
      t.out = (Thread.steps cfgAllow (trace.count j) (Thread.start cfgAllow prog)).out ∧ t.todo = [] := by
  have h0 : (progs.map (Thread.start cfgAllow))[j]? = some (Thread.start cfgAllow prog) := by
    simp [List.getElem?_map, hj]
  exact ⟨_, runFixed_independent cfgAllow trace _ j _ h0, rfl, hdone⟩

/-- once finished, further scheduling slots change nothing: the final output does not depend on how many slots
the trace offers beyond completion -/
theorem finished_is_stable (cfgAllow : Bool) (t : Thread) (n m : Nat)
    (h : (Thread.steps cfgAllow n t).todo = []) : Thread.steps cfgAllow (n + m) t = Thread.steps cfgAllow n t := by
  induction m with
  | zero => rfl
  | succ m ih => rw [← Nat.add_assoc, steps_succ, ih, step_done _ _ h]

/-! ## schedule and co-runner independence, whole-system form -/

/-- **C20 (no reader changes what another emits).** Reader `j`'s state depends only on how many slots it was
given: two runs with *different* co-runners (any number, any programs) and *different* schedules leave `j` in
the same state as soon as they give it the same number of slots. -/
theorem corunners_and_schedule_irrelevant (cfgAllow : Bool) (ts₁ ts₂ : List Thread) (tr₁ tr₂ : List Nat)
    (j₁ j₂ : Nat) (t : Thread) (h₁ : ts₁[j₁]? = some t) (h₂ : ts₂[j₂]? = some t)
    (hc : tr₁.count j₁ = tr₂.count j₂) :
    (runFixed cfgAllow ts₁ tr₁)[j₁]? = (runFixed cfgAllow ts₂ tr₂)[j₂]? := by
  rw [runFixed_independent cfgAllow tr₁ ts₁ j₁ t h₁, runFixed_independent cfgAllow tr₂ ts₂ j₂ t h₂, hc]

theorem stepFixed_length (cfgAllow : Bool) (ts : List Thread) (i : Nat) :
    (stepFixed cfgAllow ts i).length = ts.length := by
  unfold stepFixed
  cases ts[i]? <;> simp

theorem runFixed_length (cfgAllow : Bool) (ts : List Thread) (trace : List Nat) :
    (runFixed cfgAllow ts trace).length = ts.length := by
  unfold runFixed
  induction trace generalizing ts with
  | nil => rfl
  | cons i tr ih => simp only [List.foldl_cons]; rw [ih, stepFixed_length]

/-- **C20 (whole system).** After any trace the system is, thread by thread, the list of solo runs: the
interleaved execution of any number of readers equals the product of their sequential executions. -/
theorem runFixed_eq_solo_runs (cfgAllow : Bool) (ts : List Thread) (trace : List Nat) :
    runFixed cfgAllow ts trace = ts.mapIdx (fun j t => Thread.steps cfgAllow (trace.count j) t) := by
  apply List.ext_getElem?
  intro j
  rw [List.getElem?_mapIdx]
  cases hj : ts[j]? with
  | some t => rw [runFixed_independent cfgAllow trace ts j t hj]; rfl
  | none =>
    have hge : ts.length ≤ j := by
      rcases Nat.lt_or_ge j ts.length with h | h
      · simp [List.getElem?_eq_getElem h] at hj
      · exact h
    rw [List.getElem?_eq_none (by rw [runFixed_length]; exact hge)]; rfl

/-- **C20 (outputs).** At every moment of every interleaving, what the readers have emitted is the list of what
each has emitted alone after as many of its own steps. -/
theorem outputs_are_solo_outputs (cfgAllow : Bool) (progs : List (List Act)) (trace : List Nat) :
    (runFixed cfgAllow (progs.map (Thread.start cfgAllow)) trace).map (·.out)
      = progs.mapIdx (fun j prog =>
          (Thread.steps cfgAllow (trace.count j) (Thread.start cfgAllow prog)).out) := by
  rw [runFixed_eq_solo_runs]
  apply List.ext_getElem?
  intro j
  simp only [List.getElem?_mapIdx, List.getElem?_map]
  cases progs[j]? <;> rfl

/-- a trace of a system *with* co-runners and the same reader on its own, given as many slots -/
example : (runFixed true ([storeProg [true, false, true], memberProg true, memberProg false].map (Thread.start true))
      [1, 0, 2, 1, 0, 1, 2])[0]?
    = (runFixed true [Thread.start true (storeProg [true, false, true])] [0, 0])[0]? := by decide

/-! ## progress: a reader given as many slots as its program has actions has finished -/

theorem act_todo (cfgAllow : Bool) (t : Thread) (a : Act) : (t.act cfgAllow a).todo = t.todo := by
  cases a <;> rfl

theorem settle_todo_le (cfgAllow : Bool) (fuel : Nat) (t : Thread) :
    (Thread.settle cfgAllow fuel t).todo.length ≤ t.todo.length := by
  induction fuel generalizing t with
  | zero => exact Nat.le_refl _
  | succ fuel ih =>
    unfold Thread.settle
    cases htd : t.todo with
    | nil => simp [htd]
    | cons a rest =>
      simp only
      split
      · simp [htd]
      · refine Nat.le_trans (ih _) ?_
        rw [act_todo]; simp

theorem step_todo_lt (cfgAllow : Bool) (t : Thread) (h : t.todo ≠ []) :
    (t.step cfgAllow).todo.length < t.todo.length := by
  unfold Thread.step
  cases htd : t.todo with
  | nil => exact absurd htd h
  | cons a rest =>
    simp only
    refine Nat.lt_of_le_of_lt (settle_todo_le _ _ _) ?_
    rw [act_todo]; simp

theorem steps_todo_le (cfgAllow : Bool) (n : Nat) (t : Thread) :
    (Thread.steps cfgAllow n t).todo.length ≤ t.todo.length - n := by
  induction n generalizing t with
  | zero => exact Nat.le_refl _
  | succ n ih =>
    simp only [Thread.steps]
    by_cases h : t.todo = []
    · rw [step_done _ _ h]; have := ih t; have h0 : t.todo.length = 0 := by simp [h]
      omega
    · have h1 := step_todo_lt cfgAllow t h
      have h2 := ih (t.step cfgAllow)
      omega

theorem start_todo_le (cfgAllow : Bool) (prog : List Act) :
    (Thread.start cfgAllow prog).todo.length ≤ prog.length :=
  settle_todo_le cfgAllow prog.length _

/-- **C20 (progress).** A reader that was given at least as many slots as its program has actions has finished
— so the hypothesis of `output_is_sequential` is met by every fair-enough trace, by counting. -/
theorem finished_after_enough_slots (cfgAllow : Bool) (prog : List Act) (n : Nat) (hn : prog.length ≤ n) :
    (Thread.steps cfgAllow n (Thread.start cfgAllow prog)).todo = [] := by
  have h1 := steps_todo_le cfgAllow n (Thread.start cfgAllow prog)
  have h2 := start_todo_le cfgAllow prog
  exact List.eq_nil_of_length_eq_zero (by omega)

/-- **C20 (result, closed form).** In every interleaving that gives each reader at least as many slots as its
program has actions, every reader ends with exactly its sequential output `soloOut`. -/
theorem all_outputs_sequential (cfgAllow : Bool) (progs : List (List Act)) (trace : List Nat)
    (hfair : ∀ j prog, progs[j]? = some prog → prog.length ≤ trace.count j) :
    (runFixed cfgAllow (progs.map (Thread.start cfgAllow)) trace).map (·.out)
      = progs.map (soloOut cfgAllow) := by
  rw [outputs_are_solo_outputs]
  apply List.ext_getElem?
  intro j
  simp only [List.getElem?_mapIdx, List.getElem?_map]
  cases hj : progs[j]? with
  | none => rfl
  | some prog =>
    simp only [Option.map_some, soloOut]
    have hle := hfair j prog hj
    have hfin := finished_after_enough_slots cfgAllow prog prog.length (Nat.le_refl _)
    obtain ⟨m, hm⟩ := Nat.exists_eq_add_of_le hle
    rw [hm, finished_is_stable cfgAllow _ prog.length m hfin]

/-- non-vacuity of `all_outputs_sequential`: three readers, each given enough slots -/
example : ∀ j prog, [storeProg [true, false], memberProg true, memberProg false][j]? = some prog →
    prog.length ≤ [0, 1, 2, 0, 1, 2, 1, 2, 0].count j := by
  intro j prog h
  match j, h with
  | 0, h => cases h; decide
  | 1, h => cases h; decide
  | 2, h => cases h; decide
  | n + 3, h => simp at h

/-! ## what the shared cell allowed (the behaviour before the repair, and what a regression looks like) -/

/-- store with one stand-off member, serialised while another thread serialises that member: alone the store
writes an @include reference; interleaved `1,0,…` it writes the member inline -/
theorem shared_cell_interferes :
    let progs := [storeProg [true], memberProg true]
    let start : Shared := ⟨true, progs.map (fun p => (settleShared p.length true ⟨p, 0, []⟩).2)⟩
    ((runShared start [0, 1, 1, 1]).ts.map (·.out)) = [[true], [false]] ∧
    ((runShared start [1, 0, 1, 1]).ts.map (·.out)) = [[false], [false]] := by decide

/-- the same schedule under the per-thread state -/
example : ((runFixed true ([storeProg [true], memberProg true].map (Thread.start true)) [1, 0, 1, 1]).map (·.out))
    = [[true], [false]] := by decide

/-- non-vacuity of `output_is_sequential`: a three-reader scenario where every reader completes -/
example : (Thread.steps true ([0, 1, 2, 0, 1, 2, 1, 2, 0].count 1) (Thread.start true (memberProg true))).todo = [] := by decide

end Stam.CC.C20
