import StamModel.Concurrency
/-
  C20 — Concurrent readers of a shared store see sequential results.

  The theorem is about `StamModel/Concurrency.lean`: under the per-thread "no @include" state, whatever the
  interleaving, each reader is — at every moment — exactly where it would be after the same number of its own
  steps running alone; in particular when it has finished it has produced its sequential output.
  `shared_cell_interferes` exhibits the interleaving that the former shared cell allowed.

  Partial: only the serialisation-mode state machine is modelled. That the other readers (iteration, search,
  queries, the parallel adaptors) touch no interior-mutable state, and the changed flags (written only by a
  serialisation that has to write a stand-off file), are covered by the `concurrent` family's scheduler on the
  implementation, not by a theorem; memory-model level races are outside any executable model (Rust's `Sync`
  bound and the absence of `unsafe` in the crate are the argument there).
-/
namespace Stam.CC.C20
open Stam.CC

theorem stepFixed_other (cfgAllow : Bool) (ts : List Thread) (i j : Nat) (h : i ≠ j) :
    (stepFixed cfgAllow ts i)[j]? = ts[j]? := by
  unfold stepFixed
  cases hi : ts[i]? with
  | none => rfl
  | some t => simp [List.getElem?_set, h]

theorem stepFixed_self (cfgAllow : Bool) (ts : List Thread) (i : Nat) (t : Thread) (hi : ts[i]? = some t) :
    (stepFixed cfgAllow ts i)[i]? = some (t.step cfgAllow) := by
  unfold stepFixed
  rw [hi]
  have : i < ts.length := by
    rcases Nat.lt_or_ge i ts.length with h | h
    · exact h
    · simp [List.getElem?_eq_none h] at hi
  simp [List.getElem?_set, this]

theorem steps_succ (cfgAllow : Bool) (n : Nat) (t : Thread) :
    Thread.steps cfgAllow (n + 1) t = (Thread.steps cfgAllow n t).step cfgAllow := by
  induction n generalizing t with
  | zero => rfl
  | succ n ih => simp only [Thread.steps] at ih ⊢; rw [ih]

/-- **C20 (serialisation mode).** After any trace, thread `j` is in the state it reaches alone after as many
steps as the trace gives it: no other thread's steps are visible to it. -/
theorem runFixed_independent (cfgAllow : Bool) (trace : List Nat) (ts : List Thread) (j : Nat) (t : Thread)
    (hj : ts[j]? = some t) :
    (runFixed cfgAllow ts trace)[j]? = some (Thread.steps cfgAllow (trace.count j) t) := by
  unfold runFixed
  induction trace generalizing ts t with
  | nil => simpa [Thread.steps] using hj
  | cons i tr ih =>
    simp only [List.foldl_cons]
    by_cases h : i = j
    · subst h
      rw [ih _ _ (stepFixed_self cfgAllow ts i t hj)]
      simp [List.count_cons, Thread.steps]
    · have := stepFixed_other cfgAllow ts i j h
      rw [ih _ t (by rw [this]; exact hj)]
      have hc : List.count j (i :: tr) = List.count j tr := by simp [List.count_cons, h]
      rw [hc]

/-- the sequential output of a program -/
def soloOut (cfgAllow : Bool) (prog : List Act) : List Bool :=
  (Thread.steps cfgAllow prog.length (Thread.start cfgAllow prog)).out

theorem step_done (cfgAllow : Bool) (t : Thread) (h : t.todo = []) : t.step cfgAllow = t := by
  unfold Thread.step; rw [h]

theorem steps_done (cfgAllow : Bool) (n : Nat) (t : Thread) (h : t.todo = []) : Thread.steps cfgAllow n t = t := by
  induction n with
  | zero => rfl
  | succ n ih => simp [Thread.steps, step_done cfgAllow t h, ih]

/-- **C20 (result).** If the trace lets reader `j` run to completion, its output is its sequential output —
for every interleaving with any number of other readers. -/
theorem output_is_sequential (cfgAllow : Bool) (progs : List (List Act)) (trace : List Nat) (j : Nat)
    (prog : List Act) (hj : progs[j]? = some prog)
    (hdone : (Thread.steps cfgAllow (trace.count j) (Thread.start cfgAllow prog)).todo = []) :
    ∃ t, (runFixed cfgAllow (progs.map (Thread.start cfgAllow)) trace)[j]? = some t ∧
      t.out = (Thread.steps cfgAllow (trace.count j) (Thread.start cfgAllow prog)).out ∧ t.todo = [] := by
  have h0 : (progs.map (Thread.start cfgAllow))[j]? = some (Thread.start cfgAllow prog) := by
    simp [List.getElem?_map, hj]
  exact ⟨_, runFixed_independent cfgAllow trace _ j _ h0, rfl, hdone⟩

/-- once finished, further scheduling slots change nothing: the final output does not depend on how many slots
the trace offers beyond completion -/
theorem finished_is_stable (cfgAllow : Bool) (t : Thread) (n m : Nat)
    (h : (Thread.steps cfgAllow n t).todo = []) : Thread.steps cfgAllow (n + m) t = Thread.steps cfgAllow n t := by
  induction m with
  | zero => rfl
  | succ m ih => rw [← Nat.add_assoc, steps_succ, ih, step_done _ _ h]

/-! ## what the shared cell allowed (the behaviour before the repair, and what a regression looks like) -/

/-- store with one stand-off member, serialised while another thread serialises that member: alone the store
writes an @include reference; interleaved `1,0,…` it writes the member inline -/
theorem shared_cell_interferes :
    let progs := [storeProg [true], memberProg true]
    let start : Shared := ⟨true, progs.map (fun p => (settleShared p.length true ⟨p, 0, []⟩).2)⟩
    ((runShared start [0, 1, 1, 1]).ts.map (·.out)) = [[true], [false]] ∧
    ((runShared start [1, 0, 1, 1]).ts.map (·.out)) = [[false], [false]] := by decide

/-- the same schedule under the per-thread state -/
example : ((runFixed true ([storeProg [true], memberProg true].map (Thread.start true)) [1, 0, 1, 1]).map (·.out))
    = [[true], [false]] := by decide

/-- non-vacuity of `output_is_sequential`: a three-reader scenario where every reader completes -/
example : (Thread.steps true ([0, 1, 2, 0, 1, 2, 1, 2, 0].count 1) (Thread.start true (memberProg true))).todo = [] := by decide

end Stam.CC.C20
