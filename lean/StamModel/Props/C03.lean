import StamModel.Props.C02
/-
  C03 — Public identifiers resolve to exactly the live item that carries them.
  (Proved here for annotations, the item kind that is removed, stripped and cascaded; resources,
  datasets, keys and data follow the same `findIdx` discipline and are covered by correspondence.)
-/
namespace Stam.C03
open Stam Stam.C01 Stam.C02

/-- no two live annotations carry the same public identifier -/
def IdsUnique (s : State) : Prop :=
  ∀ h1 h2 a1 a2 i, getLive s.anns h1 = some a1 → getLive s.anns h2 = some a2 →
    a1.id = some i → a2.id = some i → h1 = h2

/-- **resolve_exact**: an identifier resolves to `h` iff `h` is the live annotation carrying it -/
theorem resolve_exact (s : State) (hu : IdsUnique s) (i : String) (h : Nat) :
    s.resolveAnn (.id i) = some h ↔ ∃ a, getLive s.anns h = some a ∧ a.id = some i := by
  constructor
  · intro hr
    obtain ⟨a, ha, hp, _⟩ := findIdx_some _ _ _ hr
    exact ⟨a, ha, by simpa using hp⟩
  · rintro ⟨a, ha, hid⟩
    cases hr : s.resolveAnn (.id i) with
    | none =>
      have := findIdx_none _ _ hr h a ha
      simp [hid] at this
    | some j =>
      obtain ⟨a', ha', hp, _⟩ := findIdx_some _ _ _ hr
      have hid' : a'.id = some i := by simpa using hp
      rw [hu j h a' a i ha' ha hid' hid]

/-- identifiers are unique per kind: two handles that an identifier could designate coincide -/
theorem resolve_unique (s : State) (i : String) (h1 h2 : Nat)
    (r1 : s.resolveAnn (.id i) = some h1) (r2 : s.resolveAnn (.id i) = some h2) : h1 = h2 := by
  rw [r1] at r2; cases r2; rfl

theorem IdsUnique.of_sub {s s' : State} (hu : IdsUnique s) (hs : Sub s s') : IdsUnique s' := by
  intro h1 h2 a1 a2 i l1 l2 e1 e2
  obtain ⟨b1, m1, i1, _, _⟩ := hs h1 a1 l1
  obtain ⟨b2, m2, i2, _, _⟩ := hs h2 a2 l2
  exact hu h1 h2 b1 b2 i m1 m2 (by rw [← i1]; exact e1) (by rw [← i2]; exact e2)

theorem annotate_unique (s : State) (id : Option String) (t : TargetReq) (ds : List DataReq)
    (hu : IdsUnique s) : IdsUnique (s.annotate id t ds).2 := by
  unfold State.annotate
  obtain ⟨t1, _⟩ := target_frame s t
  cases htg : s.target t with
  | mk o s1 =>
    rw [htg] at t1
    have hu1 : IdsUnique s1 := hu.of_sub (Sub.of_anns_eq t1)
    cases o with
    | none => exact hu1
    | some tm =>
      simp only []
      obtain ⟨d1, _⟩ := insertDataList_frame ds s1
      cases hd : s1.insertDataList ds with
      | mk o2 s2 =>
        rw [hd] at d1
        have hu2 : IdsUnique s2 := hu1.of_sub (Sub.of_anns_eq d1)
        cases o2 with
        | none => exact hu2
        | some data =>
          simp only []
          split
          · split <;> exact hu2
          · rename_i hex
            -- the identifier (if any) is not carried by any live annotation
            have hfresh : ∀ i, id = some i → ∀ x a, getLive s2.anns x = some a → a.id ≠ some i := by
              intro i hi x a hx hc
              subst hi
              simp only [Option.bind_some] at hex
              have := findIdx_none _ _ hex x a hx
              simp [hc] at this
            intro h1 h2 a1 a2 i l1 l2 e1 e2
            simp only [] at l1 l2
            rw [getLive_append] at l1 l2
            by_cases c1 : h1 < s2.anns.length
            · simp only [c1, if_true] at l1
              by_cases c2 : h2 < s2.anns.length
              · simp only [c2, if_true] at l2
                exact hu2 h1 h2 a1 a2 i l1 l2 e1 e2
              · simp only [c2, if_false] at l2
                split at l2
                · cases l2
                  exact absurd e1 (hfresh i e2 h1 a1 l1)
                · cases l2
            · simp only [c1, if_false] at l1
              split at l1
              · cases l1
                by_cases c2 : h2 < s2.anns.length
                · simp only [c2, if_true] at l2
                  exact absurd e2 (hfresh i e1 h2 a2 l2)
                · simp only [c2, if_false] at l2
                  split at l2
                  · omega
                  · cases l2
              · cases l1

theorem unique_step (s : State) (op : StoreOp) (hi : Inv s) (hu : IdsUnique s) : IdsUnique (step s op).2 := by
  cases op with
  | addRes id len =>
    refine hu.of_sub (Sub.of_anns_eq ?_)
    simp only [step, State.addRes]; split <;> (try split) <;> rfl
  | addSet id =>
    refine hu.of_sub (Sub.of_anns_eq ?_)
    simp only [step, State.addSet]; split <;> (try split) <;> (try split) <;> rfl
  | addData d =>
    refine hu.of_sub (Sub.of_anns_eq ?_)
    simp only [step, State.addData]
    have := (insertData_frame s d).1
    cases hd : s.insertData d with
    | mk o s1 => rw [hd] at this; cases o <;> exact this
  | annotate id t ds => exact annotate_unique s id t ds hu
  | rmAnn r => exact hu.of_sub (rmAnn_sub s r hi)
  | rmRes id => exact hu.of_sub (rmRes_sub s id hi)
  | rmSet id => exact hu.of_sub (rmSet_sub s id hi)
  | rmData set d strict => exact hu.of_sub (rmData_sub s set d strict hi)
  | rmKey set key strict => exact hu.of_sub (rmKey_sub s set key strict hi)

theorem unique_foldl (ops : List StoreOp) : ∀ s, Inv s → IdsUnique s →
    IdsUnique (ops.foldl (fun s op => (step s op).2) s) := by
  induction ops with
  | nil => intro s _ h; exact h
  | cons op ops ih => intro s hi hu; exact ih _ (inv_step s op hi) (unique_step s op hi hu)

/-- **after every history** identifiers of annotations are unique, hence resolution is exact -/
theorem unique_run (ops : List StoreOp) : IdsUnique (run ops) :=
  unique_foldl ops _ inv_empty (by intro h1 _ a1 _ _ l1; simp [State.empty, getLive] at l1)

theorem resolve_exact_run (ops : List StoreOp) (i : String) (h : Nat) :
    (run ops).resolveAnn (.id i) = some h ↔ ∃ a, getLive (run ops).anns h = some a ∧ a.id = some i :=
  resolve_exact _ (unique_run ops) i h

/-- **identifiers stop resolving the moment the item is removed** -/
theorem removed_unresolvable (s s' : State) (h : Nat) (a : AnnM) (i : String) (hu : IdsUnique s)
    (hl : getLive s.anns h = some a) (hid : a.id = some i) (r : Removed s s' h) :
    s'.resolveAnn (.id i) = none := by
  cases hr : s'.resolveAnn (.id i) with
  | none => rfl
  | some j =>
    obtain ⟨a', ha', hp, _⟩ := findIdx_some _ _ _ hr
    have hid' : a'.id = some i := by simpa using hp
    have := hu j h a' a i (r.mono j a' ha') hl hid' hid
    subst this
    rw [r.gone] at ha'; cases ha'

/-- **never redirected**: whatever later removals do, an identifier that still resolves designates
the same handle, and the item under it kept its identifier and target -/
theorem never_redirected (s s' : State) (hu : IdsUnique s) (hs : Sub s s') (i : String) (h : Nat)
    (hr : s'.resolveAnn (.id i) = some h) : s.resolveAnn (.id i) = some h := by
  obtain ⟨a', ha', hid'⟩ := (resolve_exact s' (hu.of_sub hs) i h).1 hr
  obtain ⟨a, ha, e1, _, _⟩ := hs h a' ha'
  exact (resolve_exact s hu i h).2 ⟨a, ha, by rw [← e1]; exact hid'⟩

theorem tempSlot_live {α} (letter : Char) (slots : List (Option α)) (id : String) (h : Nat)
    (ht : tempSlot letter slots id = some h) : (getLive slots h).isSome := by
  unfold tempSlot at ht
  split at ht
  · split at ht
    · cases ht; assumption
    · cases ht
  · cases ht

/-- **temporary identifiers resolve only to a live item of the right kind**, and every successful
lookup - public or temporary - yields a live annotation -/
theorem lookup_live (s : State) (id : String) (h : Nat) (hl : s.lookupAnn id = some h) :
    (getLive s.anns h).isSome := by
  unfold State.lookupAnn at hl
  split at hl
  · rename_i h' hr; cases hl; exact resolveAnn_live s _ _ hr
  · exact tempSlot_live 'A' s.anns id h hl

/-- **an item is found by the public identifier it carries, whatever the shape of that identifier** (also when it
looks like a temporary identifier) -/
theorem public_id_wins (s : State) (id : String) (h : Nat) (hr : s.resolveAnn (.id id) = some h) :
    s.lookupAnn id = some h := by
  unfold State.lookupAnn; rw [hr]

/-- a string that no live item carries as its identifier resolves exactly as a temporary identifier: to the live
slot it names, and to nothing otherwise -/
theorem temp_exact (s : State) (id : String) (n : Nat) (hn : s.resolveAnn (.id id) = none) (ht : tempId 'A' id = some n) (h : Nat) :
    s.lookupAnn id = some h ↔ (h = n ∧ (getLive s.anns n).isSome) := by
  unfold State.lookupAnn tempSlot
  rw [hn, ht]
  simp only []
  split
  · rename_i hl; constructor
    · intro h1; cases h1; exact ⟨rfl, hl⟩
    · rintro ⟨h1, _⟩; rw [h1]
  · rename_i hl; constructor
    · intro h1; cases h1
    · rintro ⟨_, h2⟩; exact absurd h2 hl

/-- a string that is neither carried by a live item nor a temporary identifier resolves to nothing -/
theorem lookup_none (s : State) (id : String) (hn : s.resolveAnn (.id id) = none) (ht : tempId 'A' id = none) :
    s.lookupAnn id = none := by
  unfold State.lookupAnn tempSlot
  rw [hn, ht]

/-- a temporary identifier of another kind's letter is not a temporary identifier here -/
theorem temp_wrong_letter (l : Char) (rest : List Char) (hl : l ≠ 'A') :
    tempId 'A' (String.ofList ('!' :: l :: rest)) = none := by
  simp [tempId, hl]

/-- stripping removes every identifier: nothing resolves by public id afterwards -/
theorem strip_unresolvable (s : State) (i : String) : s.stripAnn.resolveAnn (.id i) = none := by
  cases hr : s.stripAnn.resolveAnn (.id i) with
  | none => rfl
  | some j =>
    obtain ⟨a, ha, hp, _⟩ := findIdx_some _ _ _ hr
    simp only [State.stripAnn, getLive, List.getElem?_map] at ha
    cases hj : s.anns[j]? with
    | none => simp [hj] at ha
    | some o =>
      cases o with
      | none => simp [hj] at ha
      | some a0 => simp [hj] at ha; subst ha; simp at hp

/-! ### Non-vacuity -/
example : (run demo).resolveAnn (.id "a1") = some 1 ∧ (run demo).resolveAnn (.id "a0") = none ∧
    (run demo).lookupAnn "!A1" = some 1 ∧ (run demo).lookupAnn "!A0" = none ∧ (run demo).lookupAnn "!R1" = none := by decide
example : tempId 'A' "!A12" = some 12 ∧ tempId 'A' "!A+3" = none ∧ tempId 'A' "!A1x" = none ∧ tempId 'A' "!Éx" = none := by decide

end Stam.C03
