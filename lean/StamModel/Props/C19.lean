import StamModel.Untrusted
/-
  C19 — Loading untrusted serialisations never panics, aborts or hangs: the temporary-identifier logic.

  The theorems are about `StamModel/Untrusted.lean`:
   * `load_lands_at_handle` — an item with temporary identifier `!A<n>` lands in slot `n` (so every reference by
     temporary identifier resolves to that item: the link to C03), or loading fails;
   * `load_increasing` / `load_slots_bounded` — slots are used in increasing order and the number of slots in use
     never exceeds the largest temporary identifier plus the number of items;
   * `load_refuses_unallocatable` — a gap the allocator refuses is an error: no allocation is attempted that was
     not granted first.
  Everything else C19 asks (no panic, no abort, no hang for arbitrary byte strings in three formats; what is
  loaded satisfies C01-C03) is established on the implementation by the `untrusted` family (mutation fuzzing in
  worker processes under an address-space limit and a time-out), which is a test: C19 is partial in that sense.
-/
namespace Stam.UT.C19
open Stam.UT

theorem load_length (canAlloc : Nat → Bool) : ∀ (items : List (Option Nat)) (slots : Nat) (land : List Nat),
    load canAlloc slots items = some land → land.length = items.length := by
  intro items
  induction items with
  | nil => intro slots land h; simp [load] at h; subst h; rfl
  | cons it rest ih =>
    intro slots land h
    cases it with
    | none =>
      simp only [load, Option.map_eq_some_iff] at h
      obtain ⟨l, hl, rfl⟩ := h
      simp [ih _ _ hl]
    | some k =>
      unfold load at h
      split at h
      · cases h
      · split at h
        · cases h
        · simp only [Option.map_eq_some_iff] at h
          obtain ⟨l, hl, rfl⟩ := h
          simp [ih _ _ hl]

/-- every landing slot is at least the number of slots there were, and landing slots increase strictly -/
theorem load_increasing (canAlloc : Nat → Bool) : ∀ (items : List (Option Nat)) (slots : Nat) (land : List Nat),
    load canAlloc slots items = some land → (∀ x ∈ land, slots ≤ x) ∧ land.Pairwise (· < ·) := by
  intro items
  induction items with
  | nil => intro slots land h; simp [load] at h; subst h; simp
  | cons it rest ih =>
    intro slots land h
    cases it with
    | none =>
      simp only [load, Option.map_eq_some_iff] at h
      obtain ⟨l, hl, rfl⟩ := h
      obtain ⟨h1, h2⟩ := ih _ _ hl
      refine ⟨?_, ?_⟩
      · intro x hx; rcases List.mem_cons.mp hx with rfl | hx
        · exact Nat.le_refl _
        · have := h1 x hx; omega
      · exact List.Pairwise.cons (fun x hx => by have := h1 x hx; omega) h2
    | some k =>
      unfold load at h
      split at h
      · cases h
      · rename_i hk
        split at h
        · cases h
        · simp only [Option.map_eq_some_iff] at h
          obtain ⟨l, hl, rfl⟩ := h
          obtain ⟨h1, h2⟩ := ih _ _ hl
          refine ⟨?_, ?_⟩
          · intro x hx; rcases List.mem_cons.mp hx with rfl | hx
            · omega
            · have := h1 x hx; omega
          · exact List.Pairwise.cons (fun x hx => by have := h1 x hx; omega) h2

/-- **C19/C03 link.** On a fresh store, an item that carries the temporary identifier of handle `h` lands in
slot `h`. -/
theorem load_lands_at_handle (canAlloc : Nat → Bool) : ∀ (items : List (Option Nat)) (slots : Nat) (land : List Nat),
    load canAlloc slots items = some land →
    ∀ (k h : Nat), items[k]? = some (some h) → land[k]? = some h := by
  intro items
  induction items with
  | nil => intro slots land _ k h hk; simp at hk
  | cons it rest ih =>
    intro slots land hl k h hk
    cases it with
    | none =>
      simp only [load, Option.map_eq_some_iff] at hl
      obtain ⟨l, hl', rfl⟩ := hl
      cases k with
      | zero => simp at hk
      | succ k => simpa using ih _ _ hl' k h (by simpa using hk)
    | some j =>
      unfold load at hl
      split at hl
      · cases hl
      · split at hl
        · cases hl
        · simp only [Option.map_eq_some_iff] at hl
          obtain ⟨l, hl', rfl⟩ := hl
          cases k with
          | zero => simp at hk; subst hk; simp
          | succ k => simpa using ih _ _ hl' k h (by simpa using hk)

/-- the slots in use are bounded by the input: every landing slot is below (largest temporary identifier) +
(number of items) + (slots there were) -/
theorem load_slots_bounded (canAlloc : Nat → Bool) : ∀ (items : List (Option Nat)) (slots : Nat) (land : List Nat) (m : Nat),
    load canAlloc slots items = some land → (∀ h, some h ∈ items → h ≤ m) →
    ∀ x ∈ land, x < max slots (m + 1) + items.length := by
  intro items
  induction items with
  | nil => intro slots land m h _ x hx; simp [load] at h; subst h; simp at hx
  | cons it rest ih =>
    intro slots land m hl hm x hx
    have hm' : ∀ h, some h ∈ rest → h ≤ m := fun h hh => hm h (List.mem_cons_of_mem _ hh)
    cases it with
    | none =>
      simp only [load, Option.map_eq_some_iff] at hl
      obtain ⟨l, hl', rfl⟩ := hl
      rcases List.mem_cons.mp hx with rfl | hx
      · simp only [List.length_cons]; omega
      · have := ih _ _ m hl' hm' x hx
        simp only [List.length_cons]; omega
    | some j =>
      have hj : j ≤ m := hm j (List.mem_cons_self ..)
      unfold load at hl
      split at hl
      · cases hl
      · split at hl
        · cases hl
        · simp only [Option.map_eq_some_iff] at hl
          obtain ⟨l, hl', rfl⟩ := hl
          rcases List.mem_cons.mp hx with rfl | hx
          · simp only [List.length_cons]; omega
          · have := ih _ _ m hl' hm' x hx
            simp only [List.length_cons]; omega

/-- **C19 (allocation).** If the allocator refuses the gap that the first temporary identifier asks for, loading
fails: nothing is allocated that was not granted. -/
theorem load_refuses_unallocatable (canAlloc : Nat → Bool) (slots h : Nat) (rest : List (Option Nat))
    (hgap : h > slots) (hno : canAlloc (h - slots) = false) : load canAlloc slots (some h :: rest) = none := by
  unfold load
  have : ¬ slots > h := by omega
  simp [this, hgap, hno]

/-- `resolve_temp_id` only answers for `!` + upper-case letter + digits -/
theorem resolveTempId_shape (s : Str) (n : Nat) (h : resolveTempId s = some n) :
    ∃ x rest, s = '!' :: x :: rest ∧ isUpperChar x = true := by
  unfold resolveTempId at h
  split at h
  · rename_i x rest
    split at h
    · exact ⟨x, rest, rfl, by assumption⟩
    · cases h
  · cases h

/-! ## non-vacuity -/
example : load (fun _ => true) 0 [none, some 3, none, some 7] = some [0, 3, 4, 7] := by decide
example : load (fun g => g < 1000) 0 [some 4000000000] = none := by decide
example : load (fun _ => true) 0 [none, none, some 1] = none := by decide
example : resolveTempId ['!', 'A', '4', '2'] = some 42 ∧ resolveTempId ['!', 'a', '1'] = none ∧ resolveTempId ['!', 'A'] = none := by decide

end Stam.UT.C19
