import StamModel.Validation
import StamModel.Gen.ModePlan
/-
  C18 — Text validation accepts unchanged text and flags changed text.

  Statement (properties.jsonl): after protecting a store, in any mode, validation reports every annotation
  that selects text as valid and none as invalid [...]. If the store is then loaded against a text in which
  the characters selected by some annotation differ, validation reports that annotation as invalid, and
  reports only annotations whose selected characters differ.

  The theorems are about `StamModel/Validation.lean`; the correspondence check (`harness/src/fam/validation.rs`)
  runs `protect`/`validateOne` of the model and `protect_text`/`validate_text` of the library on the same
  stores, modes and edits. "Across a save and reload" is the JSON round trip of C05 applied to the protected
  store: it is exercised by the correspondence check (the reloaded store must give the model's answers), the
  serialisation itself is not modelled here.

  Checksum mode can only flag a change if SHA-1 does not collide on the two texts; that is the explicit
  hypothesis `NoCollision h t t'`.
-/
namespace Stam.TV.C18
open Stam.TV

variable {H : Type} [DecidableEq H]

/-- the checksum function separates these two texts -/
def NoCollision (h : Text → H) (t t' : Text) : Prop := h t' = h t → t' = t

/-- validation information that does not contradict the text `t` -/
def Consistent (h : Text → H) (i : Info H) (t : Text) : Prop := validateOne h i t ≠ some false

theorem consistent_none (h : Text → H) (t : Text) : Consistent h Info.none t := by
  simp [Consistent, validateOne, Info.none]

/-! ## accepting unchanged text -/

theorem plan_some (m : Mode) (len : Nat) : (m.plan len).1 = true ∨ (m.plan len).2 = true := by
  cases m <;> simp [Mode.plan]
  by_cases hl : len < 40 <;> simp [hl]

theorem protectWith_valid (h : Text → H) (dc dt : Bool) (hsome : dc = true ∨ dt = true) (t : Text) (i : Info H)
    (hc : Consistent h i t) (ht : t ≠ []) :
    validateOne h (protectWith h dc dt t i) t = some true := by
  have hne : t.isEmpty = false := by cases t <;> simp_all
  obtain ⟨ic, it⟩ := i
  unfold Consistent validateOne at hc
  cases dc <;> cases dt <;> cases ic <;> cases it <;>
    simp_all [protectWith, validateOne, checksumOf]

/-- **C18a (one annotation).** Whatever the mode and whatever (consistent) information was there before,
after protection an annotation that selects a non-empty text validates. -/
theorem protect_valid (h : Text → H) (m : Mode) (len : Nat) (t : Text) (i : Info H)
    (hc : Consistent h i t) (ht : t ≠ []) :
    validateOne h (protectOne h m len t i) t = some true :=
  protectWith_valid h _ _ (plan_some m len) t i hc ht

/-- an annotation that selects no characters gets no information and is reported missing, never invalid -/
theorem protect_empty_missing (h : Text → H) (m : Mode) (len : Nat) :
    protectOne h m len [] (Info.none : Info H) = Info.none ∧ validateOne h (Info.none : Info H) [] = none := by
  unfold protectOne
  generalize (m.plan len).1 = dc
  generalize (m.plan len).2 = dt
  cases dc <;> cases dt <;> simp [protectWith, checksumOf, Info.none, validateOne]

/-- protection is idempotent -/
theorem protect_idem (h : Text → H) (m : Mode) (len : Nat) (t : Text) (i : Info H) :
    protectOne h m len t (protectOne h m len t i) = protectOne h m len t i := by
  unfold protectOne
  generalize (m.plan len).1 = dc
  generalize (m.plan len).2 = dt
  obtain ⟨ic, it⟩ := i
  cases dc <;> cases dt <;> cases ic <;> cases it <;> cases t <;>
    simp [protectWith, checksumOf]

/-- protection never discards information -/
theorem protect_keeps (h : Text → H) (m : Mode) (len : Nat) (t : Text) (i : Info H) :
    (∀ c, i.checksum = some c → (protectOne h m len t i).checksum = some c) ∧
    (∀ r, i.text = some r → (protectOne h m len t i).text = some r) := by
  obtain ⟨ic, it⟩ := i
  constructor <;> intro x hx <;> simp_all [protectOne, protectWith]

/-! ## flagging changed text -/

theorem protectWith_flag (h : Text → H) (dc dt : Bool) (hsome : dc = true ∨ dt = true) (t t' : Text)
    (ht : t ≠ []) (hcol : NoCollision h t t') (e : t' ≠ t) :
    validateOne h (protectWith h dc dt t Info.none) t' = some false := by
  have hne : t.isEmpty = false := by cases t <;> simp_all
  unfold NoCollision at hcol
  have hcs : checksumOf h t' ≠ some (h t) := by
    unfold checksumOf
    split
    · simp
    · intro hh; exact e (hcol (by simpa using hh))
  have e' : ¬ t = t' := fun x => e x.symm
  cases dc <;> cases dt <;> simp_all [protectWith, checksumOf, Info.none, validateOne]

/-- **C18b (one annotation).** Freshly protected, then validated against a text `t'`: the verdict is
"invalid" exactly when `t'` differs from the protected text, and "valid" exactly when it is the same. -/
theorem flag_iff (h : Text → H) (m : Mode) (len : Nat) (t t' : Text) (ht : t ≠ [])
    (hcol : NoCollision h t t') :
    (validateOne h (protectOne h m len t Info.none) t' = some false ↔ t' ≠ t) ∧
    (validateOne h (protectOne h m len t Info.none) t' = some true ↔ t' = t) := by
  by_cases e : t' = t
  · subst e
    have := protect_valid h m len t' Info.none (consistent_none h t') ht
    simp [this]
  · have := protectWith_flag h _ _ (plan_some m len) t t' ht hcol e
    unfold protectOne
    simp [this, e]

/-- the same for information that was already present and consistent (protect keeps it) -/
theorem unchanged_valid (h : Text → H) (m : Mode) (len : Nat) (t : Text) (i : Info H)
    (hc : Consistent h i t) (ht : t ≠ []) : validateOne h (protectOne h m len t i) t ≠ some false := by
  rw [protect_valid h m len t i hc ht]; simp

/-- protection never turns a consistent annotation invalid, selected text or not -/
theorem protect_never_invalid (h : Text → H) (m : Mode) (len : Nat) (t : Text) (i : Info H)
    (hc : Consistent h i t) : validateOne h (protectOne h m len t i) t ≠ some false := by
  by_cases ht : t = []
  · subst ht
    unfold Consistent at hc
    obtain ⟨ic, it⟩ := i
    unfold protectOne
    generalize (m.plan len).1 = dc
    generalize (m.plan len).2 = dt
    cases dc <;> cases dt <;> cases ic <;> cases it <;>
      simp_all [protectWith, checksumOf, validateOne]
  · exact unchanged_valid h m len t i hc ht

/-! ## the whole store -/

theorem foldl_add_counts (h : Text → H) (texts : List Text) (anns : List (Ann H)) (r : Result) :
    (anns.foldl (fun r a => r.add (validateOne h a.info (a.text texts))) r) =
      ⟨r.valid + anns.countP (fun a => validateOne h a.info (a.text texts) = some true),
       r.invalid + anns.countP (fun a => validateOne h a.info (a.text texts) = some false),
       r.missing + anns.countP (fun a => validateOne h a.info (a.text texts) = none)⟩ := by
  induction anns generalizing r with
  | nil => simp
  | cons a as ih =>
    rw [List.foldl_cons, ih]
    cases hv : validateOne h a.info (a.text texts) with
    | none => simp [Result.add, List.countP_cons, hv]; omega
    | some b => cases b <;> simp [Result.add, List.countP_cons, hv] <;> omega

/-- `validate_text` counts each verdict -/
theorem validateAll_counts (h : Text → H) (texts : List Text) (anns : List (Ann H)) :
    validateAll h texts anns =
      ⟨anns.countP (fun a => validateOne h a.info (a.text texts) = some true),
       anns.countP (fun a => validateOne h a.info (a.text texts) = some false),
       anns.countP (fun a => validateOne h a.info (a.text texts) = none)⟩ := by
  unfold validateAll; rw [foldl_add_counts]; simp

theorem protect_text_eq (h : Text → H) (m : Mode) (texts : List Text) (a : Ann H) :
    Ann.text texts { a with info := protectOne h m (annLen a.sels) (a.text texts) a.info } = a.text texts := rfl

/-- **C18a (store).** After `protect_text` in any mode, on a store whose annotations carry no contradicting
information, `validate_text` reports no invalid annotation, and reports as valid every annotation that
selects text. -/
theorem protect_then_validate (h : Text → H) (m : Mode) (texts : List Text) (anns : List (Ann H))
    (hc : ∀ a ∈ anns, Consistent h a.info (a.text texts)) :
    (validateAll h texts (protect h m texts anns)).invalid = 0 ∧
    (validateAll h texts (protect h m texts anns)).valid ≥ anns.countP (fun a => a.text texts ≠ []) := by
  rw [validateAll_counts]
  simp only [protect, List.countP_map]
  constructor
  · rw [List.countP_eq_zero]
    intro a ha
    have := protect_never_invalid h m (annLen a.sels) _ _ (hc a ha)
    simp only [Function.comp, protect_text_eq]
    intro hd
    exact this (of_decide_eq_true hd)
  · apply List.countP_mono_left
    intro a ha hne
    have hne' : a.text texts ≠ [] := by simpa using hne
    have := protect_valid h m (annLen a.sels) _ _ (hc a ha) hne'
    simp only [Function.comp, protect_text_eq]
    exact decide_eq_true this

/-- **C18b (store).** Protect a store (no prior information), then look at it against other texts and
re-resolved selections `anns'` (same annotations, same stored information, position by position).
The invalid annotations are exactly those that selected text and whose selected characters now differ. -/
theorem validate_after_edit (h : Text → H) (m : Mode) (texts texts' : List Text) (a a' : Ann H)
    (hinfo : a.info = Info.none)
    (hsame : a'.info = protectOne h m (annLen a.sels) (a.text texts) a.info)
    (ht : a.text texts ≠ [])
    (hcol : NoCollision h (a.text texts) (a'.text texts')) :
    (validateOne h a'.info (a'.text texts') = some false ↔ a'.text texts' ≠ a.text texts) ∧
    (validateOne h a'.info (a'.text texts') = some true ↔ a'.text texts' = a.text texts) := by
  rw [hsame, hinfo]
  exact flag_iff h m _ _ _ ht hcol

/-! ## edits away from a selection do not change its characters -/

theorem piece_other_resource (texts : List Text) (r : Nat) (t' : Text) (s : Sel) (hr : s.res ≠ r) :
    piece (texts.set r t') s = piece texts s := by
  unfold piece
  simp [List.getD_eq_getElem?_getD, List.getElem?_set, Ne.symm hr]

theorem piece_substitute_outside (texts : List Text) (r p : Nat) (c : Char) (t : Text) (s : Sel)
    (hr : texts[r]? = some t) (hout : s.res ≠ r ∨ p < s.b ∨ s.e ≤ p) :
    piece (texts.set r (substitute t p c)) s = piece texts s := by
  by_cases e : s.res = r
  · unfold piece substitute
    have hlt : r < texts.length := by
      rcases Nat.lt_or_ge r texts.length with h | h
      · exact h
      · simp [List.getElem?_eq_none h] at hr
    simp only [List.getD_eq_getElem?_getD, e, List.getElem?_set_self hlt, hr, Option.getD_some]
    apply List.ext_getElem?
    intro i
    simp only [List.getElem?_take, List.getElem?_drop, List.getElem?_set]
    split
    · have : ¬ p = s.b + i := by rcases hout with h | h | h <;> omega
      simp [this]
    · rfl
  · exact piece_other_resource texts r _ s e

theorem piece_insert_after (texts : List Text) (r p : Nat) (c : Char) (t : Text) (s : Sel)
    (hr : texts[r]? = some t) (hout : s.res ≠ r ∨ s.e ≤ p) (hwf : s.b ≤ s.e) (hin : s.e ≤ t.length) :
    piece (texts.set r (insertAt t p c)) s = piece texts s := by
  by_cases e : s.res = r
  · unfold piece insertAt
    have hlt : r < texts.length := by
      rcases Nat.lt_or_ge r texts.length with h | h
      · exact h
      · simp [List.getElem?_eq_none h] at hr
    have hp : s.e ≤ p := by
      rcases hout with h | h
      · exact absurd e h
      · exact h
    simp only [List.getD_eq_getElem?_getD, e, List.getElem?_set_self hlt, hr, Option.getD_some]
    rw [List.take_drop, List.take_drop]
    have hbe : s.b + (s.e - s.b) = s.e := by omega
    rw [hbe]
    have hle : s.e ≤ (List.take p t).length := by simp only [List.length_take]; omega
    rw [List.take_append_of_le_length hle, List.take_take]
    have : min s.e p = s.e := by omega
    rw [this]
  · exact piece_other_resource texts r _ s e

/-- deleting a character at or after the end of a selection leaves its characters alone -/
theorem piece_delete_after (texts : List Text) (r p : Nat) (t : Text) (s : Sel)
    (hr : texts[r]? = some t) (hout : s.res ≠ r ∨ s.e ≤ p) (hwf : s.b ≤ s.e) :
    piece (texts.set r (deleteAt t p)) s = piece texts s := by
  by_cases e : s.res = r
  · unfold piece deleteAt
    have hlt : r < texts.length := by
      rcases Nat.lt_or_ge r texts.length with h | h
      · exact h
      · simp [List.getElem?_eq_none h] at hr
    have hp : s.e ≤ p := by
      rcases hout with h | h
      · exact absurd e h
      · exact h
    simp only [List.getD_eq_getElem?_getD, e, List.getElem?_set_self hlt, hr, Option.getD_some]
    apply List.ext_getElem?
    intro i
    simp only [List.getElem?_take, List.getElem?_drop, List.getElem?_eraseIdx]
    split
    · have : s.b + i < p := by omega
      simp [this]
    · rfl
  · exact piece_other_resource texts r _ s e

/-- an annotation none of whose selections is touched keeps its text -/
theorem annText_congr (texts texts' : List Text) (d : Text) (sels : List Sel)
    (hs : ∀ s ∈ sels, piece texts' s = piece texts s) : annText texts' d sels = annText texts d sels := by
  unfold annText
  congr 1
  exact List.map_congr_left hs

/-! ## non-vacuity -/

/-- a store with two annotations, protected in every mode with the identity "checksum", validates; after
substituting one character the annotation over it is the only invalid one -/
example :
    let texts : List Text := ["hello world".toList]
    let anns : List (Ann Text) := [⟨[⟨0, 0, 5⟩], none, Info.none⟩, ⟨[⟨0, 6, 11⟩], none, Info.none⟩]
    let texts' : List Text := [substitute "hello world".toList 1 'a']
    (∀ m ∈ [Mode.checksum, .text, .both, .auto],
      validateAll id texts (protect id m texts anns) = ⟨2, 0, 0⟩ ∧
      validateAll id texts' (protect id m texts anns) = ⟨1, 1, 0⟩) := by decide

example : NoCollision (H := Text) id "ab".toList "ac".toList := by intro h; exact h

/-! ### tie to the source: `Stam.Gen.modePlan` is regenerated from `protect_text` (src/textvalidation.rs) on every run -/

/-- the decision the source takes (which of checksum and text to record, per mode and selected length, incl. the Auto
threshold) is the model's `Mode.plan`; an equivalent rewrite of the comparison still checks -/
theorem source_mode_plan_is_the_model (m : Stam.TV.Mode) (len : Nat) : Stam.Gen.modePlan m len = m.plan len := by
  cases m <;> simp only [Stam.Gen.modePlan, Stam.TV.Mode.plan]
  all_goals first
    | rfl
    | (split <;> split <;> first | rfl | omega)

end Stam.TV.C18
