import StamModel.Lemmas.StamqlC
/-
  C09 — printing a constraint and parsing it again gives the same constraint (the constraint layer).

  Proved here, about `StamModel/StamqlC.lean` (`Constraint::parse` / `Constraint::to_string` for ID, DATASET, SUBSTORE,
  TEXT and DATA, with qualifiers) on top of the lexical layer (Props/C09.lean):
   * `constraint_roundtrip` — for every constraint of these kinds whose identifiers can be written between quotes
     (no quote, no backslash) and do not spell something the grammar reads differently (`CnPrintable`: the
     identifier of DATASET/DATA is not `AS` or `RECURSIVE`, identifiers that the parser reads as variables, `NONE`
     and the empty identifier after SUBSTORE — exactly the known findings of C09), followed by any further text,
     `parseCn (printCn c ++ rest) = (c, rest without leading white space)`: same constraint, nothing of the rest
     consumed;
   * the hypotheses are sharp: `dataset_AS_is_misread`, `text_variable_is_misread` show constraints outside
     `CnPrintable` whose printed form parses to something else or not at all.
-/
namespace Stam.QL.C09
open Stam.QL

/-- quotable: can stand between quotes -/
def Q (s : Str) : Prop := '"' ∉ s ∧ '\\' ∉ s

/-- an unquoted value token: not empty, no quote, no delimiter, no white space -/
def PlainW (v : Str) : Prop := v ≠ [] ∧ ∀ c ∈ v, c ≠ '"' ∧ isDelim c = false ∧ isWs c = false

def CnPrintable (showI : Int → Str) (parseI : Str → Option Int) (parseF : Str → Bool) (isDt : Str → Bool) (regexOk : Str → Bool) : Cn → Prop
  | .id s => Q s
  | .dataset s _ => Q s ∧ s ≠ kAS ∧ s ≠ kRECURSIVE ∧ isVar s = false
  | .substore (some s) => Q s ∧ isVar s = false ∧ s ≠ kNONE ∧ s ≠ []
  | .substore none => True
  | .text s nocase => Q s ∧ isVar s = false ∧ (nocase = false → s ≠ kAS)
  | .regex s => Q s ∧ isVar s = false ∧ regexOk s = true
  | .dataKey set key _ => Q set ∧ Q key ∧ set ≠ kAS ∧ set ≠ kRECURSIVE ∧ startsWith set ['?'] = false
  | .keyValue set key o _ => Q set ∧ Q key ∧ set ≠ kAS ∧ set ≠ kRECURSIVE ∧ startsWith set ['?'] = false ∧
      Printable showI parseI parseF isDt o ∧ (∀ op v, printOp showI o = some (op, v, false) → PlainW v)
  | _ => False

/-! ### helpers -/

theorem nows_semicolon : isWs ';' = false := by decide
theorem nows_quote : isWs '"' = false := by decide

theorem plainW_plain {v : Str} (h : PlainW v) : Plain v := fun c hc => ⟨(h.2 c hc).1, (h.2 c hc).2.1⟩

theorem trim_printed (a rest : Str) (c0 : Char) (h0 : isWs c0 = false) (hr : NoTrailWs rest) :
    trim (c0 :: a ++ ';' :: rest) = c0 :: a ++ ';' :: rest := by
  unfold trim
  rw [show c0 :: a ++ ';' :: rest = c0 :: (a ++ ';' :: rest) from rfl, trimStart_cons_nonws _ _ h0]
  exact trimEnd_of_last _ (by
    have := noTrail_append (c0 :: a) rest ';' nows_semicolon hr
    simpa using this)

theorem finish_semicolon (c : Cn) (rest : Str) : finish c (';' :: rest) = .ok (c, trimStart rest) := rfl

theorem trimStart_quote (s : Str) : trimStart (quote s) = quote s := by
  simp [quote, trimStart, nows_quote]

theorem trimStart_quote_app (s t : Str) : trimStart (quote s ++ t) = quote s ++ t := by
  simp [quote, trimStart, nows_quote]

theorem trimStart_semi (t : Str) : trimStart (';' :: t) = ';' :: t := trimStart_cons_nonws _ _ nows_semicolon

theorem plain_kAS : Plain kAS := by unfold Plain kAS; decide
theorem plain_kMETADATA : Plain kMETADATA := by unfold Plain kMETADATA; decide
theorem plain_kNOCASE : Plain kNOCASE := by unfold Plain kNOCASE; decide
theorem plain_kREGEX : Plain kREGEX := by unfold Plain kREGEX; decide
theorem plain_kNONE : Plain kNONE := by unfold Plain kNONE; decide

/-! ### the constraints one by one -/

theorem id_roundtrip (parseI : Str → Option Int) (parseF : Str → Bool) (isDt : Str → Bool) (regexOk : Str → Bool)
    (s rest : Str) (hs : Q s) (hr : NoTrailWs rest) :
    parseCn parseI parseF isDt regexOk (kID ++ [' '] ++ quote s ++ ';' :: rest) = .ok (.id s, trimStart rest) := by
  have ht := trim_printed (['D', ' '] ++ quote s) rest 'I' (by decide) hr
  simp only [kID, List.cons_append, List.nil_append, List.append_assoc, List.singleton_append] at ht ⊢
  unfold parseCn
  simp only [ht]
  simp only [List.head?_cons, firstWord, kID, kTEXT, kDATASET, kSUBSTORE, kDATA]
  simp only [List.takeWhile_cons, isSplit]
  simp only [List.drop_succ_cons, List.drop_zero, trimStart_space]
  have := arg_quoted isDt s (';' :: rest) hs.1 hs.2
  rw [trimStart_quote_app]
  simp [this, trimStart_semi, finish_semicolon]

theorem dataset_roundtrip (parseI : Str → Option Int) (parseF : Str → Bool) (isDt : Str → Bool) (regexOk : Str → Bool)
    (s rest : Str) (q : Qual) (hs : Q s) (h1 : s ≠ kAS) (h2 : s ≠ kRECURSIVE) (h3 : isVar s = false) (hr : NoTrailWs rest) :
    parseCn parseI parseF isDt regexOk (kDATASET ++ qualStr q ++ [' '] ++ quote s ++ ';' :: rest) = .ok (.dataset s q, trimStart rest) := by
  have hq := arg_quoted isDt s (';' :: rest) hs.1 hs.2
  cases q with
  | normal =>
    have ht := trim_printed (['A', 'T', 'A', 'S', 'E', 'T', ' '] ++ quote s) rest 'D' (by decide) hr
    simp only [kDATASET, qualStr, List.cons_append, List.nil_append, List.append_assoc, List.singleton_append, List.append_nil] at ht ⊢
    unfold parseCn
    simp only [ht]
    simp only [List.head?_cons, firstWord, kID, kTEXT, kDATASET, kSUBSTORE, kDATA]
    simp only [List.takeWhile_cons, isSplit]
    simp only [List.drop_succ_cons, List.drop_zero, trimStart_space]
    rw [trimStart_quote_app]
    simp [hq, trimStart_semi, finish_semicolon, parseQualifiers, h1, h2, h3]
  | metadata =>
    have ht := trim_printed (['A', 'T', 'A', 'S', 'E', 'T', ' ', 'A', 'S', ' ', 'M', 'E', 'T', 'A', 'D', 'A', 'T', 'A', ' '] ++ quote s) rest 'D' (by decide) hr
    simp only [kDATASET, qualStr, List.cons_append, List.nil_append, List.append_assoc, List.singleton_append, List.append_nil] at ht ⊢
    unfold parseCn
    simp only [ht]
    simp only [List.head?_cons, firstWord, kID, kTEXT, kDATASET, kSUBSTORE, kDATA]
    simp only [List.takeWhile_cons, isSplit]
    simp only [List.drop_succ_cons, List.drop_zero, trimStart_space]
    have ha := arg_word isDt kAS ' ' (kMETADATA ++ ' ' :: (quote s ++ ';' :: rest)) (by decide) plain_kAS
    have hm := arg_word isDt kMETADATA ' ' (quote s ++ ';' :: rest) (by decide) plain_kMETADATA
    simp only [kAS, kMETADATA, List.cons_append, List.nil_append, trimStart_space] at ha hm
    have hA : trimStart ('A' :: 'S' :: ' ' :: 'M' :: 'E' :: 'T' :: 'A' :: 'D' :: 'A' :: 'T' :: 'A' :: ' ' :: (quote s ++ ';' :: rest))
        = 'A' :: 'S' :: ' ' :: 'M' :: 'E' :: 'T' :: 'A' :: 'D' :: 'A' :: 'T' :: 'A' :: ' ' :: (quote s ++ ';' :: rest) := trimStart_cons_nonws _ _ (by decide)
    have hM : trimStart ('M' :: 'E' :: 'T' :: 'A' :: 'D' :: 'A' :: 'T' :: 'A' :: ' ' :: (quote s ++ ';' :: rest))
        = 'M' :: 'E' :: 'T' :: 'A' :: 'D' :: 'A' :: 'T' :: 'A' :: ' ' :: (quote s ++ ';' :: rest) := trimStart_cons_nonws _ _ (by decide)
    rw [hA, ha, hM]
    simp only [parseQualifiers, kAS, kTARGET, kMETADATA, kRECURSIVE]
    simp only [↓reduceIte, hm, trimStart_quote_app, hq]
    have h2' : ¬ s = ['R', 'E', 'C', 'U', 'R', 'S', 'I', 'V', 'E'] := h2
    simp [trimStart_semi, finish_semicolon, if_neg h2', h3]

/-- after the keyword: the optional ` AS METADATA`, then the quoted identifier — what `get_arg` + `parse_qualifiers` make of it -/
theorem qual_prefix (isDt : Str → Bool) (q : Qual) (s tail : Str) (hs : Q s) (h1 : s ≠ kAS) (h2 : s ≠ kRECURSIVE) :
    ∃ a r ty, arg isDt (trimStart (qualStr q ++ ' ' :: (quote s ++ tail))) = .ok (a, r, ty) ∧
      parseQualifiers isDt a r = .ok (s, trimStart tail, q, false) := by
  have hq := arg_quoted isDt s tail hs.1 hs.2
  have h2' : ¬ s = ['R', 'E', 'C', 'U', 'R', 'S', 'I', 'V', 'E'] := h2
  cases q with
  | normal =>
    refine ⟨s, trimStart tail, argType isDt s true, ?_, ?_⟩
    · simp only [qualStr, List.nil_append, trimStart_space, trimStart_quote_app]; exact hq
    · simp [parseQualifiers, h1, h2]
  | metadata =>
    have ha := arg_word isDt kAS ' ' (kMETADATA ++ ' ' :: (quote s ++ tail)) (by decide) plain_kAS
    have hm := arg_word isDt kMETADATA ' ' (quote s ++ tail) (by decide) plain_kMETADATA
    simp only [kAS, kMETADATA, List.cons_append, List.nil_append, trimStart_space] at ha hm
    have hM : trimStart ('M' :: 'E' :: 'T' :: 'A' :: 'D' :: 'A' :: 'T' :: 'A' :: ' ' :: (quote s ++ tail))
        = 'M' :: 'E' :: 'T' :: 'A' :: 'D' :: 'A' :: 'T' :: 'A' :: ' ' :: (quote s ++ tail) := trimStart_cons_nonws _ _ (by decide)
    refine ⟨kAS, trimStart ('M' :: 'E' :: 'T' :: 'A' :: 'D' :: 'A' :: 'T' :: 'A' :: ' ' :: (quote s ++ tail)), argType isDt ['A', 'S'] false, ?_, ?_⟩
    · simp only [qualStr, List.cons_append, List.nil_append, trimStart_space]
      rw [trimStart_cons_nonws _ _ (by decide)]
      exact ha
    · rw [hM]
      unfold parseQualifiers
      rw [if_pos rfl, hm]
      simp only []
      have hcond : (['M', 'E', 'T', 'A', 'D', 'A', 'T', 'A'] : Str) = kTARGET ∨ (['M', 'E', 'T', 'A', 'D', 'A', 'T', 'A'] : Str) = kMETADATA := Or.inr rfl
      rw [if_pos hcond, trimStart_quote_app, hq]
      simp only []
      rw [if_neg h2]

theorem dataKey_roundtrip (parseI : Str → Option Int) (parseF : Str → Bool) (isDt : Str → Bool) (regexOk : Str → Bool)
    (set key rest : Str) (q : Qual) (hs : Q set) (hk : Q key) (h1 : set ≠ kAS) (h2 : set ≠ kRECURSIVE)
    (h3 : startsWith set ['?'] = false) (hr : NoTrailWs rest) :
    parseCn parseI parseF isDt regexOk (kDATA ++ qualStr q ++ [' '] ++ quote set ++ [' '] ++ quote key ++ ';' :: rest)
      = .ok (.dataKey set key q, trimStart rest) := by
  obtain ⟨a, r, ty, hA, hP⟩ := qual_prefix isDt q set (' ' :: (quote key ++ ';' :: rest)) hs h1 h2
  have hkq := arg_quoted isDt key (';' :: rest) hk.1 hk.2
  have ht := trim_printed (['A', 'T', 'A'] ++ qualStr q ++ [' '] ++ quote set ++ [' '] ++ quote key) rest 'D' (by decide) hr
  simp only [kDATA, List.cons_append, List.nil_append, List.append_assoc, List.singleton_append] at ht ⊢
  unfold parseCn
  simp only [ht]
  have hw : firstWord ('D' :: 'A' :: 'T' :: 'A' :: (qualStr q ++ ' ' :: (quote set ++ ' ' :: (quote key ++ ';' :: rest)))) = kDATA := by
    cases q <;> simp [firstWord, qualStr, isSplit, kDATA]
  simp only [List.head?_cons, hw]
  simp only [kID, kTEXT, kDATASET, kSUBSTORE, kDATA]
  simp only [List.drop_succ_cons, List.drop_zero]
  simp (config := { decide := true }) only [↓reduceIte, List.cons.injEq, and_false, and_true, reduceCtorEq, Option.some.injEq]
  rw [hA]
  simp only [hP, h3, Bool.false_eq_true, ↓reduceIte, trimStart_space, trimStart_quote_app, hkq, trimStart_semi]
  simp [closed, startsWith, finish_semicolon]

/-! ### DATA with an operator -/

def IsTok (op : Str) : Prop :=
  op = ['='] ∨ op = ['!', '='] ∨ op = ['>'] ∨ op = ['>', '='] ∨ op = ['<'] ∨ op = ['<', '=']

theorem printOp_tok (showI : Int → Str) (o : Op) (op v : Str) (qd : Bool) (h : printOp showI o = some (op, v, qd)) : IsTok op := by
  cases o with
  | not o' => cases o' <;> simp [printOp] at h <;> (obtain ⟨rfl, _, _⟩ := h; simp [IsTok])
  | or os => simp [printOp] at h
  | _ => simp [printOp] at h <;> (obtain ⟨rfl, _, _⟩ := h; simp [IsTok])

theorem tok_facts (op : Str) (h : IsTok op) (x : Str) :
    Plain op ∧ trimStart (op ++ x) = op ++ x ∧ closed (op ++ x) = false := by
  rcases h with rfl | rfl | rfl | rfl | rfl | rfl <;>
    refine ⟨by unfold Plain; decide, by simp [trimStart, isWs], by simp [closed, startsWith, List.isPrefixOf]⟩

theorem keyValue_core (parseI : Str → Option Int) (parseF : Str → Bool) (isDt : Str → Bool) (regexOk : Str → Bool)
    (set key rest : Str) (q : Qual) (o : Op) (op v V : Str) (ty : ArgType)
    (hs : Q set) (hk : Q key) (h1 : set ≠ kAS) (h2 : set ≠ kRECURSIVE) (h3 : startsWith set ['?'] = false)
    (htok : IsTok op) (hpo : parseOp parseI parseF isDt op v ty = .ok o)
    (hval : arg isDt (trimStart (V ++ ';' :: rest)) = .ok (v, ';' :: rest, ty)) (hr : NoTrailWs rest) :
    parseCn parseI parseF isDt regexOk
      (kDATA ++ qualStr q ++ [' '] ++ quote set ++ [' '] ++ quote key ++ [' '] ++ (op ++ [' '] ++ V) ++ ';' :: rest)
      = .ok (.keyValue set key o q, trimStart rest) := by
  obtain ⟨hplain, htrim, hclosed⟩ := tok_facts op htok (' ' :: (V ++ ';' :: rest))
  obtain ⟨a, r, ty', hA, hP⟩ := qual_prefix isDt q set (' ' :: (quote key ++ ' ' :: (op ++ ' ' :: (V ++ ';' :: rest)))) hs h1 h2
  have hkq := arg_quoted isDt key (' ' :: (op ++ ' ' :: (V ++ ';' :: rest))) hk.1 hk.2
  have hop := arg_word isDt op ' ' (V ++ ';' :: rest) (by decide) hplain
  have ht := trim_printed (['A', 'T', 'A'] ++ qualStr q ++ [' '] ++ quote set ++ [' '] ++ quote key ++ [' '] ++ (op ++ [' '] ++ V)) rest 'D' (by decide) hr
  simp only [kDATA, List.cons_append, List.nil_append, List.append_assoc, List.singleton_append] at ht ⊢
  unfold parseCn
  simp only [ht]
  have hw : firstWord ('D' :: 'A' :: 'T' :: 'A' :: (qualStr q ++ ' ' :: (quote set ++ ' ' :: (quote key ++ ' ' :: (op ++ ' ' :: (V ++ ';' :: rest)))))) = kDATA := by
    cases q <;> simp [firstWord, qualStr, isSplit, kDATA]
  simp only [List.head?_cons, hw]
  simp only [kID, kTEXT, kDATASET, kSUBSTORE, kDATA]
  simp only [List.drop_succ_cons, List.drop_zero]
  simp (config := { decide := true }) only [↓reduceIte, List.cons.injEq, and_false, and_true, reduceCtorEq, Option.some.injEq]
  rw [hA]
  simp only [hP, h3, Bool.false_eq_true, ↓reduceIte, trimStart_space, trimStart_quote_app, hkq, htrim, hclosed]
  simp only [opValue, hop, trimStart_space, hval, hpo, finish_semicolon]

theorem keyValue_roundtrip (showI : Int → Str) (parseI : Str → Option Int) (parseF : Str → Bool) (isDt : Str → Bool) (regexOk : Str → Bool)
    (set key rest : Str) (q : Qual) (o : Op) (op v : Str) (qd : Bool)
    (hs : Q set) (hk : Q key) (h1 : set ≠ kAS) (h2 : set ≠ kRECURSIVE) (h3 : startsWith set ['?'] = false)
    (hpr : printOp showI o = some (op, v, qd)) (hpo : parseOp parseI parseF isDt op v (argType isDt v qd) = .ok o)
    (hv : if qd then Q v else PlainW v) (hr : NoTrailWs rest) :
    parseCn parseI parseF isDt regexOk
      (kDATA ++ qualStr q ++ [' '] ++ quote set ++ [' '] ++ quote key ++ [' '] ++ (op ++ [' '] ++ (if qd then quote v else v)) ++ ';' :: rest)
      = .ok (.keyValue set key o q, trimStart rest) := by
  have htok := printOp_tok showI o op v qd hpr
  cases qd with
  | true =>
    simp only [↓reduceIte] at hv ⊢
    refine keyValue_core parseI parseF isDt regexOk set key rest q o op v (quote v) _ hs hk h1 h2 h3 htok hpo ?_ hr
    rw [trimStart_quote_app, arg_quoted isDt v (';' :: rest) hv.1 hv.2, trimStart_semi]
  | false =>
    simp only [Bool.false_eq_true, ↓reduceIte] at hv ⊢
    refine keyValue_core parseI parseF isDt regexOk set key rest q o op v v _ hs hk h1 h2 h3 htok hpo ?_ hr
    obtain ⟨c, cs, rfl⟩ : ∃ c cs, v = c :: cs := by
      cases v with
      | nil => exact absurd rfl hv.1
      | cons c cs => exact ⟨c, cs, rfl⟩
    have hc := hv.2 c (by simp)
    rw [show (c :: cs) ++ ';' :: rest = c :: (cs ++ ';' :: rest) from rfl, trimStart_cons_nonws _ _ hc.2.2]
    have := arg_word isDt (c :: cs) ';' rest (by decide) (plainW_plain hv)
    rw [show c :: (cs ++ ';' :: rest) = (c :: cs) ++ ';' :: rest from rfl, this, trimStart_semi]

/-! ### SUBSTORE, TEXT -/

theorem substore_some_roundtrip (parseI : Str → Option Int) (parseF : Str → Bool) (isDt : Str → Bool) (regexOk : Str → Bool)
    (s rest : Str) (hs : Q s) (h1 : isVar s = false) (h2 : s ≠ kNONE) (h3 : s ≠ []) (hr : NoTrailWs rest) :
    parseCn parseI parseF isDt regexOk (kSUBSTORE ++ [' '] ++ quote s ++ ';' :: rest) = .ok (.substore (some s), trimStart rest) := by
  have hq := arg_quoted isDt s (';' :: rest) hs.1 hs.2
  have ht := trim_printed (['U', 'B', 'S', 'T', 'O', 'R', 'E', ' '] ++ quote s) rest 'S' (by decide) hr
  simp only [kSUBSTORE, List.cons_append, List.nil_append, List.append_assoc, List.singleton_append] at ht ⊢
  unfold parseCn
  simp only [ht]
  simp only [List.head?_cons, firstWord, kID, kTEXT, kDATASET, kSUBSTORE, kDATA]
  simp only [List.takeWhile_cons, isSplit]
  simp only [List.drop_succ_cons, List.drop_zero, trimStart_space]
  rw [trimStart_quote_app]
  have h2' : ¬ s = ['N', 'O', 'N', 'E'] := h2
  simp [hq, trimStart_semi, finish_semicolon, h1, kNONE, h2', h3]

theorem substore_none_roundtrip (parseI : Str → Option Int) (parseF : Str → Bool) (isDt : Str → Bool) (regexOk : Str → Bool)
    (rest : Str) (hr : NoTrailWs rest) :
    parseCn parseI parseF isDt regexOk (kSUBSTORE ++ [' '] ++ kNONE ++ ';' :: rest) = .ok (.substore none, trimStart rest) := by
  have hw := arg_word isDt kNONE ';' rest (by decide) plain_kNONE
  have ht := trim_printed (['U', 'B', 'S', 'T', 'O', 'R', 'E', ' '] ++ kNONE) rest 'S' (by decide) hr
  simp only [kSUBSTORE, kNONE, List.cons_append, List.nil_append, List.append_assoc, List.singleton_append] at ht hw ⊢
  unfold parseCn
  simp only [ht]
  simp only [List.head?_cons, firstWord, kID, kTEXT, kDATASET, kSUBSTORE, kDATA]
  simp only [List.takeWhile_cons, isSplit]
  simp only [List.drop_succ_cons, List.drop_zero, trimStart_space]
  rw [trimStart_cons_nonws 'N' _ (by decide), hw]
  simp [trimStart_semi, finish_semicolon, isVar, kNONE]

theorem text_roundtrip (parseI : Str → Option Int) (parseF : Str → Bool) (isDt : Str → Bool) (regexOk : Str → Bool)
    (s rest : Str) (hs : Q s) (h1 : isVar s = false) (h2 : s ≠ kAS) (hr : NoTrailWs rest) :
    parseCn parseI parseF isDt regexOk (kTEXT ++ [' '] ++ quote s ++ ';' :: rest) = .ok (.text s false, trimStart rest) := by
  have hq := arg_quoted isDt s (';' :: rest) hs.1 hs.2
  have ht := trim_printed (['E', 'X', 'T', ' '] ++ quote s) rest 'T' (by decide) hr
  simp only [kTEXT, List.cons_append, List.nil_append, List.append_assoc, List.singleton_append] at ht ⊢
  unfold parseCn
  simp only [ht]
  simp only [List.head?_cons, firstWord, kID, kTEXT, kDATASET, kSUBSTORE, kDATA]
  simp only [List.takeWhile_cons, isSplit]
  simp only [List.drop_succ_cons, List.drop_zero, trimStart_space]
  rw [trimStart_quote_app]
  simp [hq, trimStart_semi, finish_semicolon, parseTextQualifiers, h1, h2]

/-- `TEXT AS <NOCASE|REGEX> "s";` -/
theorem text_as_prefix (isDt : Str → Bool) (kw : Str) (hk : Plain kw) (c0 : Char) (kt : Str) (hkw : kw = c0 :: kt) (h0 : isWs c0 = false)
    (s tail : Str) (hs : Q s) :
    ∃ r ty, arg isDt (kAS ++ ' ' :: (kw ++ ' ' :: (quote s ++ tail))) = .ok (kAS, r, ty) ∧
      arg isDt r = .ok (kw, quote s ++ tail, argType isDt kw false) ∧
      arg isDt (quote s ++ tail) = .ok (s, trimStart tail, argType isDt s true) := by
  have ha := arg_word isDt kAS ' ' (kw ++ ' ' :: (quote s ++ tail)) (by decide) plain_kAS
  have hm := arg_word isDt kw ' ' (quote s ++ tail) (by decide) hk
  refine ⟨_, _, ha, ?_, arg_quoted isDt s tail hs.1 hs.2⟩
  rw [trimStart_space, hkw, show (c0 :: kt) ++ ' ' :: (quote s ++ tail) = c0 :: (kt ++ ' ' :: (quote s ++ tail)) from rfl,
    trimStart_cons_nonws _ _ h0]
  rw [show c0 :: (kt ++ ' ' :: (quote s ++ tail)) = kw ++ ' ' :: (quote s ++ tail) by rw [hkw]; rfl, hm, trimStart_space, trimStart_quote_app]
  rw [hkw]

theorem text_nocase_roundtrip (parseI : Str → Option Int) (parseF : Str → Bool) (isDt : Str → Bool) (regexOk : Str → Bool)
    (s rest : Str) (hs : Q s) (h1 : isVar s = false) (hr : NoTrailWs rest) :
    parseCn parseI parseF isDt regexOk (kTEXT ++ [' ', 'A', 'S', ' '] ++ kNOCASE ++ [' '] ++ quote s ++ ';' :: rest) = .ok (.text s true, trimStart rest) := by
  obtain ⟨r, ty, hA, hK, hS⟩ := text_as_prefix isDt kNOCASE plain_kNOCASE 'N' ['O', 'C', 'A', 'S', 'E'] rfl (by decide) s (';' :: rest) hs
  have ht := trim_printed (['E', 'X', 'T', ' ', 'A', 'S', ' '] ++ kNOCASE ++ [' '] ++ quote s) rest 'T' (by decide) hr
  simp only [kTEXT, List.cons_append, List.nil_append, List.append_assoc, List.singleton_append] at ht ⊢
  unfold parseCn
  simp only [ht]
  have hw : firstWord ('T' :: 'E' :: 'X' :: 'T' :: ' ' :: 'A' :: 'S' :: ' ' :: (kNOCASE ++ ' ' :: (quote s ++ ';' :: rest))) = kTEXT := by
    simp [firstWord, isSplit, kTEXT]
  simp only [List.head?_cons, hw]
  simp only [kID, kTEXT]
  simp only [List.drop_succ_cons, List.drop_zero, trimStart_space]
  simp (config := { decide := true }) only [↓reduceIte, List.cons.injEq, and_false, and_true, reduceCtorEq, Option.some.injEq]
  rw [trimStart_cons_nonws 'A' _ (by decide)]
  simp only [kAS, List.cons_append, List.nil_append] at hA
  rw [hA]
  simp only [parseTextQualifiers, ↓reduceIte, hK]
  have hc1 : ¬ (kNOCASE = kREGEX ∨ kNOCASE = kREGEXP) := by decide
  have hc0 : (['A', 'S'] : Str) = kAS := rfl
  simp only [if_neg hc1, ↓reduceIte, hS, trimStart_semi]
  rw [if_pos hc0]
  simp only [h1, Bool.false_eq_true, ↓reduceIte, finish_semicolon]

theorem regex_roundtrip (parseI : Str → Option Int) (parseF : Str → Bool) (isDt : Str → Bool) (regexOk : Str → Bool)
    (s rest : Str) (hs : Q s) (h1 : isVar s = false) (h2 : regexOk s = true) (hr : NoTrailWs rest) :
    parseCn parseI parseF isDt regexOk (kTEXT ++ [' ', 'A', 'S', ' '] ++ kREGEX ++ [' '] ++ quote s ++ ';' :: rest) = .ok (.regex s, trimStart rest) := by
  obtain ⟨r, ty, hA, hK, hS⟩ := text_as_prefix isDt kREGEX plain_kREGEX 'R' ['E', 'G', 'E', 'X'] rfl (by decide) s (';' :: rest) hs
  have ht := trim_printed (['E', 'X', 'T', ' ', 'A', 'S', ' '] ++ kREGEX ++ [' '] ++ quote s) rest 'T' (by decide) hr
  simp only [kTEXT, List.cons_append, List.nil_append, List.append_assoc, List.singleton_append] at ht ⊢
  unfold parseCn
  simp only [ht]
  have hw : firstWord ('T' :: 'E' :: 'X' :: 'T' :: ' ' :: 'A' :: 'S' :: ' ' :: (kREGEX ++ ' ' :: (quote s ++ ';' :: rest))) = kTEXT := by
    simp [firstWord, isSplit, kTEXT]
  simp only [List.head?_cons, hw]
  simp only [kID, kTEXT]
  simp only [List.drop_succ_cons, List.drop_zero, trimStart_space]
  simp (config := { decide := true }) only [↓reduceIte, List.cons.injEq, and_false, and_true, reduceCtorEq, Option.some.injEq]
  rw [trimStart_cons_nonws 'A' _ (by decide)]
  simp only [kAS, List.cons_append, List.nil_append] at hA
  rw [hA]
  simp only [parseTextQualifiers, ↓reduceIte, hK]
  have hc1 : kREGEX = kREGEX ∨ kREGEX = kREGEXP := Or.inl rfl
  have hc0 : (['A', 'S'] : Str) = kAS := rfl
  simp only [hS, trimStart_semi]
  rw [if_pos hc0]
  simp [h1, h2, finish_semicolon]

/-! ### all of them -/

theorem quoted_value_Q (showI : Int → Str) (parseI : Str → Option Int) (parseF : Str → Bool) (isDt : Str → Bool)
    (o : Op) (op v : Str) (h : printOp showI o = some (op, v, true)) (hp : Printable showI parseI parseF isDt o) : Q v := by
  cases o with
  | eq s => simp [printOp] at h; obtain ⟨_, rfl⟩ := h; exact ⟨hp.1, hp.2.1⟩
  | not o' =>
    cases o' with
    | eq s => simp [printOp] at h; obtain ⟨_, rfl⟩ := h; exact ⟨hp.1, hp.2.1⟩
    | _ => simp [printOp] at h
  | _ => simp [printOp] at h

/-- **C09 (constraint fixpoint).** A printable constraint of the modelled kinds, printed by `to_string` and followed by
anything that does not end in white space, is parsed back as the same constraint, and the parser stops exactly where
the printed text ends. -/
theorem constraint_roundtrip (showI : Int → Str) (parseI : Str → Option Int) (parseF : Str → Bool) (isDt : Str → Bool)
    (regexOk : Str → Bool) (c : Cn) (txt rest : Str)
    (hp : CnPrintable showI parseI parseF isDt regexOk c) (hprint : printCn showI c = some txt) (hr : NoTrailWs rest) :
    parseCn parseI parseF isDt regexOk (txt ++ rest) = .ok (c, trimStart rest) := by
  cases c with
  | id s =>
    simp only [printCn, Option.some.injEq] at hprint; subst hprint
    have := id_roundtrip parseI parseF isDt regexOk s rest hp hr
    simpa [List.append_assoc] using this
  | dataset s q =>
    simp only [printCn, Option.some.injEq] at hprint; subst hprint
    have := dataset_roundtrip parseI parseF isDt regexOk s rest q hp.1 hp.2.1 hp.2.2.1 hp.2.2.2 hr
    simpa [List.append_assoc] using this
  | substore s =>
    cases s with
    | none =>
      simp only [printCn, Option.some.injEq] at hprint; subst hprint
      have := substore_none_roundtrip parseI parseF isDt regexOk rest hr
      simpa [List.append_assoc] using this
    | some s =>
      simp only [printCn, Option.some.injEq] at hprint; subst hprint
      have := substore_some_roundtrip parseI parseF isDt regexOk s rest hp.1 hp.2.1 hp.2.2.1 hp.2.2.2 hr
      simpa [List.append_assoc] using this
  | text s nocase =>
    cases nocase with
    | false =>
      simp only [printCn, Option.some.injEq] at hprint; subst hprint
      have := text_roundtrip parseI parseF isDt regexOk s rest hp.1 hp.2.1 (hp.2.2 rfl) hr
      simpa [List.append_assoc] using this
    | true =>
      simp only [printCn, Option.some.injEq] at hprint; subst hprint
      have := text_nocase_roundtrip parseI parseF isDt regexOk s rest hp.1 hp.2.1 hr
      simpa [List.append_assoc] using this
  | regex s =>
    simp only [printCn, Option.some.injEq] at hprint; subst hprint
    have := regex_roundtrip parseI parseF isDt regexOk s rest hp.1 hp.2.1 hp.2.2 hr
    simpa [List.append_assoc] using this
  | dataKey set key q =>
    simp only [printCn, Option.some.injEq] at hprint; subst hprint
    have := dataKey_roundtrip parseI parseF isDt regexOk set key rest q hp.1 hp.2.1 hp.2.2.1 hp.2.2.2.1 hp.2.2.2.2 hr
    simpa [List.append_assoc] using this
  | keyValue set key o q =>
    obtain ⟨hs, hk, h1, h2, h3, hpo, hpl⟩ := hp
    obtain ⟨op, v, qd, hpr, hparse⟩ := print_parse_op showI parseI parseF isDt o hpo
    have hv : if qd then Q v else PlainW v := by
      cases qd with
      | true => simpa using quoted_value_Q showI parseI parseF isDt o op v hpr hpo
      | false => simpa using hpl op v hpr
    simp only [printCn, renderOp, hpr, Option.map_some, Option.some.injEq] at hprint; subst hprint
    have := keyValue_roundtrip showI parseI parseF isDt regexOk set key rest q o op v qd hs hk h1 h2 h3 hpr hparse hv hr
    cases qd <;> simpa [List.append_assoc, quote] using this
  | datasetVar v q => exact absurd hp (by simp [CnPrintable])
  | substoreVar v => exact absurd hp (by simp [CnPrintable])
  | textVar v => exact absurd hp (by simp [CnPrintable])
  | dataVar v q => exact absurd hp (by simp [CnPrintable])
  | keyValueVar v o q => exact absurd hp (by simp [CnPrintable])
  | annotation s q r off => exact absurd hp (by simp [CnPrintable])
  | annotationVar v q r off => exact absurd hp (by simp [CnPrintable])
  | resource s q off => exact absurd hp (by simp [CnPrintable])
  | resourceVar v q off => exact absurd hp (by simp [CnPrintable])
  | relation v op => exact absurd hp (by simp [CnPrintable])
  | value o q => exact absurd hp (by simp [CnPrintable])
  | keyVar v q => exact absurd hp (by simp [CnPrintable])
  | limit b e => exact absurd hp (by simp [CnPrintable])

/-! ### the hypotheses are needed: identifiers the grammar reads differently (the known findings of C09) -/

/-- `Constraint::DataSet("AS")` is printed as `DATASET "AS";` — and refused by the parser (it reads a qualifier) -/
theorem dataset_AS_is_misread :
    (match parseCn (fun _ => none) (fun _ => false) (fun _ => false) (fun _ => true) ("DATASET \"AS\";").toList with
      | .err _ => true
      | _ => false) = true := by decide

/-- `Constraint::Text("?x")` is printed as `TEXT "?x";` — and read back as the variable `x` -/
theorem text_variable_is_misread :
    (match parseCn (fun _ => none) (fun _ => false) (fun _ => false) (fun _ => true) ("TEXT \"?x\";").toList with
      | .ok (.textVar v, r) => v == ['x'] && r == []
      | _ => false) = true := by decide

/-! ### non-vacuity -/

example : CnPrintable (fun _ => ['7']) (fun _ => some 7) (fun _ => false) (fun _ => false) (fun _ => true)
    (.keyValue ['s'] ['k'] (.gt 7) .metadata) := by
  refine ⟨⟨by decide, by decide⟩, ⟨by decide, by decide⟩, by decide, by decide, by decide, ⟨⟨['7'], by decide, by decide, Or.inl rfl⟩, rfl⟩, ?_⟩
  intro op v h
  simp [printOp] at h
  obtain ⟨_, rfl⟩ := h
  exact ⟨by decide, by decide⟩

example : (match parseCn (fun _ => some 7) (fun _ => false) (fun _ => false) (fun _ => true)
    ("DATA AS METADATA \"s\" \"k\" > 7; ID \"x\";").toList with
    | .ok (.keyValue set key (.gt n) .metadata, r) => set == ['s'] && key == ['k'] && n == 7 && r == ("ID \"x\";").toList
    | _ => false) = true := by decide

end Stam.QL.C09
