import StamModel.Props.C09QueryMore
import StamModel.StamqlA
/-
  C09 — printing an ADD or DELETE query and parsing it again gives the same query (StamqlA.lean: `Assignment::to_string`,
  `Query::to_string` on mutating queries; `parse_add`, `parse_delete`, `Assignment::parse`).
-/
namespace Stam.QL.C09M
open Stam.QL Stam.QL.C09 Stam.QL.C09Q

/-- a float literal the lexer types as a float, the float parser accepts, and that can stand after a key -/
def FloatOk (E : Ext) (l : Str) : Prop :=
  Plain l ∧ (∃ h r, l = h :: r ∧ isWs h = false ∧ h ≠ ';' ∧ h ≠ ']' ∧ h ≠ 'O') ∧
  argType E.isDt l false = .float ∧ E.parseF l = true

/-- the values of a DATA assignment that survive printing: strings without quote, backslash and list separator; integers
written by a printer whose output is an integer literal that the integer parser reads back; float literals -/
def AValOk (showI : Int → Str) (E : Ext) : AVal → Prop
  | .null => True
  | .bool _ => True
  | .str s => '"' ∉ s ∧ '\\' ∉ s ∧ '|' ∉ s
  | .int z => IntLit (showI z) ∧ E.parseI (showI z) = some z
  | .float l => FloatOk E l

/-- the assignments that survive printing -/
def AsgOk (showI : Int → Str) (E : Ext) : Asg → Prop
  | .id s => C09.Q s
  | .data set key v => C09.Q set ∧ C09.Q key ∧ AValOk showI E v
  | .target name off => NameOk name ∧
      ∀ b e, off = some (b, e) → CursorOk showI E.parseI E.parseNat b ∧ CursorOk showI E.parseI E.parseNat e
  | .complex _ => True

theorem word_kID : Word kID := by unfold Word kID; decide
theorem word_kDATA : Word kDATA := by unfold Word kDATA; decide
theorem word_kTARGET : Word kTARGET := by unfold Word kTARGET; decide
theorem word_kw (k : CKind) : Word k.kw := by cases k <;> (unfold Word CKind.kw; decide)
theorem word_kANNOTATION : Word kANNOTATION := by unfold Word kANNOTATION; decide
theorem word_kWITH : Word kWITH := by unfold Word kWITH; decide
theorem word_kADD : Word kADD := by unfold Word kADD; decide
theorem word_kDELETE : Word kDELETE := by unfold Word kDELETE; decide

theorem intLit_plain (s : Str) (h : IntLit s) : Plain s := by
  obtain ⟨ds, _, hd, hs⟩ := h
  have hdig : ∀ c : Char, c.isDigit = true → c ≠ '"' ∧ isDelim c = false := by
    intro c hc
    have h1 : 48 ≤ c.toNat ∧ c.toNat ≤ 57 := by
      simp only [Char.isDigit, Bool.and_eq_true, decide_eq_true_eq] at hc
      constructor
      · have := hc.1; exact this
      · have := hc.2; exact this
    refine ⟨?_, ?_⟩
    · intro e; subst e; simp at h1
    · simp only [isDelim, decide_eq_false_iff_not, not_or]
      refine ⟨?_, ?_, ?_, ?_, ?_⟩ <;> (intro e; subst e; simp at h1)
  intro c hc
  rcases hs with rfl | rfl
  · exact hdig c (hd c hc)
  · rcases List.mem_cons.mp hc with rfl | hc
    · decide
    · exact hdig c (hd c hc)

theorem intLit_head (s : Str) (h : IntLit s) : ∃ c r, s = c :: r ∧ isWs c = false ∧ c ≠ ';' ∧ c ≠ ']' ∧ c ≠ 'O' := by
  obtain ⟨ds, hne, hd, hs⟩ := h
  have hdig : ∀ c : Char, c.isDigit = true → isWs c = false ∧ c ≠ ';' ∧ c ≠ ']' ∧ c ≠ 'O' := by
    intro c hc
    have h1 : 48 ≤ c.toNat ∧ c.toNat ≤ 57 := by
      simp only [Char.isDigit, Bool.and_eq_true, decide_eq_true_eq] at hc
      exact ⟨hc.1, hc.2⟩
    refine ⟨?_, ?_, ?_, ?_⟩
    · simp only [isWs, decide_eq_false_iff_not]; omega
    all_goals (intro e; subst e; simp at h1)
  rcases hs with hs | hs
  · subst hs
    cases s with
    | nil => exact absurd rfl hne
    | cons c r => exact ⟨c, r, rfl, hdig c (hd c (by simp))⟩
  · exact ⟨'-', ds, hs, by decide, by decide, by decide, by decide⟩

/-! ### one assignment -/

theorem parseAsg_of_core (E : Ext) (q : Str) (a : Asg) (rest : Str) (h : parseAsgCore E q = .ok (a, ';' :: rest)) :
    parseAsg E q = .ok (a, trimStart rest) := by
  unfold parseAsg; rw [h]; rfl

theorem drop_kw (w y : Str) : (w ++ y).drop w.length = y := drop_append_self w y

theorem id_core (E : Ext) (s rest : Str) (hs : C09.Q s) :
    parseAsgCore E (kID ++ ' ' :: quote s ++ ';' :: rest) = .ok (.id s, ';' :: rest) := by
  have hw : firstWord (kID ++ ' ' :: quote s ++ ';' :: rest) = kID := by
    rw [show kID ++ ' ' :: quote s ++ ';' :: rest = kID ++ (' ' :: (quote s ++ ';' :: rest)) by simp]
    exact firstWord_append _ _ word_kID (splitStart_space _)
  have hd : (kID ++ ' ' :: quote s ++ ';' :: rest).drop 2 = ' ' :: (quote s ++ ';' :: rest) := by
    simp [kID]
  unfold parseAsgCore
  simp only [hw, ↓reduceIte, hd, trimStart_space, trimStart_quote_app]
  rw [arg_quoted E.isDt s (';' :: rest) hs.1 hs.2, trimStart_semi]

theorem complex_core (E : Ext) (k : CKind) (rest : Str) :
    parseAsgCore E (k.kw ++ ' ' :: ';' :: rest) = .ok (.complex k, ';' :: rest) := by
  have hw : firstWord (k.kw ++ ' ' :: ';' :: rest) = k.kw := firstWord_append _ _ (word_kw k) (splitStart_space _)
  unfold parseAsgCore
  simp only [hw]
  cases k <;>
    simp (config := { decide := true }) [CKind.kw, kID, kDATA, kTARGET, kCOMPOSITE, kMULTI, kDIRECTIONAL, trimStart_space, trimStart_semi]

theorem trimEndSemis_semi (n : Str) (h : n.getLast? ≠ some ';') : trimEndSemis (n ++ [';']) = n := by
  have := trimEndSemis_id n h
  unfold trimEndSemis at this ⊢
  simpa using this

theorem word_name_semi (n : Str) (h : NameOk n) : Word (n ++ [';']) := by
  intro x hx
  rcases List.mem_append.mp hx with hx | hx
  · exact nameOk_word n h x hx
  · simp at hx; subst hx; decide

theorem target_core (showI : Int → Str) (E : Ext) (name : Str) (off : Option (Cursor × Cursor)) (rest : Str)
    (hn : NameOk name)
    (ho : ∀ b e, off = some (b, e) → CursorOk showI E.parseI E.parseNat b ∧ CursorOk showI E.parseI E.parseNat e)
    (hr : SplitStart rest) :
    parseAsgCore E (kTARGET ++ ' ' :: '?' :: name ++ offStr showI off ++ ';' :: rest) = .ok (.target name off, ';' :: rest) := by
  have hform : kTARGET ++ ' ' :: '?' :: name ++ offStr showI off ++ ';' :: rest
      = kTARGET ++ (' ' :: ('?' :: name ++ (offStr showI off ++ ';' :: rest))) := by simp
  rw [hform]
  have hw : firstWord (kTARGET ++ (' ' :: ('?' :: name ++ (offStr showI off ++ ';' :: rest)))) = kTARGET :=
    firstWord_append _ _ word_kTARGET (splitStart_space _)
  have hd : (kTARGET ++ (' ' :: ('?' :: name ++ (offStr showI off ++ ';' :: rest)))).drop 6
      = ' ' :: ('?' :: name ++ (offStr showI off ++ ';' :: rest)) := by simp [kTARGET]
  unfold parseAsgCore
  simp only [hw, hd, trimStart_space]
  have hq : trimStart ('?' :: name ++ (offStr showI off ++ ';' :: rest)) = '?' :: name ++ (offStr showI off ++ ';' :: rest) :=
    trimStart_cons_nonws _ _ (by decide)
  rw [hq]
  simp (config := { decide := true }) only [kID, kDATA, kTARGET, ↓reduceIte, List.cons.injEq, and_false, and_true, reduceCtorEq]
  cases off with
  | none =>
    have hpn : parseName ('?' :: name ++ (offStr showI none ++ ';' :: rest)) = (some name, ';' :: rest) := by
      simp only [offStr, List.nil_append, List.cons_append, parseName]
      have hfw : firstWord (name ++ ';' :: rest) = name ++ [';'] := by
        rw [show name ++ ';' :: rest = (name ++ [';']) ++ rest by simp]
        exact firstWord_append _ _ (word_name_semi name hn) hr
      rw [hfw, trimEndSemis_semi name hn.2, drop_append_self, trimStart_semi]
    rw [hpn]
    simp [parseOffset, closed, startsWith]
  | some p =>
    obtain ⟨b, e⟩ := p
    obtain ⟨hb, he⟩ := ho b e rfl
    have hss : SplitStart (offStr showI (some (b, e)) ++ ';' :: rest) := by
      simp only [offStr, List.cons_append, List.nil_append, List.append_assoc]
      exact splitStart_space _
    rw [parseName_some name _ hn hss]
    simp only []
    rw [parseOffset_printed showI E.parseI E.parseNat E.isDt b e rest hb he]

theorem closed_cons (h : Char) (r : Str) (h1 : h ≠ ';') (h2 : h ≠ ']') (h3 : h ≠ 'O') : closed (h :: r) = false := by
  have := closed_of_head h r [] h1 h2 h3
  simpa using this

theorem data_core (showI : Int → Str) (E : Ext) (set key : Str) (v : AVal) (rest : Str)
    (hs : C09.Q set) (hk : C09.Q key) (hv : AValOk showI E v) :
    parseAsgCore E (kDATA ++ ' ' :: quote set ++ ' ' :: quote key ++ printAVal showI v ++ ';' :: rest)
      = .ok (.data set key v, ';' :: rest) := by
  have hform : kDATA ++ ' ' :: quote set ++ ' ' :: quote key ++ printAVal showI v ++ ';' :: rest
      = kDATA ++ (' ' :: (quote set ++ (' ' :: (quote key ++ (printAVal showI v ++ ';' :: rest))))) := by simp
  rw [hform]
  have hw : firstWord (kDATA ++ (' ' :: (quote set ++ (' ' :: (quote key ++ (printAVal showI v ++ ';' :: rest)))))) = kDATA :=
    firstWord_append _ _ word_kDATA (splitStart_space _)
  have hd : (kDATA ++ (' ' :: (quote set ++ (' ' :: (quote key ++ (printAVal showI v ++ ';' :: rest)))))).drop 4
      = ' ' :: (quote set ++ (' ' :: (quote key ++ (printAVal showI v ++ ';' :: rest)))) := by simp [kDATA]
  unfold parseAsgCore
  simp only [hw, hd, trimStart_space, trimStart_quote_app]
  simp (config := { decide := true }) only [kID, kDATA, ↓reduceIte, List.cons.injEq, and_false, and_true, reduceCtorEq]
  rw [arg_quoted E.isDt set _ hs.1 hs.2]
  simp only [trimStart_space, trimStart_quote_app]
  rw [arg_quoted E.isDt key _ hk.1 hk.2]
  simp only []
  obtain ⟨k1, k2, k3, k4⟩ := kw_types E.isDt
  cases v with
  | null => simp [printAVal, trimStart_semi, closed, startsWith]
  | str s =>
    obtain ⟨h1, h2, h3⟩ := hv
    have hcl : closed (quote s ++ ';' :: rest) = false := by
      simp only [quote, List.cons_append]; exact closed_cons _ _ (by decide) (by decide) (by decide)
    simp only [printAVal, List.cons_append, trimStart_space, trimStart_quote_app, hcl, Bool.false_eq_true, ↓reduceIte]
    rw [arg_quoted E.isDt s _ h1 h2, quoted_nopipe_is_string E.isDt s h3, trimStart_semi]
    rfl
  | bool b =>
    cases b with
    | true =>
      have ha := arg_word E.isDt ['t', 'r', 'u', 'e'] ';' rest (by decide) (by unfold Plain; decide)
      simp only [List.cons_append, List.nil_append] at ha
      have hcl : closed ('t' :: 'r' :: 'u' :: 'e' :: ';' :: rest) = false := closed_cons _ _ (by decide) (by decide) (by decide)
      have hts : trimStart ('t' :: 'r' :: 'u' :: 'e' :: ';' :: rest) = 't' :: 'r' :: 'u' :: 'e' :: ';' :: rest := trimStart_cons_nonws _ _ (by decide)
      simp only [printAVal, List.cons_append, List.nil_append, trimStart_space, hts, hcl, Bool.false_eq_true, ↓reduceIte, ha, k3, trimStart_semi]
      simp [asgValue]
    | false =>
      have ha := arg_word E.isDt ['f', 'a', 'l', 's', 'e'] ';' rest (by decide) (by unfold Plain; decide)
      simp only [List.cons_append, List.nil_append] at ha
      have hcl : closed ('f' :: 'a' :: 'l' :: 's' :: 'e' :: ';' :: rest) = false := closed_cons _ _ (by decide) (by decide) (by decide)
      have hts : trimStart ('f' :: 'a' :: 'l' :: 's' :: 'e' :: ';' :: rest) = 'f' :: 'a' :: 'l' :: 's' :: 'e' :: ';' :: rest := trimStart_cons_nonws _ _ (by decide)
      simp only [printAVal, List.cons_append, List.nil_append, trimStart_space, hts, hcl, Bool.false_eq_true, ↓reduceIte, ha, k4, trimStart_semi]
      simp [asgValue]
  | int z =>
    obtain ⟨hl, hp⟩ := hv
    obtain ⟨c, r, hcr, hws, h1, h2, h3⟩ := intLit_head _ hl
    have ha := arg_word E.isDt (showI z) ';' rest (by decide) (intLit_plain _ hl)
    have hcl : closed (showI z ++ ';' :: rest) = false := by rw [hcr]; exact closed_cons _ _ h1 h2 h3
    have hts : trimStart (showI z ++ ';' :: rest) = showI z ++ ';' :: rest := by rw [hcr]; exact trimStart_cons_nonws _ _ hws
    simp only [printAVal, List.cons_append, trimStart_space, hts, hcl, Bool.false_eq_true, ↓reduceIte, ha, argType_intLit E.isDt _ hl, trimStart_semi]
    simp [asgValue, hp]
  | float l =>
    obtain ⟨hpl, ⟨c, r, hcr, hws, h1, h2, h3⟩, hty, hpf⟩ := hv
    have ha := arg_word E.isDt l ';' rest (by decide) hpl
    have hcl : closed (l ++ ';' :: rest) = false := by rw [hcr]; exact closed_cons _ _ h1 h2 h3
    have hts : trimStart (l ++ ';' :: rest) = l ++ ';' :: rest := by rw [hcr]; exact trimStart_cons_nonws _ _ hws
    simp only [printAVal, List.cons_append, trimStart_space, hts, hcl, Bool.false_eq_true, ↓reduceIte, ha, hty, trimStart_semi]
    simp [asgValue, hpf]

/-- **C09 (assignment fixpoint).** An assignment of an ADD query that survives printing, printed by
`Assignment::to_string` and followed by the end of the text or white space, is read back by `Assignment::parse` as the
same assignment, its `;` consumed. -/
theorem asg_rt (showI : Int → Str) (E : Ext) (a : Asg) (ha : AsgOk showI E a) (rest : Str) (hr : SplitStart rest) :
    parseAsg E (printAsg showI a ++ rest) = .ok (a, trimStart rest) := by
  apply parseAsg_of_core
  cases a with
  | id s =>
    have := id_core E s rest ha
    simpa [printAsg] using this
  | data set key v =>
    have := data_core showI E set key v rest ha.1 ha.2.1 ha.2.2
    simpa [printAsg] using this
  | target name off =>
    have := target_core showI E name off rest ha.1 ha.2 hr
    simpa [printAsg] using this
  | complex k =>
    have := complex_core E k rest
    simpa [printAsg] using this

/-! ### the WITH clause -/

theorem printAsg_head (showI : Int → Str) (a : Asg) :
    ∃ c0 r0, printAsg showI a = c0 :: r0 ∧ isWs c0 = false ∧ c0 ≠ '{' ∧ c0 ≠ '}' := by
  cases a with
  | id s => exact ⟨'I', _, rfl, by decide, by decide, by decide⟩
  | data set key v => exact ⟨'D', _, rfl, by decide, by decide, by decide⟩
  | target name off => exact ⟨'T', _, rfl, by decide, by decide, by decide⟩
  | complex k => cases k <;> exact ⟨_, _, rfl, by decide, by decide, by decide⟩

theorem printAsg_last (showI : Int → Str) (a : Asg) : ∃ x, printAsg showI a = x ++ [';'] := by
  cases a with
  | id s => exact ⟨kID ++ ' ' :: quote s, by simp [printAsg]⟩
  | data set key v => exact ⟨kDATA ++ ' ' :: quote set ++ ' ' :: quote key ++ printAVal showI v, by simp [printAsg]⟩
  | target name off => exact ⟨kTARGET ++ ' ' :: '?' :: name ++ offStr showI off, by simp [printAsg]⟩
  | complex k => exact ⟨k.kw ++ [' '], by simp [printAsg]⟩

theorem printAsg_noTrail (showI : Int → Str) (a : Asg) : NoTrailWs (printAsg showI a) ∧ printAsg showI a ≠ [] := by
  obtain ⟨x, hx⟩ := printAsg_last showI a
  rw [hx]
  exact ⟨noTrail_semi x, by simp⟩

theorem splitStart_chain (ts : List Str) (rest : Str) (hr : SplitStart rest) : SplitStart (chain ts rest) := by
  cases ts with
  | nil => exact hr
  | cons t ts => exact Or.inr ⟨'\n', _, rfl, by decide⟩

theorem asgLoop_printed (showI : Int → Str) (E : Ext) :
    ∀ (l : List Asg), (∀ a ∈ l, AsgOk showI E a) →
      ∀ (rest : Str) (acc : List Asg) (f : Nat), SplitStart rest →
        (trimStart rest = [] ∨ (trimStart rest).head? = some '{') → l.length < f →
        asgLoop E f (trimStart (chain (l.map (printAsg showI)) rest)) acc = .ok (acc ++ l, trimStart rest) := by
  intro l
  induction l with
  | nil =>
    intro _ rest acc f _ hstop hf
    obtain ⟨f', rfl⟩ : ∃ f', f = f' + 1 := ⟨f - 1, by omega⟩
    simp only [List.map_nil, chain, List.append_nil]
    unfold asgLoop
    rcases hstop with h | h
    · simp [h]
    · rw [trimStart_idem, h]; simp
  | cons a l ih =>
    intro hg rest acc f hr hstop hf
    obtain ⟨f', rfl⟩ : ∃ f', f = f' + 1 := ⟨f - 1, by omega⟩
    obtain ⟨c0, r0, ht, hws, hb1, hb2⟩ := printAsg_head showI a
    have hstart : trimStart (chain ((a :: l).map (printAsg showI)) rest) = printAsg showI a ++ chain (l.map (printAsg showI)) rest := by
      simp only [List.map_cons, chain]
      rw [show '\n' :: '\t' :: printAsg showI a ++ chain (l.map (printAsg showI)) rest
          = ['\n', '\t'] ++ (printAsg showI a ++ chain (l.map (printAsg showI)) rest) from rfl,
        trimStart_ws_append _ _ (by decide), ht]
      exact trimStart_cons_nonws c0 _ hws
    rw [hstart]
    unfold asgLoop
    have hne : (printAsg showI a ++ chain (l.map (printAsg showI)) rest).isEmpty = false := by rw [ht]; rfl
    have hh : (trimStart (printAsg showI a ++ chain (l.map (printAsg showI)) rest)).head? = some c0 := by
      rw [ht, List.cons_append, trimStart_cons_nonws c0 _ hws]; rfl
    simp only [hne, hh, Option.some.injEq, hb1, hb2, decide_false, Bool.or_self, Bool.false_eq_true, ↓reduceIte,
      asg_rt showI E a (hg a (by simp)) _ (splitStart_chain _ rest hr)]
    rw [ih (fun q hq => hg q (by simp [hq])) rest (acc ++ [a]) f' hr hstop (by simpa using hf)]
    simp

theorem trimmed_chain_length_asg (showI : Int → Str) (l : List Asg) (x : Str) :
    l.length ≤ (trimStart (chain (l.map (printAsg showI)) x)).length := by
  cases l with
  | nil => simp
  | cons a l =>
    obtain ⟨c0, r0, ht, hws, _, _⟩ := printAsg_head showI a
    simp only [List.map_cons, chain]
    rw [show '\n' :: '\t' :: printAsg showI a ++ chain (l.map (printAsg showI)) x
        = ['\n', '\t'] ++ (printAsg showI a ++ chain (l.map (printAsg showI)) x) from rfl,
      trimStart_ws_append _ _ (by decide), ht, List.cons_append, trimStart_cons_nonws c0 _ hws]
    have := chain_length_ge (l.map (printAsg showI)) x
    simp only [List.length_cons, List.length_append, List.length_map] at this ⊢
    omega

/-! ### the block of sub-queries -/

theorem trimStart_block (ts : List Str) (st : Str) :
    trimStart (subsCore ts false st) = '{' :: ['\n', ' '] ++ (st ++ '\n' :: '}' :: []) := by
  simp only [subsCore, Bool.false_eq_true, ↓reduceIte, List.append_assoc]
  rw [trimStart_ws_append _ _ (by intro c hc; split at hc <;> simp at hc; subst hc; decide)]
  rw [show ['\n', '{', '\n', ' '] ++ (st ++ ['\n', '}']) = ['\n'] ++ ('{' :: '\n' :: ' ' :: (st ++ ['\n', '}'])) from rfl,
    trimStart_ws_append _ _ (by decide), trimStart_cons_nonws '{' _ (by decide)]
  rfl

theorem splitStart_subsCore (ts : List Str) (noSubs : Bool) (st : Str) : SplitStart (subsCore ts noSubs st) := by
  cases noSubs with
  | true => exact Or.inl rfl
  | false =>
    cases hts : ts.isEmpty with
    | true => exact Or.inr ⟨'\n', '{' :: '\n' :: ' ' :: (st ++ ['\n', '}']), by simp [subsCore, hts], by decide⟩
    | false => exact Or.inr ⟨'\n', '\n' :: '{' :: '\n' :: ' ' :: (st ++ ['\n', '}']), by simp [subsCore, hts], by decide⟩

/-- the parser on the block of sub-queries as printed, at the end of the text -/
theorem subqueries_block (showI : Int → Str) (E : Ext) (subs : List Q) (st : Str) (ts : List Str)
    (hsubs : OKQs E showI subs) (hst : coreSubs showI subs = some st) :
    subqueries E (trimStart (subsCore ts subs.isEmpty st)) = .ok (subs, []) ∧
      (trimStart (subsCore ts subs.isEmpty st) = [] ∨ (trimStart (subsCore ts subs.isEmpty st)).head? = some '{') := by
  cases subs with
  | nil =>
    refine ⟨?_, Or.inl (by simp [subsCore, trimStart])⟩
    simp [subsCore, subqueries, trimStart]
  | cons q r =>
    have hb := trimStart_block ts st
    simp only [List.isEmpty_cons]
    refine ⟨?_, Or.inr (by rw [hb]; rfl)⟩
    rw [hb]
    unfold subqueries
    have htb : trimStart ('{' :: ['\n', ' '] ++ (st ++ '\n' :: '}' :: [])) = '{' :: ['\n', ' '] ++ (st ++ '\n' :: '}' :: []) := by
      rw [List.cons_append]; exact trimStart_cons_nonws '{' _ (by decide)
    rw [htb]
    have hhead : ('{' :: ['\n', ' '] ++ (st ++ '\n' :: '}' :: [])).head? = some '{' := rfl
    rw [if_pos hhead]
    have hw := wL_le showI (q :: r) st hst
    have := subs_rt E showI (q :: r) st (by simp) hsubs hst [] (('{' :: ['\n', ' '] ++ (st ++ '\n' :: '}' :: [])).length + 1)
      '{' ['\n', ' '] [] goodRest_nil (Or.inl rfl) (by decide) (by simp only [List.length_cons, List.length_append, List.length_nil]; omega)
    rw [this]
    simp [trimStart]

/-! ### the head of a mutating query -/

/-- ` WITH` and the assignments, without the last newline -/
def withCore (ts : List Str) : Str := if ts.isEmpty then [] else ' ' :: kWITH ++ chain ts []

theorem name_after (name : Option Str) (y : Str) (hn : ∀ n, name = some n → NameOk n) (hy : SplitStart y)
    (hq : name = none → (trimStart y).head? ≠ some '?') :
    parseName (trimStart (nameText name ++ y)) = (name, trimStart y) := by
  cases name with
  | none =>
    simp only [nameText, List.nil_append]
    exact parseName_none _ (hq rfl)
  | some n =>
    simp only [nameText, List.cons_append, List.nil_append, trimStart_space]
    rw [trimStart_cons_nonws '?' _ (by decide)]
    exact parseName_some n y (hn n rfl) hy

theorem splitStart_name (name : Option Str) (y : Str) (hy : SplitStart y) : SplitStart (nameText name ++ y) := by
  cases name with
  | none => simpa [nameText] using hy
  | some n => exact Or.inr ⟨' ', '?' :: (n ++ y), by simp [nameText], by decide⟩

theorem annotationWord_printed (z : Str) (hz : SplitStart z) :
    annotationWord (trimStart (' ' :: kANNOTATION ++ z)) = some (trimStart z) := by
  have h1 : trimStart (' ' :: kANNOTATION ++ z) = kANNOTATION ++ z := by
    rw [List.cons_append, trimStart_space]; exact trimStart_cons_nonws 'A' _ (by decide)
  rw [h1]
  unfold annotationWord
  simp only [firstWord_append _ _ word_kANNOTATION hz, true_or, ↓reduceIte]
  rw [show (10 : Nat) = kANNOTATION.length from rfl, drop_append_self]

/-- what follows the name: the WITH clause, if any, is entered, and the loop over the assignments starts where it should -/
theorem afterName (ts : List Str) (noSubs : Bool) (st : Str) :
    let X := subsCore ts noSubs st
    let y := withCore ts ++ X
    SplitStart y ∧ (trimStart y).head? ≠ some '?' ∧
      (if firstWord (trimStart y) = kWITH then some (trimStart ((trimStart y).drop 4))
       else if firstWord (trimStart y) = ['{'] ∨ firstWord (trimStart y) = [] then some (trimStart y) else none)
        = some (trimStart (chain ts X)) := by
  intro X y
  cases hts : ts with
  | nil =>
    have hy : y = X := by simp [y, hts, withCore]
    rw [hy]
    simp only [chain]
    cases noSubs with
    | true =>
      have hX : X = [] := by simp [X, subsCore]
      rw [hX]
      refine ⟨Or.inl rfl, by simp [trimStart], ?_⟩
      simp (config := { decide := true }) [trimStart, firstWord, kWITH]
    | false =>
      have hb : trimStart X = '{' :: ['\n', ' '] ++ (st ++ '\n' :: '}' :: []) := trimStart_block ts st
      have hfw : firstWord (trimStart X) = ['{'] := by
        rw [hb]
        exact firstWord_append ['{'] _ (by unfold Word; decide) (Or.inr ⟨'\n', _, rfl, by decide⟩)
      refine ⟨splitStart_subsCore ts false st, by rw [hb]; simp, ?_⟩
      rw [hfw]
      simp (config := { decide := true }) [kWITH, trimStart_idem]
  | cons t ts' =>
    have hy : y = ' ' :: (kWITH ++ chain (t :: ts') X) := by
      simp only [y, withCore, hts, List.isEmpty_cons, Bool.false_eq_true, ↓reduceIte, List.cons_append, List.append_assoc]
      rw [chain_append, List.nil_append]
    have ht : trimStart y = kWITH ++ chain (t :: ts') X := by
      rw [hy, trimStart_space]; exact trimStart_cons_nonws 'W' _ (by decide)
    refine ⟨by rw [hy]; exact splitStart_space _, by rw [ht]; simp [kWITH], ?_⟩
    have hsc : SplitStart (chain (t :: ts') X) := Or.inr ⟨'\n', _, rfl, by decide⟩
    rw [ht, firstWord_append _ _ word_kWITH hsc]
    simp only [↓reduceIte]
    rw [show (4 : Nat) = kWITH.length from rfl, drop_append_self]

/-- the parser on the text of an ADD query without the white space at its end -/
theorem add_core_rt (showI : Int → Str) (E : Ext) (name : Option Str) (asgs : List Asg) (subs : List Q) (st : Str)
    (hname : ∀ n, name = some n → NameOk n) (hasgs : ∀ a ∈ asgs, AsgOk showI E a)
    (hsubs : OKQs E showI subs) (hst : coreSubs showI subs = some st) :
    parseAdd E (kADD ++ ' ' :: kANNOTATION ++ (nameText name ++
        (withCore (asgs.map (printAsg showI)) ++ subsCore (asgs.map (printAsg showI)) subs.isEmpty st)))
      = .ok (.add name asgs subs, []) := by
  obtain ⟨hy1, hy2, hy3⟩ := afterName (asgs.map (printAsg showI)) subs.isEmpty st
  obtain ⟨hb1, hb2⟩ := subqueries_block showI E subs st (asgs.map (printAsg showI)) hsubs hst
  unfold parseAdd
  have hd : (kADD ++ ' ' :: kANNOTATION ++ (nameText name ++
        (withCore (asgs.map (printAsg showI)) ++ subsCore (asgs.map (printAsg showI)) subs.isEmpty st))).drop 3
      = ' ' :: kANNOTATION ++ (nameText name ++
        (withCore (asgs.map (printAsg showI)) ++ subsCore (asgs.map (printAsg showI)) subs.isEmpty st)) := by simp [kADD]
  rw [hd, annotationWord_printed _ (splitStart_name name _ hy1)]
  simp only []
  rw [name_after name _ hname hy1 (fun _ => hy2)]
  simp only [hy3]
  have hloop := asgLoop_printed showI E asgs hasgs (subsCore (asgs.map (printAsg showI)) subs.isEmpty st) []
    ((trimStart (chain (asgs.map (printAsg showI)) (subsCore (asgs.map (printAsg showI)) subs.isEmpty st))).length + 1)
    (splitStart_subsCore _ _ _) hb2 (by have := trimmed_chain_length_asg showI asgs (subsCore (asgs.map (printAsg showI)) subs.isEmpty st); omega)
  rw [hloop]
  simp only [List.nil_append, hb1]

/-- the parser on the text of a DELETE query without the white space at its end -/
theorem delete_core_rt (showI : Int → Str) (E : Ext) (name : Option Str) (subs : List Q) (st : Str)
    (hname : ∀ n, name = some n → NameOk n) (hsubs : OKQs E showI subs) (hst : coreSubs showI subs = some st) :
    parseDelete E (kDELETE ++ ' ' :: kANNOTATION ++ (nameText name ++ subsCore [] subs.isEmpty st))
      = .ok (.delete name subs, []) := by
  obtain ⟨hy1, hy2, _⟩ := afterName [] subs.isEmpty st
  simp only [withCore, List.isEmpty_nil, ↓reduceIte, List.nil_append] at hy1 hy2
  obtain ⟨hb1, _⟩ := subqueries_block showI E subs st [] hsubs hst
  unfold parseDelete
  have hd : (kDELETE ++ ' ' :: kANNOTATION ++ (nameText name ++ subsCore [] subs.isEmpty st)).drop 6
      = ' ' :: kANNOTATION ++ (nameText name ++ subsCore [] subs.isEmpty st) := by simp [kDELETE]
  rw [hd, annotationWord_printed _ (splitStart_name name _ hy1)]
  simp only []
  rw [name_after name _ hname hy1 (fun _ => hy2)]
  simp only [hb1]

/-! ### what `to_string` writes -/

/-- the white space `to_string` leaves at the end of a mutating query: the newline after the last assignment when no block follows -/
def tailM (ts : List Str) (subs : List Q) : Str := if !ts.isEmpty && subs.isEmpty then ['\n'] else []

theorem tailM_ws (ts : List Str) (subs : List Q) : ∀ x ∈ tailM ts subs, isWs x = true := by
  intro x hx
  unfold tailM at hx
  split at hx
  · simp at hx; subst hx; decide
  · simp at hx

theorem with_lines (showI : Int → Str) (asgs : List Asg) :
    (if asgs.isEmpty then [] else ' ' :: kWITH ++ '\n' :: asgLines showI asgs)
      = withCore (asgs.map (printAsg showI)) ++ (if (asgs.map (printAsg showI)).isEmpty then [] else ['\n']) := by
  cases asgs with
  | nil => simp [withCore]
  | cons a l =>
    have h1 : '\n' :: asgLines showI (a :: l) = chain ((a :: l).map (printAsg showI)) [] ++ ['\n'] := by
      have := (lines_chain ((a :: l).map (printAsg showI))).trans (chain_append ((a :: l).map (printAsg showI)) [] ['\n']).symm
      simpa [asgLines, List.map_map, Function.comp_def] using this
    simp only [List.isEmpty_cons, Bool.false_eq_true, ↓reduceIte, withCore, List.map_cons]
    rw [h1]
    simp

/-- `to_string` on a mutating query writes the core text and then its trailing white space -/
theorem withSubs_core (showI : Int → Str) (E : Ext) (h : Str) (ts : List Str) (subs : List Q) (t : Str)
    (hsubs : OKQs E showI subs) (hh : NoTrailWs h) (hhne : h ≠ []) (hts : ∀ t ∈ ts, NoTrailWs t ∧ t ≠ [])
    (hp : withSubs showI (h ++ (withCore ts ++ (if ts.isEmpty then [] else ['\n']))) subs = some t) :
    ∃ st, coreSubs showI subs = some st ∧
      t = (h ++ (withCore ts ++ subsCore ts subs.isEmpty st)) ++ tailM ts subs ∧
      NoTrailWs (h ++ (withCore ts ++ subsCore ts subs.isEmpty st)) := by
  unfold withSubs at hp
  split at hp
  next subsText hsT =>
    simp only [Option.some.injEq] at hp
    cases subs with
    | nil =>
      refine ⟨[], by simp [coreSubs], ?_, ?_⟩
      · subst hp
        simp only [List.isEmpty_nil, ↓reduceIte, subsCore, List.append_nil, tailM, Bool.and_true]
        cases ts.isEmpty <;> simp
      · simp only [subsCore, List.isEmpty_nil, ↓reduceIte, List.append_nil]
        unfold withCore
        cases hte : ts.isEmpty with
        | true => simpa using hh
        | false =>
          simp only [Bool.false_eq_true, ↓reduceIte]
          have hc := noTrail_chain ts [] hts (fun _ h => by simp at h)
          have hne : chain ts [] ≠ [] := by
            cases ts with
            | nil => simp at hte
            | cons a b => simp [chain]
          have := noTrail_suffix (h ++ ' ' :: kWITH) (chain ts []) hne hc
          simpa [List.append_assoc] using this
    | cons q r =>
      obtain ⟨st, hst, hsT', hstnt, hstne⟩ := printSubs_core E showI (q :: r) true subsText (by simp) hsubs hsT
      refine ⟨st, hst, ?_, ?_⟩
      · subst hp
        simp only [List.isEmpty_cons, Bool.false_eq_true, ↓reduceIte, tailM, Bool.and_false, List.append_nil]
        rw [hsT']
        simp only [↓reduceIte, List.nil_append]
        have := ensure_close (h ++ (withCore ts ++ (if ts.isEmpty then [] else ['\n'])) ++ ['\n', '{', '\n', ' ']) st (tailLast (q :: r)) hstne hstnt (tailLast_cases _)
        simp only [subsCore, Bool.false_eq_true, ↓reduceIte]
        simp only [List.append_assoc, List.cons_append, List.nil_append] at this ⊢
        exact this
      · simp only [subsCore, List.isEmpty_cons, Bool.false_eq_true, ↓reduceIte]
        have := noTrail_suffix (h ++ (withCore ts ++ ((if ts.isEmpty then [] else ['\n']) ++ ['\n', '{', '\n', ' '] ++ st ++ ['\n']))) ['}'] (by simp)
          (by intro c hc; simp at hc; subst hc; decide)
        simpa [List.append_assoc] using this
  next => simp at hp

theorem noTrail_mhead (kw : Str) (hk : NoTrailWs kANNOTATION) (name : Option Str) (hn : ∀ n, name = some n → NameOk n) :
    NoTrailWs (kw ++ ' ' :: kANNOTATION ++ nameText name) ∧ kw ++ ' ' :: kANNOTATION ++ nameText name ≠ [] := by
  refine ⟨?_, by simp [kANNOTATION]⟩
  cases name with
  | none =>
    have := noTrail_suffix (kw ++ [' ']) kANNOTATION (by simp [kANNOTATION]) hk
    simpa [nameText] using this
  | some n =>
    by_cases hne : n = []
    · subst hne
      have := noTrail_suffix (kw ++ ' ' :: kANNOTATION ++ [' ']) ['?'] (by simp) (by intro c hc; simp at hc; subst hc; decide)
      simpa [nameText] using this
    · have hnn : NoTrailWs n := by
        intro c hc
        exact (hn n rfl).1 c (List.mem_of_getLast? hc)
      have := noTrail_suffix (kw ++ ' ' :: kANNOTATION ++ [' ', '?']) n hne hnn
      simpa [nameText] using this

theorem noTrail_kANNOTATION : NoTrailWs kANNOTATION := by
  intro c hc; simp [kANNOTATION] at hc; subst hc; decide

theorem parseQueryAll_of_parseQuery (E : Ext) (t : Str) (q : Q) (r : Str) (h : parseQuery E t = .ok (q, r)) :
    parseQueryAll E t = .ok (.select q, r) := by
  unfold parseQuery at h
  unfold parseQueryAll
  simp only at h ⊢
  split at h
  · simp at h
  · rename_i ha
    split at h
    · rename_i hw
      rw [if_neg ha, if_pos hw, h]
    · split at h <;> simp at h

/-! ### the whole query -/

theorem trim_core (c0 : Char) (c w : Str) (h0 : isWs c0 = false) (hc : NoTrailWs (c0 :: c)) (hw : ∀ x ∈ w, isWs x = true) :
    trim (c0 :: c ++ w) = c0 :: c := by
  unfold trim
  rw [List.cons_append, trimStart_cons_nonws c0 _ h0, ← List.cons_append]
  exact trimEnd_ws_suffix (c0 :: c) w hc hw

theorem add_roundtrip (showI : Int → Str) (E : Ext) (name : Option Str) (asgs : List Asg) (subs : List Q) (t : Str)
    (hname : ∀ n, name = some n → NameOk n) (hasgs : ∀ a ∈ asgs, AsgOk showI E a) (hsubs : OKQs E showI subs)
    (hp : printQQ showI (.add name asgs subs) = some t) :
    parseQueryAll E t = .ok (.add name asgs subs, []) := by
  simp only [printQQ] at hp
  rw [with_lines showI asgs] at hp
  obtain ⟨hh, hhne⟩ := noTrail_mhead kADD noTrail_kANNOTATION name hname
  have hts : ∀ t ∈ asgs.map (printAsg showI), NoTrailWs t ∧ t ≠ [] := by
    intro t ht
    obtain ⟨a, _, rfl⟩ := List.mem_map.mp ht
    exact printAsg_noTrail showI a
  obtain ⟨st, hst, ht, hnt⟩ := withSubs_core showI E _ _ subs t hsubs hh hhne hts hp
  have hcore : kADD ++ ' ' :: kANNOTATION ++ nameText name ++ (withCore (asgs.map (printAsg showI)) ++ subsCore (asgs.map (printAsg showI)) subs.isEmpty st)
      = 'A' :: (['D', 'D'] ++ ' ' :: kANNOTATION ++ (nameText name ++ (withCore (asgs.map (printAsg showI)) ++ subsCore (asgs.map (printAsg showI)) subs.isEmpty st))) := by
    simp [kADD]
  rw [hcore] at ht hnt
  have htrim : trim t = 'A' :: (['D', 'D'] ++ ' ' :: kANNOTATION ++ (nameText name ++ (withCore (asgs.map (printAsg showI)) ++ subsCore (asgs.map (printAsg showI)) subs.isEmpty st))) := by
    rw [ht]; exact trim_core 'A' _ _ (by decide) hnt (tailM_ws _ _)
  have hrt := add_core_rt showI E name asgs subs st hname hasgs hsubs hst
  have hform : 'A' :: (['D', 'D'] ++ ' ' :: kANNOTATION ++ (nameText name ++ (withCore (asgs.map (printAsg showI)) ++ subsCore (asgs.map (printAsg showI)) subs.isEmpty st)))
      = kADD ++ ' ' :: kANNOTATION ++ (nameText name ++ (withCore (asgs.map (printAsg showI)) ++ subsCore (asgs.map (printAsg showI)) subs.isEmpty st)) := by
    simp [kADD]
  unfold parseQueryAll
  simp only [htrim]
  rw [hform]
  have hw : firstWord (kADD ++ ' ' :: kANNOTATION ++ (nameText name ++ (withCore (asgs.map (printAsg showI)) ++ subsCore (asgs.map (printAsg showI)) subs.isEmpty st))) = kADD := by
    rw [List.append_assoc]
    exact firstWord_append _ _ word_kADD (splitStart_space _)
  have hh' : (kADD ++ ' ' :: kANNOTATION ++ (nameText name ++ (withCore (asgs.map (printAsg showI)) ++ subsCore (asgs.map (printAsg showI)) subs.isEmpty st))).head? ≠ some '@' := by
    simp [kADD]
  rw [if_neg hh', hw, if_neg (by decide), if_pos rfl]
  exact hrt

theorem delete_roundtrip (showI : Int → Str) (E : Ext) (name : Option Str) (subs : List Q) (t : Str)
    (hname : ∀ n, name = some n → NameOk n) (hsubs : OKQs E showI subs)
    (hp : printQQ showI (.delete name subs) = some t) :
    parseQueryAll E t = .ok (.delete name subs, []) := by
  simp only [printQQ] at hp
  obtain ⟨hh, hhne⟩ := noTrail_mhead kDELETE noTrail_kANNOTATION name hname
  have hp' : withSubs showI (kDELETE ++ ' ' :: kANNOTATION ++ nameText name ++ (withCore [] ++ (if ([] : List Str).isEmpty then [] else ['\n']))) subs = some t := by
    simpa [withCore] using hp
  obtain ⟨st, hst, ht, hnt⟩ := withSubs_core showI E _ [] subs t hsubs hh hhne (by simp) hp'
  have hcore : kDELETE ++ ' ' :: kANNOTATION ++ nameText name ++ (withCore [] ++ subsCore [] subs.isEmpty st)
      = 'D' :: (['E', 'L', 'E', 'T', 'E'] ++ ' ' :: kANNOTATION ++ (nameText name ++ subsCore [] subs.isEmpty st)) := by
    simp [kDELETE, withCore]
  rw [hcore] at ht hnt
  have htrim : trim t = 'D' :: (['E', 'L', 'E', 'T', 'E'] ++ ' ' :: kANNOTATION ++ (nameText name ++ subsCore [] subs.isEmpty st)) := by
    rw [ht]; exact trim_core 'D' _ _ (by decide) hnt (tailM_ws _ _)
  have hrt := delete_core_rt showI E name subs st hname hsubs hst
  have hform : 'D' :: (['E', 'L', 'E', 'T', 'E'] ++ ' ' :: kANNOTATION ++ (nameText name ++ subsCore [] subs.isEmpty st))
      = kDELETE ++ ' ' :: kANNOTATION ++ (nameText name ++ subsCore [] subs.isEmpty st) := by
    simp [kDELETE]
  unfold parseQueryAll
  simp only [htrim]
  rw [hform]
  have hw : firstWord (kDELETE ++ ' ' :: kANNOTATION ++ (nameText name ++ subsCore [] subs.isEmpty st)) = kDELETE := by
    rw [List.append_assoc]
    exact firstWord_append _ _ word_kDELETE (splitStart_space _)
  have hh' : (kDELETE ++ ' ' :: kANNOTATION ++ (nameText name ++ subsCore [] subs.isEmpty st)).head? ≠ some '@' := by
    simp [kDELETE]
  rw [if_neg hh', hw, if_neg (by decide), if_neg (by decide), if_pos rfl]
  exact hrt

/-- which queries, of the three types, survive printing: names that can be written (no white space, not ending in `;`),
printable constraints at every level (`QPrintableAll`), assignments that survive printing (`AsgOk`) -/
def QQPrintable (showI : Int → Str) (parseI : Str → Option Int) (parseF : Str → Bool) (isDt : Str → Bool) (regexOk : Str → Bool)
    (parseNat : Str → Option Nat) : QQ → Prop
  | .select q => QPrintableAll showI parseI parseF isDt regexOk parseNat q
  | .add name asgs subs => (∀ n, name = some n → NameOk n) ∧
      (∀ a ∈ asgs, AsgOk showI (fullExt parseI parseF isDt regexOk parseNat) a) ∧
      QsPrintableAll showI parseI parseF isDt regexOk parseNat subs
  | .delete name subs => (∀ n, name = some n → NameOk n) ∧ QsPrintableAll showI parseI parseF isDt regexOk parseNat subs

/-- **C09 (query fixpoint, all three query types).** A SELECT, ADD or DELETE query that survives printing — writable
names, printable constraints at every level of its sub-queries, and for ADD any number of assignments ID, DATA (null,
boolean, integer, float, string), TARGET with or without an OFFSET clause, COMPOSITE, MULTI, DIRECTIONAL — printed by
`to_string`, is parsed back by `Query::parse` as the same query, and the whole text is consumed; for any parsers of
numbers and dates and any regular-expression compiler. -/
theorem query_roundtrip_three (showI : Int → Str) (parseI : Str → Option Int) (parseF : Str → Bool) (isDt : Str → Bool) (regexOk : Str → Bool)
    (parseNat : Str → Option Nat)
    (qq : QQ) (t : Str) (hq : QQPrintable showI parseI parseF isDt regexOk parseNat qq) (hp : printQQ showI qq = some t) :
    parseQueryAll (fullExt parseI parseF isDt regexOk parseNat) t = .ok (qq, []) := by
  cases qq with
  | select q =>
    exact parseQueryAll_of_parseQuery _ t q [] (query_roundtrip_all showI parseI parseF isDt regexOk parseNat q t hq hp)
  | add name asgs subs =>
    exact add_roundtrip showI _ name asgs subs t hq.1 hq.2.1 (okqs_all showI parseI parseF isDt regexOk parseNat subs hq.2.2) hp
  | delete name subs =>
    exact delete_roundtrip showI _ name subs t hq.1 (okqs_all showI parseI parseF isDt regexOk parseNat subs hq.2) hp

/-! ### non-vacuity and sharpness -/

/-- an ADD query with every kind of assignment, around a sub-query with a constraint -/
def sampleAdd : QQ :=
  .add (some ['n']) [.id ['i'], .data ['s'] ['k'] (.int (-2)), .data ['s'] ['k'] .null, .data ['s'] ['k'] (.str ['v', ' ', 'w']),
      .data ['s'] ['k'] (.bool true), .target ['x'] (some (.b 3, .e (-2))), .target ['y'] none, .complex .multi]
    [.mk false .text (some ['x']) [.id ['a']] []]

def sampleDelete : QQ := .delete (some ['n']) [.mk false .annotation (some ['n']) [.id ['a']] []]

example : QQPrintable showEx parseIEx (fun _ => false) (fun _ => false) (fun _ => true) parseNatEx sampleAdd := by
  refine ⟨by simp (config := { decide := true }) [NameOk], ?_, ?_⟩
  · intro a ha
    simp only [sampleAdd, List.mem_cons, List.not_mem_nil, or_false] at ha
    rcases ha with rfl | rfl | rfl | rfl | rfl | rfl | rfl | rfl
    · simp (config := { decide := true }) [AsgOk, C09.Q]
    · refine ⟨by simp (config := { decide := true }) [C09.Q], by simp (config := { decide := true }) [C09.Q], ⟨['2'], by simp, by simp (config := { decide := true }), Or.inr rfl⟩, rfl⟩
    · simp (config := { decide := true }) [AsgOk, AValOk, C09.Q]
    · simp (config := { decide := true }) [AsgOk, AValOk, C09.Q]
    · simp (config := { decide := true }) [AsgOk, AValOk, C09.Q]
    · simp (config := { decide := true }) [AsgOk, NameOk, CursorOk, cursorStr, cursorArg, showEx, parseIEx, parseNatEx, fullExt, Plain, kWHOLE, kALL, isDelim, isWs]
    · simp (config := { decide := true }) [AsgOk, NameOk]
    · trivial
  · simp (config := { decide := true }) [QsPrintableAll, QPrintableAll, CnPrintableAll, CnPrintable, NameOk, C09.Q]

example : (printQQ showEx sampleAdd).isSome = true := by
  simp [sampleAdd, printQQ, withSubs, printSubs, printQ, cnLines, optAll, printCn]

example : QQPrintable showEx parseIEx (fun _ => false) (fun _ => false) (fun _ => true) parseNatEx sampleDelete := by
  simp (config := { decide := true }) [sampleDelete, QQPrintable, QsPrintableAll, QPrintableAll, CnPrintableAll, CnPrintable, NameOk, C09.Q]

set_option maxRecDepth 20000 in
/-- the hypothesis on string values is needed: a string with a list separator is printed between quotes as it is, and
the lexer types the quoted argument as a list, which an assignment refuses: the printed query does not parse -/
theorem string_value_with_pipe_is_refused :
    (match printQQ showEx (.add none [.data ['s'] ['k'] (.str ['a', '|', 'b'])] []) with
     | some t =>
       (match parseQueryAll (fullExt parseIEx (fun _ => false) (fun _ => false) (fun _ => true) parseNatEx) t with
        | .err _ => true
        | _ => false)
     | none => false) = true := by decide

end Stam.QL.C09M
