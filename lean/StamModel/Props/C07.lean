import StamModel.Lemmas.TextOps
import StamModel.Props.C12
/-
  C07 — Text search and partition operations agree with plain string operations.
-/
namespace Stam.C07
open Stam Stam.C12

/-! ### Exact search -/

theorem sub_drop_take (text : List Char) (b e k len : Nat) (h : k + len ≤ e - b) :
    ((((text.drop b).take (e - b)).drop k).take len) = (text.drop (b + k)).take len := by
  rw [List.drop_take, List.take_take, List.drop_drop]
  congr 1
  omega

/-- **sound, confined**: every reported selection lies inside the searched range `[b,e)` and its
text is exactly the needle -/
theorem find_sound (needle text : List Char) : ∀ fuel b e, ∀ p ∈ findSpec fuel needle text b e,
    b ≤ p.1 ∧ p.2 = p.1 + needle.length ∧ p.2 ≤ e ∧ (text.drop p.1).take needle.length = needle := by
  intro fuel
  induction fuel with
  | zero => intro b e p hp; simp [findSpec] at hp
  | succ fuel ih =>
    intro b e p hp
    simp only [findSpec] at hp
    split at hp
    · simp at hp
    · split at hp
      · simp at hp
      · rename_i hne hrange
        split at hp
        · simp at hp
        · rename_i k hk
          obtain ⟨k', hk', hkl, hocc, _⟩ := findFrom_some needle _ 0 k hk
          have hk0 : k = k' := by omega
          subst hk0
          have hlen : ((text.drop b).take (e - b)).length = e - b := by
            simp; omega
          rw [hlen] at hkl
          have hfit := occursAt_len needle _ k (by rw [hlen]; exact hkl) hocc
          rw [hlen] at hfit
          rw [occursAt_iff, sub_drop_take text b e k needle.length hfit] at hocc
          simp only [List.mem_cons] at hp
          rcases hp with rfl | hp
          · exact ⟨by simp, by simp, by simp; omega, hocc⟩
          · have := ih (b + k + needle.length) e p hp
            exact ⟨by omega, this.2.1, this.2.2.1, this.2.2.2⟩

/-- **ordered, non-overlapping** -/
theorem find_ordered (needle text : List Char) : ∀ fuel b e,
    (findSpec fuel needle text b e).Pairwise (fun p q => p.2 ≤ q.1) := by
  intro fuel
  induction fuel with
  | zero => intro b e; simp [findSpec]
  | succ fuel ih =>
    intro b e
    simp only [findSpec]
    split
    · simp
    · split
      · simp
      · split
        · simp
        · rename_i k hk
          rw [List.pairwise_cons]
          refine ⟨?_, ih _ _⟩
          intro q hq
          have := find_sound needle text fuel (b + k + needle.length) e q hq
          simp; omega

/-- **complete (leftmost, non-overlapping)**: every occurrence of the needle inside the searched
range is either reported or starts inside a reported occurrence -/
theorem find_complete (needle text : List Char) (hn : needle ≠ []) : ∀ fuel b e, e ≤ text.length → e - b < fuel →
    ∀ q, b ≤ q → q + needle.length ≤ e → (text.drop q).take needle.length = needle →
    ∃ p ∈ findSpec fuel needle text b e, p.1 ≤ q ∧ q < p.2 := by
  have hlenpos : 0 < needle.length := List.length_pos_iff.2 hn
  intro fuel
  induction fuel with
  | zero => intro b e _ hf; omega
  | succ fuel ih =>
    intro b e he hf q hbq hqe hocc
    have hbe : ¬ (b > e ∨ e > text.length) := by omega
    have hne : needle.isEmpty = false := by simpa using hn
    simp only [findSpec, hne, hbe, if_false, Bool.false_eq_true]
    have hlen : ((text.drop b).take (e - b)).length = e - b := by simp; omega
    have hoccsub : OccursAt needle ((text.drop b).take (e - b)) (q - b) := by
      rw [occursAt_iff, sub_drop_take text b e (q - b) needle.length (by omega)]
      have : b + (q - b) = q := by omega
      rw [this]; exact hocc
    cases hk : findFrom needle ((text.drop b).take (e - b)) 0 with
    | none =>
      exact absurd hoccsub (findFrom_none needle _ 0 hk (q - b) (by rw [hlen]; omega))
    | some k =>
      obtain ⟨k', hk', hkl, hocc', hmin⟩ := findFrom_some needle _ 0 k hk
      have hk0 : k = k' := by omega
      subst hk0
      simp only []
      have hkq : k ≤ q - b := by
        rcases Nat.lt_or_ge (q - b) k with h | h
        · exact absurd hoccsub (hmin _ h)
        · exact h
      by_cases hcov : q < b + k + needle.length
      · exact ⟨(b + k, b + k + needle.length), by simp, by simp; omega, by simpa using hcov⟩
      · obtain ⟨p, hp, h1, h2⟩ := ih (b + k + needle.length) e he (by omega) q (by omega) hqe hocc
        exact ⟨p, by simp [hp], h1, h2⟩

theorem widthsWF (text : List Char) : WidthsWF (widths text) := by
  intro w hw
  simp only [widths, List.mem_map] at hw
  obtain ⟨c, _, rfl⟩ := hw
  exact Char.utf8Size_pos c

theorem bytesOf_take_drop (text : List Char) (b k : Nat) :
    prefixB (widths text) b + bytesOf ((text.drop b).take k) = prefixB (widths text) (b + k) := by
  rw [prefixB_add]
  simp [bytesOf, widths, prefixB, List.map_take, List.map_drop]

/-- **the byte arithmetic of `FindTextIter` is the code-point specification**: whatever the
position index contains, the iterator's coordinate translation yields exactly `findSpec` -/
theorem findIter_eq_spec (b2c : List (Nat × Nat)) (needle text : List Char)
    (hi : B2cWF b2c (widths text)) : ∀ fuel b e,
    findIter fuel b2c needle text b e = .ok (findSpec fuel needle text b e) := by
  have hw := widthsWF text
  intro fuel
  induction fuel with
  | zero => intro b e; simp [findIter, findSpec]
  | succ fuel ih =>
    intro b e
    simp only [findIter, findSpec]
    split
    · rfl
    · split
      · rfl
      · rename_i hne hrange
        have hbe : b ≤ e ∧ e ≤ text.length := by omega
        cases hk : findFrom needle ((text.drop b).take (e - b)) 0 with
        | none => rfl
        | some k =>
          obtain ⟨k', hk', hkl, hocc, _⟩ := findFrom_some needle _ 0 k hk
          have hk0 : k = k' := by omega
          subst hk0
          have hlen : ((text.drop b).take (e - b)).length = e - b := by simp; omega
          rw [hlen] at hkl
          have hfit := occursAt_len needle _ k (by rw [hlen]; exact hkl) hocc
          rw [hlen] at hfit
          rw [occursAt_iff, sub_drop_take text b e k needle.length hfit] at hocc
          simp only []
          have e1 : ((text.drop b).take (e - b)).take k = (text.drop b).take k := by
            rw [List.take_take]; congr 1; omega
          have hb1 : prefixB (widths text) b + bytesOf (((text.drop b).take (e - b)).take k)
              = prefixB (widths text) (b + k) := by rw [e1]; exact bytesOf_take_drop text b k
          have hb2 : prefixB (widths text) b + (bytesOf (((text.drop b).take (e - b)).take k) + bytesOf needle)
              = prefixB (widths text) (b + k + needle.length) := by
            rw [← Nat.add_assoc, hb1]
            have := bytesOf_take_drop text (b + k) needle.length
            rw [hocc] at this
            exact this
          have hlw : (widths text).length = text.length := by simp [widths]
          rw [hb1, hb2, charpos_of_boundary b2c _ hw hi (b + k) (by rw [hlw]; omega),
            charpos_of_boundary b2c _ hw hi (b + k + needle.length) (by rw [hlw]; omega)]
          simp only []
          rw [ih]

/-! ### Splitting -/

/-- what it means for a list of ranges to be the split of `hay` (located at `pos`) on `delim` -/
def IsSplit (delim : List Char) : List Char → Nat → List (Nat × Nat) → Prop
  | _, _, [] => False
  | hay, pos, [p] => p = (pos, pos + hay.length)
  | hay, pos, p :: q :: rest =>
    ∃ k, p = (pos, pos + k) ∧ k + delim.length ≤ hay.length ∧ OccursAt delim hay k ∧
      (∀ k', k' < k → ¬ OccursAt delim hay k') ∧
      IsSplit delim (hay.drop (k + delim.length)) (pos + k + delim.length) (q :: rest)

theorem splitIter_ne_nil (delim : List Char) : ∀ fuel hay pos, splitIter fuel delim hay pos ≠ [] := by
  intro fuel; cases fuel <;> intro hay pos <;> simp only [splitIter] <;> (try split) <;> simp

/-- **split_partition**: consecutive pieces, each delimiter really occurs (leftmost) between two
pieces, first piece starts where the searched text starts, last ends where it ends -/
theorem split_isSplit (delim : List Char) : ∀ fuel hay pos,
    IsSplit delim hay pos (splitIter fuel delim hay pos) := by
  intro fuel
  induction fuel with
  | zero => intro hay pos; simp [splitIter, IsSplit]
  | succ fuel ih =>
    intro hay pos
    simp only [splitIter]
    cases hk : findFrom delim hay 0 with
    | none => simp [IsSplit]
    | some k =>
      obtain ⟨k', hk', hkl, hocc, hmin⟩ := findFrom_some delim hay 0 k hk
      have hk0 : k = k' := by omega
      subst hk0
      simp only []
      have hne := splitIter_ne_nil delim fuel (hay.drop (k + delim.length)) (pos + k + delim.length)
      cases hs : splitIter fuel delim (hay.drop (k + delim.length)) (pos + k + delim.length) with
      | nil => exact absurd hs hne
      | cons q rest =>
        have := ih (hay.drop (k + delim.length)) (pos + k + delim.length)
        rw [hs] at this
        exact ⟨k, rfl, occursAt_len delim hay k hkl hocc, hocc, hmin, this⟩

/-- **the pieces and the delimiters between them cover the searched text exactly** -/
theorem split_covers (delim : List Char) : ∀ (l : List (Nat × Nat)) hay pos, IsSplit delim hay pos l →
    (l.map (fun p => p.2 - p.1)).sum + (l.length - 1) * delim.length = hay.length := by
  intro l
  induction l with
  | nil => intro hay pos h; simp [IsSplit] at h
  | cons p rest ih =>
    intro hay pos h
    cases rest with
    | nil => simp [IsSplit] at h; subst h; simp
    | cons q rest =>
      obtain ⟨k, hp, hfit, _, _, hrest⟩ := h
      have := ih _ _ hrest
      subst hp
      simp only [List.map_cons, List.sum_cons, List.length_cons] at this ⊢
      simp only [List.length_drop] at this
      have e1 : pos + k - pos = k := by omega
      rw [e1]
      have : (rest.length + 1 + 1 - 1) * delim.length = (rest.length + 1 - 1) * delim.length + delim.length := by
        have : rest.length + 1 + 1 - 1 = (rest.length + 1 - 1) + 1 := by omega
        rw [this, Nat.add_mul]; simp
      omega

/-! ### Trimming -/

theorem takeWhile_length_le {α} (p : α → Bool) (l : List α) : (l.takeWhile p).length ≤ l.length := by
  induction l with
  | nil => simp
  | cons a as ih => simp only [List.takeWhile_cons]; split <;> simp <;> omega

/-- **trim_eq**: the result is a sub-range of the searched range (also when everything is trimmable) -/
theorem trim_within (p : Char → Bool) (text : List Char) (b e : Nat) (hbe : b ≤ e) (he : e ≤ text.length) :
    b ≤ (trimRange p text b e).1 ∧ (trimRange p text b e).1 ≤ (trimRange p text b e).2 ∧
    (trimRange p text b e).2 ≤ e := by
  simp only [trimRange]
  have hlen : ((text.drop b).take (e - b)).length = e - b := by simp; omega
  have h1 := takeWhile_length_le p ((text.drop b).take (e - b))
  have h2 := takeWhile_length_le p
    (((text.drop b).take (e - b)).drop ((text.drop b).take (e - b) |>.takeWhile p).length).reverse
  simp only [List.length_reverse, List.length_drop] at h2
  rw [hlen] at h1 h2
  omega

/-! ### Segmentation -/

/-- **segmentation_partition**: for cut positions strictly ascending and strictly inside `(cur,e)`,
the segments are consecutive, start at `cur`, end at `e`, and cut exactly at the given positions -/
theorem segmentation_partition : ∀ (cuts : List Nat) (cur e : Nat), cur < e →
    (cuts.Pairwise (· < ·)) → (∀ c ∈ cuts, cur < c ∧ c < e) →
    (segments cuts cur e).map (·.1) = cur :: cuts ∧ (segments cuts cur e).map (·.2) = cuts ++ [e] := by
  intro cuts
  induction cuts with
  | nil => intro cur e h _ _; simp [segments, h]
  | cons c cs ih =>
    intro cur e h hp hc
    have hcc := hc c (by simp)
    simp only [segments]
    have h1 : ¬ cur ≥ e := by omega
    have h2 : c > cur := hcc.1
    have h3 : ¬ c > e := by omega
    simp only [h1, h2, h3, if_true, if_false]
    rw [List.pairwise_cons] at hp
    have := ih c e hcc.2 hp.2 (fun x hx => ⟨hp.1 x hx, (hc x (by simp [hx])).2⟩)
    simp [this.1, this.2]

/-! ### Non-vacuity -/
example : findSpec 10 "ab".toList "xabyabab".toList 0 8 = [(1, 3), (4, 6), (6, 8)] := by decide
example : findSpec 10 "a".toList "aéa b".toList 1 5 = [(2, 3)] := by decide
example : splitIter 10 " ".toList "cd e".toList 3 = [(3, 5), (6, 7)] := by decide
example : trimRange (· == ' ') "  a b ".toList 0 6 = (2, 5) ∧ trimRange (· == ' ') "   ".toList 0 3 = (3, 3) := by decide
example : segments [2, 5] 0 7 = [(0, 2), (2, 5), (5, 7)] := by decide

end Stam.C07
