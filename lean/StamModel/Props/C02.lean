import StamModel.Lemmas.StoreShrink
import StamModel.Props.C01
/-
  C02 — Removal cascades exactly and never leaves dangling references.
-/
namespace Stam.C02
open Stam Stam.C01

/-- every annotation an annotation targets is live -/
def AnnTargetsLive (s : State) : Prop :=
  ∀ x a, getLive s.anns x = some a → ∀ t, Key.ann t ∈ a.fwd → (getLive s.anns t).isSome

structure WF (s : State) : Prop where
  inv : Inv s
  lt : TargetsLt s
  live : AnnTargetsLive s

theorem AnnTargetsLive.of_shrinks {s s' : State} (h : AnnTargetsLive s) (hs : Shrinks s s') : AnnTargetsLive s' := by
  intro x a' hx t ht
  obtain ⟨a, ha, _, _, hk⟩ := hs.sub x a' hx
  have hl := h x a ha t (hk _ ht)
  cases hg : getLive s'.anns t with
  | some _ => rfl
  | none => exact absurd ht (hs.clean t hl hg x a' hx)

theorem WF.of_shrinks {s s' : State} (h : WF s) (hi : Inv s') (hs : Shrinks s s') : WF s' :=
  ⟨hi, h.lt.of_sub hs.sub, h.live.of_shrinks hs⟩

theorem annotate_live (s : State) (id : Option String) (t : TargetReq) (ds : List DataReq)
    (hl : AnnTargetsLive s) : AnnTargetsLive (s.annotate id t ds).2 := by
  unfold State.annotate
  obtain ⟨t1, _⟩ := target_frame s t
  have htl := target_ann_live s t
  cases htg : s.target t with
  | mk o s1 =>
    rw [htg] at t1 htl
    have hl1 : AnnTargetsLive s1 := by intro x a hx; rw [t1] at hx ⊢; exact hl x a hx
    cases o with
    | none => exact hl1
    | some tm =>
      simp only []
      obtain ⟨d1, _⟩ := insertDataList_frame ds s1
      cases hd : s1.insertDataList ds with
      | mk o2 s2 =>
        rw [hd] at d1
        have hl2 : AnnTargetsLive s2 := by intro x a hx; rw [d1] at hx ⊢; exact hl1 x a hx
        cases o2 with
        | none => exact hl2
        | some data =>
          simp only []
          split
          · split <;> exact hl2
          · intro x a hx tt htt
            simp only [] at hx ⊢
            have keep : ∀ y, (getLive s2.anns y).isSome → (getLive (s2.anns ++ [some ⟨id, tm, data⟩]) y).isSome := by
              intro y hy
              rw [getLive_append_lt _ _ _ (isSome_lt _ _ hy)]; exact hy
            rw [getLive_append] at hx
            by_cases h1 : x < s2.anns.length
            · simp only [h1, if_true] at hx; exact keep _ (hl2 x a hx tt htt)
            · simp only [h1, if_false] at hx
              by_cases h2 : x = s2.anns.length
              · simp only [h2, if_true, Option.some.injEq] at hx
                subst hx
                simp only [AnnM.fwd, List.mem_append, List.mem_map, List.mem_flatMap] at htt
                rcases htt with ⟨p, _, hp⟩ | ⟨m, hm, hk⟩
                · cases hp
                · apply keep
                  have := htl tm rfl m hm tt hk
                  rw [d1, t1]; exact this
              · simp [h2] at hx

theorem wf_empty : WF State.empty :=
  ⟨inv_empty, by intro x a h; simp [State.empty, getLive] at h, by intro x a h; simp [State.empty, getLive] at h⟩

theorem wf_step (s : State) (op : StoreOp) (h : WF s) : WF (step s op).2 := by
  have hi := inv_step s op h.inv
  cases op with
  | addRes id len =>
    refine h.of_shrinks hi (Shrinks.of_anns_eq ?_)
    simp only [step, State.addRes]; split <;> (try split) <;> rfl
  | addSet id =>
    refine h.of_shrinks hi (Shrinks.of_anns_eq ?_)
    simp only [step, State.addSet]; split <;> (try split) <;> (try split) <;> rfl
  | addData d =>
    refine h.of_shrinks hi (Shrinks.of_anns_eq ?_)
    simp only [step, State.addData]
    have := (insertData_frame s d).1
    cases hd : s.insertData d with
    | mk o s1 => rw [hd] at this; cases o <;> exact this
  | annotate id t ds => exact ⟨hi, annotate_targetsLt s id t ds h.lt, annotate_live s id t ds h.live⟩
  | rmAnn r => exact h.of_shrinks hi (rmAnn_shrinks s r h.inv)
  | rmRes id => exact h.of_shrinks hi (rmRes_shrinks s id h.inv)
  | rmSet id => exact h.of_shrinks hi (rmSet_shrinks s id h.inv)
  | rmData set d strict => exact h.of_shrinks hi (rmData_shrinks s set d strict h.inv)
  | rmKey set key strict => exact h.of_shrinks hi (rmKey_shrinks s set key strict h.inv)

theorem wf_foldl (ops : List StoreOp) : ∀ s, WF s → WF (ops.foldl (fun s op => (step s op).2) s) := by
  induction ops with
  | nil => intro s h; exact h
  | cons op ops ih => intro s h; exact ih _ (wf_step s op h)

/-- every reachable state is well-formed: index exact, targets older, **nothing dangles** -/
theorem wf_run (ops : List StoreOp) : WF (run ops) := wf_foldl ops _ wf_empty

/-- **after every history, every annotation's annotation-targets still resolve** -/
theorem no_dangling_annotation_targets (ops : List StoreOp) :
    ∀ x a, getLive (run ops).anns x = some a → ∀ t, Key.ann t ∈ a.fwd → (getLive (run ops).anns t).isSome :=
  (wf_run ops).live

/-! ### removal succeeds whenever the item exists -/

theorem remove_annotation_ok (ops : List StoreOp) (r : Ref) (h : Nat)
    (hres : (run ops).annHandleOf r = some h) (hl : (getLive (run ops).anns h).isSome) :
    ((run ops).rmAnn r).1 = .ok "-" :=
  rmAnn_ok _ r h (wf_run ops).inv (wf_run ops).lt hres hl

theorem remove_resource_ok (ops : List StoreOp) (id : String) (rh : Nat)
    (hres : (run ops).lookupRes id = some rh) : ((run ops).rmRes id).1 = .ok "-" :=
  rmRes_ok _ id rh (wf_run ops).inv (wf_run ops).lt hres

theorem remove_dataset_ok (ops : List StoreOp) (id : String) (sh : Nat)
    (hres : (run ops).lookupSet id = some sh) : ((run ops).rmSet id).1 = .ok "-" :=
  rmSet_ok _ id sh (wf_run ops).inv (wf_run ops).lt hres

/-! ### the cascade removes exactly the dependants -/

theorem dependants_gone (s s' : State) (h : Nat) (hw : WF s) (r : Removed s s' h) :
    ∀ y, DependsOn s h y → (getLive s.anns y).isSome → getLive s'.anns y = none := by
  intro y hd
  induction hd with
  | self => intro _; exact r.gone
  | @step y t htg _ ih =>
    intro _
    obtain ⟨a, ha, hk⟩ := htg
    have ht : (getLive s.anns t).isSome := hw.live y a ha t hk
    have hgt := ih ht
    cases hg : getLive s'.anns y with
    | none => rfl
    | some a' =>
      have := r.mono y a' hg
      rw [ha] at this; cases this
      exact absurd hk (r.clean t ht hgt y a hg)

/-- **remove_exact**: removing annotation `h` from a reachable state removes `y` if and only if `y`
depends on `h` (is `h`, or targets - anywhere in its selector - something that depends on `h`),
and every survivor is left exactly as it was. -/
theorem remove_exact (s s' : State) (h : Nat) (hw : WF s) (hr : s.removeAnn s.fuel h = some s') :
    (∀ y, (getLive s.anns y).isSome → (getLive s'.anns y = none ↔ DependsOn s h y)) ∧
    (∀ x a, getLive s'.anns x = some a → getLive s.anns x = some a) := by
  have r := removeAnn_removed _ s s' h hw.inv hr
  exact ⟨fun y hy => ⟨r.dep y hy, fun hd => dependants_gone s s' h hw r y hd hy⟩, r.mono⟩

/-- every removal operation touches nothing else: a survivor refers to no more than before, and
whatever was removed is referenced by no survivor -/
theorem removal_shrinks (s : State) (op : StoreOp) (hi : Inv s)
    (hop : match op with | .rmAnn _ | .rmRes _ | .rmSet _ | .rmData .. | .rmKey .. => True | _ => False) :
    Shrinks s (step s op).2 := by
  cases op with
  | rmAnn r => exact rmAnn_shrinks s r hi
  | rmRes id => exact rmRes_shrinks s id hi
  | rmSet id => exact rmSet_shrinks s id hi
  | rmData set d strict => exact rmData_shrinks s set d strict hi
  | rmKey set key strict => exact rmKey_shrinks s set key strict hi
  | _ => cases hop

/-- in non-strict mode an annotation only loses the removed data, and survives if it has other data -/
theorem nonstrict_keeps_other_data (s : State) (sh dh ah : Nat) (a : AnnM)
    (ha : getLive s.anns ah = some a)
    (hrest : (a.data.filter (fun p => !(p.1 == sh && p.2 == dh))).isEmpty = false) :
    ∃ s', s.dropData sh dh false ah = some s' ∧
      getLive s'.anns ah = some { a with data := a.data.filter (fun p => !(p.1 == sh && p.2 == dh)) } := by
  unfold State.dropData
  rw [ha]
  simp only [hrest, Bool.false_and, Bool.false_eq_true, if_false]
  refine ⟨_, rfl, ?_⟩
  simp only []
  rw [getLive_setAt]
  simp [getLive_lt _ _ _ ha]

/-! ### Non-vacuity -/
example : ((run demo).anns.map Option.isSome) = [false, true, false] := by decide
example : (getLive (run (demo.take 4)).anns 2).isSome = true ∧ DependsOn (run (demo.take 4)) 0 2 := by
  refine ⟨by decide, ?_⟩
  exact .step ⟨⟨some "a2", .simple (.ann 0), []⟩, by decide, by decide⟩ .self

end Stam.C02
