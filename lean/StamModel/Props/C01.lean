import StamModel.Lemmas.StoreOps
/-
  C01 — Reverse lookups agree with forward references after any history.
-/
namespace Stam.C01
open Stam

/-- the operations of the history -/
inductive StoreOp where
  | addRes (id : String) (len : Nat)
  | addSet (id : String)
  | addData (d : DataReq)
  | annotate (id : Option String) (t : TargetReq) (ds : List DataReq)
  | rmAnn (r : Ref)
  | rmRes (id : String)
  | rmSet (id : String)
  | rmData (set : String) (d : Ref) (strict : Bool)
  | rmKey (set key : String) (strict : Bool)

def step (s : State) : StoreOp → Resp × State
  | .addRes id len => s.addRes id len
  | .addSet id => s.addSet id
  | .addData d => s.addData d
  | .annotate id t ds => s.annotate id t ds
  | .rmAnn r => s.rmAnn r
  | .rmRes id => s.rmRes id
  | .rmSet id => s.rmSet id
  | .rmData set d strict => s.rmData set d strict
  | .rmKey set key strict => s.rmKey set key strict

/-- the state after a history -/
def run (ops : List StoreOp) : State := ops.foldl (fun s op => (step s op).2) State.empty

theorem inv_empty : Inv State.empty := by
  constructor
  · intro k h; simp [State.empty, getLive]
  · simp [State.empty]
  · simp [State.empty, EdgesSorted]

/-- **one step**: whatever the operation and whether it succeeds or fails -/
theorem inv_step (s : State) (op : StoreOp) (hi : Inv s) : Inv (step s op).2 := by
  cases op with
  | addRes id len => exact addRes_inv s id len hi
  | addSet id => exact addSet_inv s id hi
  | addData d => exact addData_inv s d hi
  | annotate id t ds => exact annotate_inv s id t ds hi
  | rmAnn r => exact rmAnn_inv s r hi
  | rmRes id => exact rmRes_inv s id hi
  | rmSet id => exact rmSet_inv s id hi
  | rmData set d strict => exact rmData_inv s set d strict hi
  | rmKey set key strict => exact rmKey_inv s set key strict hi

theorem inv_foldl (ops : List StoreOp) : ∀ s, Inv s → Inv (ops.foldl (fun s op => (step s op).2) s) := by
  induction ops with
  | nil => intro s hi; exact hi
  | cons op ops ih => intro s hi; exact ih _ (inv_step s op hi)

/-- **every history, and every prefix of it** (a prefix is itself a history) -/
theorem inv_run (ops : List StoreOp) : Inv (run ops) := inv_foldl ops _ inv_empty

/-! ### what the invariant says about lookups -/

/-- the live annotations with their handles, in handle order -/
def liveList (s : State) : List (Nat × AnnM) :=
  (List.range s.anns.length).filterMap (fun h => (getLive s.anns h).map (fun a => (h, a)))

/-- the answer a lookup *should* give: the live annotations whose own target or data refer to `k` -/
def derived (s : State) (k : Key) : List Nat :=
  ((liveList s).filter (fun p => decide (k ∈ p.2.fwd))).map (·.1)

theorem mem_liveList (s : State) (h : Nat) (a : AnnM) : (h, a) ∈ liveList s ↔ getLive s.anns h = some a := by
  simp only [liveList, List.mem_filterMap, List.mem_range, Option.map_eq_some_iff]
  constructor
  · rintro ⟨x, _, a', ha, he⟩; cases he; exact ha
  · intro hl; exact ⟨h, getLive_lt _ _ _ hl, a, hl, rfl⟩

theorem strict_eq_of_mem_iff : ∀ (l1 l2 : List Nat), l1.Pairwise (· < ·) → l2.Pairwise (· < ·) →
    (∀ x, x ∈ l1 ↔ x ∈ l2) → l1 = l2 := by
  intro l1
  induction l1 with
  | nil =>
    intro l2 _ _ h
    cases l2 with
    | nil => rfl
    | cons y ys => have := (h y).2 (by simp); simp at this
  | cons x xs ih =>
    intro l2 h1 h2 h
    cases l2 with
    | nil => have := (h x).1 (by simp); simp at this
    | cons y ys =>
      rw [List.pairwise_cons] at h1 h2
      have hxy : x = y := by
        have hx := (h x).1 (by simp)
        have hy := (h y).2 (by simp)
        simp only [List.mem_cons] at hx hy
        rcases hx with hx | hx
        · exact hx
        · rcases hy with hy | hy
          · exact hy.symm
          · have := h1.1 y hy; have := h2.1 x hx; omega
      subst hxy
      congr 1
      apply ih ys h1.2 h2.2
      intro z
      have hz := h z
      simp only [List.mem_cons] at hz
      constructor
      · intro hzx
        have : z ≠ x := by have := h1.1 z hzx; omega
        rcases hz.1 (Or.inr hzx) with h3 | h3
        · exact absurd h3 this
        · exact h3
      · intro hzy
        have : z ≠ x := by have := h2.1 z hzy; omega
        rcases hz.2 (Or.inr hzy) with h3 | h3
        · exact absurd h3 this
        · exact h3

theorem lookup_strict (s : State) (hi : Inv s) (k : Key) : (s.lookup k).Pairwise (· < ·) := by
  unfold State.lookup
  rw [List.pairwise_map, List.pairwise_filter]
  have := hi.sorted.and hi.nodup
  refine this.imp ?_
  intro e1 e2 ⟨h1, h2⟩ hk1 hk2
  simp only [beq_iff_eq] at hk1 hk2
  have : e1.2 ≠ e2.2 := by
    intro hc; apply h2; cases e1; cases e2; simp_all
  omega

theorem derived_strict (s : State) (k : Key) : (derived s k).Pairwise (· < ·) := by
  unfold derived
  rw [List.pairwise_map]
  apply List.Pairwise.filter
  unfold liveList
  apply List.Pairwise.filterMap _ _ List.pairwise_lt_range
  intro a a' hlt b hb b' hb'
  simp only [Option.map_eq_some_iff] at hb hb'
  obtain ⟨_, _, rfl⟩ := hb
  obtain ⟨_, _, rfl⟩ := hb'
  exact hlt

/-- **reverse lookups are exact**: for every item, in every reachable state, the index answers with
exactly the live annotations whose own target or data refer to it - none missing, none extra, none
twice - in chronological order -/
theorem lookup_exact (s : State) (hi : Inv s) (k : Key) : s.lookup k = derived s k := by
  apply strict_eq_of_mem_iff _ _ (lookup_strict s hi k) (derived_strict s k)
  intro x
  rw [mem_lookup, hi.mem]
  simp only [derived, List.mem_map, List.mem_filter, decide_eq_true_eq]
  constructor
  · rintro ⟨a, ha, hk⟩; exact ⟨(x, a), ⟨(mem_liveList s x a).2 ha, hk⟩, rfl⟩
  · rintro ⟨p, ⟨hp, hk⟩, rfl⟩; exact ⟨p.2, (mem_liveList s p.1 p.2).1 hp, hk⟩

theorem lookup_exact_run (ops : List StoreOp) (k : Key) : (run ops).lookup k = derived (run ops) k :=
  lookup_exact _ (inv_run ops) k

/-- none twice -/
theorem lookup_nodup (ops : List StoreOp) (k : Key) : ((run ops).lookup k).Nodup :=
  (lookup_strict _ (inv_run ops) k).imp (fun h => Nat.ne_of_lt h)

/-- the total size of the index is the number of (annotation, distinct forward reference) pairs:
nothing stale is left behind by any removal -/
theorem edges_only_live (ops : List StoreOp) : ∀ e ∈ (run ops).edges,
    ∃ a, getLive (run ops).anns e.2 = some a ∧ e.1 ∈ a.fwd :=
  fun e he => ((inv_run ops).mem e.1 e.2).1 he

/-- asking an annotation for its targets returns exactly what it was built with: building an
annotation stores the resolved target and data unchanged under the new handle -/
theorem annotate_stores (s : State) (id : Option String) (t : TargetReq) (ds : List DataReq) (h : Nat)
    (hnew : h = (s.annotate id t ds).2.anns.length - 1)
    (hgrow : (s.annotate id t ds).2.anns.length = s.anns.length + 1) :
    ∃ tm data, (s.target t).1 = some tm ∧ ((s.target t).2.insertDataList ds).1 = some data ∧
      getLive (s.annotate id t ds).2.anns h = some ⟨id, tm, data⟩ := by
  unfold State.annotate at hgrow hnew ⊢
  obtain ⟨t1, _⟩ := target_frame s t
  cases ht : s.target t with
  | mk o s1 =>
    rw [ht] at t1 hgrow hnew
    cases o with
    | none => simp only [] at hgrow; rw [t1] at hgrow; omega
    | some tm =>
      simp only [] at hgrow hnew ⊢
      obtain ⟨d1, _⟩ := insertDataList_frame ds s1
      cases hd : s1.insertDataList ds with
      | mk o2 s2 =>
        rw [hd] at d1 hgrow hnew
        cases o2 with
        | none => simp only [] at hgrow; rw [d1, t1] at hgrow; omega
        | some data =>
          simp only [] at hgrow hnew ⊢
          refine ⟨tm, data, rfl, rfl, ?_⟩
          split at hgrow
          · split at hgrow <;> (rw [d1, t1] at hgrow; omega)
          · rename_i hex
            simp only [hex] at hnew ⊢
            simp only [List.length_append, List.length_singleton, Nat.add_sub_cancel] at hnew
            subst hnew
            exact getLive_append_last _ _

/-! ### Non-vacuity: a concrete history with a cascade, shared data and a complex selector -/
def demo : List StoreOp := [
  .addRes "r" 10,
  .annotate (some "a0") (.simple (.text "r" ⟨.b 0, .b 4⟩)) [⟨"s", some "k", some "s:v", none⟩],
  .annotate (some "a1") (.complex .multi [.text "r" ⟨.b 5, .b 7⟩, .text "r" ⟨.b 0, .b 4⟩]) [⟨"s", some "k", some "s:v", none⟩],
  .annotate (some "a2") (.simple (.ann (.id "a0"))) [],
  .rmAnn (.id "a0")]

example : (run demo).lookup (.tsel 0 0) = [1] ∧ (run demo).lookup (.data 0 0) = [1] ∧
    (run demo).lookup (.ann 0) = [] ∧ (run (demo.take 4)).lookup (.tsel 0 0) = [0, 1] ∧
    (run (demo.take 4)).lookup (.ann 0) = [2] := by decide

end Stam.C01
