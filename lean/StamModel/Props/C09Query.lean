import StamModel.Lemmas.StamqlQ3
/-
  C09 — printing a SELECT query and parsing it again gives the same query (the query layer).

  Proved here, about `StamModel/StamqlQ.lean` (`Query::parse` → `parse_select` → `Constraint::parse`* → `parse_subqueries`,
  and `Query::to_string`), on top of the constraint layer (Props/C09Constraints.lean):
   * `query_roundtrip` — for every SELECT query (OPTIONAL or not, any of the six result types, with or without a name,
     any number of constraints, sub-queries nested to any depth and any number of them side by side) whose names can be
     written (`NameOk`: no white space, not ending in `;`) and whose constraints are printable (`CnPrintable`, the
     hypothesis of `constraint_roundtrip`), `parseQuery (printQ q) = (q, "")`: the same query, the whole text consumed;
   * `parseQuery` is `Query::parse` with the fuel `length + 1`: the theorem includes that this fuel suffices;
   * the hypothesis on names is needed: `name_with_nbsp_is_misread`.
-/
namespace Stam.QL.C09Q
open Stam.QL Stam.QL.C09

/-- the external functions as one record -/
def ext (parseI : Str → Option Int) (parseF : Str → Bool) (isDt : Str → Bool) (regexOk : Str → Bool) : Ext :=
  { parseI := parseI, parseF := parseF, isDt := isDt, regexOk := regexOk, parseNat := fun _ => none }

/-- a text that begins with a letter of the first five keywords is handed to their parser -/
theorem parseCnAll_old (parseI : Str → Option Int) (parseF : Str → Bool) (isDt : Str → Bool) (regexOk : Str → Bool)
    (parseNat : Str → Option Nat) (c0 : Char) (r0 : Str) (hc : c0 = 'I' ∨ c0 = 'D' ∨ c0 = 'S' ∨ c0 = 'T') (hn : NoTrailWs (c0 :: r0)) :
    parseCnAll parseI parseF isDt regexOk parseNat (c0 :: r0) = parseCn parseI parseF isDt regexOk (c0 :: r0) := by
  have hws : isWs c0 = false := by rcases hc with rfl | rfl | rfl | rfl <;> decide
  have ht : trim (c0 :: r0) = c0 :: r0 := trim_id c0 r0 hws hn
  unfold parseCnAll
  simp only [ht]
  have hw : ∀ kw : Str, kw.head? ≠ some c0 → firstWord (c0 :: r0) ≠ kw := by
    intro kw hk heq
    have hs : isSplit c0 = false := by rcases hc with rfl | rfl | rfl | rfl <;> decide
    rw [← heq] at hk
    simp [firstWord, List.takeWhile, hs] at hk
  have hat : (c0 :: r0).head? ≠ some '@' := by rcases hc with rfl | rfl | rfl | rfl <;> simp
  rw [if_neg hat]
  have hm : parseCnMore parseI parseF isDt parseNat (firstWord (c0 :: r0)) (c0 :: r0) = none := by
    unfold parseCnMore
    rw [if_neg (hw kANNOTATION (by rcases hc with rfl | rfl | rfl | rfl <;> decide)),
      if_neg (hw kRESOURCE (by rcases hc with rfl | rfl | rfl | rfl <;> decide)),
      if_neg (hw kRELATION (by rcases hc with rfl | rfl | rfl | rfl <;> decide)),
      if_neg (hw kVALUE (by rcases hc with rfl | rfl | rfl | rfl <;> decide)),
      if_neg (hw kKEY (by rcases hc with rfl | rfl | rfl | rfl <;> decide)),
      if_neg (hw kLIMIT (by rcases hc with rfl | rfl | rfl | rfl <;> decide))]
  rw [hm]

/-! ### printed constraints: shape -/

theorem last_semi (a : Str) : (a ++ [';']).getLast? = some ';' := by simp

/-- every printed constraint of the modelled kinds begins with a letter of its keyword and ends with `;` -/
theorem printCn_shape (showI : Int → Str) (parseI : Str → Option Int) (parseF : Str → Bool) (isDt : Str → Bool) (regexOk : Str → Bool)
    (c : Cn) (t : Str) (hp : CnPrintable showI parseI parseF isDt regexOk c) (h : printCn showI c = some t) :
    ∃ c0, t.head? = some c0 ∧ (c0 = 'I' ∨ c0 = 'D' ∨ c0 = 'S' ∨ c0 = 'T') ∧ t.getLast? = some ';' := by
  cases c with
  | id s => simp only [printCn, Option.some.injEq] at h; subst h; exact ⟨'I', rfl, Or.inl rfl, last_semi _⟩
  | dataset s q => simp only [printCn, Option.some.injEq] at h; subst h; exact ⟨'D', rfl, Or.inr (Or.inl rfl), last_semi _⟩
  | substore s =>
    cases s with
    | none => simp only [printCn, Option.some.injEq] at h; subst h; exact ⟨'S', rfl, Or.inr (Or.inr (Or.inl rfl)), last_semi _⟩
    | some s => simp only [printCn, Option.some.injEq] at h; subst h; exact ⟨'S', rfl, Or.inr (Or.inr (Or.inl rfl)), last_semi _⟩
  | text s nocase =>
    cases nocase with
    | false => simp only [printCn, Option.some.injEq] at h; subst h; exact ⟨'T', rfl, Or.inr (Or.inr (Or.inr rfl)), last_semi _⟩
    | true => simp only [printCn, Option.some.injEq] at h; subst h; exact ⟨'T', rfl, Or.inr (Or.inr (Or.inr rfl)), last_semi _⟩
  | regex s => simp only [printCn, Option.some.injEq] at h; subst h; exact ⟨'T', rfl, Or.inr (Or.inr (Or.inr rfl)), last_semi _⟩
  | dataKey set key q => simp only [printCn, Option.some.injEq] at h; subst h; exact ⟨'D', rfl, Or.inr (Or.inl rfl), last_semi _⟩
  | keyValue set key o q =>
    simp only [printCn, Option.map_eq_some_iff] at h
    obtain ⟨r, _, rfl⟩ := h
    exact ⟨'D', rfl, Or.inr (Or.inl rfl), last_semi _⟩
  | datasetVar v q => simp [printCn] at h
  | substoreVar v => simp [printCn] at h
  | textVar v => simp [printCn] at h
  | dataVar v q => simp [printCn] at h
  | keyValueVar v o q => simp [printCn] at h
  | annotationVar v q r off => simp [printCn] at h
  | resourceVar v q off => simp [printCn] at h
  | keyVar v q => simp [printCn] at h
  | annotation s q r off => exact absurd hp (by simp [CnPrintable])
  | resource s q off => exact absurd hp (by simp [CnPrintable])
  | relation v op => exact absurd hp (by simp [CnPrintable])
  | value o q => exact absurd hp (by simp [CnPrintable])
  | limit b e => exact absurd hp (by simp [CnPrintable])

theorem cons_of_head {α} (t : List α) (c : α) (h : t.head? = some c) : ∃ r, t = c :: r := by
  cases t with
  | nil => simp at h
  | cons a r => simp at h; subst h; exact ⟨r, rfl⟩

theorem printCn_some (showI : Int → Str) (parseI : Str → Option Int) (parseF : Str → Bool) (isDt : Str → Bool) (regexOk : Str → Bool)
    (c : Cn) (hp : CnPrintable showI parseI parseF isDt regexOk c) : ∃ t, printCn showI c = some t := by
  cases c with
  | keyValue set key o q =>
    obtain ⟨_, _, _, _, _, hpo, _⟩ := hp
    obtain ⟨op, v, qd, hpr, _⟩ := print_parse_op showI parseI parseF isDt o hpo
    simp only [printCn, renderOp, hpr, Option.map_some]
    exact ⟨_, rfl⟩
  | substore s => cases s <;> exact ⟨_, rfl⟩
  | text s nocase => cases nocase <;> exact ⟨_, rfl⟩
  | id s => exact ⟨_, rfl⟩
  | dataset s q => exact ⟨_, rfl⟩
  | regex s => exact ⟨_, rfl⟩
  | dataKey set key q => exact ⟨_, rfl⟩
  | datasetVar v q => exact absurd hp (by simp [CnPrintable])
  | substoreVar v => exact absurd hp (by simp [CnPrintable])
  | textVar v => exact absurd hp (by simp [CnPrintable])
  | dataVar v q => exact absurd hp (by simp [CnPrintable])
  | keyValueVar v o q => exact absurd hp (by simp [CnPrintable])
  | annotation s q r off => exact absurd hp (by simp [CnPrintable])
  | annotationVar v q r off => exact absurd hp (by simp [CnPrintable])
  | resource s q off => exact absurd hp (by simp [CnPrintable])
  | resourceVar v q off => exact absurd hp (by simp [CnPrintable])
  | relation v op => exact absurd hp (by simp [CnPrintable])
  | value o q => exact absurd hp (by simp [CnPrintable])
  | keyVar v q => exact absurd hp (by simp [CnPrintable])
  | limit b e => exact absurd hp (by simp [CnPrintable])

/-- a printable constraint is read back from its printed text whatever follows (`constraint_roundtrip`), and that text
has the shape the constraint loop relies on -/
theorem cnGood_of_printable (showI : Int → Str) (parseI : Str → Option Int) (parseF : Str → Bool) (isDt : Str → Bool) (regexOk : Str → Bool)
    (c : Cn) (hp : CnPrintable showI parseI parseF isDt regexOk c) :
    ∃ t, CnGood (ext parseI parseF isDt regexOk) showI c t := by
  obtain ⟨t, ht⟩ := printCn_some showI parseI parseF isDt regexOk c hp
  obtain ⟨c0, hhead, hc0, hlast⟩ := printCn_shape showI parseI parseF isDt regexOk c t hp ht
  obtain ⟨r0, hr0⟩ := cons_of_head t c0 hhead
  refine ⟨t, ht, ?_, ⟨c0, r0, hr0, ?_, ?_⟩, ?_⟩
  · intro x hx
    rw [hlast] at hx
    simp only [Option.some.injEq] at hx
    subst hx
    decide
  · rcases hc0 with rfl | rfl | rfl | rfl <;> decide
  · rcases hc0 with rfl | rfl | rfl | rfl <;> decide
  · intro rest hr
    have hrt := constraint_roundtrip showI parseI parseF isDt regexOk c t rest hp ht hr
    have hnt : NoTrailWs (c0 :: (r0 ++ rest)) := by
      by_cases he : rest = []
      · subst he
        rw [List.append_nil, ← hr0]
        intro x hx; rw [hlast] at hx; simp only [Option.some.injEq] at hx; subst hx; decide
      · have := noTrail_suffix (c0 :: r0) rest he hr
        simpa using this
    unfold Ext.cn ext
    simp only []
    rw [hr0, List.cons_append, parseCnAll_old parseI parseF isDt regexOk _ c0 (r0 ++ rest) hc0 hnt]
    rw [hr0, List.cons_append] at hrt
    exact hrt

/-! ### printable queries -/

mutual
/-- names that can be written and printable constraints, at every level -/
def QPrintable (showI : Int → Str) (parseI : Str → Option Int) (parseF : Str → Bool) (isDt : Str → Bool) (regexOk : Str → Bool) : Q → Prop
  | .mk _ _ name cs subs => (∀ n, name = some n → NameOk n) ∧ (∀ c ∈ cs, CnPrintable showI parseI parseF isDt regexOk c) ∧
      QsPrintable showI parseI parseF isDt regexOk subs
def QsPrintable (showI : Int → Str) (parseI : Str → Option Int) (parseF : Str → Bool) (isDt : Str → Bool) (regexOk : Str → Bool) : List Q → Prop
  | [] => True
  | q :: r => QPrintable showI parseI parseF isDt regexOk q ∧ QsPrintable showI parseI parseF isDt regexOk r
end

mutual
theorem okq_of_printable (showI : Int → Str) (parseI : Str → Option Int) (parseF : Str → Bool) (isDt : Str → Bool) (regexOk : Str → Bool) :
    ∀ q : Q, QPrintable showI parseI parseF isDt regexOk q → OKQ (ext parseI parseF isDt regexOk) showI q
  | .mk _ _ name cs subs, h => by
    unfold QPrintable at h
    unfold OKQ
    exact ⟨h.1, fun c hc => cnGood_of_printable showI parseI parseF isDt regexOk c (h.2.1 c hc),
      okqs_of_printable showI parseI parseF isDt regexOk subs h.2.2⟩
theorem okqs_of_printable (showI : Int → Str) (parseI : Str → Option Int) (parseF : Str → Bool) (isDt : Str → Bool) (regexOk : Str → Bool) :
    ∀ l : List Q, QsPrintable showI parseI parseF isDt regexOk l → OKQs (ext parseI parseF isDt regexOk) showI l
  | [], _ => by unfold OKQs; trivial
  | q :: r, h => by
    unfold QsPrintable at h
    unfold OKQs
    exact ⟨okq_of_printable showI parseI parseF isDt regexOk q h.1, okqs_of_printable showI parseI parseF isDt regexOk r h.2⟩
end

/-! ### the fuel -/

mutual
theorem wQ_le (showI : Int → Str) : ∀ (q : Q) (c : Str), coreQ showI q = some c → wQ q + 6 ≤ c.length
  | .mk optional ty name cs subs, c, h => by
    unfold coreQ at h
    split at h
    next ts st hts hst =>
      simp only [Option.some.injEq] at h
      subst h
      have hw := wL_le showI subs st hst
      unfold wQ
      have hhead : 7 ≤ (headText optional ty name).length := by
        simp only [headText, List.length_append, kSELECT, List.length_cons, List.length_nil]
        omega
      cases subs with
      | nil => simp only [wL] at *; simp only [List.length_append]; omega
      | cons q r =>
        simp only [subsCore, List.isEmpty_cons, Bool.false_eq_true, ↓reduceIte, List.length_append, List.length_cons, List.length_nil]
        omega
    next => simp at h
theorem wL_le (showI : Int → Str) : ∀ (l : List Q) (st : Str), coreSubs showI l = some st → wL l ≤ st.length + 1
  | [], _, _ => by simp [wL]
  | q :: r, st, h => by
    unfold coreSubs at h
    split at h
    next c s hc hs =>
      simp only [Option.some.injEq] at h
      subst h
      have h1 := wQ_le showI q c hc
      have h2 := wL_le showI r s hs
      unfold wL
      cases r with
      | nil => simp only [wL, List.isEmpty_nil, ↓reduceIte] at *; omega
      | cons a b =>
        simp only [List.isEmpty_cons, Bool.false_eq_true, ↓reduceIte, List.length_append, List.length_cons]
        omega
    next => simp at h
end

/-! ### the whole query -/

theorem trimEnd_ws_suffix (c w : Str) (hc : NoTrailWs c) (hw : ∀ x ∈ w, isWs x = true) : trimEnd (c ++ w) = c := by
  unfold trimEnd
  rw [List.reverse_append, trimStart_ws_append _ _ (by intro x hx; exact hw x (List.mem_reverse.mp hx))]
  have := trimEnd_of_last c hc
  unfold trimEnd at this
  exact this

/-- **C09 (query fixpoint).** A SELECT query with writable names and printable constraints, printed by `to_string`, is
parsed back by `Query::parse` as the same query, and the whole text is consumed. -/
theorem query_roundtrip (showI : Int → Str) (parseI : Str → Option Int) (parseF : Str → Bool) (isDt : Str → Bool) (regexOk : Str → Bool)
    (q : Q) (t : Str) (hq : QPrintable showI parseI parseF isDt regexOk q) (hp : printQ showI q = some t) :
    parseQuery (ext parseI parseF isDt regexOk) t = .ok (q, []) := by
  have hok := okq_of_printable showI parseI parseF isDt regexOk q hq
  obtain ⟨c, hc, ht, hnt⟩ := print_core (ext parseI parseF isDt regexOk) showI q t hok hp
  obtain ⟨y, hy⟩ := coreQ_starts showI q c hc
  have htrim : trim t = c := by
    unfold trim
    rw [ht, hy, show kSELECT ++ ' ' :: y ++ tailOf q = 'S' :: (kSELECT.tail ++ ' ' :: y ++ tailOf q) from rfl,
      trimStart_cons_nonws 'S' _ (by decide),
      show 'S' :: (kSELECT.tail ++ ' ' :: y ++ tailOf q) = (kSELECT ++ ' ' :: y) ++ tailOf q from rfl, ← hy]
    exact trimEnd_ws_suffix c (tailOf q) hnt (tailOf_ws q)
  unfold parseQuery
  simp only [htrim]
  have hh : c.head? ≠ some '@' := by rw [hy]; simp [kSELECT]
  have hw : firstWord c = kSELECT := by rw [hy]; exact firstWord_append _ _ word_kSELECT (splitStart_space _)
  rw [if_neg hh, hw, if_pos rfl]
  have := select_rt (ext parseI parseF isDt regexOk) showI q c hok hc [] (c.length + 1) goodRest_nil (by have := wQ_le showI q c hc; omega)
  simpa [trimStart] using this

/-! ### non-vacuity and sharpness -/

/-- a query with a name, two constraints and two levels of sub-queries -/
def sample : Q :=
  .mk false .annotation (some ['a']) [.id ['x'], .text ['h', 'i'] true]
    [.mk true .text none [.dataKey ['s'] ['k'] .normal] [.mk false .data (some []) [] []], .mk false .resource (some ['r']) [] []]

/-- it meets the hypotheses -/
example : QPrintable (fun _ => ['7']) (fun _ => some 7) (fun _ => false) (fun _ => false) (fun _ => true) sample := by
  simp (config := { decide := true }) [sample, QPrintable, QsPrintable, CnPrintable, NameOk, C09.Q, isVar, startsWith, kAS, kRECURSIVE]

/-- and it is printed -/
example : (printQ (fun _ => ['7']) sample).isSome = true := by
  simp [sample, printQ, printSubs, cnLines, optAll, printCn]

set_option maxRecDepth 20000 in
/-- the hypothesis on names is needed: a name that ends in a no-break space is printed as it is, and the parser's
`trim()` removes the space: the query that comes back has another name -/
theorem name_with_nbsp_is_misread :
    (match printQ (fun _ => []) (.mk false .annotation (some ['a', '\u00a0']) [] []) with
     | some t =>
       (match parseQuery (ext (fun _ => none) (fun _ => false) (fun _ => false) (fun _ => true)) t with
        | .ok (.mk _ _ (some n) _ _, _) => n == ['a']
        | _ => false)
     | none => false) = true := by decide

end Stam.QL.C09Q
