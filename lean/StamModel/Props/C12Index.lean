import StamModel.PosIndex
import StamModel.Props.C12
import StamModel.Lemmas.Handles
/-
  C12 — the position index as the code builds it (PosIndex.lean):

   * every index reached by milestones (of any intervals, at any time) and insertions of text selections is right in the
     sense Props/C12 assumes (`IdxWF`): so the conversions proved exact there are exact on every index the library can
     hold (`reachable_idxWF`, `conversion_exact_on_reachable`);
   * the positions in use, `position()` and `known_textselection()` are those of the text selections inserted — the
     milestones, whatever their interval and whenever they are made, change none of it (`positions_are_the_selections`,
     `milestones_change_no_answer`).
-/
namespace Stam.PI
open Stam Stam.C12 Stam.Coll

def keys (m : Index) : List Nat := m.map (·.1)

/-- ascending keys -/
def Asc (m : Index) : Prop := (keys m).Pairwise (· < ·)

theorem asc_cons (k : Nat) (v : Item) (r : Index) : Asc ((k, v) :: r) ↔ (∀ x ∈ keys r, k < x) ∧ Asc r := by
  simp only [Asc, keys, List.map_cons, List.pairwise_cons]

theorem keys_cons (k : Nat) (v : Item) (r : Index) : keys ((k, v) :: r) = k :: keys r := rfl

theorem lookup_none_of_lt (m : Index) (k : Nat) (h : ∀ x ∈ keys m, k < x) : lookup m k = none := by
  induction m with
  | nil => rfl
  | cons a r ih =>
    obtain ⟨k0, v⟩ := a
    have h0 : k < k0 := h k0 (by simp [keys])
    have : ¬ k0 = k := by omega
    simp only [lookup, this, if_false]
    exact ih (fun x hx => h x (by simp only [keys_cons, List.mem_cons]; exact Or.inr hx))

theorem mem_keys_upsert (m : Index) (k : Nat) (f : Option Item → Item) (x : Nat) :
    x ∈ keys (upsert m k f) ↔ x = k ∨ x ∈ keys m := by
  induction m with
  | nil => simp [upsert, keys]
  | cons a r ih =>
    obtain ⟨k0, v⟩ := a
    simp only [upsert]
    by_cases c1 : k < k0
    · simp [c1, keys]
    · by_cases c2 : k = k0
      · subst c2; simp [keys]
      · simp only [c1, c2, if_false, keys_cons, List.mem_cons, ih]
        constructor
        · rintro (h | h | h)
          · exact Or.inr (Or.inl h)
          · exact Or.inl h
          · exact Or.inr (Or.inr h)
        · rintro (h | h | h)
          · exact Or.inr (Or.inl h)
          · exact Or.inl h
          · exact Or.inr (Or.inr h)

theorem asc_upsert (m : Index) (k : Nat) (f : Option Item → Item) (hs : Asc m) : Asc (upsert m k f) := by
  induction m with
  | nil => simp [upsert, Asc, keys]
  | cons a r ih =>
    obtain ⟨k0, v⟩ := a
    rw [asc_cons] at hs
    simp only [upsert]
    by_cases c1 : k < k0
    · simp only [c1, if_true]
      rw [asc_cons, asc_cons]
      refine ⟨?_, hs⟩
      intro x hx
      simp only [keys_cons, List.mem_cons] at hx
      rcases hx with rfl | hx
      · exact c1
      · have := hs.1 x hx; omega
    · by_cases c2 : k = k0
      · subst c2
        simp only [c1, if_false, if_true]
        rw [asc_cons]; exact hs
      · simp only [c1, c2, if_false]
        rw [asc_cons]
        refine ⟨?_, ih hs.2⟩
        intro x hx
        rcases (mem_keys_upsert r k f x).mp hx with rfl | hx'
        · omega
        · exact hs.1 x hx'

theorem lookup_upsert (m : Index) (k k' : Nat) (f : Option Item → Item) (hs : Asc m) :
    lookup (upsert m k f) k' = if k' = k then some (f (lookup m k)) else lookup m k' := by
  induction m with
  | nil =>
    by_cases c : k' = k
    · subst c; simp [upsert, lookup]
    · have : ¬ k = k' := fun h => c h.symm
      simp [upsert, lookup, c, this]
  | cons a r ih =>
    obtain ⟨k0, v⟩ := a
    rw [asc_cons] at hs
    have ihr := ih hs.2
    simp only [upsert]
    by_cases c1 : k < k0
    · have hnone : lookup ((k0, v) :: r) k = none := by
        apply lookup_none_of_lt
        intro x hx
        simp only [keys_cons, List.mem_cons] at hx
        rcases hx with rfl | hx
        · exact c1
        · have := hs.1 x hx; omega
      simp only [c1, if_true, hnone]
      by_cases c : k' = k
      · subst c; simp [lookup]
      · have : ¬ k = k' := fun h => c h.symm
        simp [lookup, c, this]
    · by_cases c2 : k = k0
      · subst c2
        simp only [c1, if_false, if_true]
        by_cases c : k' = k
        · subst c; simp [lookup]
        · have : ¬ k = k' := fun h => c h.symm
          simp [lookup, c, this]
      · simp only [c1, c2, if_false]
        have c2' : ¬ k0 = k := fun h => c2 h.symm
        by_cases c : k' = k
        · subst c
          simp only [lookup, c2', if_false, if_true] at ihr ⊢
          exact ihr
        · simp only [c, if_false] at ihr ⊢
          by_cases c3 : k0 = k'
          · simp [lookup, c3]
          · simp only [lookup, c3, if_false]; exact ihr

theorem mem_of_lookup (m : Index) (k : Nat) (it : Item) (h : lookup m k = some it) : (k, it) ∈ m := by
  induction m with
  | nil => simp [lookup] at h
  | cons a r ih =>
    obtain ⟨k0, v⟩ := a
    simp only [lookup] at h
    split at h
    · rename_i c; cases h; subst c; simp
    · exact List.mem_cons_of_mem _ (ih h)

theorem lookup_of_mem (m : Index) (k : Nat) (it : Item) (hs : Asc m) (h : (k, it) ∈ m) : lookup m k = some it := by
  induction m with
  | nil => simp at h
  | cons a r ih =>
    obtain ⟨k0, v⟩ := a
    rw [asc_cons] at hs
    rcases List.mem_cons.mp h with heq | hr
    · cases heq; simp [lookup]
    · have hk : k0 < k := hs.1 k (List.mem_map_of_mem (f := (·.1)) hr)
      have : ¬ k0 = k := by omega
      simp only [lookup, this, if_false]
      exact ih hs.2 hr

/-! ### what holds of every index the code builds -/

abbrev Sel := Nat × Nat × Nat     -- (begin, end, handle)

structure Inv (ws : List Nat) (sels : List Sel) (m : Index) : Prop where
  asc : Asc m
  /-- every entry lies in the text and carries the byte position of its code point -/
  entries : ∀ k it, (k, it) ∈ m → k ≤ ws.length ∧ it.bytepos = prefixB ws k
  /-- an entry lists exactly the text selections that begin / end at it -/
  content : ∀ k it, lookup m k = some it →
    (∀ p, p ∈ it.b2e ↔ (k, p.1, p.2) ∈ sels) ∧ (∀ p, p ∈ it.e2b ↔ (p.1, k, p.2) ∈ sels)
  /-- both ends of every text selection have an entry -/
  present : ∀ b e h, (b, e, h) ∈ sels → (lookup m b).isSome ∧ (lookup m e).isSome

theorem inv_empty (ws : List Nat) : Inv ws [] [] :=
  ⟨by simp [Asc, keys], by intro k it h; simp at h, by intro k it h; simp [lookup] at h, by intro b e h hm; simp at hm⟩

theorem idxWF_of_inv (ws : List Nat) (sels : List Sel) (m : Index) (h : Inv ws sels m) : IdxWF (proj m) ws := by
  intro e he
  simp only [proj, List.mem_map] at he
  obtain ⟨x, hx, rfl⟩ := he
  exact h.entries x.1 x.2 hx

theorem mem_upsert (m : Index) (k : Nat) (f : Option Item → Item) (hs : Asc m) (k' : Nat) (it : Item)
    (h : (k', it) ∈ upsert m k f) : (k' = k ∧ it = f (lookup m k)) ∨ ((k', it) ∈ m ∧ k' ≠ k) := by
  have hl := lookup_of_mem _ k' it (asc_upsert m k f hs) h
  rw [lookup_upsert m k k' f hs] at hl
  by_cases c : k' = k
  · simp only [c, if_true, Option.some.injEq] at hl
    exact Or.inl ⟨c, hl.symm⟩
  · simp only [c, if_false] at hl
    exact Or.inr ⟨mem_of_lookup m k' it hl, c⟩

/-- a milestone keeps everything: an entry that is there stays as it is, a new one lists nothing — and nothing begins
or ends there, or there would have been an entry -/
theorem inv_milestone (ws : List Nat) (sels : List Sel) (m : Index) (c : Nat) (hc : c ≤ ws.length) (h : Inv ws sels m) :
    Inv ws sels (upsert m c (fun o => o.getD ⟨prefixB ws c, [], []⟩)) := by
  refine ⟨asc_upsert _ _ _ h.asc, ?_, ?_, ?_⟩
  · intro k it hm
    rcases mem_upsert m c _ h.asc k it hm with ⟨rfl, rfl⟩ | ⟨hm', _⟩
    · cases hl : lookup m k with
      | none => exact ⟨hc, rfl⟩
      | some old => exact h.entries k old (mem_of_lookup m k old hl)
    · exact h.entries k it hm'
  · intro k it hl
    rw [lookup_upsert m c k _ h.asc] at hl
    by_cases ck : k = c
    · subst ck
      simp only [if_true, Option.some.injEq] at hl
      cases ho : lookup m k with
      | some old => rw [ho] at hl; simp only [Option.getD_some] at hl; subst hl; exact h.content k old ho
      | none =>
        rw [ho] at hl; simp only [Option.getD_none] at hl; subst hl
        refine ⟨fun p => ?_, fun p => ?_⟩
        · simp only [List.not_mem_nil, false_iff]
          intro hm; have := (h.present k p.1 p.2 hm).1; simp [ho] at this
        · simp only [List.not_mem_nil, false_iff]
          intro hm; have := (h.present p.1 k p.2 hm).2; simp [ho] at this
    · simp only [ck, if_false] at hl; exact h.content k it hl
  · intro b e hh hm
    obtain ⟨p1, p2⟩ := h.present b e hh hm
    rw [lookup_upsert m c b _ h.asc, lookup_upsert m c e _ h.asc]
    refine ⟨?_, ?_⟩
    · by_cases cb : b = c <;> simp [cb, p1]
    · by_cases ce : e = c <;> simp [ce, p2]

theorem inv_milestones (ws : List Nat) (sels : List Sel) (interval : Nat) (m : Index) (h : Inv ws sels m) :
    Inv ws sels (milestones ws interval m) := by
  unfold milestones
  have : ∀ (l : List Nat) (m : Index), (∀ c ∈ l, c ≤ ws.length) → Inv ws sels m →
      Inv ws sels (l.foldl (fun m c => if 0 < c ∧ c % interval = 0 then upsert m c (fun o => o.getD ⟨prefixB ws c, [], []⟩) else m) m) := by
    intro l
    induction l with
    | nil => intro m _ hm; exact hm
    | cons c r ih =>
      intro m hl hm
      simp only [List.foldl_cons]
      apply ih _ (fun x hx => hl x (List.mem_cons_of_mem _ hx))
      split
      · exact inv_milestone ws sels m c (hl c (List.mem_cons_self ..)) hm
      · exact hm
  exact this _ m (by intro c hc; have := List.mem_range.mp hc; omega) h

theorem mem_addB2e (e h bp : Nat) (o : Option Item) (p : Nat × Nat) :
    p ∈ (addB2e e h bp o).b2e ↔ p = (e, h) ∨ ∃ it, o = some it ∧ p ∈ it.b2e := by
  cases o with
  | none => simp [addB2e]
  | some it =>
    simp only [addB2e]
    split
    · rename_i hc
      constructor
      · intro hp; exact Or.inr ⟨it, rfl, hp⟩
      · rintro (rfl | ⟨it', hit, hp⟩)
        · simpa using hc
        · cases hit; exact hp
    · simp only [List.mem_append, List.mem_singleton]
      constructor
      · rintro (hp | rfl)
        · exact Or.inr ⟨it, rfl, hp⟩
        · exact Or.inl rfl
      · rintro (rfl | ⟨it', hit, hp⟩)
        · exact Or.inr rfl
        · cases hit; exact Or.inl hp

theorem e2b_addB2e (e h bp : Nat) (o : Option Item) (p : Nat × Nat) :
    p ∈ (addB2e e h bp o).e2b ↔ ∃ it, o = some it ∧ p ∈ it.e2b := by
  cases o with
  | none => simp [addB2e]
  | some it => simp only [addB2e]; split <;> simp

theorem mem_addE2b (b h bp : Nat) (o : Option Item) (p : Nat × Nat) :
    p ∈ (addE2b b h bp o).e2b ↔ p = (b, h) ∨ ∃ it, o = some it ∧ p ∈ it.e2b := by
  cases o with
  | none => simp [addE2b]
  | some it =>
    simp only [addE2b]
    split
    · rename_i hc
      constructor
      · intro hp; exact Or.inr ⟨it, rfl, hp⟩
      · rintro (rfl | ⟨it', hit, hp⟩)
        · simpa using hc
        · cases hit; exact hp
    · simp only [List.mem_append, List.mem_singleton]
      constructor
      · rintro (hp | rfl)
        · exact Or.inr ⟨it, rfl, hp⟩
        · exact Or.inl rfl
      · rintro (rfl | ⟨it', hit, hp⟩)
        · exact Or.inr rfl
        · cases hit; exact Or.inl hp

theorem b2e_addE2b (b h bp : Nat) (o : Option Item) (p : Nat × Nat) :
    p ∈ (addE2b b h bp o).b2e ↔ ∃ it, o = some it ∧ p ∈ it.b2e := by
  cases o with
  | none => simp [addE2b]
  | some it => simp only [addE2b]; split <;> simp

theorem bytepos_addB2e (e h bp : Nat) (o : Option Item) :
    (addB2e e h bp o).bytepos = match o with | some it => it.bytepos | none => bp := by
  cases o with
  | none => rfl
  | some it => simp only [addB2e]; split <;> rfl

theorem bytepos_addE2b (b h bp : Nat) (o : Option Item) :
    (addE2b b h bp o).bytepos = match o with | some it => it.bytepos | none => bp := by
  cases o with
  | none => rfl
  | some it => simp only [addE2b]; split <;> rfl

/-- inserting a text selection that lies in the text always succeeds and keeps everything, with the selection added -/
theorem inv_insertSel (ws : List Nat) (hw : WidthsWF ws) (sels : List Sel) (m : Index) (b e hd : Nat)
    (hbe : b ≤ e) (hel : e ≤ ws.length) (h : Inv ws sels m) :
    ∃ m', insertSel ws m b e hd = some m' ∧ Inv ws (sels ++ [(b, e, hd)]) m' := by
  have hidx := idxWF_of_inv ws sels m h
  have hb := utf8byte_naive (proj m) ws hw hidx b (by omega)
  have he := utf8byte_naive (proj m) ws hw hidx e hel
  refine ⟨upsert (upsert m b (addB2e e hd (prefixB ws b))) e (addE2b b hd (prefixB ws e)), by simp only [insertSel, hb, he], ?_⟩
  have a1 := asc_upsert m b (addB2e e hd (prefixB ws b)) h.asc
  have l1 : ∀ k, lookup (upsert m b (addB2e e hd (prefixB ws b))) k
      = if k = b then some (addB2e e hd (prefixB ws b) (lookup m b)) else lookup m k :=
    fun k => lookup_upsert m b k _ h.asc
  have l2 : ∀ k, lookup (upsert (upsert m b (addB2e e hd (prefixB ws b))) e (addE2b b hd (prefixB ws e))) k
      = if k = e then some (addE2b b hd (prefixB ws e) (lookup (upsert m b (addB2e e hd (prefixB ws b))) e))
        else lookup (upsert m b (addB2e e hd (prefixB ws b))) k :=
    fun k => lookup_upsert _ e k _ a1
  refine ⟨asc_upsert _ _ _ a1, ?_, ?_, ?_⟩
  · -- entries
    intro k it hm
    have hl := lookup_of_mem _ k it (asc_upsert _ _ _ a1) hm
    rw [l2] at hl
    by_cases ce : k = e
    · subst ce
      simp only [if_true, Option.some.injEq] at hl
      subst hl
      refine ⟨hel, ?_⟩
      rw [bytepos_addE2b, l1]
      by_cases cb : k = b
      · subst cb
        simp only [if_true, bytepos_addB2e]
        cases ho : lookup m k with
        | none => rfl
        | some old => exact (h.entries k old (mem_of_lookup m k old ho)).2
      · simp only [cb, if_false]
        cases ho : lookup m k with
        | none => rfl
        | some old => exact (h.entries k old (mem_of_lookup m k old ho)).2
    · simp only [ce, if_false] at hl
      rw [l1] at hl
      by_cases cb : k = b
      · subst cb
        simp only [if_true, Option.some.injEq] at hl
        subst hl
        refine ⟨by omega, ?_⟩
        rw [bytepos_addB2e]
        cases ho : lookup m k with
        | none => rfl
        | some old => exact (h.entries k old (mem_of_lookup m k old ho)).2
      · simp only [cb, if_false] at hl
        exact h.entries k it (mem_of_lookup m k it hl)
  · -- content
    intro k it hl
    rw [l2] at hl
    have old_b2e : ∀ (o : Option Item) (p : Nat × Nat), lookup m k = o →
        ((∃ it', o = some it' ∧ p ∈ it'.b2e) ↔ (k, p.1, p.2) ∈ sels) := by
      intro o p ho
      cases o with
      | none =>
        constructor
        · rintro ⟨it', hit, _⟩; cases hit
        · intro hm; have := (h.present k p.1 p.2 hm).1; simp [ho] at this
      | some it' =>
        constructor
        · rintro ⟨it'', hit, hp⟩; cases hit; exact ((h.content k it' ho).1 p).mp hp
        · intro hm; exact ⟨it', rfl, ((h.content k it' ho).1 p).mpr hm⟩
    have old_e2b : ∀ (o : Option Item) (p : Nat × Nat), lookup m k = o →
        ((∃ it', o = some it' ∧ p ∈ it'.e2b) ↔ (p.1, k, p.2) ∈ sels) := by
      intro o p ho
      cases o with
      | none =>
        constructor
        · rintro ⟨it', hit, _⟩; cases hit
        · intro hm; have := (h.present p.1 k p.2 hm).2; simp [ho] at this
      | some it' =>
        constructor
        · rintro ⟨it'', hit, hp⟩; cases hit; exact ((h.content k it' ho).2 p).mp hp
        · intro hm; exact ⟨it', rfl, ((h.content k it' ho).2 p).mpr hm⟩
    by_cases ce : k = e
    · subst ce
      simp only [if_true, Option.some.injEq] at hl
      subst hl
      rw [l1]
      by_cases cb : k = b
      · subst cb
        simp only [if_true]
        refine ⟨fun p => ?_, fun p => ?_⟩
        · rw [b2e_addE2b]
          simp only [Option.some.injEq, exists_eq_left', mem_addB2e, List.mem_append, List.mem_singleton]
          rw [old_b2e (lookup m k) p rfl]
          constructor
          · rintro (rfl | hm)
            · exact Or.inr rfl
            · exact Or.inl hm
          · rintro (hm | heq)
            · exact Or.inr hm
            · left; cases p; simp only [Prod.mk.injEq] at heq ⊢; exact ⟨heq.2.1, heq.2.2⟩
        · rw [mem_addE2b]
          simp only [Option.some.injEq, exists_eq_left', e2b_addB2e, List.mem_append, List.mem_singleton]
          rw [old_e2b (lookup m k) p rfl]
          constructor
          · rintro (rfl | hm)
            · exact Or.inr rfl
            · exact Or.inl hm
          · rintro (hm | heq)
            · exact Or.inr hm
            · left; cases p; simp only [Prod.mk.injEq] at heq ⊢; exact ⟨heq.1, heq.2.2⟩
      · simp only [cb, if_false]
        refine ⟨fun p => ?_, fun p => ?_⟩
        · rw [b2e_addE2b, old_b2e (lookup m k) p rfl]
          simp only [List.mem_append, List.mem_singleton, Prod.mk.injEq]
          constructor
          · intro hm; exact Or.inl hm
          · rintro (hm | ⟨hkb, _⟩)
            · exact hm
            · exact absurd hkb cb
        · rw [mem_addE2b, old_e2b (lookup m k) p rfl]
          simp only [List.mem_append, List.mem_singleton]
          constructor
          · rintro (rfl | hm)
            · exact Or.inr rfl
            · exact Or.inl hm
          · rintro (hm | heq)
            · exact Or.inr hm
            · left; cases p; simp only [Prod.mk.injEq] at heq ⊢; exact ⟨heq.1, heq.2.2⟩
    · simp only [ce, if_false] at hl
      rw [l1] at hl
      by_cases cb : k = b
      · subst cb
        simp only [if_true, Option.some.injEq] at hl
        subst hl
        refine ⟨fun p => ?_, fun p => ?_⟩
        · rw [mem_addB2e, old_b2e (lookup m k) p rfl]
          simp only [List.mem_append, List.mem_singleton]
          constructor
          · rintro (rfl | hm)
            · exact Or.inr rfl
            · exact Or.inl hm
          · rintro (hm | heq)
            · exact Or.inr hm
            · left; cases p; simp only [Prod.mk.injEq] at heq ⊢; exact ⟨heq.2.1, heq.2.2⟩
        · rw [e2b_addB2e, old_e2b (lookup m k) p rfl]
          simp only [List.mem_append, List.mem_singleton, Prod.mk.injEq]
          constructor
          · intro hm; exact Or.inl hm
          · rintro (hm | ⟨_, hke, _⟩)
            · exact hm
            · exact absurd hke ce
      · simp only [cb, if_false] at hl
        obtain ⟨c1, c2⟩ := h.content k it hl
        refine ⟨fun p => ?_, fun p => ?_⟩
        · rw [c1]
          simp only [List.mem_append, List.mem_singleton, Prod.mk.injEq]
          constructor
          · intro hm; exact Or.inl hm
          · rintro (hm | ⟨hkb, _⟩)
            · exact hm
            · exact absurd hkb cb
        · rw [c2]
          simp only [List.mem_append, List.mem_singleton, Prod.mk.injEq]
          constructor
          · intro hm; exact Or.inl hm
          · rintro (hm | ⟨_, hke, _⟩)
            · exact hm
            · exact absurd hke ce
  · -- present
    intro b' e' h' hm
    have some_of : ∀ k, (k = b ∨ k = e ∨ (lookup m k).isSome) →
        (lookup (upsert (upsert m b (addB2e e hd (prefixB ws b))) e (addE2b b hd (prefixB ws e))) k).isSome := by
      intro k hk
      rw [l2]
      by_cases ce : k = e
      · simp [ce]
      · simp only [ce, if_false]
        rw [l1]
        by_cases cb : k = b
        · simp [cb]
        · simp only [cb, if_false]
          rcases hk with hk | hk | hk
          · exact absurd hk cb
          · exact absurd hk ce
          · exact hk
    rcases List.mem_append.mp hm with hm | hm
    · obtain ⟨p1, p2⟩ := h.present b' e' h' hm
      exact ⟨some_of b' (Or.inr (Or.inr p1)), some_of e' (Or.inr (Or.inr p2))⟩
    · simp only [List.mem_singleton, Prod.mk.injEq] at hm
      obtain ⟨rfl, rfl, rfl⟩ := hm
      exact ⟨some_of _ (Or.inl rfl), some_of _ (Or.inr (Or.inl rfl))⟩

theorem known_spec (ws : List Nat) (sels : List Sel) (m : Index) (hinv : Inv ws sels m) (b e : Nat) :
    ((known m b e).isSome ↔ ∃ h, (b, e, h) ∈ sels) ∧ (∀ h, known m b e = some h → (b, e, h) ∈ sels) := by
  have key : ∀ h, known m b e = some h → (b, e, h) ∈ sels := by
    intro h hk
    simp only [known] at hk
    cases hl : lookup m b with
    | none => simp [hl] at hk
    | some it =>
      simp only [hl, Option.bind_some, Option.map_eq_some_iff] at hk
      obtain ⟨p, hp, rfl⟩ := hk
      have hmem := List.mem_of_find?_eq_some hp
      have hpe := List.find?_some hp
      simp only [beq_iff_eq] at hpe
      have := ((hinv.content b it hl).1 p).mp hmem
      rw [hpe] at this
      exact this
  refine ⟨⟨?_, ?_⟩, key⟩
  · intro hs
    obtain ⟨h, hh⟩ := Option.isSome_iff_exists.mp hs
    exact ⟨h, key h hh⟩
  · rintro ⟨h, hm⟩
    obtain ⟨it, hl⟩ := Option.isSome_iff_exists.mp (hinv.present b e h hm).1
    have hmem : (e, h) ∈ it.b2e := ((hinv.content b it hl).1 (e, h)).mpr hm
    simp only [known, hl, Option.bind_some, Option.isSome_map]
    rw [List.find?_isSome]
    exact ⟨(e, h), hmem, by simp⟩

/-! ### every reachable index -/

def hasRange (acc : List Sel) (b e : Nat) : Bool := acc.any (fun s => s.1 == b && s.2.1 == e)

theorem hasRange_iff (acc : List Sel) (b e : Nat) : hasRange acc b e = true ↔ ∃ h, (b, e, h) ∈ acc := by
  simp only [hasRange, List.any_eq_true, Bool.and_eq_true, beq_iff_eq]
  constructor
  · rintro ⟨⟨x, y, z⟩, hm, h1, h2⟩; simp only at h1 h2; subst h1; subst h2; exact ⟨z, hm⟩
  · rintro ⟨h, hm⟩; exact ⟨(b, e, h), hm, rfl, rfl⟩

/-- the text selections a history inserts (those that lie in the text and are not there yet), with their handles -/
def accepted (ws : List Nat) (ops : List Op) : List Sel :=
  ops.foldl (fun acc op => match op with
    | .sel b e => if b ≤ e ∧ e ≤ ws.length ∧ hasRange acc b e = false then acc ++ [(b, e, acc.length)] else acc
    | .milestones _ => acc) []

theorem foldl_inv (ws : List Nat) (hw : WidthsWF ws) : ∀ (ops : List Op) (s : St) (sels : List Sel),
    Inv ws sels s.idx → s.nsel = sels.length →
    Inv ws (ops.foldl (fun acc op => match op with
        | .sel b e => if b ≤ e ∧ e ≤ ws.length ∧ hasRange acc b e = false then acc ++ [(b, e, acc.length)] else acc
        | .milestones _ => acc) sels) (ops.foldl (step ws) s).idx := by
  intro ops
  induction ops with
  | nil => intro s sels h _; exact h
  | cons op r ih =>
    intro s sels h hn
    simp only [List.foldl_cons]
    cases op with
    | milestones i =>
      simp only [step]
      split
      · exact ih s sels h hn
      · exact ih _ sels (inv_milestones ws sels i s.idx h) hn
    | sel b e =>
      simp only [step]
      have hk := (known_spec ws sels s.idx h b e).1
      by_cases c : b ≤ e ∧ e ≤ ws.length ∧ hasRange sels b e = false
      · have c' : b ≤ e ∧ e ≤ ws.length ∧ (known s.idx b e).isNone = true := by
          refine ⟨c.1, c.2.1, ?_⟩
          cases hx : known s.idx b e with
          | none => rfl
          | some v =>
            have := (hasRange_iff sels b e).mpr (hk.mp (by simp [hx]))
            rw [c.2.2] at this; cases this
        rw [if_pos c, if_pos c']
        obtain ⟨m', hm', hinv⟩ := inv_insertSel ws hw sels s.idx b e s.nsel c.1 c.2.1 h
        rw [hm']
        rw [hn] at hinv
        exact ih _ _ hinv (by simp [hn])
      · have c' : ¬ (b ≤ e ∧ e ≤ ws.length ∧ (known s.idx b e).isNone = true) := by
          rintro ⟨c1, c2, c3⟩
          apply c
          refine ⟨c1, c2, ?_⟩
          cases hr : hasRange sels b e with
          | false => rfl
          | true =>
            have := hk.mpr ((hasRange_iff sels b e).mp hr)
            cases hx : known s.idx b e with
            | none => simp [hx] at this
            | some v => simp [hx] at c3
        rw [if_neg c, if_neg c']
        exact ih s sels h hn

/-- **every index the code builds is right**: after any history of milestone passes (any intervals, at any time) and
text selections, the keys ascend, every entry carries the byte position of its code point, and every entry lists
exactly the text selections that begin and end there -/
theorem reachable_inv (ws : List Nat) (hw : WidthsWF ws) (ops : List Op) : Inv ws (accepted ws ops) (run ws ops).idx :=
  foldl_inv ws hw ops {} [] (inv_empty ws) rfl

/-- … so it is an index in the sense Props/C12 assumes -/
theorem reachable_idxWF (ws : List Nat) (hw : WidthsWF ws) (ops : List Op) : IdxWF (proj (run ws ops).idx) ws :=
  idxWF_of_inv ws _ _ (reachable_inv ws hw ops)

/-- **conversion is exact on every index the library can hold**, whatever milestones and annotations made it -/
theorem conversion_exact_on_reachable (ws : List Nat) (hw : WidthsWF ws) (ops : List Op) (p : Nat) (hp : p ≤ ws.length) :
    utf8byte (proj (run ws ops).idx) ws p = .ok (prefixB ws p) :=
  utf8byte_naive _ ws hw (reachable_idxWF ws hw ops) p hp

/-! ### the text is replaced -/

theorem step_inv (ws : List Nat) (hw : WidthsWF ws) (s : St) (sels : List Sel) (op : Op)
    (h : Inv ws sels s.idx) (hn : s.nsel = sels.length) :
    ∃ sels', Inv ws sels' (step ws s op).idx ∧ (step ws s op).nsel = sels'.length := by
  have := foldl_inv ws hw [op] s sels h hn
  simp only [List.foldl_cons, List.foldl_nil] at this
  refine ⟨_, this, ?_⟩
  cases op with
  | milestones i => simp only [step]; split <;> exact hn
  | sel b e =>
    simp only [step]
    have hk := (known_spec ws sels s.idx h b e).1
    by_cases c : b ≤ e ∧ e ≤ ws.length ∧ hasRange sels b e = false
    · have c' : b ≤ e ∧ e ≤ ws.length ∧ (known s.idx b e).isNone = true := by
        refine ⟨c.1, c.2.1, ?_⟩
        cases hx : known s.idx b e with
        | none => rfl
        | some v =>
          have := (hasRange_iff sels b e).mpr (hk.mp (by simp [hx]))
          rw [c.2.2] at this; cases this
      rw [if_pos c, if_pos c']
      obtain ⟨m', hm', _⟩ := inv_insertSel ws hw sels s.idx b e s.nsel c.1 c.2.1 h
      rw [hm']
      simp [hn]
    · have c' : ¬ (b ≤ e ∧ e ≤ ws.length ∧ (known s.idx b e).isNone = true) := by
        rintro ⟨c1, c2, c3⟩
        apply c
        refine ⟨c1, c2, ?_⟩
        cases hr : hasRange sels b e with
        | false => rfl
        | true =>
          have := hk.mpr ((hasRange_iff sels b e).mp hr)
          cases hx : known s.idx b e with
          | none => simp [hx] at this
          | some v => simp [hx] at c3
      rw [if_neg c, if_neg c']
      exact hn

/-- what was built on the empty text is right on any text (there is only position 0) -/
theorem inv_of_empty_text (ws' : List Nat) (sels : List Sel) (m : Index) (h : Inv [] sels m) : Inv ws' sels m := by
  refine ⟨h.asc, ?_, h.content, h.present⟩
  intro k it hm
  obtain ⟨h1, h2⟩ := h.entries k it hm
  have hk : k = 0 := by simpa using h1
  subst hk
  exact ⟨Nat.zero_le _, by rw [h2]; simp [prefixB]⟩

def TOp.wf : TOp → Prop
  | .op _ => True
  | .retext ws' _ => WidthsWF ws'

theorem foldlT_inv : ∀ (ops : List TOp) (p : List Nat × St) (sels : List Sel), (∀ o ∈ ops, o.wf) → WidthsWF p.1 →
    Inv p.1 sels p.2.idx → p.2.nsel = sels.length →
    WidthsWF (ops.foldl stepT p).1 ∧ ∃ sels', Inv (ops.foldl stepT p).1 sels' (ops.foldl stepT p).2.idx := by
  intro ops
  induction ops with
  | nil => intro p sels _ hw h _; exact ⟨hw, sels, h⟩
  | cons o r ih =>
    intro p sels hwf hw h hn
    simp only [List.foldl_cons]
    have hr : ∀ o ∈ r, o.wf := fun o ho => hwf o (List.mem_cons_of_mem _ ho)
    cases o with
    | op o =>
      obtain ⟨sels', h', hn'⟩ := step_inv p.1 hw p.2 sels o h hn
      exact ih (p.1, step p.1 p.2 o) sels' hr hw h' hn'
    | retext ws' i =>
      have hw' : WidthsWF ws' := hwf (.retext ws' i) (by simp)
      simp only [stepT]
      by_cases he : p.1.isEmpty = true
      · have hnil : p.1 = [] := List.isEmpty_iff.mp he
        rw [if_pos he]
        have h0 : Inv ws' sels p.2.idx := inv_of_empty_text ws' sels p.2.idx (hnil ▸ h)
        obtain ⟨sels', h', hn'⟩ := step_inv ws' hw' p.2 sels (.milestones i) h0 hn
        exact ih (ws', step ws' p.2 (.milestones i)) sels' hr hw' h' hn'
      · rw [if_neg he]
        obtain ⟨sels', h', hn'⟩ := step_inv ws' hw' {} [] (.milestones i) (inv_empty ws') rfl
        exact ih (ws', step ws' {} (.milestones i)) sels' hr hw' h' hn'

/-- **the index is right after any history, text replacements included**: whatever text the resource had before,
whatever milestones and selections were made on it, after `with_string` and whatever follows the index is an index of
the text the resource has now, and the conversions on it are exact -/
theorem reachableT_idxWF (ws0 : List Nat) (hw : WidthsWF ws0) (ops : List TOp) (hops : ∀ o ∈ ops, o.wf) :
    IdxWF (proj (runT ws0 ops).2.idx) (runT ws0 ops).1 := by
  obtain ⟨_, sels', h⟩ := foldlT_inv ops (ws0, {}) [] hops hw (inv_empty ws0) rfl
  exact idxWF_of_inv _ _ _ h

theorem conversion_exact_after_text_replacement (ws0 : List Nat) (hw : WidthsWF ws0) (ops : List TOp) (hops : ∀ o ∈ ops, o.wf)
    (p : Nat) (hp : p ≤ (runT ws0 ops).1.length) :
    utf8byte (proj (runT ws0 ops).2.idx) (runT ws0 ops).1 p = .ok (prefixB (runT ws0 ops).1 p) := by
  obtain ⟨hw', _, h⟩ := foldlT_inv ops (ws0, {}) [] hops hw (inv_empty ws0) rfl
  exact utf8byte_naive _ _ hw' (idxWF_of_inv _ _ _ h) p hp

/-- a replaced text keeps nothing of the old one: the history before a replacement of a non-empty text is immaterial -/
theorem retext_forgets (ws0 : List Nat) (before : List TOp) (ws' : List Nat) (i : Nat) (after : List TOp)
    (hne : (runT ws0 before).1 ≠ []) :
    runT ws0 (before ++ .retext ws' i :: after) = runT ws' (.op (.milestones i) :: after) := by
  simp only [runT, List.foldl_append, List.foldl_cons, stepT]
  have : (List.foldl stepT (ws0, {}) before).1.isEmpty = false := by
    cases h : (List.foldl stepT (ws0, {}) before).1 with
    | nil => exact absurd h hne
    | cons a b => rfl
  simp [this]

/-! ### the positions in use -/

def selAt (mode : Mode) (sels : List Sel) (x : Nat) : Prop :=
  match mode with
  | .begin => ∃ e h, (x, e, h) ∈ sels
  | .end_ => ∃ b h, (b, x, h) ∈ sels
  | .both => (∃ e h, (x, e, h) ∈ sels) ∨ (∃ b h, (b, x, h) ∈ sels)

theorem nonempty_iff {α} (l : List α) : (!l.isEmpty) = true ↔ ∃ p, p ∈ l := by
  cases l with
  | nil => simp
  | cons a r => simp

theorem mem_positions (ws : List Nat) (sels : List Sel) (m : Index) (h : Inv ws sels m) (mode : Mode) (x : Nat) :
    x ∈ positions m mode ↔ selAt mode sels x := by
  have hb : ∀ it, lookup m x = some it → ((!it.b2e.isEmpty) = true ↔ ∃ e h', (x, e, h') ∈ sels) := by
    intro it hl
    rw [nonempty_iff]
    constructor
    · rintro ⟨p, hp⟩; exact ⟨p.1, p.2, ((h.content x it hl).1 p).mp hp⟩
    · rintro ⟨e, h', hm⟩; exact ⟨(e, h'), ((h.content x it hl).1 (e, h')).mpr hm⟩
  have he : ∀ it, lookup m x = some it → ((!it.e2b.isEmpty) = true ↔ ∃ b h', (b, x, h') ∈ sels) := by
    intro it hl
    rw [nonempty_iff]
    constructor
    · rintro ⟨p, hp⟩; exact ⟨p.1, p.2, ((h.content x it hl).2 p).mp hp⟩
    · rintro ⟨b, h', hm⟩; exact ⟨(b, h'), ((h.content x it hl).2 (b, h')).mpr hm⟩
  simp only [positions, List.mem_map, List.mem_filter]
  constructor
  · rintro ⟨⟨k, it⟩, ⟨hm, hu⟩, rfl⟩
    have hl := lookup_of_mem m k it h.asc hm
    cases mode with
    | begin => exact (hb it hl).mp (by simpa [inUse] using hu)
    | end_ => exact (he it hl).mp (by simpa [inUse] using hu)
    | both =>
      simp only [inUse, Bool.or_eq_true] at hu
      rcases hu with hu | hu
      · exact Or.inl ((hb it hl).mp hu)
      · exact Or.inr ((he it hl).mp hu)
  · intro hs
    have hex : ∃ it, lookup m x = some it := by
      cases mode with
      | begin => obtain ⟨e, h', hm⟩ := hs; have := (h.present x e h' hm).1; exact Option.isSome_iff_exists.mp this
      | end_ => obtain ⟨b, h', hm⟩ := hs; have := (h.present b x h' hm).2; exact Option.isSome_iff_exists.mp this
      | both =>
        rcases hs with ⟨e, h', hm⟩ | ⟨b, h', hm⟩
        · have := (h.present x e h' hm).1; exact Option.isSome_iff_exists.mp this
        · have := (h.present b x h' hm).2; exact Option.isSome_iff_exists.mp this
    obtain ⟨it, hl⟩ := hex
    refine ⟨(x, it), ⟨mem_of_lookup m x it hl, ?_⟩, rfl⟩
    cases mode with
    | begin => simpa [inUse] using (hb it hl).mpr hs
    | end_ => simpa [inUse] using (he it hl).mpr hs
    | both =>
      simp only [inUse, Bool.or_eq_true]
      rcases hs with hs | hs
      · exact Or.inl ((hb it hl).mpr hs)
      · exact Or.inr ((he it hl).mpr hs)

theorem positions_sorted (m : Index) (hs : Asc m) (mode : Mode) : StrictSorted (positions m mode) := by
  unfold positions StrictSorted
  have : (m.filter (fun e => inUse mode e.2)).map (·.1) = ((m.filter (fun e => inUse mode e.2)).map (·.1)) := rfl
  have hsub : ((m.filter (fun e => inUse mode e.2)).map (·.1)).Sublist (keys m) := by
    unfold keys
    exact List.Sublist.map _ (List.filter_sublist)
  exact List.Pairwise.sublist hsub hs

/-- **the positions in use are those of the text selections inserted**, in ascending order, each once -/
theorem positions_are_the_selections (ws : List Nat) (hw : WidthsWF ws) (ops : List Op) (mode : Mode) :
    (∀ x, x ∈ positions (run ws ops).idx mode ↔ selAt mode (accepted ws ops) x) ∧
    StrictSorted (positions (run ws ops).idx mode) :=
  ⟨fun x => mem_positions ws _ _ (reachable_inv ws hw ops) mode x, positions_sorted _ (reachable_inv ws hw ops).asc mode⟩

def Op.isSel : Op → Bool
  | .sel .. => true
  | _ => false

theorem accepted_filter (ws : List Nat) (ops : List Op) : accepted ws (ops.filter Op.isSel) = accepted ws ops := by
  unfold accepted
  have : ∀ (ops : List Op) (acc : List Sel),
      (ops.filter Op.isSel).foldl (fun acc op => match op with
        | .sel b e => if b ≤ e ∧ e ≤ ws.length ∧ hasRange acc b e = false then acc ++ [(b, e, acc.length)] else acc
        | .milestones _ => acc) acc =
      ops.foldl (fun acc op => match op with
        | .sel b e => if b ≤ e ∧ e ≤ ws.length ∧ hasRange acc b e = false then acc ++ [(b, e, acc.length)] else acc
        | .milestones _ => acc) acc := by
    intro ops
    induction ops with
    | nil => intro acc; rfl
    | cons op r ih =>
      intro acc
      cases op with
      | milestones i => simp only [List.filter_cons, Op.isSel, Bool.false_eq_true, if_false, List.foldl_cons]; exact ih acc
      | sel b e => simp only [List.filter_cons, Op.isSel, if_true, List.foldl_cons]; exact ih _
  exact this ops []

/-- **milestones change no answer**: the positions in use are the same list with the milestone passes of a history —
whatever their intervals, whenever they happen — as without any -/
theorem milestones_change_no_answer (ws : List Nat) (hw : WidthsWF ws) (ops : List Op) (mode : Mode) :
    positions (run ws ops).idx mode = positions (run ws (ops.filter Op.isSel)).idx mode := by
  obtain ⟨m1, s1⟩ := positions_are_the_selections ws hw ops mode
  obtain ⟨m2, s2⟩ := positions_are_the_selections ws hw (ops.filter Op.isSel) mode
  apply strictSorted_ext _ _ s1 s2
  intro x
  rw [m1, m2, accepted_filter]

/-- `position(x)` answers for exactly the positions in use: a milestone is no position -/
theorem position_iff (ws : List Nat) (hw : WidthsWF ws) (ops : List Op) (x : Nat) :
    (position (run ws ops).idx x).isSome ↔ selAt .both (accepted ws ops) x := by
  have hinv := reachable_inv ws hw ops
  rw [← mem_positions ws _ _ hinv .both x]
  simp only [position, positions, List.mem_map, List.mem_filter]
  constructor
  · intro h
    cases hl : lookup (run ws ops).idx x with
    | none => simp [hl] at h
    | some it =>
      simp only [hl, Option.filter_some] at h
      split at h
      · rename_i hu; exact ⟨(x, it), ⟨mem_of_lookup _ x it hl, hu⟩, rfl⟩
      · simp at h
  · rintro ⟨⟨k, it⟩, ⟨hm, hu⟩, rfl⟩
    have hl := lookup_of_mem _ k it hinv.asc hm
    simp only [hl, Option.filter_some]
    simp only at hu
    simp [hu]

/-- `known_textselection(b, e)` finds a text selection exactly when one `[b, e)` was inserted, and answers with the handle
of one that was -/
theorem known_iff (ws : List Nat) (hw : WidthsWF ws) (ops : List Op) (b e : Nat) :
    ((known (run ws ops).idx b e).isSome ↔ ∃ h, (b, e, h) ∈ accepted ws ops) ∧
    (∀ h, known (run ws ops).idx b e = some h → (b, e, h) ∈ accepted ws ops) :=
  known_spec ws _ _ (reachable_inv ws hw ops) b e

/-! ### the premises are met -/

/-- "héllo wørld": widths of its code points; two milestone passes and three selections, one of them empty -/
def wsEx : List Nat := [1, 2, 1, 1, 1, 1, 1, 2, 1, 1, 1]
def opsEx : List Op := [.milestones 3, .sel 0 5, .sel 6 11, .milestones 2, .sel 6 11, .sel 4 4, .sel 3 99]

example : WidthsWF wsEx := by unfold WidthsWF wsEx; decide
example : positions (run wsEx opsEx).idx .begin = [0, 4, 6] ∧ positions (run wsEx opsEx).idx .end_ = [4, 5, 11] := by decide
example : keys (run wsEx opsEx).idx = [0, 2, 3, 4, 5, 6, 8, 9, 10, 11] := by decide
example : known (run wsEx opsEx).idx 6 11 = some 1 ∧ known (run wsEx opsEx).idx 0 4 = none ∧ (run wsEx opsEx).nsel = 3 := by decide
/-- before 4e23a1f `positions(Both)` listed the milestones too: the keys above, not the positions -/
example : positions (run wsEx opsEx).idx .both = [0, 4, 5, 6, 11] := by decide

end Stam.PI
