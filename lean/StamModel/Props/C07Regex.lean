import StamModel.RegexMerge
/-
  C07 — several regular expressions in one search (`find_text_regex`, `FindRegexIter::next`; StamModel/RegexMerge.lean).
  Whatever the regex library finds for each expression:
   * `sound` — what is reported for expression `i` is one of its matches;
   * `account` — per expression, the matches reported or discarded, in order, are exactly its matches: nothing is lost
     silently, nothing is reported twice;
   * `overlap_reports_everything` — with `allow_overlap` every match of every expression is reported, in its order;
   * `left_out_only_inside_another` — without `allow_overlap`, a match that is not reported begins inside a reported match
     of another expression (`begin ≤ · < end`: one that begins where the other ends is reported);
   * `no_result_inside_an_earlier_one` — without `allow_overlap`, no result begins inside a result of another expression
     reported before it;
   * `ordered` — the results come in the order of their begin positions (each expression's matches being in that order).
-/
namespace Stam.RX.C07R
open Stam.RX

def keys (st : St) : List Nat := st.map (·.1)

/-- the matches expression `j` still has to give -/
def rem (st : St) (j : Nat) : List M := (st.lookup j).getD []

/-- the match an event is about, when it is about expression `j` -/
def evOf (j : Nat) : Ev → Option M
  | .emit i m => if i = j then some m else none
  | .drop k m2 _ _ => if k = j then some m2 else none

theorem rem_cons (k : Nat) (l : List M) (r : St) (j : Nat) : rem ((k, l) :: r) j = if j = k then l else rem r j := by
  unfold rem
  by_cases h : j = k
  · subst h; simp [List.lookup]
  · have : (j == k) = false := by simpa using h
    simp [List.lookup, this, h]

theorem rem_of_not_key (st : St) (j : Nat) (h : j ∉ keys st) : rem st j = [] := by
  induction st with
  | nil => rfl
  | cons p r ih =>
    obtain ⟨k, l⟩ := p
    simp only [keys, List.map_cons, List.mem_cons, not_or] at h
    rw [rem_cons, if_neg h.1]
    exact ih h.2

/-! ### the best next match -/

theorem best_mem (st : St) (i : Nat) (m : M) (h : best st = some (i, m)) : ∃ l, (i, m :: l) ∈ st := by
  induction st with
  | nil => simp [best] at h
  | cons p r ih =>
    obtain ⟨k, l⟩ := p
    cases l with
    | nil =>
      simp only [best] at h
      obtain ⟨l, hl⟩ := ih h
      exact ⟨l, List.mem_cons_of_mem _ hl⟩
    | cons a l =>
      simp only [best] at h
      split at h
      next j m' hb =>
        split at h
        · simp only [Option.some.injEq, Prod.mk.injEq] at h
          obtain ⟨rfl, rfl⟩ := h
          obtain ⟨l', hl'⟩ := ih hb
          exact ⟨l', List.mem_cons_of_mem _ hl'⟩
        · simp only [Option.some.injEq, Prod.mk.injEq] at h
          obtain ⟨rfl, rfl⟩ := h
          exact ⟨l, by simp⟩
      next hb =>
        simp only [Option.some.injEq, Prod.mk.injEq] at h
        obtain ⟨rfl, rfl⟩ := h
        exact ⟨l, by simp⟩

theorem best_min (st : St) (i : Nat) (m : M) (h : best st = some (i, m)) :
    ∀ k m' l, (k, m' :: l) ∈ st → m.b ≤ m'.b := by
  induction st generalizing i m with
  | nil => simp [best] at h
  | cons p r ih =>
    obtain ⟨k0, l0⟩ := p
    intro k m' l hm
    cases l0 with
    | nil =>
      simp only [best] at h
      rcases List.mem_cons.mp hm with he | hr
      · simp at he
      · exact ih i m h k m' l hr
    | cons a l0 =>
      simp only [best] at h
      split at h
      next j mb hb =>
        split at h
        next hlt =>
          simp only [Option.some.injEq, Prod.mk.injEq] at h
          obtain ⟨rfl, rfl⟩ := h
          rcases List.mem_cons.mp hm with he | hr
          · simp only [Prod.mk.injEq, List.cons.injEq] at he
            obtain ⟨_, rfl, _⟩ := he
            omega
          · exact ih _ _ hb k m' l hr
        next hge =>
          simp only [Option.some.injEq, Prod.mk.injEq] at h
          obtain ⟨rfl, rfl⟩ := h
          rcases List.mem_cons.mp hm with he | hr
          · simp only [Prod.mk.injEq, List.cons.injEq] at he
            obtain ⟨_, rfl, _⟩ := he
            omega
          · have := ih _ _ hb k m' l hr
            omega
      next hb =>
        simp only [Option.some.injEq, Prod.mk.injEq] at h
        obtain ⟨rfl, rfl⟩ := h
        rcases List.mem_cons.mp hm with he | hr
        · simp only [Prod.mk.injEq, List.cons.injEq] at he
          obtain ⟨_, rfl, _⟩ := he
          omega
        · -- nothing is buffered in the rest
          exfalso
          clear ih hm
          induction r with
          | nil => simp at hr
          | cons q r ihr =>
            obtain ⟨k1, l1⟩ := q
            cases l1 with
            | nil =>
              simp only [best] at hb
              rcases List.mem_cons.mp hr with he | hr'
              · simp at he
              · exact ihr hb hr'
            | cons a1 l1 =>
              simp only [best] at hb
              split at hb
              · split at hb <;> simp at hb
              · simp at hb

theorem best_none (st : St) (h : best st = none) : total st = 0 := by
  induction st with
  | nil => rfl
  | cons p r ih =>
    obtain ⟨k, l⟩ := p
    cases l with
    | nil => simp only [best] at h; simpa [total] using ih h
    | cons a l =>
      simp only [best] at h
      split at h
      · split at h <;> simp at h
      · simp at h

theorem rem_of_mem (st : St) (hn : (keys st).Nodup) (i : Nat) (l : List M) (h : (i, l) ∈ st) : rem st i = l := by
  induction st with
  | nil => simp at h
  | cons p r ih =>
    obtain ⟨k, l0⟩ := p
    simp only [keys, List.map_cons, List.nodup_cons] at hn
    rw [rem_cons]
    rcases List.mem_cons.mp h with he | hr
    · simp only [Prod.mk.injEq] at he
      obtain ⟨rfl, rfl⟩ := he
      simp
    · have hik : i ≠ k := by
        intro e; subst e
        exact hn.1 (List.mem_map.mpr ⟨(i, l), hr, rfl⟩)
      rw [if_neg hik]
      exact ih hn.2 hr

/-! ### one report -/

theorem advance_keys (ov : Bool) (i : Nat) (m : M) (st : St) : keys (advance ov i m st).1 = keys st := by
  induction st with
  | nil => rfl
  | cons p r ih =>
    obtain ⟨k, l⟩ := p
    simp only [advance, keys, List.map_cons] at ih ⊢
    split
    · simp [ih]
    · split <;> simp [ih]

theorem advance_events_other (ov : Bool) (i : Nat) (m : M) (st : St) (j : Nat) (hj : j ∉ keys st) :
    (advance ov i m st).2.filterMap (evOf j) = [] := by
  induction st with
  | nil => rfl
  | cons p r ih =>
    obtain ⟨k, l⟩ := p
    simp only [keys, List.map_cons, List.mem_cons, not_or] at hj
    have ih' := ih hj.2
    simp only [advance]
    split
    · exact ih'
    · split
      · exact ih'
      · rw [List.filterMap_append, ih', List.append_nil, List.filterMap_map]
        apply List.filterMap_eq_nil_iff.mpr
        intro a _
        simp only [Function.comp, evOf]
        rw [if_neg (fun e => hj.1 e.symm)]

/-- per expression: what a report discards, and what it leaves, is what was there (minus the reported match) -/
theorem advance_account (ov : Bool) (i : Nat) (m : M) (st : St) (hn : (keys st).Nodup) (j : Nat) :
    (advance ov i m st).2.filterMap (evOf j) ++ rem (advance ov i m st).1 j
      = if j = i then (rem st j).tail else rem st j := by
  induction st with
  | nil => simp [advance, rem]
  | cons p r ih =>
    obtain ⟨k, l⟩ := p
    simp only [keys, List.map_cons, List.nodup_cons] at hn
    have ih' := ih hn.2
    simp only [advance]
    by_cases hki : k = i
    · rw [if_pos hki]
      simp only [rem_cons]
      by_cases hjk : j = k
      · have hnk : j ∉ keys r := by rw [hjk]; exact hn.1
        rw [if_pos hjk, if_pos hjk, if_pos (hjk.trans hki), advance_events_other ov i m r j hnk]
        rfl
      · rw [if_neg hjk, if_neg hjk]; exact ih'
    · rw [if_neg hki]
      cases ov with
      | true =>
        simp only [↓reduceIte, rem_cons]
        by_cases hjk : j = k
        · have hnk : j ∉ keys r := by rw [hjk]; exact hn.1
          have hji : j ≠ i := fun e => hki (hjk.symm.trans e)
          rw [if_pos hjk, if_pos hjk, if_neg hji, advance_events_other true i m r j hnk]
          rfl
        · rw [if_neg hjk, if_neg hjk]; exact ih'
      | false =>
        simp only [Bool.false_eq_true, ↓reduceIte, rem_cons, List.filterMap_append, List.filterMap_map]
        by_cases hjk : j = k
        · have hnk : j ∉ keys r := by rw [hjk]; exact hn.1
          have hji : j ≠ i := fun e => hki (hjk.symm.trans e)
          rw [if_pos hjk, if_pos hjk, if_neg hji, advance_events_other false i m r j hnk, List.append_nil]
          have : List.filterMap (evOf j ∘ fun m2 => Ev.drop k m2 i m) (List.takeWhile (inside m) l) = List.takeWhile (inside m) l := by
            have hf : (evOf j ∘ fun m2 => Ev.drop k m2 i m) = some := by
              funext x; simp [Function.comp, evOf, hjk]
            rw [hf]; simp
          rw [this, List.takeWhile_append_dropWhile]
        · rw [if_neg hjk, if_neg hjk]
          have : List.filterMap (evOf j ∘ fun m2 => Ev.drop k m2 i m) (List.takeWhile (inside m) l) = [] := by
            apply List.filterMap_eq_nil_iff.mpr
            intro a _
            simp only [Function.comp, evOf]
            rw [if_neg (fun e => hjk e.symm)]
          rw [this, List.nil_append]; exact ih'

theorem total_cons (k : Nat) (l : List M) (r : St) : total ((k, l) :: r) = l.length + total r := by
  simp [total]

theorem advance_total_le (ov : Bool) (i : Nat) (m : M) (st : St) : total (advance ov i m st).1 ≤ total st := by
  induction st with
  | nil => simp [advance]
  | cons p r ih =>
    obtain ⟨k, l⟩ := p
    simp only [advance]
    split
    · rw [total_cons, total_cons, List.length_tail]; omega
    · split
      · rw [total_cons, total_cons]; omega
      · rw [total_cons, total_cons]
        have := (List.dropWhile_sublist (inside m) (l := l)).length_le
        omega

theorem advance_total_lt (ov : Bool) (i : Nat) (m : M) (st : St) (l : List M) (h : (i, m :: l) ∈ st) :
    total (advance ov i m st).1 < total st := by
  induction st with
  | nil => simp at h
  | cons p r ih =>
    obtain ⟨k, l0⟩ := p
    simp only [advance]
    rcases List.mem_cons.mp h with he | hr
    · simp only [Prod.mk.injEq] at he
      obtain ⟨rfl, rfl⟩ := he
      rw [if_pos rfl, total_cons, total_cons]
      have := advance_total_le ov i m r
      simp only [List.tail_cons, List.length_cons]
      omega
    · have := ih hr
      split
      · rw [total_cons, total_cons, List.length_tail]; omega
      · split
        · rw [total_cons, total_cons]; omega
        · rw [total_cons, total_cons]
          have := (List.dropWhile_sublist (inside m) (l := l0)).length_le
          omega

/-! ### the run -/

/-- **C07 (several expressions: nothing is lost, nothing is reported twice).** For every expression, the matches that
the run reports or discards for it, in order, are exactly the matches the regex library found for it. -/
theorem account (ov : Bool) : ∀ (f : Nat) (st : St), (keys st).Nodup → total st < f →
    ∀ j, (run ov f st).filterMap (evOf j) = rem st j := by
  intro f
  induction f with
  | zero => intro st _ h; omega
  | succ f ih =>
    intro st hn hf j
    unfold run
    split
    next hb =>
      have h0 := best_none st hb
      -- every list is empty
      have : ∀ st : St, total st = 0 → rem st j = [] := by
        intro st
        induction st with
        | nil => intro _; rfl
        | cons p r ihr =>
          obtain ⟨k, l⟩ := p
          intro ht
          rw [total_cons] at ht
          rw [rem_cons]
          split
          · exact List.length_eq_zero_iff.mp (by omega)
          · exact ihr (by omega)
      simp [this st h0]
    next i m hb =>
      obtain ⟨l, hl⟩ := best_mem st i m hb
      have hlt := advance_total_lt ov i m st l hl
      have hk : (keys (advance ov i m st).1).Nodup := by rw [advance_keys]; exact hn
      have hacc := advance_account ov i m st hn j
      have hrec := ih (advance ov i m st).1 hk (by omega) j
      simp only [List.filterMap_cons, List.filterMap_append, hrec]
      have hri := rem_of_mem st hn i (m :: l) hl
      by_cases hji : j = i
      · subst hji
        rw [if_pos rfl, hri] at hacc
        simp only [evOf, ↓reduceIte]
        rw [hacc, hri]; rfl
      · rw [if_neg hji] at hacc
        have hij : i ≠ j := fun e => hji e.symm
        have : evOf j (Ev.emit i m) = none := by simp [evOf, hij]
        rw [this]
        exact hacc

theorem mem_takeWhile_holds (p : M → Bool) (l : List M) (x : M) (h : x ∈ l.takeWhile p) : p x = true := by
  induction l with
  | nil => simp at h
  | cons a l ih =>
    simp only [List.takeWhile_cons] at h
    split at h
    · rcases List.mem_cons.mp h with rfl | h
      · assumption
      · exact ih h
    · simp at h

theorem advance_drops (ov : Bool) (i : Nat) (m : M) (st : St) :
    ∀ ev ∈ (advance ov i m st).2, ∃ k m2, ev = .drop k m2 i m ∧ ov = false ∧ k ≠ i ∧ inside m m2 = true := by
  induction st with
  | nil => simp [advance]
  | cons p r ih =>
    obtain ⟨k, l⟩ := p
    simp only [advance]
    split
    · exact ih
    · rename_i hki
      split
      · exact ih
      · rename_i hov
        intro ev hev
        rcases List.mem_append.mp hev with h | h
        · obtain ⟨m2, hm2, rfl⟩ := List.mem_map.mp h
          exact ⟨k, m2, rfl, by simpa using hov, hki, (mem_takeWhile_holds _ _ _ hm2)⟩
        · exact ih ev h

/-- every discarded match was discarded because of a reported match of another expression inside which it begins -/
theorem drops_justified (ov : Bool) : ∀ (f : Nat) (st : St) (k : Nat) (m2 : M) (i : Nat) (m : M),
    Ev.drop k m2 i m ∈ run ov f st → ov = false ∧ k ≠ i ∧ inside m m2 = true ∧ Ev.emit i m ∈ run ov f st := by
  intro f
  induction f with
  | zero => intro st k m2 i m h; simp [run] at h
  | succ f ih =>
    intro st k m2 i m h
    unfold run at h ⊢
    split at h
    · simp at h
    next i0 m0 hb =>
      simp only [hb]
      rcases List.mem_cons.mp h with he | h
      · cases he
      rcases List.mem_append.mp h with h | h
      · obtain ⟨k', m2', he, ho, hk, hin⟩ := advance_drops ov i0 m0 st _ h
        cases he
        exact ⟨ho, hk, hin, by simp⟩
      · obtain ⟨ho, hk, hin, hem⟩ := ih _ k m2 i m h
        exact ⟨ho, hk, hin, List.mem_cons_of_mem _ (List.mem_append_right _ hem)⟩

theorem mem_emits (evs : List Ev) (i : Nat) (m : M) : (i, m) ∈ emits evs ↔ Ev.emit i m ∈ evs := by
  unfold emits
  rw [List.mem_filterMap]
  constructor
  · rintro ⟨ev, hev, h⟩
    cases ev with
    | emit i' m' => simp only [Ev.emitted, Option.some.injEq, Prod.mk.injEq] at h; obtain ⟨rfl, rfl⟩ := h; exact hev
    | drop _ _ _ _ => simp [Ev.emitted] at h
  · intro h; exact ⟨_, h, rfl⟩

/-- **C07 (several expressions: what is reported is a match).** -/
theorem sound (ov : Bool) (f : Nat) (st : St) (hn : (keys st).Nodup) (hf : total st < f) (i : Nat) (m : M)
    (h : (i, m) ∈ emits (run ov f st)) : m ∈ rem st i := by
  rw [← account ov f st hn hf i]
  exact List.mem_filterMap.mpr ⟨_, (mem_emits _ i m).mp h, by simp [evOf]⟩

/-- **C07 (several expressions, without overlap: an occurrence is left out only inside another).** Every match of every
expression is reported, unless it begins inside (`begin ≤ · < end`) a reported match of another expression. -/
theorem left_out_only_inside_another (f : Nat) (st : St) (hn : (keys st).Nodup) (hf : total st < f) (j : Nat) (m2 : M)
    (h : m2 ∈ rem st j) :
    (j, m2) ∈ emits (run false f st) ∨
      ∃ i m, i ≠ j ∧ (i, m) ∈ emits (run false f st) ∧ m.b ≤ m2.b ∧ m2.b < m.e := by
  rw [← account false f st hn hf j] at h
  obtain ⟨ev, hev, he⟩ := List.mem_filterMap.mp h
  cases ev with
  | emit i m =>
    simp only [evOf] at he
    split at he
    · rename_i hij; subst hij
      simp only [Option.some.injEq] at he; subst he
      exact Or.inl ((mem_emits _ _ _).mpr hev)
    · simp at he
  | drop k m2' i m =>
    simp only [evOf] at he
    split at he
    · rename_i hkj; subst hkj
      simp only [Option.some.injEq] at he; subst he
      obtain ⟨_, hk, hin, hem⟩ := drops_justified false f st _ _ _ _ hev
      simp only [inside, Bool.and_eq_true, decide_eq_true_eq] at hin
      exact Or.inr ⟨i, m, fun e => hk e.symm, (mem_emits _ _ _).mpr hem, hin.1, hin.2⟩
    · simp at he

/-- **C07 (several expressions, with overlap: everything is reported).** The results of expression `j`, in the order
they are reported, are exactly its matches. -/
theorem overlap_reports_everything (f : Nat) (st : St) (hn : (keys st).Nodup) (hf : total st < f) (j : Nat) :
    ((emits (run true f st)).filter (fun p => p.1 = j)).map (·.2) = rem st j := by
  rw [← account true f st hn hf j]
  have hnd : ∀ ev ∈ run true f st, ∃ i m, ev = .emit i m := by
    intro ev hev
    cases ev with
    | emit i m => exact ⟨i, m, rfl⟩
    | drop k m2 i m => have := (drops_justified true f st _ _ _ _ hev).1; simp at this
  generalize run true f st = evs at hnd
  induction evs with
  | nil => rfl
  | cons ev evs ih =>
    obtain ⟨i, m, rfl⟩ := hnd ev (by simp)
    have ih' := ih (fun e he => hnd e (List.mem_cons_of_mem _ he))
    simp only [emits, List.filterMap_cons] at ih' ⊢
    by_cases hij : i = j
    · subst hij; simp [evOf, Ev.emitted, ih']
    · simp [evOf, Ev.emitted, hij, ih']

/-! ### order -/

def SortedB (l : List M) : Prop := l.Pairwise (fun a c => a.b ≤ c.b)

theorem advance_sub (ov : Bool) (i : Nat) (m : M) (st : St) :
    ∀ k l', (k, l') ∈ (advance ov i m st).1 → ∃ l, (k, l) ∈ st ∧ l'.Sublist l := by
  induction st with
  | nil => simp [advance]
  | cons p r ih =>
    obtain ⟨k0, l0⟩ := p
    intro k l' h
    simp only [advance] at h
    have step : ∀ x : List M, x.Sublist l0 → (k, l') ∈ (k0, x) :: (advance ov i m r).1 → ∃ l, (k, l) ∈ (k0, l0) :: r ∧ l'.Sublist l := by
      intro x hx h
      rcases List.mem_cons.mp h with he | hr
      · simp only [Prod.mk.injEq] at he
        obtain ⟨rfl, rfl⟩ := he
        exact ⟨l0, by simp, hx⟩
      · obtain ⟨l, hl, hs⟩ := ih k l' hr
        exact ⟨l, List.mem_cons_of_mem _ hl, hs⟩
    split at h
    · exact step _ (List.tail_sublist l0) h
    · split at h
      · exact step _ (List.Sublist.refl l0) h
      · exact step _ (List.dropWhile_sublist _) h

/-- whatever is reported later was in some list of the state -/
theorem emit_mem (ov : Bool) : ∀ (f : Nat) (st : St) (i : Nat) (m : M), Ev.emit i m ∈ run ov f st → ∃ l, (i, l) ∈ st ∧ m ∈ l := by
  intro f
  induction f with
  | zero => intro st i m h; simp [run] at h
  | succ f ih =>
    intro st i m h
    unfold run at h
    split at h
    · simp at h
    next i0 m0 hb =>
      rcases List.mem_cons.mp h with he | h
      · cases he
        obtain ⟨l, hl⟩ := best_mem st _ _ hb
        exact ⟨_, hl, by simp⟩
      rcases List.mem_append.mp h with h | h
      · obtain ⟨k', m2', he, _⟩ := advance_drops ov i0 m0 st _ h
        cases he
      · obtain ⟨l', hl', hm⟩ := ih _ i m h
        obtain ⟨l, hl, hs⟩ := advance_sub ov i0 m0 st i l' hl'
        exact ⟨l, hl, hs.subset hm⟩

/-- **C07 (several expressions: results in the order they are found in the text).** When every expression's matches come
in the order of their begin positions (as the regex library's iterators give them), so do the merged results. -/
theorem ordered (ov : Bool) : ∀ (f : Nat) (st : St), (∀ k l, (k, l) ∈ st → SortedB l) →
    (emits (run ov f st)).Pairwise (fun a c => a.2.b ≤ c.2.b) := by
  intro f
  induction f with
  | zero => intro st _; simp [run, emits]
  | succ f ih =>
    intro st hs
    unfold run
    split
    · simp [emits]
    next i m hb =>
      have hs' : ∀ k l, (k, l) ∈ (advance ov i m st).1 → SortedB l := by
        intro k l' h
        obtain ⟨l, hl, hsub⟩ := advance_sub ov i m st k l' h
        exact List.Pairwise.sublist hsub (hs k l hl)
      have hd : emits ((advance ov i m st).2 ++ run ov f (advance ov i m st).1) = emits (run ov f (advance ov i m st).1) := by
        unfold emits
        rw [List.filterMap_append]
        have : List.filterMap Ev.emitted (advance ov i m st).2 = [] := by
          apply List.filterMap_eq_nil_iff.mpr
          intro ev hev
          obtain ⟨k', m2', he, _⟩ := advance_drops ov i m st _ hev
          subst he; rfl
        rw [this, List.nil_append]
      have hcons : emits (Ev.emit i m :: ((advance ov i m st).2 ++ run ov f (advance ov i m st).1))
          = (i, m) :: emits (run ov f (advance ov i m st).1) := by
        rw [← hd]; rfl
      rw [hcons, List.pairwise_cons]
      refine ⟨?_, ih _ hs'⟩
      intro c hc
      obtain ⟨ci, cm⟩ := c
      obtain ⟨l', hl', hm⟩ := emit_mem ov f _ ci cm ((mem_emits _ _ _).mp hc)
      obtain ⟨l, hl, hsub⟩ := advance_sub ov i m st ci l' hl'
      have hcm : cm ∈ l := hsub.subset hm
      -- the head of that list begins at or after `m`, and the list is sorted
      cases l with
      | nil => simp at hcm
      | cons a l =>
        have hmin := best_min st i m hb ci a l hl
        rcases List.mem_cons.mp hcm with rfl | hin
        · exact hmin
        · have := (List.pairwise_cons.mp (hs ci _ hl)).1 cm hin
          simp only at this ⊢
          omega

/-! ### without overlap: nothing reported begins inside an earlier result of another expression -/

theorem advance_mem_other (i : Nat) (m : M) (st : St) (k : Nat) (l' : List M)
    (h : (k, l') ∈ (advance false i m st).1) (hk : k ≠ i) : ∃ l, (k, l) ∈ st ∧ l' = l.dropWhile (inside m) := by
  induction st with
  | nil => simp [advance] at h
  | cons p r ih =>
    obtain ⟨k0, l0⟩ := p
    simp only [advance] at h
    split at h
    · rename_i hki
      rcases List.mem_cons.mp h with he | hr
      · simp only [Prod.mk.injEq] at he
        exact absurd (he.1.trans hki) hk
      · obtain ⟨l, hl, e⟩ := ih hr
        exact ⟨l, List.mem_cons_of_mem _ hl, e⟩
    · simp only [Bool.false_eq_true, ↓reduceIte] at h
      rcases List.mem_cons.mp h with he | hr
      · simp only [Prod.mk.injEq] at he
        obtain ⟨rfl, rfl⟩ := he
        exact ⟨l0, by simp, rfl⟩
      · obtain ⟨l, hl, e⟩ := ih hr
        exact ⟨l, List.mem_cons_of_mem _ hl, e⟩

theorem dropWhile_not_inside (m : M) : ∀ (l : List M), SortedB l → (∀ x ∈ l, m.b ≤ x.b) →
    ∀ c ∈ l.dropWhile (inside m), inside m c = false := by
  intro l
  induction l with
  | nil => intro _ _ c hc; simp at hc
  | cons x xs ih =>
    intro hs hb c hc
    have hs' : SortedB xs := (List.pairwise_cons.mp hs).2
    have hb' : ∀ y ∈ xs, m.b ≤ y.b := fun y hy => hb y (List.mem_cons_of_mem _ hy)
    simp only [List.dropWhile_cons] at hc
    split at hc
    · exact ih hs' hb' c hc
    · rename_i hx
      have hxf : inside m x = false := by simpa using hx
      rcases List.mem_cons.mp hc with rfl | hin
      · exact hxf
      · have hle := (List.pairwise_cons.mp hs).1 c hin
        have hmx := hb x (by simp)
        simp only [inside, Bool.and_eq_false_iff, decide_eq_false_iff_not] at hxf ⊢
        rcases hxf with h1 | h1
        · omega
        · right; omega

/-- **C07 (several expressions, without overlap: the results of different expressions do not overlap).** No result begins
inside (`begin ≤ · < end`) a result of another expression that was reported before it, when every expression's matches
come in the order of their begin positions. -/
theorem no_result_inside_an_earlier_one : ∀ (f : Nat) (st : St), (∀ k l, (k, l) ∈ st → SortedB l) →
    (emits (run false f st)).Pairwise (fun a c => a.1 ≠ c.1 → inside a.2 c.2 = false) := by
  intro f
  induction f with
  | zero => intro st _; simp [run, emits]
  | succ f ih =>
    intro st hs
    unfold run
    split
    · simp [emits]
    next i m hb =>
      have hs' : ∀ k l, (k, l) ∈ (advance false i m st).1 → SortedB l := by
        intro k l' h
        obtain ⟨l, hl, hsub⟩ := advance_sub false i m st k l' h
        exact List.Pairwise.sublist hsub (hs k l hl)
      have hd : emits ((advance false i m st).2 ++ run false f (advance false i m st).1) = emits (run false f (advance false i m st).1) := by
        unfold emits
        rw [List.filterMap_append]
        have : List.filterMap Ev.emitted (advance false i m st).2 = [] := by
          apply List.filterMap_eq_nil_iff.mpr
          intro ev hev
          obtain ⟨k', m2', he, _⟩ := advance_drops false i m st _ hev
          subst he; rfl
        rw [this, List.nil_append]
      have hcons : emits (Ev.emit i m :: ((advance false i m st).2 ++ run false f (advance false i m st).1))
          = (i, m) :: emits (run false f (advance false i m st).1) := by
        rw [← hd]; rfl
      rw [hcons, List.pairwise_cons]
      refine ⟨?_, ih _ hs'⟩
      intro c hc hne
      obtain ⟨ci, cm⟩ := c
      simp only at hne ⊢
      obtain ⟨l', hl', hm⟩ := emit_mem false f _ ci cm ((mem_emits _ _ _).mp hc)
      obtain ⟨l, hl, rfl⟩ := advance_mem_other i m st ci l' hl' (fun e => hne e.symm)
      apply dropWhile_not_inside m l (hs ci l hl) ?_ cm hm
      -- every match still buffered begins at or after `m`
      intro x hx
      cases l with
      | nil => simp at hx
      | cons a l =>
        have hmin := best_min st i m hb ci a l hl
        rcases List.mem_cons.mp hx with rfl | hin
        · exact hmin
        · have := (List.pairwise_cons.mp (hs ci _ hl)).1 x hin
          omega

/-! ### from the lists the regex library returns -/

theorem start_from (lists : List (List M)) (n : Nat) :
    keys ((lists.zipIdx n).map (fun p => (p.2, p.1))) = List.range' n lists.length ∧
    ∀ j, rem ((lists.zipIdx n).map (fun p => (p.2, p.1))) j = if j < n then [] else (lists[j - n]?).getD [] := by
  induction lists generalizing n with
  | nil => exact ⟨rfl, fun j => by simp [rem]⟩
  | cons l r ih =>
    obtain ⟨h1, h2⟩ := ih (n + 1)
    refine ⟨?_, ?_⟩
    · simp only [List.zipIdx_cons, List.map_cons, keys, List.length_cons, List.range'_succ] at h1 ⊢
      rw [← h1]
    · intro j
      simp only [List.zipIdx_cons, List.map_cons]
      rw [rem_cons, h2 j]
      by_cases hjn : j = n
      · subst hjn; simp
      · rw [if_neg hjn]
        by_cases hlt : j < n
        · rw [if_pos hlt, if_pos (by omega)]
        · rw [if_neg hlt, if_neg (by omega)]
          have : j - n = (j - (n + 1)) + 1 := by omega
          rw [this, List.getElem?_cons_succ]

theorem start_nodup (lists : List (List M)) : (keys (start lists)).Nodup := by
  unfold start
  rw [(start_from lists 0).1]
  exact List.nodup_range'

theorem rem_start (lists : List (List M)) (j : Nat) : rem (start lists) j = (lists[j]?).getD [] := by
  unfold start
  rw [(start_from lists 0).2 j]
  simp

/-- **C07 (several expressions, as the iterator is started).** Without `allow_overlap`, every match the regex library
finds for expression `j` is among the results, unless it begins inside a reported match of another expression. -/
theorem results_leave_out_only_inside_another (lists : List (List M)) (j : Nat) (m2 : M) (h : m2 ∈ (lists[j]?).getD []) :
    (j, m2) ∈ results false lists ∨ ∃ i m, i ≠ j ∧ (i, m) ∈ results false lists ∧ m.b ≤ m2.b ∧ m2.b < m.e := by
  rw [← rem_start] at h
  exact left_out_only_inside_another _ _ (start_nodup lists) (Nat.lt_succ_self _) j m2 h

/-- with `allow_overlap`, the results of expression `j` are its matches, all of them, in their order -/
theorem results_with_overlap (lists : List (List M)) (j : Nat) :
    ((results true lists).filter (fun p => p.1 = j)).map (·.2) = (lists[j]?).getD [] := by
  rw [← rem_start]
  exact overlap_reports_everything _ _ (start_nodup lists) (Nat.lt_succ_self _) j

/-- what is reported for an expression is one of its matches -/
theorem results_sound (ov : Bool) (lists : List (List M)) (i : Nat) (m : M) (h : (i, m) ∈ results ov lists) :
    m ∈ (lists[i]?).getD [] := by
  rw [← rem_start]
  exact sound ov _ _ (start_nodup lists) (Nat.lt_succ_self _) i m h

/-- the results come in the order of their begin positions -/
theorem results_ordered (ov : Bool) (lists : List (List M)) (hs : ∀ l ∈ lists, SortedB l) :
    (results ov lists).Pairwise (fun a c => a.2.b ≤ c.2.b) := by
  apply ordered
  intro k l h
  unfold start at h
  obtain ⟨p, hp, he⟩ := List.mem_map.mp h
  simp only [Prod.mk.injEq] at he
  obtain ⟨_, rfl⟩ := he
  exact hs _ (List.mem_zipIdx hp |> fun _ => by
    have := List.of_mem_zip (l₁ := lists) (l₂ := List.range' 0 lists.length) (a := p.1) (b := p.2) (by rw [← List.zipIdx_eq_zip_range']; exact hp)
    exact this.1)

/-- without `allow_overlap`, no result begins inside an earlier result of another expression -/
theorem results_do_not_overlap (lists : List (List M)) (hs : ∀ l ∈ lists, SortedB l) :
    (results false lists).Pairwise (fun a c => a.1 ≠ c.1 → inside a.2 c.2 = false) := by
  apply no_result_inside_an_earlier_one
  intro k l h
  unfold start at h
  obtain ⟨p, hp, he⟩ := List.mem_map.mp h
  simp only [Prod.mk.injEq] at he
  obtain ⟨_, rfl⟩ := he
  have := List.of_mem_zip (l₁ := lists) (l₂ := List.range' 0 lists.length) (a := p.1) (b := p.2) (by rw [← List.zipIdx_eq_zip_range']; exact hp)
  exact hs _ this.1

/-! ### non-vacuity -/

/-- two expressions: words and digits, on a text like `ab12 cd`: the digits begin where the word ends -/
def ex : List (List M) := [[⟨0, 2⟩, ⟨5, 7⟩], [⟨2, 4⟩]]

example : results false ex = [(0, ⟨0, 2⟩), (1, ⟨2, 4⟩), (0, ⟨5, 7⟩)] := by decide
/-- a match that begins inside another is left out without overlap, reported with -/
example : results false [[⟨0, 3⟩], [⟨1, 2⟩, ⟨3, 4⟩]] = [(0, ⟨0, 3⟩), (1, ⟨3, 4⟩)] := by decide
example : results true [[⟨0, 3⟩], [⟨1, 2⟩, ⟨3, 4⟩]] = [(0, ⟨0, 3⟩), (1, ⟨1, 2⟩), (1, ⟨3, 4⟩)] := by decide
example : (keys (start ex)).Nodup := by decide
example : ∀ l ∈ ex, SortedB l := by simp [ex, SortedB]

end Stam.RX.C07R
