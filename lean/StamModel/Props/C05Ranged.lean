import StamModel.Ranged
/-
  C01 ("asking an annotation for its targets returns exactly what it was built with") and C05 (targets survive the
  round trip with offsets and their alignment), for the members of complex selectors: whatever the loop of
  `subselectors` folds into internal ranges, iteration hands out again as it was — kind, handles, and the alignment
  of every offset.

  The theorem is false of the code before 90cf4b4, which folded annotation selectors with end-aligned offsets
  (`Offset::whole()`) and handed them out begin-aligned; the last example states that case.
-/
namespace Stam.Ranged
open Stam

/-- ranges run forward -/
def Sel.WF : Sel → Prop
  | .rtext _ b e => b ≤ e
  | .rann b e _ => b ≤ e
  | _ => True

/-- an annotation selector whose offset covers the whole text of its annotation names that annotation's own text
selection (text selections are stored once per resource and range) -/
def Sel.Cons (whole : Nat → Nat → Nat → Bool) (tsel : Nat → Option (Nat × Nat)) : Sel → Prop
  | .annoff a r t _ => whole a r t = true → tsel a = some (r, t)
  | _ => True

theorem expand_plain (tsel : Nat → Option (Nat × Nat)) (s : Sel) (h : s.isPlain = true) : expand tsel s = [s] := by
  cases s <;> simp [Sel.isPlain] at h <;> rfl

theorem range_snoc (n : Nat) (f : Nat → Sel) : (List.range (n + 1)).map f = (List.range n).map f ++ [f n] := by
  rw [List.range_succ, List.map_append]; rfl

/-- a member that joins the one stored last: the range that replaces it hands out what it handed out, then the member -/
theorem join_expand (whole : Nat → Nat → Nat → Bool) (tsel : Nat → Option (Nat × Nat)) (last s sub : Sel)
    (hj : join whole last s = some sub) (hw : last.WF) (hc1 : last.Cons whole tsel) (hc2 : s.Cons whole tsel) :
    expand tsel sub = expand tsel last ++ [s] ∧ sub.WF := by
  unfold join at hj
  split at hj
  · -- text, text
    rename_i r t r2 t2
    split at hj
    · rename_i h; cases hj; obtain ⟨rfl, rfl⟩ := h
      refine ⟨?_, by simp [Sel.WF]⟩
      simp only [expand]
      have : t + 1 + 1 - t = 1 + 1 := by omega
      rw [this, range_snoc, range_snoc]
      simp
    · cases hj
  · -- rtext, text
    rename_i r b e r2 t2
    split at hj
    · rename_i h; cases hj; obtain ⟨rfl, rfl⟩ := h
      simp only [Sel.WF] at hw
      refine ⟨?_, by simp only [Sel.WF]; omega⟩
      simp only [expand]
      have : e + 1 + 1 - b = (e + 1 - b) + 1 := by omega
      rw [this, range_snoc]
      have : b + (e + 1 - b) = e + 1 := by omega
      rw [this]
    · cases hj
  · -- ann, ann
    rename_i a a2
    split at hj
    · rename_i h; cases hj; subst h
      refine ⟨?_, by simp [Sel.WF]⟩
      simp only [expand]
      have : a + 1 + 1 - a = 1 + 1 := by omega
      rw [this, range_snoc, range_snoc]
      simp
    · cases hj
  · -- rann false, ann
    rename_i b e a
    split at hj
    · rename_i h; cases hj; subst h
      simp only [Sel.WF] at hw
      refine ⟨?_, by simp only [Sel.WF]; omega⟩
      simp only [expand]
      have : e + 1 + 1 - b = (e + 1 - b) + 1 := by omega
      rw [this, range_snoc]
      have : b + (e + 1 - b) = e + 1 := by omega
      rw [this]
    · cases hj
  · -- annoff, annoff
    rename_i a r t a2 r2 t2
    split at hj
    · rename_i h; cases hj; obtain ⟨rfl, h1, h2⟩ := h
      have e1 : tsel a = some (r, t) := hc1 h1
      have e2 : tsel (a + 1) = some (r2, t2) := hc2 h2
      refine ⟨?_, by simp [Sel.WF]⟩
      simp only [expand]
      have : a + 1 + 1 - a = 1 + 1 := by omega
      rw [this, range_snoc, range_snoc]
      simp [annItem, e1, e2]
    · cases hj
  · -- rann true, annoff
    rename_i b e a r t
    split at hj
    · rename_i h; cases hj; obtain ⟨rfl, h1⟩ := h
      have e1 : tsel (e + 1) = some (r, t) := hc2 h1
      simp only [Sel.WF] at hw
      refine ⟨?_, by simp only [Sel.WF]; omega⟩
      simp only [expand]
      have : e + 1 + 1 - b = (e + 1 - b) + 1 := by omega
      rw [this, range_snoc]
      have : b + (e + 1 - b) = e + 1 := by omega
      rw [this]
      simp [annItem, e1]
    · cases hj
  · cases hj

theorem expandAll_append (tsel : Nat → Option (Nat × Nat)) (a b : List Sel) :
    expandAll tsel (a ++ b) = expandAll tsel a ++ expandAll tsel b := by
  simp [expandAll, List.flatMap_append]

theorem plain_wf (s : Sel) (h : s.isPlain = true) : s.WF := by
  cases s <;> simp [Sel.isPlain] at h <;> trivial

theorem foldStep_spec (whole : Nat → Nat → Nat → Bool) (tsel : Nat → Option (Nat × Nat)) (acc : List Sel) (s : Sel)
    (hs : s.isPlain = true) (hsc : s.Cons whole tsel) (hacc : ∀ x ∈ acc, x.Cons whole tsel ∧ x.WF) :
    expandAll tsel (foldStep whole acc s) = expandAll tsel acc ++ [s] ∧
    (∀ x ∈ foldStep whole acc s, x.Cons whole tsel ∧ x.WF) := by
  unfold foldStep
  cases hl : acc.getLast? with
  | none =>
    have : acc = [] := by simpa using hl
    subst this
    refine ⟨by simp [expandAll, expand_plain tsel s hs], ?_⟩
    intro x hx; simp at hx; rw [hx]; exact ⟨hsc, plain_wf s hs⟩
  | some last =>
    have hsplit : acc = acc.dropLast ++ [last] := by
      have hne : acc ≠ [] := by intro h; subst h; simp at hl
      have hlast : acc.getLast hne = last := by
        rw [List.getLast?_eq_some_getLast hne] at hl; exact Option.some.inj hl
      rw [← hlast]; exact (List.dropLast_concat_getLast hne).symm
    have hlast_mem : last ∈ acc := by rw [hsplit]; simp
    obtain ⟨hlc, hlw⟩ := hacc last hlast_mem
    simp only
    cases hj : join whole last s with
    | none =>
      simp only
      refine ⟨by rw [expandAll_append]; simp [expandAll, expand_plain tsel s hs], ?_⟩
      intro x hx
      rcases List.mem_append.mp hx with h | h
      · exact hacc x h
      · simp at h; rw [h]; exact ⟨hsc, plain_wf s hs⟩
    | some sub =>
      simp only
      obtain ⟨he, hw⟩ := join_expand whole tsel last s sub hj hlw hlc hsc
      refine ⟨?_, ?_⟩
      · rw [expandAll_append]
        conv => rhs; rw [hsplit, expandAll_append]
        simp only [expandAll, List.flatMap_cons, List.flatMap_nil, List.append_nil, he, List.append_assoc]
      · intro x hx
        rcases List.mem_append.mp hx with h | h
        · exact hacc x (List.dropLast_subset _ h)
        · simp at h; subst h
          refine ⟨?_, hw⟩
          -- what replaces `last` is a range
          unfold join at hj
          split at hj <;> (try split at hj) <;> (first | cases hj | skip) <;> trivial

theorem foldl_spec (whole : Nat → Nat → Nat → Bool) (tsel : Nat → Option (Nat × Nat)) :
    ∀ (l acc : List Sel), (∀ s ∈ l, s.isPlain = true ∧ s.Cons whole tsel) → (∀ x ∈ acc, x.Cons whole tsel ∧ x.WF) →
      expandAll tsel (l.foldl (foldStep whole) acc) = expandAll tsel acc ++ l := by
  intro l
  induction l with
  | nil => intro acc _ _; simp
  | cons s r ih =>
    intro acc hl hacc
    obtain ⟨hs, hsc⟩ := hl s (List.mem_cons_self ..)
    obtain ⟨h1, h2⟩ := foldStep_spec whole tsel acc s hs hsc hacc
    rw [List.foldl_cons, ih _ (fun x hx => hl x (List.mem_cons_of_mem _ hx)) h2, h1]
    simp

/-- **the members of a complex selector come back as they were built**: for every list of simple members (any kinds,
any handles, offsets of any alignment), in a store where an offset that covers an annotation's whole text names that
annotation's text selection, iterating over what `subselectors` stored yields the list itself -/
theorem expand_fold (whole : Nat → Nat → Nat → Bool) (tsel : Nat → Option (Nat × Nat)) (l : List Sel)
    (hl : ∀ s ∈ l, s.isPlain = true ∧ s.Cons whole tsel) : expandAll tsel (fold whole l) = l := by
  unfold fold
  rw [foldl_spec whole tsel l [] hl (by intro x hx; simp at hx)]
  simp [expandAll]

/-! ### the premises are met; what the theorem excludes -/

/-- three words (annotations 0, 1, 2 on text selections 0, 1, 2 of resource 0) and a phrase over them -/
def wholeEx : Nat → Nat → Nat → Bool := fun a r t => r = 0 ∧ t = a
def tselEx : Nat → Option (Nat × Nat) := fun a => some (0, a)

example : fold wholeEx [.annoff 0 0 0 .bb, .annoff 1 0 1 .bb, .annoff 2 0 2 .bb, .res 0] = [.rann 0 2 true, .res 0] := by decide
example : expandAll tselEx [.rann 0 2 true, .res 0] = [.annoff 0 0 0 .bb, .annoff 1 0 1 .bb, .annoff 2 0 2 .bb, .res 0] := by decide
/-- end-aligned offsets stay as they are (they are not folded) -/
example : fold wholeEx [.annoff 0 0 0 .be, .annoff 1 0 1 .be] = [.annoff 0 0 0 .be, .annoff 1 0 1 .be] := by decide
/-- folding them, as the code did before 90cf4b4, loses the alignment: the range hands out begin-aligned offsets -/
example : expandAll tselEx [.rann 0 1 true] ≠ [.annoff 0 0 0 .be, .annoff 1 0 1 .be] := by decide

end Stam.Ranged
