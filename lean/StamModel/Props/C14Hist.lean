import StamModel.Props.C14
/-
  C14 — over histories. `fail_noop_partial` speaks about one failing call. Here: in a whole history of calls of the
  kinds it covers (adding resources and datasets, every removal), the failed calls can be struck out — the store at the
  end is the store reached by the successful calls alone, every one of which answers what it answered in the full
  history. "As if the failed attempt had never happened", for any number of failed attempts at any positions.
-/
namespace Stam.C14
open Stam Stam.C01 Stam.C02

/-- the kinds of call `fail_noop_partial` covers -/
def Covered (op : StoreOp) : Prop :=
  match op with | .addRes .. | .addSet _ | .rmAnn _ | .rmRes _ | .rmSet _ | .rmData .. => True | _ => False

def runFrom (s : State) (ops : List StoreOp) : State := ops.foldl (fun s op => (step s op).2) s

/-- the calls of a history that did not fail, and what each answered -/
def succeeded : State → List StoreOp → List (StoreOp × Resp)
  | _, [] => []
  | s, op :: r =>
    match (step s op).1 with
    | .err => succeeded (step s op).2 r
    | .ok t => (op, .ok t) :: succeeded (step s op).2 r

/-- a history replayed with its answers -/
def trace : State → List StoreOp → List (StoreOp × Resp)
  | _, [] => []
  | s, op :: r => (op, (step s op).1) :: trace (step s op).2 r

/-- **failed calls can be struck out of a history** -/
theorem failed_calls_erasable (ops : List StoreOp) (hc : ∀ op ∈ ops, Covered op) : ∀ (s : State), WF s →
    runFrom s ((succeeded s ops).map (·.1)) = runFrom s ops ∧
    trace s ((succeeded s ops).map (·.1)) = succeeded s ops := by
  induction ops with
  | nil => intro s _; exact ⟨rfl, rfl⟩
  | cons op r ih =>
    intro s hw
    have hcr : ∀ o ∈ r, Covered o := fun o ho => hc o (by simp [ho])
    have hw' : WF (step s op).2 := wf_step s op hw
    cases hr : (step s op).1 with
    | err =>
      have hsame : (step s op).2 = s := fail_noop_partial s op hw (hc op (by simp)) hr
      have := ih hcr s hw
      simp only [succeeded, hr, runFrom, List.foldl_cons, hsame] at this ⊢
      exact this
    | ok t =>
      have := ih hcr _ hw'
      simp only [succeeded, hr, List.map_cons, runFrom, List.foldl_cons, trace] at this ⊢
      exact ⟨this.1, by rw [this.2]⟩

/-- from the empty store: any history of covered calls -/
theorem failed_calls_erasable_run (ops : List StoreOp) (hc : ∀ op ∈ ops, Covered op) :
    runFrom State.empty ((succeeded State.empty ops).map (·.1)) = runFrom State.empty ops :=
  (failed_calls_erasable ops hc State.empty wf_empty).1

/-- non-vacuity: a history with two failing calls between successful ones -/
example : ((succeeded State.empty [.addRes "r" 8, .addRes "r" 5, .rmRes "nores", .addRes "q" 3]).map (·.2))
    = [.ok "0", .ok "1"] := by decide

end Stam.C14
