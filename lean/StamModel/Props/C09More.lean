import StamModel.Props.C09Constraints
/-
  C09 — print-then-parse for the constraint kinds added after the first five: RESOURCE, ANNOTATION (with and without
  RECURSIVE), RELATION and VALUE, without an OFFSET clause.
-/
namespace Stam.QL.C09
open Stam.QL

theorem closed_semi (t : Str) : closed (';' :: t) = true := by simp [closed, startsWith]

theorem parseOffset_semi (parseI : Str → Option Int) (parseNat : Str → Option Nat) (isDt : Str → Bool) (t : Str) :
    parseOffset parseI parseNat isDt (';' :: t) = .ok (none, ';' :: t) := by
  unfold parseOffset
  simp [closed_semi]

/-- `RESOURCE [AS METADATA] "id" <offset clause>;` given what `parse_offset` makes of the clause -/
theorem resource_roundtrip_off (parseI : Str → Option Int) (parseF : Str → Bool) (isDt : Str → Bool) (regexOk : Str → Bool)
    (parseNat : Str → Option Nat)
    (s rest T : Str) (q : Qual) (off : Option (Cursor × Cursor))
    (hs : Q s) (h1 : s ≠ kAS) (h2 : s ≠ kRECURSIVE) (h3 : isVar s = false) (hr : NoTrailWs rest)
    (hoff : parseOffset parseI parseNat isDt (trimStart (T ++ ';' :: rest)) = .ok (off, ';' :: rest)) :
    parseCnAll parseI parseF isDt regexOk parseNat (kRESOURCE ++ qualStr q ++ [' '] ++ quote s ++ T ++ ';' :: rest)
      = .ok (.resource s q off, trimStart rest) := by
  obtain ⟨a, r, ty, ha, hq⟩ := qual_prefix isDt q s (T ++ ';' :: rest) hs h1 h2
  obtain ⟨X, hX⟩ : ∃ X, X = qualStr q ++ [' '] ++ quote s ++ T := ⟨_, rfl⟩
  have hsp : ∃ X', X = ' ' :: X' := by subst hX; cases q <;> simp [qualStr]
  obtain ⟨X', hX'⟩ := hsp
  have ha' : arg isDt (trimStart (X ++ ';' :: rest)) = .ok (a, r, ty) := by
    rw [hX]; simpa [List.append_assoc] using ha
  have hin : kRESOURCE ++ qualStr q ++ [' '] ++ quote s ++ T ++ ';' :: rest = 'R' :: (['E', 'S', 'O', 'U', 'R', 'C', 'E'] ++ X) ++ ';' :: rest := by
    rw [hX]; simp [kRESOURCE]
  rw [hin]
  have ht := trim_printed (['E', 'S', 'O', 'U', 'R', 'C', 'E'] ++ X) rest 'R' (by decide) hr
  unfold parseCnAll
  simp only [ht]
  have hfw : firstWord ('R' :: (['E', 'S', 'O', 'U', 'R', 'C', 'E'] ++ X) ++ ';' :: rest) = kRESOURCE := by
    rw [hX']; simp [firstWord, kRESOURCE, isSplit]
  have hdrop : (('R' :: (['E', 'S', 'O', 'U', 'R', 'C', 'E'] ++ X) ++ ';' :: rest).drop 8) = X ++ ';' :: rest := by simp
  have hhead : ('R' :: (['E', 'S', 'O', 'U', 'R', 'C', 'E'] ++ X) ++ ';' :: rest).head? = some 'R' := rfl
  rw [hfw, hhead]
  simp only [Option.some.injEq, show ¬ ('R' = '@') by decide, if_false]
  unfold parseCnMore
  rw [if_neg (by decide : ¬ kRESOURCE = kANNOTATION), if_pos rfl]
  simp only [hdrop, ha', hq, hoff, h3, finish_semicolon]
  rfl

/-- `RESOURCE [AS METADATA] "id";` -/
theorem resource_roundtrip (parseI : Str → Option Int) (parseF : Str → Bool) (isDt : Str → Bool) (regexOk : Str → Bool)
    (parseNat : Str → Option Nat)
    (s rest : Str) (q : Qual) (hs : Q s) (h1 : s ≠ kAS) (h2 : s ≠ kRECURSIVE) (h3 : isVar s = false) (hr : NoTrailWs rest) :
    parseCnAll parseI parseF isDt regexOk parseNat (kRESOURCE ++ qualStr q ++ [' '] ++ quote s ++ ';' :: rest)
      = .ok (.resource s q none, trimStart rest) := by
  have := resource_roundtrip_off parseI parseF isDt regexOk parseNat s rest [] q none hs h1 h2 h3 hr
    (by rw [List.nil_append, trimStart_semi]; exact parseOffset_semi parseI parseNat isDt rest)
  simpa using this

theorem plain_kRECURSIVE : Plain kRECURSIVE := by unfold Plain kRECURSIVE; decide

/-- after `ANNOTATION`: the optional ` AS METADATA`, the optional ` RECURSIVE` (a space in its place when absent),
then the quoted identifier -/
theorem qual_rec_prefix (isDt : Str → Bool) (q : Qual) (rec : Bool) (s tail : Str) (hs : Q s) (h1 : s ≠ kAS) (h2 : s ≠ kRECURSIVE) :
    ∃ a r ty, arg isDt (trimStart (qualStr q ++ (if rec then [' '] ++ kRECURSIVE else [' ']) ++ [' '] ++ quote s ++ tail)) = .ok (a, r, ty) ∧
      parseQualifiers isDt a r = .ok (s, trimStart tail, q, rec) := by
  cases rec with
  | false =>
    cases q with
    | normal =>
      obtain ⟨a, r, ty, ha, hq⟩ := qual_prefix isDt .normal s tail hs h1 h2
      refine ⟨a, r, ty, ?_, hq⟩
      simp only [qualStr, List.nil_append, Bool.false_eq_true, if_false, List.cons_append, trimStart_space] at ha ⊢
      exact ha
    | metadata =>
      -- ` AS METADATA` + two spaces + quote: the word METADATA is followed by a space either way
      have hq' := arg_quoted isDt s tail hs.1 hs.2
      have hA := arg_word isDt kAS ' ' (kMETADATA ++ ' ' :: ' ' :: (quote s ++ tail)) (by decide) plain_kAS
      have hM := arg_word isDt kMETADATA ' ' (' ' :: (quote s ++ tail)) (by decide) plain_kMETADATA
      simp only [kAS, kMETADATA, List.cons_append, List.nil_append, trimStart_space] at hA hM
      have hMt : trimStart ('M' :: 'E' :: 'T' :: 'A' :: 'D' :: 'A' :: 'T' :: 'A' :: ' ' :: ' ' :: (quote s ++ tail))
          = 'M' :: 'E' :: 'T' :: 'A' :: 'D' :: 'A' :: 'T' :: 'A' :: ' ' :: ' ' :: (quote s ++ tail) := trimStart_cons_nonws _ _ (by decide)
      refine ⟨kAS, trimStart ('M' :: 'E' :: 'T' :: 'A' :: 'D' :: 'A' :: 'T' :: 'A' :: ' ' :: ' ' :: (quote s ++ tail)), argType isDt ['A', 'S'] false, ?_, ?_⟩
      · simp only [qualStr, Bool.false_eq_true, if_false, List.cons_append, List.nil_append, List.append_assoc, List.singleton_append, trimStart_space]
        rw [trimStart_cons_nonws _ _ (by decide)]
        exact hA
      · rw [hMt]
        unfold parseQualifiers
        rw [if_pos rfl, hM]
        simp only []
        have hcond : (['M', 'E', 'T', 'A', 'D', 'A', 'T', 'A'] : Str) = kTARGET ∨ (['M', 'E', 'T', 'A', 'D', 'A', 'T', 'A'] : Str) = kMETADATA := Or.inr rfl
        rw [if_pos hcond, trimStart_quote_app, hq']
        simp only []
        rw [if_neg h2]
  | true =>
    have hq' := arg_quoted isDt s tail hs.1 hs.2
    have hR := arg_word isDt kRECURSIVE ' ' (quote s ++ tail) (by decide) plain_kRECURSIVE
    simp only [kRECURSIVE, List.cons_append, List.nil_append, trimStart_space] at hR
    have hRt : trimStart ('R' :: 'E' :: 'C' :: 'U' :: 'R' :: 'S' :: 'I' :: 'V' :: 'E' :: ' ' :: (quote s ++ tail))
        = 'R' :: 'E' :: 'C' :: 'U' :: 'R' :: 'S' :: 'I' :: 'V' :: 'E' :: ' ' :: (quote s ++ tail) := trimStart_cons_nonws _ _ (by decide)
    cases q with
    | normal =>
      refine ⟨kRECURSIVE, trimStart (' ' :: (quote s ++ tail)), argType isDt kRECURSIVE false, ?_, ?_⟩
      · simp only [qualStr, if_true, kRECURSIVE, List.cons_append, List.nil_append, List.append_assoc, List.singleton_append, trimStart_space]
        rw [hRt]; exact hR
      · unfold parseQualifiers
        rw [if_neg (by decide : ¬ kRECURSIVE = kAS), if_pos rfl, trimStart_space, trimStart_quote_app, hq']
    | metadata =>
      have hA := arg_word isDt kAS ' ' (kMETADATA ++ ' ' :: (kRECURSIVE ++ ' ' :: (quote s ++ tail))) (by decide) plain_kAS
      have hM := arg_word isDt kMETADATA ' ' (kRECURSIVE ++ ' ' :: (quote s ++ tail)) (by decide) plain_kMETADATA
      simp only [kAS, kMETADATA, kRECURSIVE, List.cons_append, List.nil_append, trimStart_space] at hA hM
      have hMt : trimStart ('M' :: 'E' :: 'T' :: 'A' :: 'D' :: 'A' :: 'T' :: 'A' :: ' ' :: 'R' :: 'E' :: 'C' :: 'U' :: 'R' :: 'S' :: 'I' :: 'V' :: 'E' :: ' ' :: (quote s ++ tail))
          = 'M' :: 'E' :: 'T' :: 'A' :: 'D' :: 'A' :: 'T' :: 'A' :: ' ' :: 'R' :: 'E' :: 'C' :: 'U' :: 'R' :: 'S' :: 'I' :: 'V' :: 'E' :: ' ' :: (quote s ++ tail) := trimStart_cons_nonws _ _ (by decide)
      refine ⟨kAS, trimStart ('M' :: 'E' :: 'T' :: 'A' :: 'D' :: 'A' :: 'T' :: 'A' :: ' ' :: 'R' :: 'E' :: 'C' :: 'U' :: 'R' :: 'S' :: 'I' :: 'V' :: 'E' :: ' ' :: (quote s ++ tail)), argType isDt ['A', 'S'] false, ?_, ?_⟩
      · simp only [qualStr, if_true, kRECURSIVE, List.cons_append, List.nil_append, List.append_assoc, List.singleton_append, trimStart_space]
        rw [trimStart_cons_nonws _ _ (by decide)]
        exact hA
      · rw [hMt]
        unfold parseQualifiers
        rw [if_pos rfl, hM]
        simp only []
        have hcond : (['M', 'E', 'T', 'A', 'D', 'A', 'T', 'A'] : Str) = kTARGET ∨ (['M', 'E', 'T', 'A', 'D', 'A', 'T', 'A'] : Str) = kMETADATA := Or.inr rfl
        rw [if_pos hcond, hRt, hR]
        simp only [kRECURSIVE, if_true, trimStart_quote_app, hq']

/-- `ANNOTATION [AS METADATA] [RECURSIVE] "id" <offset clause>;` given what `parse_offset` makes of the clause -/
theorem annotation_roundtrip_off (parseI : Str → Option Int) (parseF : Str → Bool) (isDt : Str → Bool) (regexOk : Str → Bool)
    (parseNat : Str → Option Nat)
    (s rest T : Str) (q : Qual) (rec : Bool) (off : Option (Cursor × Cursor))
    (hs : Q s) (h1 : s ≠ kAS) (h2 : s ≠ kRECURSIVE) (h3 : isVar s = false) (hr : NoTrailWs rest)
    (hoff : parseOffset parseI parseNat isDt (trimStart (T ++ ';' :: rest)) = .ok (off, ';' :: rest)) :
    parseCnAll parseI parseF isDt regexOk parseNat
        (kANNOTATION ++ qualStr q ++ (if rec then [' '] ++ kRECURSIVE else [' ']) ++ [' '] ++ quote s ++ T ++ ';' :: rest)
      = .ok (.annotation s q rec off, trimStart rest) := by
  obtain ⟨a, r, ty, ha, hq⟩ := qual_rec_prefix isDt q rec s (T ++ ';' :: rest) hs h1 h2
  obtain ⟨X, hX⟩ : ∃ X, X = qualStr q ++ (if rec then [' '] ++ kRECURSIVE else [' ']) ++ [' '] ++ quote s ++ T := ⟨_, rfl⟩
  have hsp : ∃ X', X = ' ' :: X' := by
    subst hX; cases q <;> cases rec <;> simp [qualStr]
  obtain ⟨X', hX'⟩ := hsp
  have ha' : arg isDt (trimStart (X ++ ';' :: rest)) = .ok (a, r, ty) := by
    rw [hX]; simpa [List.append_assoc] using ha
  have hin : kANNOTATION ++ qualStr q ++ (if rec then [' '] ++ kRECURSIVE else [' ']) ++ [' '] ++ quote s ++ T ++ ';' :: rest
      = 'A' :: (['N', 'N', 'O', 'T', 'A', 'T', 'I', 'O', 'N'] ++ X) ++ ';' :: rest := by
    rw [hX]; simp [kANNOTATION]
  rw [hin]
  have ht := trim_printed (['N', 'N', 'O', 'T', 'A', 'T', 'I', 'O', 'N'] ++ X) rest 'A' (by decide) hr
  unfold parseCnAll
  simp only [ht]
  have hfw : firstWord ('A' :: (['N', 'N', 'O', 'T', 'A', 'T', 'I', 'O', 'N'] ++ X) ++ ';' :: rest) = kANNOTATION := by
    rw [hX']; simp [firstWord, kANNOTATION, isSplit]
  have hdrop : (('A' :: (['N', 'N', 'O', 'T', 'A', 'T', 'I', 'O', 'N'] ++ X) ++ ';' :: rest).drop 10) = X ++ ';' :: rest := by
    simp
  have hhead : ('A' :: (['N', 'N', 'O', 'T', 'A', 'T', 'I', 'O', 'N'] ++ X) ++ ';' :: rest).head? = some 'A' := rfl
  rw [hfw, hhead]
  simp only [Option.some.injEq, show ¬ ('A' = '@') by decide, if_false]
  unfold parseCnMore
  rw [if_pos rfl]
  simp only [hdrop, ha', hq, hoff, h3, finish_semicolon]
  rfl

/-- `ANNOTATION [AS METADATA] [RECURSIVE] "id";` -/
theorem annotation_roundtrip (parseI : Str → Option Int) (parseF : Str → Bool) (isDt : Str → Bool) (regexOk : Str → Bool)
    (parseNat : Str → Option Nat)
    (s rest : Str) (q : Qual) (rec : Bool) (hs : Q s) (h1 : s ≠ kAS) (h2 : s ≠ kRECURSIVE) (h3 : isVar s = false) (hr : NoTrailWs rest) :
    parseCnAll parseI parseF isDt regexOk parseNat
        (kANNOTATION ++ qualStr q ++ (if rec then [' '] ++ kRECURSIVE else [' ']) ++ [' '] ++ quote s ++ ';' :: rest)
      = .ok (.annotation s q rec none, trimStart rest) := by
  have := annotation_roundtrip_off parseI parseF isDt regexOk parseNat s rest [] q rec none hs h1 h2 h3 hr
    (by rw [List.nil_append, trimStart_semi]; exact parseOffset_semi parseI parseNat isDt rest)
  simpa using this

/-- `RELATION ?var OPERATOR;` -/
theorem relation_roundtrip (parseI : Str → Option Int) (parseF : Str → Bool) (isDt : Str → Bool) (regexOk : Str → Bool)
    (parseNat : Str → Option Nat)
    (v op rest : Str) (hv : Plain v) (hop : op ∈ relationOps) (hr : NoTrailWs rest) :
    parseCnAll parseI parseF isDt regexOk parseNat (kRELATION ++ [' ', '?'] ++ v ++ [' '] ++ op ++ ';' :: rest)
      = .ok (.relation v op, trimStart rest) := by
  have hpo : Plain op := by
    unfold relationOps at hop
    simp only [List.mem_cons, List.not_mem_nil, or_false] at hop
    rcases hop with rfl | rfl | rfl | rfl | rfl | rfl | rfl | rfl | rfl | rfl <;> (unfold Plain; decide)
  have hpv : Plain ('?' :: v) := by
    intro c hc
    rcases List.mem_cons.mp hc with rfl | h
    · exact ⟨by decide, by decide⟩
    · exact hv c h
  have hV := arg_word isDt ('?' :: v) ' ' (op ++ ';' :: rest) (by decide) hpv
  have hO := arg_word isDt op ';' rest (by decide) hpo
  have ht := trim_printed (['E', 'L', 'A', 'T', 'I', 'O', 'N'] ++ [' ', '?'] ++ v ++ [' '] ++ op) rest 'R' (by decide) hr
  have hform : kRELATION ++ [' ', '?'] ++ v ++ [' '] ++ op ++ ';' :: rest
      = 'R' :: (['E', 'L', 'A', 'T', 'I', 'O', 'N'] ++ [' ', '?'] ++ v ++ [' '] ++ op) ++ ';' :: rest := by
    simp [kRELATION]
  rw [hform]
  unfold parseCnAll
  simp only [ht]
  have hfw : firstWord ('R' :: (['E', 'L', 'A', 'T', 'I', 'O', 'N'] ++ [' ', '?'] ++ v ++ [' '] ++ op) ++ ';' :: rest) = kRELATION := by
    simp [firstWord, kRELATION, isSplit]
  have hdrop : (('R' :: (['E', 'L', 'A', 'T', 'I', 'O', 'N'] ++ [' ', '?'] ++ v ++ [' '] ++ op) ++ ';' :: rest).drop 8)
      = ' ' :: (('?' :: v) ++ ' ' :: (op ++ ';' :: rest)) := by
    simp
  rw [hfw]
  simp only [List.head?_cons, List.cons_append, Option.some.injEq, show ¬ ('R' = '@') by decide, if_false]
  unfold parseCnMore
  rw [if_neg (by decide : ¬ kRELATION = kANNOTATION), if_neg (by decide : ¬ kRELATION = kRESOURCE), if_pos rfl]
  simp only [List.cons_append] at hdrop
  have hopne : ∃ c cs, op = c :: cs ∧ isWs c = false := by
    unfold relationOps at hop
    simp only [List.mem_cons, List.not_mem_nil, or_false] at hop
    rcases hop with rfl | rfl | rfl | rfl | rfl | rfl | rfl | rfl | rfl | rfl <;> exact ⟨_, _, rfl, by decide⟩
  obtain ⟨c, cs, rfl, hcw⟩ := hopne
  simp only [hdrop, trimStart_space]
  rw [trimStart_cons_nonws '?' _ (by decide)]
  simp only [List.cons_append, List.append_assoc] at hV ⊢
  rw [hV]
  simp only [startsWith, List.isPrefixOf, beq_self_eq_true, Bool.true_and, Bool.not_true, Bool.false_eq_true, if_false, trimStart_space]
  rw [trimStart_cons_nonws c _ hcw,
    show c :: (cs ++ ';' :: rest) = (c :: cs) ++ ';' :: rest from rfl, hO]
  have hc : relationOps.contains (c :: cs) = true := by simpa using hop
  simp only [hc, if_true, trimStart_semi, finish_semicolon, List.drop_succ_cons, List.drop_zero]

theorem tok_ne (op : Str) (h : IsTok op) : op ≠ kAS ∧ op ≠ kRECURSIVE := by
  rcases h with rfl | rfl | rfl | rfl | rfl | rfl <;> exact ⟨by decide, by decide⟩

/-- `VALUE [AS METADATA] <operator> <value>;` -/
theorem value_core (parseI : Str → Option Int) (parseF : Str → Bool) (isDt : Str → Bool) (regexOk : Str → Bool)
    (parseNat : Str → Option Nat)
    (rest : Str) (q : Qual) (o : Op) (op v V : Str) (ty : ArgType)
    (htok : IsTok op) (hpo : parseOp parseI parseF isDt op v ty = .ok o)
    (hval : arg isDt (trimStart (V ++ ';' :: rest)) = .ok (v, ';' :: rest, ty)) (hr : NoTrailWs rest) :
    parseCnAll parseI parseF isDt regexOk parseNat (kVALUE ++ qualStr q ++ [' '] ++ (op ++ [' '] ++ V) ++ ';' :: rest)
      = .ok (.value o q, trimStart rest) := by
  obtain ⟨hplain, htrim, _⟩ := tok_facts op htok (' ' :: (V ++ ';' :: rest))
  obtain ⟨hne1, hne2⟩ := tok_ne op htok
  have hop := arg_word isDt op ' ' (V ++ ';' :: rest) (by decide) hplain
  obtain ⟨X, hX⟩ : ∃ X, X = qualStr q ++ [' '] ++ (op ++ [' '] ++ V) := ⟨_, rfl⟩
  have hsp : ∃ X', X = ' ' :: X' := by subst hX; cases q <;> simp [qualStr]
  obtain ⟨X', hX'⟩ := hsp
  have hin : kVALUE ++ qualStr q ++ [' '] ++ (op ++ [' '] ++ V) ++ ';' :: rest = 'V' :: (['A', 'L', 'U', 'E'] ++ X) ++ ';' :: rest := by
    rw [hX]; simp [kVALUE]
  rw [hin]
  have ht := trim_printed (['A', 'L', 'U', 'E'] ++ X) rest 'V' (by decide) hr
  unfold parseCnAll
  simp only [ht]
  have hfw : firstWord ('V' :: (['A', 'L', 'U', 'E'] ++ X) ++ ';' :: rest) = kVALUE := by
    rw [hX']; simp [firstWord, kVALUE, isSplit]
  have hdrop : (('V' :: (['A', 'L', 'U', 'E'] ++ X) ++ ';' :: rest).drop 5) = X ++ ';' :: rest := by simp
  have hhead : ('V' :: (['A', 'L', 'U', 'E'] ++ X) ++ ';' :: rest).head? = some 'V' := rfl
  rw [hfw, hhead]
  simp only [Option.some.injEq, show ¬ ('V' = '@') by decide, if_false]
  unfold parseCnMore
  rw [if_neg (by decide : ¬ kVALUE = kANNOTATION), if_neg (by decide : ¬ kVALUE = kRESOURCE), if_neg (by decide : ¬ kVALUE = kRELATION), if_pos rfl]
  simp only [hdrop]
  -- the qualifier, then the operator
  have hqual : ∃ a r ty', arg isDt (trimStart (X ++ ';' :: rest)) = .ok (a, r, ty') ∧
      parseQualifiers isDt a r = .ok (op, trimStart (' ' :: (V ++ ';' :: rest)), q, false) := by
    subst hX
    cases q with
    | normal =>
      refine ⟨op, trimStart (' ' :: (V ++ ';' :: rest)), argType isDt op false, ?_, ?_⟩
      · simp only [qualStr, List.nil_append, List.singleton_append, List.cons_append, List.append_assoc, trimStart_space]
        rw [htrim]; exact hop
      · unfold parseQualifiers
        rw [if_neg hne1, if_neg hne2]
    | metadata =>
      have hA := arg_word isDt kAS ' ' (kMETADATA ++ ' ' :: (op ++ ' ' :: (V ++ ';' :: rest))) (by decide) plain_kAS
      have hM := arg_word isDt kMETADATA ' ' (op ++ ' ' :: (V ++ ';' :: rest)) (by decide) plain_kMETADATA
      simp only [kAS, kMETADATA, List.cons_append, List.nil_append, trimStart_space] at hA hM
      have hMt : trimStart ('M' :: 'E' :: 'T' :: 'A' :: 'D' :: 'A' :: 'T' :: 'A' :: ' ' :: (op ++ ' ' :: (V ++ ';' :: rest)))
          = 'M' :: 'E' :: 'T' :: 'A' :: 'D' :: 'A' :: 'T' :: 'A' :: ' ' :: (op ++ ' ' :: (V ++ ';' :: rest)) := trimStart_cons_nonws _ _ (by decide)
      refine ⟨kAS, trimStart ('M' :: 'E' :: 'T' :: 'A' :: 'D' :: 'A' :: 'T' :: 'A' :: ' ' :: (op ++ ' ' :: (V ++ ';' :: rest))), argType isDt ['A', 'S'] false, ?_, ?_⟩
      · simp only [qualStr, List.cons_append, List.nil_append, List.append_assoc, List.singleton_append, trimStart_space]
        rw [trimStart_cons_nonws _ _ (by decide)]
        exact hA
      · rw [hMt]
        unfold parseQualifiers
        rw [if_pos rfl, hM]
        simp only []
        have hcond : (['M', 'E', 'T', 'A', 'D', 'A', 'T', 'A'] : Str) = kTARGET ∨ (['M', 'E', 'T', 'A', 'D', 'A', 'T', 'A'] : Str) = kMETADATA := Or.inr rfl
        rw [if_pos hcond, htrim, hop]
        simp only []
        rw [if_neg hne2]
  obtain ⟨a, r, ty', hA, hP⟩ := hqual
  simp only [hA, hP, trimStart_space, hval, hpo, finish_semicolon]

theorem value_roundtrip (showI : Int → Str) (parseI : Str → Option Int) (parseF : Str → Bool) (isDt : Str → Bool) (regexOk : Str → Bool)
    (parseNat : Str → Option Nat)
    (rest : Str) (q : Qual) (o : Op) (op v : Str) (qd : Bool)
    (hpr : printOp showI o = some (op, v, qd)) (hpo : parseOp parseI parseF isDt op v (argType isDt v qd) = .ok o)
    (hv : if qd then Q v else PlainW v) (hr : NoTrailWs rest) :
    parseCnAll parseI parseF isDt regexOk parseNat
      (kVALUE ++ qualStr q ++ [' '] ++ (op ++ [' '] ++ (if qd then quote v else v)) ++ ';' :: rest)
      = .ok (.value o q, trimStart rest) := by
  have htok := printOp_tok showI o op v qd hpr
  cases qd with
  | true =>
    simp only [↓reduceIte] at hv ⊢
    refine value_core parseI parseF isDt regexOk parseNat rest q o op v (quote v) _ htok hpo ?_ hr
    rw [trimStart_quote_app, arg_quoted isDt v (';' :: rest) hv.1 hv.2, trimStart_semi]
  | false =>
    simp only [Bool.false_eq_true, ↓reduceIte] at hv ⊢
    refine value_core parseI parseF isDt regexOk parseNat rest q o op v v _ htok hpo ?_ hr
    obtain ⟨c, cs, rfl⟩ : ∃ c cs, v = c :: cs := by
      cases v with
      | nil => exact absurd rfl hv.1
      | cons c cs => exact ⟨c, cs, rfl⟩
    have hc := hv.2 c (by simp)
    rw [show (c :: cs) ++ ';' :: rest = c :: (cs ++ ';' :: rest) from rfl, trimStart_cons_nonws _ _ hc.2.2]
    have := arg_word isDt (c :: cs) ';' rest (by decide) (plainW_plain hv)
    rw [show c :: (cs ++ ';' :: rest) = (c :: cs) ++ ';' :: rest from rfl, this, trimStart_semi]

/-! ### the OFFSET clause -/

/-- a cursor whose printed text the parser takes back: a word that begins with a digit or `-`, read by
`Cursor::try_from` as the cursor it came from -/
def CursorOk (showI : Int → Str) (parseI : Str → Option Int) (parseNat : Str → Option Nat) (c : Cursor) : Prop :=
  Plain (cursorStr showI c) ∧
  (∃ h r, cursorStr showI c = h :: r ∧ isWs h = false ∧ h ≠ ';' ∧ h ≠ ']' ∧ h ≠ 'O') ∧
  cursorStr showI c ≠ kWHOLE ∧ cursorStr showI c ≠ kALL ∧
  cursorArg parseI parseNat (cursorStr showI c) = .ok c

theorem closed_of_head (h : Char) (r x : Str) (h1 : h ≠ ';') (h2 : h ≠ ']') (h3 : h ≠ 'O') : closed (h :: r ++ x) = false := by
  have a : (';' == h) = false := by rw [beq_eq_false_iff_ne]; exact fun e => h1 e.symm
  have b : (']' == h) = false := by rw [beq_eq_false_iff_ne]; exact fun e => h2 e.symm
  have c : ('O' == h) = false := by rw [beq_eq_false_iff_ne]; exact fun e => h3 e.symm
  simp [closed, startsWith, List.isPrefixOf, a, b, c]

/-- ` OFFSET <begin> <end>` before the closing `;` -/
theorem parseOffset_printed (showI : Int → Str) (parseI : Str → Option Int) (parseNat : Str → Option Nat) (isDt : Str → Bool)
    (b e : Cursor) (rest : Str) (hb : CursorOk showI parseI parseNat b) (he : CursorOk showI parseI parseNat e) :
    parseOffset parseI parseNat isDt (trimStart (offStr showI (some (b, e)) ++ ';' :: rest)) = .ok (some (b, e), ';' :: rest) := by
  obtain ⟨hbp, ⟨bh, br, hbt, hbw, _, _, _⟩, hbW, hbA, hbc⟩ := hb
  obtain ⟨hep, ⟨eh, er, het, hew, he1, he2, he3⟩, _, _, hec⟩ := he
  have hB := arg_word isDt (cursorStr showI b) ' ' (cursorStr showI e ++ ';' :: rest) (by decide) hbp
  have hE := arg_word isDt (cursorStr showI e) ';' rest (by decide) hep
  have hte : trimStart (' ' :: (cursorStr showI e ++ ';' :: rest)) = cursorStr showI e ++ ';' :: rest := by
    rw [trimStart_space, het]; exact trimStart_cons_nonws _ _ hew
  have hcl : closed (cursorStr showI e ++ ';' :: rest) = false := by
    rw [het]; exact closed_of_head eh er _ he1 he2 he3
  have hform : trimStart (offStr showI (some (b, e)) ++ ';' :: rest)
      = 'O' :: 'F' :: 'F' :: 'S' :: 'E' :: 'T' :: ' ' :: (cursorStr showI b ++ ' ' :: (cursorStr showI e ++ ';' :: rest)) := by
    simp only [offStr, kOFFSET, List.cons_append, List.nil_append, List.append_assoc, List.singleton_append, trimStart_space]
    exact trimStart_cons_nonws _ _ (by decide)
  rw [hform]
  unfold parseOffset
  have hc0 : closed ('O' :: 'F' :: 'F' :: 'S' :: 'E' :: 'T' :: ' ' :: (cursorStr showI b ++ ' ' :: (cursorStr showI e ++ ';' :: rest))) = false := by
    simp [closed, startsWith, List.isPrefixOf]
  have hsw : startsWith ('O' :: 'F' :: 'F' :: 'S' :: 'E' :: 'T' :: ' ' :: (cursorStr showI b ++ ' ' :: (cursorStr showI e ++ ';' :: rest))) kOFFSET = true := by
    simp [startsWith, kOFFSET, List.isPrefixOf]
  simp only [hc0, hsw, Bool.not_false, Bool.and_self, if_true, List.drop_succ_cons, List.drop_zero, trimStart_space]
  have htb : trimStart (cursorStr showI b ++ ' ' :: (cursorStr showI e ++ ';' :: rest)) = cursorStr showI b ++ ' ' :: (cursorStr showI e ++ ';' :: rest) := by
    rw [hbt]; exact trimStart_cons_nonws _ _ hbw
  rw [htb, hB]
  simp only [hbW, hbA, or_self, if_false, hbc, hte, hcl, Bool.false_eq_true, hE, hec, trimStart_semi]

end Stam.QL.C09
