import StamModel.Lemmas.Find
import StamModel.Props.C13
/-
  C06 — Related-text search returns exactly the selections in the relation.
-/
namespace Stam.C06
open Stam Stam.C13

set_option hygiene false in
macro "op_cases' " op:ident : tactic =>
  `(tactic| rcases $op:ident with ⟨al, ng⟩ | ⟨al, ng⟩ | ⟨al, ng⟩ | ⟨al, ng, _ | l⟩ | ⟨al, ng, _ | l⟩ | ⟨al, ng, _ | l⟩
      | ⟨al, ng, w⟩ | ⟨al, ng, w⟩ | ⟨al, ng⟩ | ⟨al, ng⟩ | ⟨al, ng⟩ | ⟨al, ng⟩)

/-- the known selections are well-formed ranges inside the text -/
def SelsWF (sels : List TSel) (res : Res) : Prop := ∀ t ∈ sels, t.b ≤ t.e ∧ t.e ≤ res.len

/-- the chosen range is never inverted (so `BTreeMap::range` does not panic) -/
theorem plan_valid (op : Op) (refset : TSet) (n : Nat) (href : ∀ r ∈ refset.items, r.b ≤ r.e) :
    (plan op refset n).1 ≤ (plan op refset n).2.1 := by
  unfold plan
  by_cases hn : op.neg = true
  · simp [hn]
  · simp only [hn]
    rcases h : refset.items with _ | ⟨r, _ | ⟨r2, rest⟩⟩
    · simp
    · have hr := href r (by simp [h])
      op_cases' op <;> (try cases w) <;> simp <;> omega
    · simp

/-- **coverage**: every known selection that satisfies the relation lies in the scanned range -/
theorem plan_covers (op : Op) (refset : TSet) (res : Res) (t : TSel)
    (ht : t.b ≤ t.e ∧ t.e ≤ res.len) (href : ∀ r ∈ refset.items, r.b ≤ r.e)
    (hrel : setTest op refset t res = true) :
    match (plan op refset res.len).2.2 with
    | .fwd => (plan op refset res.len).1 ≤ t.b ∧ t.b < (plan op refset res.len).2.1
    | .bwd => (plan op refset res.len).1 ≤ t.e ∧ t.e < (plan op refset res.len).2.1 := by
  unfold plan
  by_cases hn : op.neg = true
  · simp [hn]; omega
  · simp only [hn]
    rcases h : refset.items with _ | ⟨r, _ | ⟨r2, rest⟩⟩
    · simp; omega
    · have hs : refset = ⟨[r], refset.sorted⟩ := by cases refset; simp_all
      have hr := href r (by simp [h])
      rw [hs, singleton_setTest] at hrel
      have hng : op.neg = false := by simpa using hn
      simp only [test, hng] at hrel
      op_cases' op <;> simp only [Op.neg] at hng <;> subst hng <;> (try cases w) <;>
        simp [relPos] at hrel ⊢ <;> omega
    · simp; omega

/-- **find_exact**: for every operator/modifier combination other than plain equality, the search
returns exactly the known selections `t` for which `refset OP t` holds, the references themselves
excluded, each once. -/
theorem find_exact (op : Op) (refset : TSet) (sels : List TSel) (res : Res)
    (hop : specialFor op refset = false) (hnd : sels.Nodup) (hsel : SelsWF sels res)
    (href : ∀ r ∈ refset.items, r.b ≤ r.e) :
    ∃ l, find op refset sels res = .ok l ∧ l.Nodup ∧
      ∀ t, t ∈ l ↔ (t ∈ sels ∧ setTest op refset t res = true ∧ t ∉ refset.items) := by
  have hv := plan_valid op refset res.len href
  unfold find
  simp only [hop]
  have hv' : ¬ (plan op refset res.len).1 > (plan op refset res.len).2.1 := by omega
  simp only [hv', if_false, Bool.false_eq_true]
  refine ⟨_, rfl, ?_, ?_⟩
  · cases (plan op refset res.len).2.2
    · exact (nodup_fwdRange _ _ _ hnd).filter _
    · exact (nodup_bwdRange _ _ _ hnd).filter _
  · intro t
    have hc := fun (h1 : t ∈ sels) (h2 : setTest op refset t res = true) => plan_covers op refset res t (hsel t h1) href h2
    cases hd : (plan op refset res.len).2.2 <;> rw [hd] at hc <;> simp only [] at hc ⊢
    · simp only [List.mem_filter, mem_fwdRange, Bool.and_eq_true, Bool.not_eq_true']
      constructor
      · rintro ⟨⟨h1, _, _⟩, h2, h3⟩; exact ⟨h1, h2, by simpa using h3⟩
      · rintro ⟨h1, h2, h3⟩; exact ⟨⟨h1, hc h1 h2⟩, h2, by simpa using h3⟩
    · simp only [List.mem_filter, mem_bwdRange, Bool.and_eq_true, Bool.not_eq_true']
      constructor
      · rintro ⟨⟨h1, _, _⟩, h2, h3⟩; exact ⟨h1, h2, by simpa using h3⟩
      · rintro ⟨h1, h2, h3⟩; exact ⟨⟨h1, hc h1 h2⟩, h2, by simpa using h3⟩

/-- for a single reference the set-level test is the pairwise relation of C13 -/
theorem find_exact_single (op : Op) (r : TSel) (srt : Bool) (sels : List TSel) (res : Res)
    (hop : specialFor op ⟨[r], srt⟩ = false) (hnd : sels.Nodup) (hsel : SelsWF sels res) (hr : r.b ≤ r.e) :
    ∃ l, find op ⟨[r], srt⟩ sels res = .ok l ∧ l.Nodup ∧
      ∀ t, t ∈ l ↔ (t ∈ sels ∧ test op r t res = true ∧ t ≠ r) := by
  obtain ⟨l, h1, h2, h3⟩ := find_exact op ⟨[r], srt⟩ sels res hop hnd hsel (by intro x hx; simp at hx; subst hx; exact hr)
  refine ⟨l, h1, h2, ?_⟩
  intro t; rw [h3, singleton_setTest]; simp

/-- **only equality returns the reference itself**: plain equality yields the known selection with
the reference's own range (if it is known), nothing else -/
theorem find_equals (al : Bool) (r : TSel) (srt : Bool) (sels : List TSel) (res : Res) :
    find (.equals al false) ⟨[r], srt⟩ sels res = .ok (if r ∈ sels then [r] else []) := by
  cases al <;> simp [find, specialFor, equalsSpecial]

theorem find_excludes_reference (op : Op) (refset : TSet) (sels : List TSel) (res : Res)
    (hop : specialFor op refset = false) (l : List TSel) (h : find op refset sels res = .ok l) :
    ∀ t ∈ l, t ∉ refset.items := by
  unfold find at h
  simp only [hop, Bool.false_eq_true, if_false] at h
  split at h
  · cases h
  · injection h with h
    subst h
    intro t ht
    simp only [List.mem_filter, Bool.and_eq_true, Bool.not_eq_true'] at ht
    simpa using ht.2.2

/-- the search never panics on well-formed references, whatever the operator -/
theorem find_total (op : Op) (refset : TSet) (sels : List TSel) (res : Res)
    (href : ∀ r ∈ refset.items, r.b ≤ r.e) : ∀ m, find op refset sels res ≠ .panic m := by
  intro m
  have hv := plan_valid op refset res.len href
  unfold find
  split
  · simp
  · have hv' : ¬ (plan op refset res.len).1 > (plan op refset res.len).2.1 := by omega
    simp [hv']

/-! ### reference sets that hold a selection more than once -/

theorem mem_distinctItems (l : List TSel) (x : TSel) : x ∈ distinctItems l ↔ x ∈ l := by
  induction l with
  | nil => simp [distinctItems]
  | cons a l ih =>
    simp only [distinctItems, List.mem_cons, List.mem_filter, ih, bne_iff_ne, ne_eq]
    constructor
    · rintro (h | ⟨h, _⟩)
      · exact Or.inl h
      · exact Or.inr h
    · rintro (h | h)
      · exact Or.inl h
      · by_cases hx : x = a
        · exact Or.inl hx
        · exact Or.inr ⟨h, hx⟩

theorem nodup_distinctItems (l : List TSel) : (distinctItems l).Nodup := by
  induction l with
  | nil => simp [distinctItems]
  | cons a l ih =>
    simp only [distinctItems, List.nodup_cons, List.mem_filter, bne_self_eq_false, Bool.false_eq_true, and_false,
      not_false_eq_true, true_and]
    exact ih.filter _

theorem distinctItems_of_nodup (l : List TSel) (h : l.Nodup) : distinctItems l = l := by
  induction l with
  | nil => rfl
  | cons a l ih =>
    rw [List.nodup_cons] at h
    simp only [distinctItems, ih h.2]
    congr 1
    apply List.filter_eq_self.mpr
    intro y hy
    simp only [bne_iff_ne, ne_eq]
    intro e; subst e; exact h.1 hy

/-- **each once, whatever the reference set holds**: the search with any reference set is the search with its
distinct members; for every operator/modifier combination other than plain equality it returns exactly the known
selections related to them, the references themselves excluded, each once. -/
theorem search_exact (op : Op) (refset : TSet) (sels : List TSel) (res : Res)
    (hop : specialFor op refset.distinct = false) (hnd : sels.Nodup) (hsel : SelsWF sels res)
    (href : ∀ r ∈ refset.items, r.b ≤ r.e) :
    ∃ l, search op refset sels res = .ok l ∧ l.Nodup ∧
      ∀ t, t ∈ l ↔ (t ∈ sels ∧ setTest op refset.distinct t res = true ∧ t ∉ refset.items) := by
  obtain ⟨l, h1, h2, h3⟩ := find_exact op refset.distinct sels res hop hnd hsel
    (by intro r hr; exact href r ((mem_distinctItems _ _).mp hr))
  refine ⟨l, h1, h2, ?_⟩
  intro t
  rw [h3]
  simp only [TSet.distinct, mem_distinctItems]

/-- plain equality returns the known selections among the references, each once — also when the reference set holds one
of them several times -/
theorem search_equals_each_once (refset : TSet) (sels : List TSel) (res : Res) :
    ∃ l, search (.equals false false) refset sels res = .ok l ∧ l.Nodup ∧ ∀ t ∈ l, t ∈ refset.items ∧ t ∈ sels := by
  unfold search find
  simp only [specialFor, ↓reduceIte, equalsSpecial]
  split
  next h =>
    refine ⟨_, rfl, nodup_distinctItems _, ?_⟩
    intro t ht
    refine ⟨(mem_distinctItems _ _).mp ht, ?_⟩
    have := List.all_eq_true.mp h t ht
    simpa using this
  next => exact ⟨[], rfl, by simp, by simp⟩

/-- a reference set that holds one selection, however many times, is searched as that selection is: equality with the
`all` modifier returns it -/
theorem search_repeated_single (op : Op) (r : TSel) (k : Nat) (srt : Bool) (sels : List TSel) (res : Res) :
    search op ⟨List.replicate (k + 1) r, srt⟩ sels res = search op ⟨[r], srt⟩ sels res := by
  have : ∀ k, distinctItems (List.replicate (k + 1) r) = [r] := by
    intro k
    induction k with
    | zero => simp [distinctItems]
    | succ k ih =>
      rw [List.replicate_succ, distinctItems, ih]
      simp
  simp [search, TSet.distinct, this, distinctItems]

/-- a reference set without repeated members is searched as it is -/
theorem search_of_nodup (op : Op) (refset : TSet) (sels : List TSel) (res : Res) (h : refset.items.Nodup) :
    search op refset sels res = find op refset sels res := by
  simp [search, TSet.distinct, distinctItems_of_nodup _ h]

/-! ### the relation test does not see repeated members -/

theorem leftmostScan_filter (x : TSel) : ∀ (l : List TSel) (m : TSel), m.b ≤ x.b →
    leftmostScan (l.filter (fun y => y != x)) (some m) = leftmostScan l (some m) := by
  intro l
  induction l with
  | nil => intro m _; rfl
  | cons y l ih =>
    intro m hm
    by_cases hy : y = x
    · subst hy
      have hnlt : ¬ y.b < m.b := by omega
      simp only [List.filter_cons, bne_self_eq_false, Bool.false_eq_true, ↓reduceIte, leftmostScan, hnlt]
      exact ih m hm
    · have hne : (y != x) = true := by simpa using hy
      simp only [List.filter_cons, hne, ↓reduceIte, leftmostScan]
      split
      · rename_i hlt; exact ih y (by omega)
      · exact ih m hm

theorem rightmostScan_filter (x : TSel) : ∀ (l : List TSel) (m : TSel), x.e ≤ m.e →
    rightmostScan (l.filter (fun y => y != x)) (some m) = rightmostScan l (some m) := by
  intro l
  induction l with
  | nil => intro m _; rfl
  | cons y l ih =>
    intro m hm
    by_cases hy : y = x
    · subst hy
      have hnlt : ¬ y.e > m.e := by omega
      simp only [List.filter_cons, bne_self_eq_false, Bool.false_eq_true, ↓reduceIte, rightmostScan, hnlt]
      exact ih m hm
    · have hne : (y != x) = true := by simpa using hy
      simp only [List.filter_cons, hne, ↓reduceIte, rightmostScan]
      split
      · rename_i hlt; exact ih y (by omega)
      · exact ih m hm

theorem leftmostScan_distinct : ∀ (l : List TSel) (acc : Option TSel),
    leftmostScan (distinctItems l) acc = leftmostScan l acc := by
  intro l
  induction l with
  | nil => intro acc; rfl
  | cons x xs ih =>
    intro acc
    cases acc with
    | none =>
      simp only [distinctItems, leftmostScan]
      rw [leftmostScan_filter x _ x (Nat.le_refl _), ih]
    | some m =>
      simp only [distinctItems, leftmostScan]
      split
      · rw [leftmostScan_filter x _ x (Nat.le_refl _), ih]
      · rename_i h; rw [leftmostScan_filter x _ m (by omega), ih]

theorem rightmostScan_distinct : ∀ (l : List TSel) (acc : Option TSel),
    rightmostScan (distinctItems l) acc = rightmostScan l acc := by
  intro l
  induction l with
  | nil => intro acc; rfl
  | cons x xs ih =>
    intro acc
    cases acc with
    | none =>
      simp only [distinctItems, rightmostScan]
      rw [rightmostScan_filter x _ x (Nat.le_refl _), ih]
    | some m =>
      simp only [distinctItems, rightmostScan]
      split
      · rw [rightmostScan_filter x _ x (Nat.le_refl _), ih]
      · rename_i h; rw [rightmostScan_filter x _ m (by omega), ih]

theorem all_distinctItems (l : List TSel) (p : TSel → Bool) : (distinctItems l).all p = l.all p := by
  rw [Bool.eq_iff_iff]
  simp only [List.all_eq_true, mem_distinctItems]

theorem leftmost_distinct (s : TSet) : s.distinct.leftmost = s.leftmost := by
  unfold TSet.leftmost TSet.distinct
  cases s.sorted with
  | true => cases h : s.items <;> simp [distinctItems]
  | false => simp [leftmostScan_distinct]

theorem rightmost_distinct (s : TSet) : s.distinct.rightmost = s.rightmost := by
  unfold TSet.rightmost TSet.distinct
  simp [rightmostScan_distinct]

/-- **a reference set is a set**: the relation test between a reference set and a selection gives the same answer for
the set and for the set of its distinct members, for every operator and modifier -/
theorem setTest_distinct (op : Op) (s : TSet) (c : TSel) (r : Res) : setTest op s.distinct c r = setTest op s c r := by
  have hpos : setRelPos op s.distinct c r = setRelPos op s c r := by
    unfold setRelPos
    rw [leftmost_distinct, rightmost_distinct]
    cases op.pick <;> simp only []
    exact all_distinctItems _ _
  have hemp : s.distinct.items.isEmpty = s.items.isEmpty := by
    cases h : s.items <;> simp [TSet.distinct, distinctItems, h]
  unfold setTest
  rw [hpos, hemp]

/-- **C06 (every reference set).** For every operator/modifier combination other than equality, the search returns
exactly the known selections `t` for which `refset OP t` holds — the set as it is given, a selection may be in it any
number of times —, the references themselves excluded, each once. -/
theorem search_exact_any_set (op : Op) (refset : TSet) (sels : List TSel) (res : Res)
    (hop : specialFor op refset.distinct = false) (hnd : sels.Nodup) (hsel : SelsWF sels res)
    (href : ∀ r ∈ refset.items, r.b ≤ r.e) :
    ∃ l, search op refset sels res = .ok l ∧ l.Nodup ∧
      ∀ t, t ∈ l ↔ (t ∈ sels ∧ setTest op refset t res = true ∧ t ∉ refset.items) := by
  obtain ⟨l, h1, h2, h3⟩ := search_exact op refset sels res hop hnd hsel href
  refine ⟨l, h1, h2, ?_⟩
  intro t
  rw [h3, setTest_distinct]

/-! ### Non-vacuity -/
example : search (.equals true false) ⟨[⟨0, 2⟩, ⟨0, 2⟩], false⟩ [⟨3, 5⟩, ⟨0, 2⟩] ⟨List.replicate 5 false⟩ = .ok [⟨0, 2⟩] := by decide
example : search (.equals false false) ⟨[⟨0, 2⟩, ⟨3, 5⟩, ⟨0, 2⟩], false⟩ [⟨3, 5⟩, ⟨0, 2⟩] ⟨List.replicate 5 false⟩ = .ok [⟨0, 2⟩, ⟨3, 5⟩] := by decide
example : find (.overlaps false false) ⟨[⟨4, 7⟩], false⟩ [⟨0, 2⟩, ⟨3, 5⟩, ⟨6, 8⟩, ⟨4, 7⟩, ⟨8, 8⟩] ⟨List.replicate 8 false⟩
    = .ok [⟨3, 5⟩, ⟨6, 8⟩] := by decide
example : find (.embeds false false) ⟨[⟨0, 8⟩], false⟩ [⟨8, 8⟩, ⟨0, 8⟩] ⟨List.replicate 8 false⟩ = .ok [⟨8, 8⟩] := by decide
example : find (.before false true none) ⟨[⟨2, 4⟩], false⟩ [⟨0, 1⟩, ⟨5, 6⟩] ⟨List.replicate 6 false⟩ = .ok [⟨0, 1⟩] := by decide
example : SelsWF [⟨0, 2⟩, ⟨3, 5⟩] ⟨List.replicate 5 false⟩ ∧ [(⟨0, 2⟩ : TSel), ⟨3, 5⟩].Nodup := by
  refine ⟨?_, by decide⟩
  intro t ht; simp at ht; rcases ht with rfl | rfl <;> simp [Res.len]

end Stam.C06
