import StamModel.Props.C15
/-
  C15 — `cursor_roundtrip` takes decimal printing and parsing of integers (std's `Display` / `FromStr`) as
  parameters with three hypotheses. Here the hypotheses are discharged for a concrete decimal printer and parser, so
  that the cursor round trip is a closed theorem: no assumption about the integer text is left open.
  (std itself stays in the trusted base: this is a model of it, not its code.)
-/
namespace Stam.Csv.Dec
open Stam Stam.Csv

def digitChar : Nat → Char
  | 0 => '0' | 1 => '1' | 2 => '2' | 3 => '3' | 4 => '4' | 5 => '5' | 6 => '6' | 7 => '7' | 8 => '8' | _ => '9'

def charDigit? : Char → Option Nat
  | '0' => some 0 | '1' => some 1 | '2' => some 2 | '3' => some 3 | '4' => some 4
  | '5' => some 5 | '6' => some 6 | '7' => some 7 | '8' => some 8 | '9' => some 9 | _ => none

/-- digits, least significant first -/
def digitsLE : (fuel : Nat) → Nat → List Nat
  | 0, _ => []
  | f + 1, n => if n < 10 then [n] else (n % 10) :: digitsLE f (n / 10)

/-- `Display for usize` -/
def showDec (n : Nat) : List Char := ((digitsLE (n + 1) n).reverse).map digitChar

def parseStep (acc : Option Nat) (c : Char) : Option Nat :=
  match acc, charDigit? c with
  | some n, some d => some (n * 10 + d)
  | _, _ => none

/-- `usize::from_str` on what the writer can produce: one or more decimal digits -/
def parseDec (cs : List Char) : Option Nat := if cs = [] then none else cs.foldl parseStep (some 0)

def ofLE : List Nat → Nat
  | [] => 0
  | d :: ds => d + 10 * ofLE ds

theorem charDigit_digitChar (d : Nat) (h : d < 10) : charDigit? (digitChar d) = some d := by
  match d, h with
  | 0, _ | 1, _ | 2, _ | 3, _ | 4, _ | 5, _ | 6, _ | 7, _ | 8, _ | 9, _ => rfl
  | n + 10, h => omega

theorem digitChar_ne_minus (d : Nat) : digitChar d ≠ '-' := by
  unfold digitChar; split <;> decide

theorem digitsLE_lt (f n : Nat) : ∀ d ∈ digitsLE f n, d < 10 := by
  induction f generalizing n with
  | zero => intro d hd; cases hd
  | succ f ih =>
    intro d hd
    unfold digitsLE at hd
    split at hd
    · simp at hd; omega
    · rcases List.mem_cons.mp hd with rfl | h
      · omega
      · exact ih _ d h

theorem ofLE_digitsLE (f n : Nat) (h : n < f) : ofLE (digitsLE f n) = n := by
  induction f generalizing n with
  | zero => omega
  | succ f ih =>
    unfold digitsLE
    split
    · simp [ofLE]
    · simp only [ofLE]; rw [ih (n / 10) (by omega)]; omega

theorem digitsLE_ne_nil (f n : Nat) : digitsLE (f + 1) n ≠ [] := by
  unfold digitsLE; split <;> simp

theorem foldl_parse (ds : List Nat) (hd : ∀ d ∈ ds, d < 10) (a : Nat) :
    (ds.map digitChar).foldl parseStep (some a) = some (ds.foldl (fun n d => n * 10 + d) a) := by
  induction ds generalizing a with
  | nil => rfl
  | cons d ds ih =>
    simp only [List.map_cons, List.foldl_cons, parseStep, charDigit_digitChar d (hd d (by simp))]
    exact ih (fun x hx => hd x (by simp [hx])) _

theorem foldl_reverse_ofLE (ds : List Nat) : ds.reverse.foldl (fun n d => n * 10 + d) 0 = ofLE ds := by
  induction ds with
  | nil => rfl
  | cons d ds ih => simp only [List.reverse_cons, List.foldl_append, List.foldl_cons, List.foldl_nil, ih, ofLE]; omega

/-- decimal text round trip -/
theorem parse_show (n : Nat) : parseDec (showDec n) = some n := by
  unfold parseDec showDec
  have hne : (digitsLE (n + 1) n).reverse.map digitChar ≠ [] := by
    simp [digitsLE_ne_nil]
  rw [if_neg hne, foldl_parse _ (fun d hd => digitsLE_lt (n + 1) n d (by simpa using hd)) 0,
    foldl_reverse_ofLE, ofLE_digitsLE (n + 1) n (by omega)]

theorem show_head_ne_minus (n : Nat) : (showDec n).head? ≠ some '-' := by
  unfold showDec
  cases h : (digitsLE (n + 1) n).reverse with
  | nil => simp
  | cons d ds => simp [digitChar_ne_minus]

theorem show_zero : showDec 0 = ['0'] := by decide

/-- **cursor text round trip, closed**: with decimal integers, what `Display for Cursor` prints `TryFrom<&str>` reads
back as the same cursor with the same alignment — every begin-aligned cursor, every end-aligned one, `-0` included -/
theorem cursor_roundtrip_decimal (c : Cursor) (hc : c.WF) :
    parseCursor parseDec (showCursor showDec c) = .ok c :=
  Stam.C15.cursor_roundtrip showDec parseDec parse_show show_head_ne_minus show_zero c hc

example : showDec 1907 = ['1', '9', '0', '7'] ∧ parseDec ['0', '4', '2'] = some 42 ∧ parseDec [] = none ∧
    parseDec ['-', '1'] = none := by decide
example : showCursor showDec (.e (-12)) = ['-', '1', '2'] ∧ parseCursor parseDec ['-', '0'] = .ok (.e 0) := by decide

end Stam.Csv.Dec
