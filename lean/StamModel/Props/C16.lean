import StamModel.Lemmas.Transpose
import StamModel.Lemmas.TransposeBack
/-
  C16 — Transposition preserves text.

  Statement (properties.jsonl): whenever transposing an annotation or selection over a transposition
  succeeds, [...] the transposed annotation lies in the other side's resource and selects text identical,
  piece by piece in order, to the source text; the new transposition it returns again links sides with
  identical text; and transposing back over it returns the original offsets. When the source is not covered
  by the transposition the call fails with an error [...].

  The theorems are about `StamModel/Transpose.lean` (the matching and mapping algorithm of
  `Transposable::transpose` for a text selection set). "Adding the returned annotations succeeds" and "the
  store is unchanged" (the call takes `&self`) are checked on the implementation by the `transpose` family,
  which also ties the model's answers to the library's.
-/
namespace Stam.TP.C16
open Stam.TP

abbrev Text := List Char

def textOf (texts : List Text) (f : Frag) : Text := ((texts.getD f.res []).drop f.b).take (f.e - f.b)

/-- a non-empty fragment inside its text -/
def FragOk (texts : List Text) (f : Frag) : Prop := f.b < f.e ∧ f.e ≤ (texts.getD f.res []).length

/-- fragment `j` of `s` and fragment `j` of `s'` hold the same text (what makes a transposition one) -/
def AlignedSides (texts : List Text) (s s' : Side) : Prop :=
  s.length = s'.length ∧
  ∀ (j : Nat) (f f' : Frag), s[j]? = some f → s'[j]? = some f' → textOf texts f = textOf texts f' ∧ FragOk texts f ∧ FragOk texts f'

instance (texts : List Text) (f : Frag) : Decidable (FragOk texts f) := by unfold FragOk; infer_instance

def Aligned (texts : List Text) (via : List Side) : Prop := ∀ s ∈ via, ∀ s' ∈ via, AlignedSides texts s s'

theorem textOf_length (texts : List Text) (f : Frag) (h : FragOk texts f) : (textOf texts f).length = f.e - f.b := by
  unfold textOf; simp only [List.length_take, List.length_drop]; have := h.2; have := h.1; omega

/-- a sub-range of a fragment, read through the fragment's text -/
theorem sub_text (T : Text) (b L rb n : Nat) (h : rb + n ≤ L) :
    ((T.drop b).take L |>.drop rb).take n = (T.drop (b + rb)).take n := by
  rw [List.drop_take, List.take_take, List.drop_drop]
  have : min n (L - rb) = n := by omega
  rw [this]

/-! ## one piece -/

/-- **the mapping step.** A piece found in fragment `j` of the source side, mapped onto fragment `j` of an
aligned side, succeeds, lies inside that fragment, has the same length and selects identical text. -/
theorem mapPiece_text (texts : List Text) (side side' : Side) (res : Nat) (p : Piece)
    (hp : PieceIn side res p) (hal : AlignedSides texts side side') :
    ∃ (g f' : Frag), mapPiece side' p = .ok g ∧ side'[p.j]? = some f' ∧ g.res = f'.res ∧ f'.b ≤ g.b ∧ g.e ≤ f'.e ∧
      g.e - g.b = p.ae - p.ab ∧ textOf texts g = textOf texts ⟨res, p.ab, p.ae⟩ := by
  obtain ⟨f, hf, hres, hb, he, hlt, hrb, hre⟩ := hp
  have hj : p.j < side.length := by
    rcases Nat.lt_or_ge p.j side.length with h | h
    · exact h
    · simp [List.getElem?_eq_none h] at hf
  have hj' : p.j < side'.length := hal.1 ▸ hj
  obtain ⟨f', hf'⟩ : ∃ f', side'[p.j]? = some f' := ⟨side'[p.j], by simp [List.getElem?_eq_getElem hj']⟩
  obtain ⟨htxt, hok, hok'⟩ := hal.2 p.j f f' hf hf'
  have hlen : f.e - f.b = f'.e - f'.b := by
    have := congrArg List.length htxt
    rwa [textOf_length _ _ hok, textOf_length _ _ hok'] at this
  have h1 : ¬ (p.rb > f'.e - f'.b ∨ p.re > f'.e - f'.b) := by omega
  have h2 : ¬ p.re < p.rb := by omega
  refine ⟨⟨f'.res, f'.b + p.rb, f'.b + p.re⟩, f', ?_, hf', rfl, by simp, by simp; omega, by simp; omega, ?_⟩
  · unfold mapPiece; rw [hf']; simp only [h1, h2, ↓reduceIte]
  · -- both are the same sub-range of the (equal) fragment texts
    have hs : textOf texts ⟨res, p.ab, p.ae⟩ = ((textOf texts f).drop p.rb).take (p.re - p.rb) := by
      unfold textOf
      rw [sub_text _ _ _ _ _ (by omega), hres]
      have e1 : f.b + p.rb = p.ab := by omega
      have e2 : p.re - p.rb = p.ae - p.ab := by omega
      simp only [e1, e2]
    have hg : textOf texts ⟨f'.res, f'.b + p.rb, f'.b + p.re⟩ = ((textOf texts f').drop p.rb).take (p.re - p.rb) := by
      unfold textOf
      rw [sub_text _ _ _ _ _ (by omega)]
      have e2 : f'.b + p.re - (f'.b + p.rb) = p.re - p.rb := by omega
      simp only [e2]
    rw [hs, hg, htxt]

theorem mapPieces_spec (texts : List Text) (side side' : Side) (res : Nat) (hal : AlignedSides texts side side') :
    ∀ (ps : List Piece), (∀ p ∈ ps, PieceIn side res p) →
      ∃ gs, mapPieces side' ps = .ok gs ∧ gs.length = ps.length ∧
        gs.map (textOf texts) = ps.map (fun p => textOf texts ⟨res, p.ab, p.ae⟩) ∧
        (∀ (k : Nat) (g : Frag), gs[k]? = some g → ∃ (p : Piece) (f' : Frag), ps[k]? = some p ∧ side'[p.j]? = some f' ∧ g.res = f'.res ∧
          f'.b ≤ g.b ∧ g.e ≤ f'.e ∧ g.e - g.b = p.ae - p.ab) := by
  intro ps
  induction ps with
  | nil => intro _; exact ⟨[], by simp [mapPieces], rfl, rfl, by simp⟩
  | cons p ps ih =>
    intro hin
    obtain ⟨g, f', hm, hf', h1, h2, h3, h4, h5⟩ := mapPiece_text texts side side' res p (hin p (List.mem_cons_self ..)) hal
    obtain ⟨gs, hgs, hl, ht, hk⟩ := ih (fun q hq => hin q (List.mem_cons_of_mem _ hq))
    refine ⟨g :: gs, by simp [mapPieces, hm, hgs], by simp [hl], by simp [h5, ht], ?_⟩
    intro k g' hg'
    cases k with
    | zero =>
      simp only [List.getElem?_cons_zero, Option.some.injEq] at hg'
      subst hg'
      exact ⟨p, f', by simp, hf', h1, h2, h3, h4⟩
    | succ k =>
      simp only [List.getElem?_cons_succ] at hg' ⊢
      exact hk k g' hg'

/-! ## the source side: found pieces spell the source, character by character -/

/-- what the matching stage establishes, for the complex and the simple branch alike -/
def Found (side : Side) (res : Nat) (source : List (Nat × Nat)) (pieces : List Piece) : Prop :=
  ranges pieces = srcRanges source ∧ ∀ p ∈ pieces, PieceIn side res p

theorem simpleAll_spec (f : Frag) (res : Nat) :
    ∀ (source : List (Nat × Nat)) (ps : List Piece), (∀ s ∈ source, s.1 < s.2) →
      simpleAll f res source = some ps → Found [f] res source ps := by
  intro source
  induction source with
  | nil => intro ps _ h; simp [simpleAll] at h; subst h; exact ⟨by simp [ranges, srcRanges], by simp⟩
  | cons s rest ih =>
    intro ps hne h
    obtain ⟨tb, te⟩ := s
    unfold simpleAll at h
    by_cases hres : f.res ≠ res
    · rw [if_pos hres] at h; cases h
    · rw [if_neg hres] at h
      have hres' : f.res = res := by simpa using hres
      have hlt : tb < te := hne (tb, te) (List.mem_cons_self ..)
      cases hi : inter tb te f.b f.e with
      | none => rw [hi] at h; simp at h
      | some v =>
        obtain ⟨ib, ie, rem⟩ := v
        cases rem with
        | some r => rw [hi] at h; simp at h
        | none =>
          cases h2 : simpleAll f res rest with
          | none => rw [hi, h2] at h; simp at h
          | some qs =>
            rw [hi, h2] at h
            simp only [Option.some.injEq] at h
            subst h
            have hu : ∀ r1 r2, (none : Option (Nat × Nat)) = some (r1, r2) → ¬ r1 ≤ ib := by intro _ _ h; cases h
            obtain ⟨h1, h2', h3, h4, h5, h6⟩ := inter_usable hi hlt hu
            have h7 : ie = te := by
              rcases h6 with ⟨_, h6⟩ | ⟨h6, _⟩
              · exact h6
              · cases h6
            obtain ⟨r1, r2⟩ := ih qs (fun s hs => hne s (List.mem_cons_of_mem _ hs)) h2
            constructor
            · have : ranges (⟨0, ib - f.b, ie - f.b, ib, ie⟩ :: qs) = List.range' ib (ie - ib) ++ ranges qs := by simp [ranges]
              rw [this, r1, h1, h7]; simp [srcRanges]
            · intro p hp
              rcases List.mem_cons.mp hp with rfl | hp
              · exact ⟨f, by simp, hres', by simp; omega, by simpa using h3, by simp; omega, by simp, by simp⟩
              · exact r2 p hp

/-! ## all sides -/

theorem mapSides_spec (texts : List Text) (via : List Side) (src res : Nat) (side : Side) (pieces : List Piece)
    (hin : ∀ p ∈ pieces, PieceIn side res p) :
    ∀ (rest : List Side) (i : Nat), (∀ s ∈ rest, AlignedSides texts side s) →
      ∃ outs, mapSides via src res pieces i rest = .ok outs ∧ outs.length = rest.length ∧
        (∀ (k : Nat) (o : List Frag), outs[k]? = some o → o.map (textOf texts) = pieces.map (fun p => textOf texts ⟨res, p.ab, p.ae⟩) ∧ o.length = pieces.length) ∧
        (∀ (k : Nat) (o : List Frag), outs[k]? = some o → i + k = src → o = pieces.map (fun p => ⟨res, p.ab, p.ae⟩)) ∧
        (∀ (k : Nat) (o : List Frag) (sd : Side), outs[k]? = some o → rest[k]? = some sd → i + k ≠ src →
          ∀ (n : Nat) (g : Frag), o[n]? = some g → ∃ (p : Piece) (f' : Frag), pieces[n]? = some p ∧ sd[p.j]? = some f' ∧ g.res = f'.res ∧
            f'.b ≤ g.b ∧ g.e ≤ f'.e ∧ g.e - g.b = p.ae - p.ab) := by
  intro rest
  induction rest with
  | nil => intro i _; exact ⟨[], by simp [mapSides], rfl, by simp, by simp, by simp⟩
  | cons s rest ih =>
    intro i hal
    obtain ⟨outs, ho, hl, ht, hs, hg⟩ := ih (i + 1) (fun s' hs' => hal s' (List.mem_cons_of_mem _ hs'))
    by_cases hi : i = src
    · subst hi
      refine ⟨pieces.map (fun p => ⟨res, p.ab, p.ae⟩) :: outs, by simp [mapSides, ho] , by simp [hl], ?_, ?_, ?_⟩
      · intro k o hk
        cases k with
        | zero => simp only [List.getElem?_cons_zero, Option.some.injEq] at hk; subst hk; simp [List.map_map, Function.comp_def]
        | succ k => exact ht k o (by simpa using hk)
      · intro k o hk hik
        cases k with
        | zero => simp only [List.getElem?_cons_zero, Option.some.injEq] at hk; exact hk.symm
        | succ k => exact hs k o (by simpa using hk) (by omega)
      · intro k o sd hk hsd hik
        cases k with
        | zero => exact absurd (by omega) hik
        | succ k => exact hg k o sd (by simpa using hk) (by simpa using hsd) (by omega)
    · obtain ⟨gs, hgs, hgl, hgt, hgk⟩ := mapPieces_spec texts side s res (hal s (List.mem_cons_self ..)) pieces hin
      refine ⟨gs :: outs, by simp [mapSides, hi, hgs, ho], by simp [hl], ?_, ?_, ?_⟩
      · intro k o hk
        cases k with
        | zero => simp only [List.getElem?_cons_zero, Option.some.injEq] at hk; subst hk; exact ⟨hgt, hgl⟩
        | succ k => exact ht k o (by simpa using hk)
      · intro k o hk hik
        cases k with
        | zero => exact absurd (by omega) hi
        | succ k => exact hs k o (by simpa using hk) (by omega)
      · intro k o sd hk hsd hik
        cases k with
        | zero =>
          simp only [List.getElem?_cons_zero, Option.some.injEq] at hk hsd
          subst hk; subst hsd
          exact hgk
        | succ k => exact hg k o sd (by simpa using hk) (by simpa using hsd) (by omega)

/-- the matching stage of `transpose`, both branches -/
theorem transpose_found (via : List Side) (simple : Bool) (res : Nat) (source : List (Nat × Nat)) (bi : Option Nat)
    (out : List (List Frag)) (hne : ∀ s ∈ source, s.1 < s.2)
    (h : transpose via simple res source bi = .ok out) :
    ∃ src side pieces, sourceSide via res bi = some src ∧ via[src]? = some side ∧ pieces ≠ [] ∧
      Found side res source pieces ∧ mapSides via src res pieces 0 via = .ok out := by
  unfold transpose at h
  cases hs : sourceSide via res bi with
  | none => rw [hs] at h; cases h
  | some src =>
    simp only [hs] at h
    cases hv : via[src]? with
    | none => simp only [hv] at h; cases h
    | some side =>
      simp only [hv] at h
      have hside : side ∈ via := List.mem_of_getElem? hv
      cases simple with
      | true =>
        simp only [↓reduceIte] at h
        match side, hv, hside, h with
        | [f], hv, hside, h =>
          simp only [] at h
          cases hf : simpleAll f res source with
          | none => rw [hf] at h; cases h
          | some pieces =>
            rw [hf] at h
            cases pieces with
            | nil => cases h
            | cons p ps =>
              exact ⟨src, [f], p :: ps, rfl, hv, by simp, simpleAll_spec f res source _ hne hf, h⟩
        | [], _, _, h => cases h
        | _ :: _ :: _, _, _, h => cases h
      | false =>
        simp only [Bool.false_eq_true, ↓reduceIte] at h
        cases hf : consumeAll side res source with
        | none => rw [hf] at h; cases h
        | some pieces =>
          rw [hf] at h
          cases pieces with
          | nil => cases h
          | cons p ps =>
            obtain ⟨a, b⟩ := consumeAll_spec side res source _ hne hf
            exact ⟨src, side, p :: ps, rfl, hv, by simp, ⟨a, b⟩, h⟩

/-! ## the property -/

/-- **C16 (covering).** If transposing succeeds, the source side of the result spells the source: the same
characters in the same order (a selection running over adjacent fragments is cut at the fragment borders,
nothing is lost and nothing added), and every piece lies inside a fragment of the source side. -/
theorem source_side_spells_source (via : List Side) (simple : Bool) (res : Nat) (source : List (Nat × Nat))
    (bi : Option Nat) (out : List (List Frag))
    (hne : ∀ s ∈ source, s.1 < s.2) (h : transpose via simple res source bi = .ok out) :
    ∃ src side pieces, sourceSide via res bi = some src ∧ via[src]? = some side ∧
      ranges pieces = srcRanges source ∧ (∀ p ∈ pieces, PieceIn side res p) := by
  obtain ⟨src, side, pieces, h1, h2, _, ⟨h3, h4⟩, _⟩ := transpose_found via simple res source bi out hne h
  exact ⟨src, side, pieces, h1, h2, h3, h4⟩

/-- **C16 (failure).** If some character of the source lies in no fragment of the source side, transposing
fails: no result is produced for part of the source. -/
theorem uncovered_source_fails (via : List Side) (simple : Bool) (res : Nat) (source : List (Nat × Nat))
    (bi : Option Nat) (hne : ∀ s ∈ source, s.1 < s.2)
    (hunc : ∃ s ∈ source, ∃ x, s.1 ≤ x ∧ x < s.2 ∧
      ∀ (src : Nat) (side : Side), sourceSide via res bi = some src → via[src]? = some side → ∀ f ∈ side, ¬ (f.res = res ∧ f.b ≤ x ∧ x < f.e)) :
    ∀ out, transpose via simple res source bi ≠ .ok out := by
  intro out h
  obtain ⟨src, side, pieces, h1, h2, h3, h4⟩ := source_side_spells_source via simple res source bi out hne h
  obtain ⟨s, hs, x, hx1, hx2, hno⟩ := hunc
  have hx : x ∈ srcRanges source := by
    unfold srcRanges
    rw [List.mem_flatMap]
    exact ⟨s, hs, by rw [List.mem_range'_1]; omega⟩
  rw [← h3] at hx
  unfold ranges at hx
  rw [List.mem_flatMap] at hx
  obtain ⟨p, hp, hxp⟩ := hx
  rw [List.mem_range'_1] at hxp
  obtain ⟨f, hf, hres, hb, he, _, _, _⟩ := h4 p hp
  exact hno src side h1 h2 f (List.mem_of_getElem? hf) ⟨hres, by omega, by omega⟩

/-- **C16 (text identity).** If transposing over an aligned transposition succeeds, the result has one side
per side of the transposition; every side selects, piece by piece in order, text identical to the source
side's pieces (so the new transposition again links sides with identical text); the source side is the found
pieces themselves; every other side lies inside the fragments of the corresponding side of the transposition
(hence in that side's resource) and its pieces have the source pieces' lengths. -/
theorem transposed_text_identical (texts : List Text) (via : List Side) (simple : Bool) (res : Nat)
    (source : List (Nat × Nat)) (bi : Option Nat) (out : List (List Frag)) (hal : Aligned texts via)
    (hne : ∀ s ∈ source, s.1 < s.2) (h : transpose via simple res source bi = .ok out) :
    ∃ src side pieces, sourceSide via res bi = some src ∧ via[src]? = some side ∧
      out.length = via.length ∧
      out[src]? = some (pieces.map (fun p => ⟨res, p.ab, p.ae⟩)) ∧
      ranges pieces = srcRanges source ∧
      (∀ (i : Nat) (o : List Frag), out[i]? = some o →
        o.map (textOf texts) = pieces.map (fun p => textOf texts ⟨res, p.ab, p.ae⟩) ∧ o.length = pieces.length) ∧
      (∀ (i : Nat) (o : List Frag) (sd : Side), out[i]? = some o → via[i]? = some sd → i ≠ src →
        ∀ (n : Nat) (g : Frag), o[n]? = some g → ∃ (p : Piece) (f' : Frag), pieces[n]? = some p ∧ sd[p.j]? = some f' ∧ g.res = f'.res ∧
          f'.b ≤ g.b ∧ g.e ≤ f'.e ∧ g.e - g.b = p.ae - p.ab) := by
  obtain ⟨src, side, pieces, h1, h2, _, ⟨h3, h4⟩, h5⟩ := transpose_found via simple res source bi out hne h
  have hside : side ∈ via := List.mem_of_getElem? h2
  obtain ⟨outs, ho, hl, ht, hs, hg⟩ := mapSides_spec texts via src res side pieces h4 via 0 (fun s hs => hal side hside s hs)
  rw [h5] at ho
  cases ho
  refine ⟨src, side, pieces, h1, h2, hl, ?_, h3, fun i o hi => ht i o hi, ?_⟩
  · have hlt : src < out.length := by
      rw [hl]
      rcases Nat.lt_or_ge src via.length with h | h
      · exact h
      · simp [List.getElem?_eq_none h] at h2
    have : out[src]? = some out[src] := List.getElem?_eq_getElem hlt
    rw [this, hs src out[src] this (by omega)]
  · intro i o sd hi hsd hne'
    exact hg i o sd hi hsd (by omega)

/-! ## transposing back -/

/-- every side of `out` has as many pieces as `T`, of the same lengths (what `transposed_text_identical`
establishes for the sides of a new transposition) -/
def SameShape (out : List (List Frag)) (T : List Frag) : Prop :=
  ∀ s ∈ out, s.length = T.length ∧
    ∀ (k : Nat) (f t : Frag), s[k]? = some f → T[k]? = some t → f.b ≤ f.e ∧ f.e - f.b = t.e - t.b

theorem mapPieces_of_get (side : Side) : ∀ (ps : List Piece) (gs : List Frag), ps.length = gs.length →
    (∀ (k : Nat) (p : Piece) (g : Frag), ps[k]? = some p → gs[k]? = some g → mapPiece side p = .ok g) →
    mapPieces side ps = .ok gs := by
  intro ps
  induction ps with
  | nil => intro gs hl _; cases gs with
    | nil => rfl
    | cons _ _ => simp at hl
  | cons p ps ih =>
    intro gs hl hk
    cases gs with
    | nil => simp at hl
    | cons g gs =>
      have h0 := hk 0 p g (by simp) (by simp)
      have hr := ih gs (by simpa using hl) (fun k p' g' hp hg => hk (k + 1) p' g' (by simpa using hp) (by simpa using hg))
      simp [mapPieces, h0, hr]

theorem mapPieces_self (s T : List Frag) (hl : s.length = T.length)
    (hs : ∀ (k : Nat) (f t : Frag), s[k]? = some f → T[k]? = some t → f.b ≤ f.e ∧ f.e - f.b = t.e - t.b) :
    mapPieces s (selfPieces 0 T) = .ok s := by
  apply mapPieces_of_get
  · rw [selfPieces_length, hl]
  · intro k p g hp hg
    have hk : k < T.length := by
      have : k < s.length := by
        rcases Nat.lt_or_ge k s.length with h | h
        · exact h
        · simp [List.getElem?_eq_none h] at hg
      omega
    have ht : T[k]? = some T[k] := List.getElem?_eq_getElem hk
    have := selfPieces_get T 0 k T[k] ht
    rw [this] at hp
    simp only [Nat.zero_add, Option.some.injEq] at hp
    subst hp
    obtain ⟨h1, h2⟩ := hs k g T[k] hg ht
    unfold mapPiece selfPiece
    simp only [hg]
    have c1 : ¬ (0 > g.e - g.b ∨ T[k].e - T[k].b > g.e - g.b) := by omega
    have c2 : ¬ (T[k].e - T[k].b < 0) := by omega
    simp only [c1, c2, ↓reduceIte, Nat.add_zero]
    congr 1
    cases g; simp only [Frag.mk.injEq, true_and] at *; omega

theorem mapSides_self (via : List Side) (tgt resT : Nat) (T : List Frag) (hres : ∀ t ∈ T, t.res = resT) :
    ∀ (rest : List Side) (i : Nat), SameShape rest T → (∀ (k : Nat) (s : Side), rest[k]? = some s → i + k = tgt → s = T) →
      mapSides via tgt resT (selfPieces 0 T) i rest = .ok rest := by
  intro rest
  induction rest with
  | nil => intro _ _ _; rfl
  | cons s rest ih =>
    intro i hsh htgt
    have hr := ih (i + 1) (fun s' hs' => hsh s' (List.mem_cons_of_mem _ hs'))
      (fun k s' hk hik => htgt (k + 1) s' (by simpa using hk) (by omega))
    by_cases hi : i = tgt
    · have hsT : s = T := htgt 0 s (by simp) (by omega)
      have hmap : (selfPieces 0 T).map (fun p => (⟨resT, p.ab, p.ae⟩ : Frag)) = T := by
        apply List.ext_getElem?
        intro k
        rw [List.getElem?_map]
        cases ht : T[k]? with
        | none =>
          have : (selfPieces 0 T)[k]? = none := by
            rw [List.getElem?_eq_none_iff, selfPieces_length]; exact List.getElem?_eq_none_iff.mp ht
          simp [this]
        | some t =>
          rw [selfPieces_get T 0 k t ht]
          have := hres t (List.mem_of_getElem? ht)
          cases t; simp only [selfPiece, Option.map_some] at *; subst this; rfl
      subst hi
      simp [mapSides, hr, hmap, hsT]
    · obtain ⟨hl, hs⟩ := hsh s (List.mem_cons_self ..)
      have := mapPieces_self s T hl hs
      simp [mapSides, hi, this, hr]

/-- **C16 (transposing back).** Take the sides of a transposition whose side `tgt` lies in resource `resT` with
non-empty, pairwise disjoint pieces, every side having pieces of the same lengths (the shape of every new
transposition, by `transposed_text_identical`). Transposing side `tgt` over that transposition gives back
exactly its sides — in particular the original offsets on the source side. -/
theorem transposing_back (out : List (List Frag)) (tgt resT : Nat) (T : List Frag)
    (hT : out[tgt]? = some T) (hTne : T ≠ [])
    (hall : ∀ t ∈ T, t.res = resT ∧ t.b < t.e) (hpw : T.Pairwise Disjoint) (hshape : SameShape out T) :
    transpose out false resT (T.map (fun t => (t.b, t.e))) (some tgt) = .ok out := by
  unfold transpose
  simp only [sourceSide, hT]
  have hc := consumeAll_self resT [] T (by simpa using hall) (by simpa using hpw)
  simp only [List.nil_append, List.length_nil] at hc
  simp only [Bool.false_eq_true, ↓reduceIte, hc]
  have hne : selfPieces 0 T ≠ [] := by
    intro h
    have := congrArg List.length h
    rw [selfPieces_length] at this
    exact hTne (List.eq_nil_of_length_eq_zero (by simpa using this))
  have hms := mapSides_self out tgt resT T (fun t ht => (hall t ht).1) out 0 hshape
    (fun k s hk hik => by
      have : k = tgt := by omega
      subst this; rw [hT] at hk; exact (Option.some.inj hk).symm)
  cases hp : selfPieces 0 T with
  | nil => exact absurd hp hne
  | cons p ps => rw [hp] at hms; simpa using hms

/-! ## non-vacuity: the re-segmentation example of the test suite (example 8c), and an uncovered source -/

example : transpose [[⟨0, 4, 6⟩, ⟨0, 6, 25⟩], [⟨1, 1, 3⟩, ⟨1, 5, 24⟩]] false 0 [(4, 9)] none
    = .ok [[⟨0, 4, 6⟩, ⟨0, 6, 9⟩], [⟨1, 1, 3⟩, ⟨1, 5, 8⟩]] := by decide

example : transpose [[⟨0, 4, 25⟩], [⟨1, 0, 21⟩]] false 0 [(0, 9)] none = .err "TransposeError" := by decide

example : Aligned ["abcab".toList, "xxab".toList] [[⟨0, 0, 2⟩], [⟨1, 2, 4⟩]] := by
  intro s hs s' hs'
  simp only [List.mem_cons, List.mem_nil_iff, or_false] at hs hs'
  rcases hs with rfl | rfl <;> rcases hs' with rfl | rfl <;>
    (refine ⟨rfl, ?_⟩; intro j f f' hf hf'; cases j <;> simp at hf hf' <;> subst hf <;> subst hf' <;> decide)

/-- the back-transposition of example 8c's result (side 1, two disjoint pieces) is that result again -/
example : transpose [[⟨0, 4, 6⟩, ⟨0, 6, 9⟩], [⟨1, 1, 3⟩, ⟨1, 5, 8⟩]] false 1 [(1, 3), (5, 8)] (some 1)
    = .ok [[⟨0, 4, 6⟩, ⟨0, 6, 9⟩], [⟨1, 1, 3⟩, ⟨1, 5, 8⟩]] := by decide

end Stam.TP.C16
