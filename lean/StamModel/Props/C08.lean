import StamModel.Lemmas.Limit
import StamModel.Lemmas.Handles
import StamModel.Lemmas.QueryIter
import StamModel.Lemmas.QuerySem
/-
  C08 — Query results equal the meaning of their constraints, however evaluated: the helper collections.

  Statement (properties.jsonl): [...] a disjunction returns the union of its branches without duplicates, LIMIT
  returns the corresponding slice of the unlimited results [...].

  Proved here, about `StamModel/Collections.lean` (the code after the repairs recorded in known_findings.json):
   * `limit_is_slice` — `LimitIter` returns the slice for every begin, end (any signs) and every input;
   * `union_is_union` — `Handles::union` (all three paths: single item, sorted fast path, general path) yields
     exactly the elements of both collections, each once, with a truthful sorted flag;
   * `intersection_is_filter` — `Handles::intersection` (all six branches) keeps exactly the common elements in
     this collection's order;
   * `union_fast_path_agrees` / `intersection_fast_path_agrees` — the offset bookkeeping of the sorted fast paths
     computes what the plain membership test computes.
   * `subqueries_are_nested_iteration` — the nested-loop state machine of `QueryIter` (`next`, `init_all_states`,
     `init_state`, `next_state`, `estimate_stacksize`; `StamModel/QueryIter.lean`) over a chain of sub-queries of any
     depth, none of them OPTIONAL, yields exactly the rows of nested iteration, in that order, for every forest of
     results;
   * `optional_subquery_loses_rows` — with an OPTIONAL level the machine *as the code is* does not: after the first
     outer row whose OPTIONAL sub-query comes up empty the remaining outer rows are lost (the state marked `done` is
     dropped). The witness is replayed on the implementation by the `query` family (known finding); the pinned test
     `query_subquery_optional_nonexistant` asserts the lossy count, so the one-line repair cannot be a fix commit;
   * `optional_last_row_partial` — what does hold with OPTIONAL: when no outer row follows, the row is kept.
  PARTIAL: the constraint evaluator (primary and secondary constraints for the six result types, ADD/DELETE) is not
  modelled. That the result set is independent of the order of the constraints, that
  a conjunction is the intersection of its members' results, a disjunction their union, and LIMIT the slice, is
  checked on the implementation by the `query` family over stores from operation histories (differential: every
  constraint evaluated as primary vs. as filter) — a test, not a theorem.
-/
namespace Stam.Coll.C08
open Stam.Coll

/-- **C08 (LIMIT).** -/
theorem limit_is_slice {α : Type} (b e : Int) (xs : List α) : limit b e xs = slice b e xs :=
  limit_eq_slice b e xs

/-! ### what users read off LIMIT, as corollaries (each for `LimitIter` itself, through `limit_is_slice`) -/

/-- LIMIT returns a contiguous run of the unlimited results, in their order: nothing invented, nothing reordered,
nothing skipped in between -/
theorem limit_is_infix {α : Type} (b e : Int) (xs : List α) : limit b e xs <:+: xs := by
  rw [limit_is_slice]
  unfold slice
  exact List.IsInfix.trans (List.drop_suffix _ _).isInfix (List.take_prefix _ _).isInfix

theorem limit_mem {α : Type} (b e : Int) (xs : List α) (x : α) (h : x ∈ limit b e xs) : x ∈ xs :=
  (limit_is_infix b e xs).subset h

/-- `LIMIT n` (begin 0, end n > 0): the first `n` results -/
theorem limit_first {α : Type} (n : Nat) (hn : 0 < n) (xs : List α) : limit 0 n xs = xs.take n := by
  rw [limit_is_slice]
  unfold slice
  have h1 : ((n : Int) > 0) := by omega
  simp only [h1, if_true, ge_iff_le, Int.le_refl]
  have h0 : (min (0 : Int) (xs.length : Int)).toNat = 0 := by omega
  rw [h0, List.drop_zero]
  by_cases hl : n ≤ xs.length
  · have : (min (n : Int) (xs.length : Int)).toNat = n := by omega
    rw [this]
  · have : (min (n : Int) (xs.length : Int)).toNat = xs.length := by omega
    rw [this, List.take_length, List.take_of_length_le (by omega)]

/-- no limit (`0, 0`): everything -/
theorem limit_none {α : Type} (xs : List α) : limit 0 0 xs = xs := by
  rw [limit_is_slice]
  unfold slice
  have h1 : ¬ ((0 : Int) > 0) := by omega
  simp only [h1, if_false, ge_iff_le, Int.le_refl, if_true]
  have h0 : (min (0 : Int) (xs.length : Int)).toNat = 0 := by omega
  have h2 : (max ((xs.length : Int) + 0) 0).toNat = xs.length := by omega
  rw [h0, h2, List.drop_zero, List.take_length]

/-- `LIMIT -n` (begin -n, end 0): the last `n` results -/
theorem limit_last {α : Type} (n : Nat) (hn : 0 < n) (xs : List α) :
    limit (-(n : Int)) 0 xs = xs.drop (xs.length - n) := by
  rw [limit_is_slice]
  unfold slice
  have h1 : ¬ ((0 : Int) > 0) := by omega
  have h2 : ¬ (-(n : Int) ≥ 0) := by omega
  simp only [h1, h2, if_false]
  have h3 : (max ((xs.length : Int) + 0) 0).toNat = xs.length := by omega
  have h4 : (max ((xs.length : Int) + -(n : Int)) 0).toNat = xs.length - n := by omega
  rw [h3, h4, List.take_length]

/-- a window `begin ≥ 0`, `end > begin` never returns more than `end - begin` results -/
theorem limit_length_le {α : Type} (b e : Nat) (hbe : b < e) (xs : List α) :
    (limit (b : Int) (e : Int) xs).length ≤ e - b := by
  rw [limit_is_slice]
  unfold slice
  have h1 : ((e : Int) > 0) := by omega
  have h2 : ((b : Int) ≥ 0) := by omega
  simp only [h1, h2, if_true, List.length_drop, List.length_take]
  omega

/-- `LIMIT b e` with `0 ≤ b`, `0 < e`: the window `[b, e)` of the unlimited results -/
theorem limit_window {α : Type} (b e : Nat) (he : 0 < e) (xs : List α) :
    limit (b : Int) (e : Int) xs = (xs.take e).drop b := by
  rw [limit_is_slice]
  unfold slice
  have h1 : ((e : Int) > 0) := by omega
  have h2 : ((b : Int) ≥ 0) := by omega
  simp only [h1, h2, if_true]
  by_cases hle : e ≤ xs.length
  · have h3 : (min (e : Int) (xs.length : Int)).toNat = e := by omega
    rw [h3]
    by_cases hb : b ≤ xs.length
    · have h4 : (min (b : Int) (xs.length : Int)).toNat = b := by omega
      rw [h4]
    · have h4 : (min (b : Int) (xs.length : Int)).toNat = xs.length := by omega
      rw [h4, List.drop_eq_nil_of_le (by simp; omega), List.drop_eq_nil_of_le (by simp; omega)]
  · have h3 : (min (e : Int) (xs.length : Int)).toNat = xs.length := by omega
    rw [h3, List.take_length, List.take_of_length_le (by omega)]
    by_cases hb : b ≤ xs.length
    · have h4 : (min (b : Int) (xs.length : Int)).toNat = b := by omega
      rw [h4]
    · have h4 : (min (b : Int) (xs.length : Int)).toNat = xs.length := by omega
      rw [h4, List.drop_eq_nil_of_le (by omega), List.drop_eq_nil_of_le (by omega)]

/-- **C08 (union).** -/
theorem union_is_union (h o : H) (hh : Truthful h) (ho : Truthful o) :
    Truthful (union h o) ∧ ∀ x, x ∈ (union h o).arr ↔ x ∈ h.arr ∨ x ∈ o.arr :=
  union_spec h o hh ho

/-- **C08 (intersection).** -/
theorem intersection_is_filter (h o : H) (hh : Truthful h) (ho : Truthful o) :
    (inter h o).arr = h.arr.filter (fun x => o.arr.contains x) ∧ (inter h o).sorted = h.sorted :=
  inter_spec h o hh ho

theorem union_fast_path_agrees (a b : List Nat) (ha : StrictSorted a) (hb : StrictSorted b) :
    unionFast a 0 [] b = unionSlow a [] b := by
  rw [unionFast_spec a ha b 0 [] hb (by intro k y hk; omega) (by simp),
      unionSlow_spec a b [] (strictSorted_nodup b hb) (by simp)]

theorem intersection_fast_path_agrees (a b : List Nat) (ha : StrictSorted a) (hb : StrictSorted b) :
    interFast b 0 a = a.filter (fun x => b.contains x) :=
  interFast_spec b hb a 0 ha (by intro k y hk; omega)

/-- collections built by `from_iter` from duplicate-free handle lists satisfy the hypotheses -/
theorem built_collections_are_truthful (l : List Nat) (hl : l.Nodup) : Truthful (fromIter l) :=
  fromIter_truthful l hl

/-! ## data constraints of SELECT ANNOTATION: however evaluated -/
open Stam Stam.C01 in
/-- **C08 (first constraint vs. later constraint).** In every store reached by a history of operations, a data
constraint (`DATA set key`, `DATA set key op value`, `VALUE op value`; `found` = the data items it matches) gives the
same annotations, in the same order, whether it is evaluated index-driven as the first constraint
(`find_data(..).annotations()`, through the reverse index) or as a filter on the annotations' own data. -/
theorem data_constraint_first_or_later (ops : List StoreOp) (found : List (Nat × Nat)) :
    (run ops).annsOfData found = (run ops).annsWithData found :=
  annsOfData_eq_annsWithData _ (inv_run ops) found

open Stam Stam.C01 in
/-- **C08 (exactly the items that satisfy all constraints).** A conjunction of data constraints — the first one
index-driven, the others filtering — yields exactly the live annotations that carry, for every constraint, a data
item it matches. -/
theorem data_conjunction_meaning (ops : List StoreOp) (first : List (Nat × Nat)) (others : List (List (Nat × Nat)))
    (h : Nat) :
    h ∈ (run ops).annsQuery first others ↔
      ∀ f ∈ first :: others, ∃ a, getLive (run ops).anns h = some a ∧ ∃ p ∈ f, p ∈ a.data := by
  rw [mem_annsQuery _ (inv_run ops)]
  constructor
  · intro hh f hf; exact (mem_annsWithData _ f h).1 (hh f hf)
  · intro hh f hf; exact (mem_annsWithData _ f h).2 (hh f hf)

open Stam Stam.C01 in
/-- **C08 (the order of the constraints is irrelevant).** Written in any order (any of them first, hence
index-driven), a conjunction of data constraints gives the same list of annotations. -/
theorem data_conjunction_order_irrelevant (ops : List StoreOp) (c1 c2 : List (Nat × Nat))
    (cs1 cs2 : List (List (Nat × Nat))) (hperm : ∀ f, f ∈ c1 :: cs1 ↔ f ∈ c2 :: cs2) :
    (run ops).annsQuery c1 cs1 = (run ops).annsQuery c2 cs2 := by
  apply strict_eq_of_mem_iff _ _ (annsQuery_strict _ _ _) (annsQuery_strict _ _ _)
  intro h
  rw [mem_annsQuery _ (inv_run ops), mem_annsQuery _ (inv_run ops)]
  constructor
  · intro hh f hf; exact hh f ((hperm f).2 hf)
  · intro hh f hf; exact hh f ((hperm f).1 hf)

/-! ## sub-queries -/
open Stam.QI in
/-- **C08 (sub-queries behave as nested iteration over the outer results).** `n` levels (the top-level query and
`n - 1` nested sub-queries), none OPTIONAL; `roots` is the forest of results: the results of the top-level query, and
under each result the results of the sub-query evaluated with that result bound. -/
theorem subqueries_are_nested_iteration {α : Type} (n : Nat) (hn : 1 ≤ n) (roots : List (QI.Tree α)) :
    QI.rows n (List.replicate n false) roots = QI.nested (List.replicate n false) roots := by
  have hopt : NoOpt (List.replicate n false) := by
    intro i
    by_cases h : i < n <;> simp [h]
  rw [rows_eq_below n hn _ hopt roots]
  unfold nested
  have : (List.replicate n false).tail = List.replicate (n - 1) false := by
    cases n with
    | zero => omega
    | succ k => simp [List.replicate_succ]
  rw [this, funext (rowsAt_replicate_false (n - 1))]

open Stam.QI in
/-- **C08, negative (the code as it is).** Two outer results; the OPTIONAL sub-query is empty for the first and has a
result for the second: nested iteration gives `[[1], [2, 3]]`, the machine gives `[[1]]`. -/
theorem optional_subquery_loses_rows :
    QI.rows 2 [false, true] [Tree.node 1 [], Tree.node 2 [Tree.node 3 []]] = [[1]]
    ∧ QI.nested [false, true] [Tree.node 1 [], Tree.node 2 [Tree.node 3 []]] = [[1], [2, 3]] := by
  decide

open Stam.QI in
/-- **C08 (OPTIONAL), partial.** The case the pinned tests exercise: the outer row whose OPTIONAL sub-query is empty is
the last one. -/
theorem optional_last_row_partial :
    QI.rows 2 [false, true] [Tree.node 2 [Tree.node 3 []], Tree.node 1 []]
      = QI.nested [false, true] [Tree.node 2 [Tree.node 3 []], Tree.node 1 []] := by
  decide

/-! ## non-vacuity: the inputs on which the code failed before the repairs -/
example : QI.rows 3 [false, false, false] [QI.Tree.node 1 [QI.Tree.node 2 [], QI.Tree.node 3 [QI.Tree.node 4 []]], QI.Tree.node 5 [QI.Tree.node 6 [QI.Tree.node 7 [], QI.Tree.node 8 []]]]
    = [[1, 3, 4], [5, 6, 7], [5, 6, 8]] := by decide


example : (union (fromIter [2]) (fromIter [1, 2, 7])).arr = [1, 2, 7] := by decide
example : (union (fromIter [1, 9]) (fromIter [5, 7, 9])).arr = [1, 5, 7, 9] := by decide
example : (inter (fromIter [0, 2]) (fromIter [2, 8, 9])).arr = [2] := by decide
example : (inter (fromIter [10, 1, 11, 6, 5, 7]) (fromIter [5, 11])).arr = [11, 5] := by decide
example : limit (-3) (-1) [0, 1, 2, 3, 4, 5, 6, 7, 8, 9] = [7, 8] := by decide
example : limit (-1) 1 [0, 1] = ([] : List Nat) := by decide
example : Truthful (fromIter [3, 1, 2]) ∧ Truthful (fromIter [1, 2, 3]) :=
  ⟨fromIter_truthful _ (by decide), fromIter_truthful _ (by decide)⟩

end Stam.Coll.C08
