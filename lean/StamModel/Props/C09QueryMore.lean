import StamModel.Props.C09Query
import StamModel.Props.C09More
/-
  C09 — the query fixpoint with the constraint kinds of Props/C09More.lean (RESOURCE, ANNOTATION with and without
  RECURSIVE, RELATION, VALUE; without OFFSET clauses) next to the first five, and with the parser of unsigned numbers
  a parameter as it is in the code: `query_roundtrip_all`.
-/
namespace Stam.QL.C09Q
open Stam.QL Stam.QL.C09

/-- all the external functions -/
def fullExt (parseI : Str → Option Int) (parseF : Str → Bool) (isDt : Str → Bool) (regexOk : Str → Bool) (parseNat : Str → Option Nat) : Ext :=
  { parseI := parseI, parseF := parseF, isDt := isDt, regexOk := regexOk, parseNat := parseNat }

/-- which constraints are printable: those of `CnPrintable`, and of the further kinds -/
def CnPrintableAll (showI : Int → Str) (parseI : Str → Option Int) (parseF : Str → Bool) (isDt : Str → Bool) (regexOk : Str → Bool)
    (parseNat : Str → Option Nat) : Cn → Prop
  | .resource s _ off => C09.Q s ∧ s ≠ kAS ∧ s ≠ kRECURSIVE ∧ isVar s = false ∧
      (∀ b e, off = some (b, e) → CursorOk showI parseI parseNat b ∧ CursorOk showI parseI parseNat e)
  | .annotation s _ _ off => C09.Q s ∧ s ≠ kAS ∧ s ≠ kRECURSIVE ∧ isVar s = false ∧
      (∀ b e, off = some (b, e) → CursorOk showI parseI parseNat b ∧ CursorOk showI parseI parseNat e)
  | .relation v op => Plain v ∧ op ∈ relationOps
  | .value o _ => Printable showI parseI parseF isDt o ∧ (∀ op v, printOp showI o = some (op, v, false) → PlainW v)
  | c => CnPrintable showI parseI parseF isDt regexOk c

theorem noTrail_semi (a : Str) : NoTrailWs (a ++ [';']) := by
  intro x hx
  rw [last_semi] at hx
  simp only [Option.some.injEq] at hx
  subst hx; decide

theorem noTrail_rest (c0 : Char) (r0 rest : Str) (hn : NoTrailWs (c0 :: r0)) (hr : NoTrailWs rest) : NoTrailWs (c0 :: (r0 ++ rest)) := by
  by_cases he : rest = []
  · subst he; simpa using hn
  · have := noTrail_suffix (c0 :: r0) rest he hr
    simpa using this

/-- every printable constraint, of the old and the new kinds, is read back from its printed text whatever follows -/
theorem cnGood_all (showI : Int → Str) (parseI : Str → Option Int) (parseF : Str → Bool) (isDt : Str → Bool) (regexOk : Str → Bool)
    (parseNat : Str → Option Nat) (c : Cn) (hp : CnPrintableAll showI parseI parseF isDt regexOk parseNat c) :
    ∃ t, CnGood (fullExt parseI parseF isDt regexOk parseNat) showI c t := by
  have old : CnPrintable showI parseI parseF isDt regexOk c → ∃ t, CnGood (fullExt parseI parseF isDt regexOk parseNat) showI c t := by
    intro hp
    obtain ⟨t, ht⟩ := printCn_some showI parseI parseF isDt regexOk c hp
    obtain ⟨c0, hhead, hc0, hlast⟩ := printCn_shape showI parseI parseF isDt regexOk c t hp ht
    obtain ⟨r0, hr0⟩ := cons_of_head t c0 hhead
    have hnt0 : NoTrailWs t := by
      intro x hx; rw [hlast] at hx; simp only [Option.some.injEq] at hx; subst hx; decide
    refine ⟨t, ht, hnt0, ⟨c0, r0, hr0, ?_, ?_⟩, ?_⟩
    · rcases hc0 with rfl | rfl | rfl | rfl <;> decide
    · rcases hc0 with rfl | rfl | rfl | rfl <;> decide
    · intro rest hr
      have hrt := constraint_roundtrip showI parseI parseF isDt regexOk c t rest hp ht hr
      have hnt : NoTrailWs (c0 :: (r0 ++ rest)) := noTrail_rest c0 r0 rest (hr0 ▸ hnt0) hr
      unfold Ext.cn fullExt
      simp only []
      rw [hr0, List.cons_append, parseCnAll_old parseI parseF isDt regexOk parseNat c0 (r0 ++ rest) hc0 hnt]
      rw [hr0, List.cons_append] at hrt
      exact hrt
  cases c with
  | resource s q off =>
    obtain ⟨hs, h1, h2, h3, ho⟩ := hp
    have hoff : ∀ rest, parseOffset parseI parseNat isDt (trimStart (offStr showI off ++ ';' :: rest)) = .ok (off, ';' :: rest) := by
      intro rest
      cases off with
      | none => simp only [offStr, List.nil_append, trimStart_semi]; exact parseOffset_semi parseI parseNat isDt rest
      | some p => obtain ⟨b, e⟩ := p; exact parseOffset_printed showI parseI parseNat isDt b e rest (ho b e rfl).1 (ho b e rfl).2
    refine ⟨kRESOURCE ++ qualStr q ++ [' '] ++ quote s ++ offStr showI off ++ [';'], rfl, noTrail_semi _, ⟨'R', _, rfl, by decide, by decide⟩, ?_⟩
    intro rest hr
    have := resource_roundtrip_off parseI parseF isDt regexOk parseNat s rest (offStr showI off) q off hs h1 h2 h3 hr (hoff rest)
    unfold Ext.cn fullExt
    simpa [List.append_assoc] using this
  | annotation s q rec off =>
    obtain ⟨hs, h1, h2, h3, ho⟩ := hp
    have hoff : ∀ rest, parseOffset parseI parseNat isDt (trimStart (offStr showI off ++ ';' :: rest)) = .ok (off, ';' :: rest) := by
      intro rest
      cases off with
      | none => simp only [offStr, List.nil_append, trimStart_semi]; exact parseOffset_semi parseI parseNat isDt rest
      | some p => obtain ⟨b, e⟩ := p; exact parseOffset_printed showI parseI parseNat isDt b e rest (ho b e rfl).1 (ho b e rfl).2
    refine ⟨kANNOTATION ++ qualStr q ++ (if rec then [' '] ++ kRECURSIVE else [' ']) ++ [' '] ++ quote s ++ offStr showI off ++ [';'], rfl, noTrail_semi _,
      ⟨'A', _, rfl, by decide, by decide⟩, ?_⟩
    intro rest hr
    have := annotation_roundtrip_off parseI parseF isDt regexOk parseNat s rest (offStr showI off) q rec off hs h1 h2 h3 hr (hoff rest)
    unfold Ext.cn fullExt
    simpa [List.append_assoc] using this
  | relation v op =>
    obtain ⟨hv, hop⟩ := hp
    refine ⟨kRELATION ++ [' ', '?'] ++ v ++ [' '] ++ op ++ [';'], rfl, noTrail_semi _, ⟨'R', _, rfl, by decide, by decide⟩, ?_⟩
    intro rest hr
    have := relation_roundtrip parseI parseF isDt regexOk parseNat v op rest hv hop hr
    unfold Ext.cn fullExt
    simpa [List.append_assoc] using this
  | value o q =>
    obtain ⟨hpo, hpl⟩ := hp
    obtain ⟨op, v, qd, hpr, hparse⟩ := print_parse_op showI parseI parseF isDt o hpo
    have hv : if qd then C09.Q v else PlainW v := by
      cases qd with
      | true => simpa using quoted_value_Q showI parseI parseF isDt o op v hpr hpo
      | false => simpa using hpl op v hpr
    refine ⟨kVALUE ++ qualStr q ++ [' '] ++ (op ++ [' '] ++ (if qd then ['"'] ++ v ++ ['"'] else v)) ++ [';'], ?_, noTrail_semi _,
      ⟨'V', _, rfl, by decide, by decide⟩, ?_⟩
    · simp [printCn, renderOp, hpr]
    · intro rest hr
      have := value_roundtrip showI parseI parseF isDt regexOk parseNat rest q o op v qd hpr hparse hv hr
      unfold Ext.cn fullExt
      cases qd <;> simpa [List.append_assoc, quote] using this
  | id s => exact old hp
  | dataset s q => exact old hp
  | substore s => exact old hp
  | text s nocase => exact old hp
  | regex s => exact old hp
  | dataKey set key q => exact old hp
  | keyValue set key o q => exact old hp
  | datasetVar v q => exact old hp
  | substoreVar v => exact old hp
  | textVar v => exact old hp
  | dataVar v q => exact old hp
  | keyValueVar v o q => exact old hp
  | annotationVar v q r off => exact old hp
  | resourceVar v q off => exact old hp
  | keyVar v q => exact old hp
  | limit b e => exact old hp

mutual
def QPrintableAll (showI : Int → Str) (parseI : Str → Option Int) (parseF : Str → Bool) (isDt : Str → Bool) (regexOk : Str → Bool)
    (parseNat : Str → Option Nat) : Q → Prop
  | .mk _ _ name cs subs => (∀ n, name = some n → NameOk n) ∧ (∀ c ∈ cs, CnPrintableAll showI parseI parseF isDt regexOk parseNat c) ∧
      QsPrintableAll showI parseI parseF isDt regexOk parseNat subs
def QsPrintableAll (showI : Int → Str) (parseI : Str → Option Int) (parseF : Str → Bool) (isDt : Str → Bool) (regexOk : Str → Bool)
    (parseNat : Str → Option Nat) : List Q → Prop
  | [] => True
  | q :: r => QPrintableAll showI parseI parseF isDt regexOk parseNat q ∧ QsPrintableAll showI parseI parseF isDt regexOk parseNat r
end

mutual
theorem okq_all (showI : Int → Str) (parseI : Str → Option Int) (parseF : Str → Bool) (isDt : Str → Bool) (regexOk : Str → Bool) (parseNat : Str → Option Nat) :
    ∀ q : Q, QPrintableAll showI parseI parseF isDt regexOk parseNat q → OKQ (fullExt parseI parseF isDt regexOk parseNat) showI q
  | .mk _ _ name cs subs, h => by
    unfold QPrintableAll at h
    unfold OKQ
    exact ⟨h.1, fun c hc => cnGood_all showI parseI parseF isDt regexOk parseNat c (h.2.1 c hc),
      okqs_all showI parseI parseF isDt regexOk parseNat subs h.2.2⟩
theorem okqs_all (showI : Int → Str) (parseI : Str → Option Int) (parseF : Str → Bool) (isDt : Str → Bool) (regexOk : Str → Bool) (parseNat : Str → Option Nat) :
    ∀ l : List Q, QsPrintableAll showI parseI parseF isDt regexOk parseNat l → OKQs (fullExt parseI parseF isDt regexOk parseNat) showI l
  | [], _ => by unfold OKQs; trivial
  | q :: r, h => by
    unfold QsPrintableAll at h
    unfold OKQs
    exact ⟨okq_all showI parseI parseF isDt regexOk parseNat q h.1, okqs_all showI parseI parseF isDt regexOk parseNat r h.2⟩
end

/-- the query fixpoint for any external functions, from the per-constraint facts -/
theorem roundtrip_of_okq (E : Ext) (showI : Int → Str) (q : Q) (t : Str) (hok : OKQ E showI q) (hp : printQ showI q = some t) :
    parseQuery E t = .ok (q, []) := by
  obtain ⟨c, hc, ht, hnt⟩ := print_core E showI q t hok hp
  obtain ⟨y, hy⟩ := coreQ_starts showI q c hc
  have htrim : trim t = c := by
    unfold trim
    rw [ht, hy, show kSELECT ++ ' ' :: y ++ tailOf q = 'S' :: (kSELECT.tail ++ ' ' :: y ++ tailOf q) from rfl,
      trimStart_cons_nonws 'S' _ (by decide),
      show 'S' :: (kSELECT.tail ++ ' ' :: y ++ tailOf q) = (kSELECT ++ ' ' :: y) ++ tailOf q from rfl, ← hy]
    exact trimEnd_ws_suffix c (tailOf q) hnt (tailOf_ws q)
  unfold parseQuery
  simp only [htrim]
  have hh : c.head? ≠ some '@' := by rw [hy]; simp [kSELECT]
  have hw : firstWord c = kSELECT := by rw [hy]; exact firstWord_append _ _ word_kSELECT (splitStart_space _)
  rw [if_neg hh, hw, if_pos rfl]
  have := select_rt E showI q c hok hc [] (c.length + 1) goodRest_nil (by have := wQ_le showI q c hc; omega)
  simpa [trimStart] using this

/-- **C09 (query fixpoint, nine constraint kinds).** A SELECT query with writable names whose constraints are printable —
ID, DATASET, SUBSTORE, TEXT (plain, case-insensitive, regular expression), DATA (key, key and value), RESOURCE,
ANNOTATION (with or without RECURSIVE), both with or without an OFFSET clause of cursors of either alignment,
RELATION and VALUE, with or without `AS METADATA` where the grammar has it —
printed by `to_string`, is parsed back by `Query::parse` as the same query, and the whole text is consumed; for any
parsers of numbers and dates and any regular-expression compiler. -/
theorem query_roundtrip_all (showI : Int → Str) (parseI : Str → Option Int) (parseF : Str → Bool) (isDt : Str → Bool) (regexOk : Str → Bool)
    (parseNat : Str → Option Nat)
    (q : Q) (t : Str) (hq : QPrintableAll showI parseI parseF isDt regexOk parseNat q) (hp : printQ showI q = some t) :
    parseQuery (fullExt parseI parseF isDt regexOk parseNat) t = .ok (q, []) :=
  roundtrip_of_okq _ showI q t (okq_all showI parseI parseF isDt regexOk parseNat q hq) hp

/-! ### non-vacuity -/

/-- decimal digits of a small number, enough for the example -/
def showEx : Int → Str := fun z => if z = 3 then ['3'] else if z = -2 then ['-', '2'] else ['7']
def parseIEx : Str → Option Int := fun s => if s = ['-', '2'] then some (-2) else if s = ['-', '0'] then some 0 else some 7
def parseNatEx : Str → Option Nat := fun s => if s = ['3'] then some 3 else some 7

/-- a query over the new kinds, with an offset clause and a sub-query -/
def sampleAll : Q :=
  .mk false .annotation (some ['a']) [.resource ['r'] .metadata (some (.b 3, .e (-2))), .annotation ['x'] .normal true none,
      .annotation ['y'] .normal false (some (.b 3, .e 0)), .id ['i']]
    [.mk false .text (some ['t']) [.relation ['a'] ['E', 'M', 'B', 'E', 'D', 'S']] []]

example : QPrintableAll showEx parseIEx (fun _ => false) (fun _ => false) (fun _ => true) parseNatEx sampleAll := by
  simp (config := { decide := true }) [sampleAll, QPrintableAll, QsPrintableAll, CnPrintableAll, CnPrintable, NameOk, C09.Q, isVar, Plain,
    relationOps, kAS, kRECURSIVE, CursorOk, cursorStr, cursorArg, showEx, parseIEx, parseNatEx, kWHOLE, kALL, isDelim, isWs]

example : (printQ showEx sampleAll).isSome = true := by
  simp [sampleAll, printQ, printSubs, cnLines, optAll, printCn]

end Stam.QL.C09Q
